"""Scenario language of the ObjectDeployment-level checks C07 / C08 (harness mode "deployment", coq/corr/DeployCorr.v).

Names: an ObjectSet is called "<deployment>-<s>", a hash annotation is "<s>"; the scenario lists every string <s>
it uses (real template hashes fetched through op "hashes" + hand-made names) in sorted order, and both sides use
1 + the index in that list as the number of the name / annotation."""
import json
import vlib
import phaselib as pl
import setlib as sl
from vlib import cN, cZ, cB, cL, cP, cO

DCTYPES = ["DAvailable", "DProgressing", "DPaused"]
DREASONS = ["DRAvailable", "DRObjectSetUnready", "DRIdle", "DRPendingSuccess", "DRProgressing", "DRPaused", "DROther"]
EXTRA_NAMES = ["0a", "0b", "0c", "0d"]       # hand-made names: never equal to a safe-encoded hash
MAX_CC = 12

_hash_cache = {}


def get_hashes(alphabet, cluster=False, depname=5):
    """{(template index, cc or None): hash string} through the real utils.ComputeFNV32Hash."""
    key = (json.dumps(alphabet, sort_keys=True), cluster, depname)
    if key not in _hash_cache:
        sc = {"op": "hashes", "alphabet": alphabet, "max_cc": MAX_CC, "names": [],
              "dep": {"kind": 6 if cluster else 5, "ns": 0 if cluster else 1, "name": depname, "uid": 500}}
        out = vlib.run_harness("deployment", [sc])[0]
        if "obs" not in out:
            raise RuntimeError("hashes: %s" % out)
        _hash_cache[key] = {(t, cc): h for t, cc, h in out["obs"]["hashes"]}
    return _hash_cache[key]


class Ctx:
    """Naming context of one scenario."""

    def __init__(self, alphabet, cluster=False, depname=5):
        self.alphabet, self.cluster, self.depname = alphabet, cluster, depname
        self.hashes = get_hashes(alphabet, cluster, depname)
        self.names = sorted(set(self.hashes.values()) | set(EXTRA_NAMES))
        self.rank = {s: i + 1 for i, s in enumerate(self.names)}

    def h(self, t, cc=None):
        """number of the hash of template t (1-based digest) with collision count cc"""
        return self.rank[self.hashes[(t - 1, cc)]]

    def x(self, k):
        return self.rank[EXTRA_NAMES[k]]

    def table(self):
        return [(t + 1, cc, self.rank[h]) for (t, cc), h in sorted(self.hashes.items(), key=lambda e: (e[0][0], -1 if e[0][1] is None else e[0][1]))]


def mk_dep(ctx, tmpl=1, **kw):
    d = {"kind": 6 if ctx.cluster else 5, "ns": 0 if ctx.cluster else 1, "name": ctx.depname, "uid": 500, "rv": 3, "gen": 1,
         "paused": False, "tmpl": tmpl, "limit": None, "hash": 0, "cc": None, "conds": [], "revision": 0, "ctrlof": []}
    d.update(kw)
    return d


def mk_dset(ctx, name, uid, tmpl, revision, **kw):
    """ObjectSet of the deployment: phases of template tmpl (1-based; 0 = no phases)."""
    extra = {k: kw.pop(k) for k in ("hash", "pbp", "sel", "ctrl", "ctrlset") if k in kw}
    s = sl.mk_set(2 if ctx.cluster else 1, 0 if ctx.cluster else 1, name, uid, revision=revision,
                  phases=json.loads(json.dumps(ctx.alphabet[tmpl - 1])) if tmpl else [], **kw)
    s.update({"hash": None, "pbp": False, "sel": True, "ctrl": 500, "ctrlset": False})
    s.update(extra)
    return s


def sort_dsets(sets):
    return sorted(sets, key=lambda s: s["name"])


# ---------------------------------------------------------------- printers

def c_dcond(c):
    if c[0] >= len(DCTYPES):
        raise pl.Unrepresentable("deployment condition type outside the model")
    return "(Build_dcond %s %s %s %s)" % (DCTYPES[c[0]], sl.CSTATUS[c[1]], DREASONS[min(c[2], 6)], cZ(c[3]))


def c_phases(ctx, tmpl):
    if tmpl <= 0 or tmpl > len(ctx.alphabet):
        raise pl.Unrepresentable("template outside the alphabet")
    return cL([sl.c_phase(p) for p in ctx.alphabet[tmpl - 1]])


def nm(n):
    if n is None or n < 0:
        raise pl.Unrepresentable("name / hash outside the scenario's name table")
    return cN(n)


def c_depl(ctx, d):
    return "(Build_depl %s %d %s %s %d %s %s %s %s %s %s %s)" % (
        pl.c_oid(d), d["rv"], cZ(d["gen"]), cB(d["paused"]), d["tmpl"], c_phases(ctx, d["tmpl"]),
        cO(None if d["limit"] is None else cZ(d["limit"])), nm(d["hash"]), cO(None if d["cc"] is None else nm(d["cc"])),
        cL([c_dcond(c) for c in d["conds"]]), cZ(d["revision"]), cL([nm(n) for n in d["ctrlof"]]))


def c_dset(s):
    nm(s["name"])
    for p in s["prev"]:
        nm(p)
    return "(Build_dset %s %s %s %s %d %s)" % (sl.c_set(s), cO(None if s["hash"] is None else nm(s["hash"])), cB(s["pbp"]),
                                              cB(s["sel"]), s["ctrl"], cB(s["ctrlset"]))


def c_world(ctx, dep, sets, store, rv, uid):
    return "(Build_dworld %s %s (Build_world %s %d %d) None)" % (c_depl(ctx, dep), cL([c_dset(s) for s in sets]),
                                                                 pl.c_store(store), rv, uid)


def c_step(ctx, st):
    op = st["op"]
    if op == "edit":
        return "(SEdit %d %s)" % (st["tmpl"], c_phases(ctx, st["tmpl"]))
    if op == "pause":
        return "(SPause %s)" % cB(st["v"])
    if op == "limit":
        return "(SLimit %s)" % cO(None if st.get("limit") is None else cZ(st["limit"]))
    if op == "dep":
        f = st.get("fault")
        return "(SDep %s %s)" % (cB(st.get("stale", False)), cO(None if not f else cP("%d%%nat" % f[0], cB(f[1] == "lost"))))
    if op == "set":
        return "(SSet %s %s)" % (cB(st.get("force", False)), nm(st["name"]))
    if op == "stat":
        return "(SStat %s %s %s false)" % (nm(st["name"]), cL([sl.c_cond(c) for c in st.get("conds", [])]),
                                          cL([pl.c_key(k) for k in st.get("ctrlof", [])]))
    if op == "member":
        return "(SMember %s %d)" % (pl.c_key(st["key"]), st["avail"])
    raise pl.Unrepresentable("step %s" % op)


WRES = {"ok": "WOk", "err": "WErr", "lost": "WLost", "Conflict": "WConflict", "notfound": "WNotFound"}
CRES = {"ok": "CrOk", "exists": "CrExists", "err": "CrErr", "lost": "CrLost"}
DLRES = {"ok": "DlOk", "notfound": "DlNotFound", "err": "DlErr", "lost": "DlLost"}


def res(table, e):
    if e["res"] not in table:
        raise pl.Unrepresentable("%s request failed with %s" % (e["kind"], e["res"]))
    return table[e["res"]]


def c_dev(e):
    k = e["kind"]
    if k == "create":
        if e.get("life", 0) != 0 or e.get("pbp") or not e.get("sel") or e.get("ctrl") != 500:
            raise pl.Unrepresentable("created ObjectSet outside the model's shape: %s" % json.dumps(e))
        return "(DCreate %s %s %s %s %s)" % (nm(e["name"]), cL([sl.c_phase(p) for p in e.get("phases") or []]),
                                             cL([nm(n) for n in e.get("prev") or []]), nm(e.get("hash", 0)), res(CRES, e))
    if k == "update":
        return "(DUpdate %s %s %s %s)" % (nm(e["name"]), sl.LIFE[e.get("life", 0)], cB(e.get("pbp", False)), res(WRES, e))
    if k == "delete":
        return "(DDelete %s %s)" % (nm(e["name"]), res(DLRES, e))
    if k == "status":
        s = e.get("status")
        if s is None:
            raise pl.Unrepresentable("status request without content")
        return "(DStatus %s %s %s %s %s %s)" % (nm(s["hash"]), cO(None if s["cc"] is None else nm(s["cc"])),
                                                cL([c_dcond(c) for c in s["conds"]]), cZ(s["revision"]),
                                                cL([nm(n) for n in s["ctrlof"]]), res(WRES, e))
    raise pl.Unrepresentable("request outside the model's event language: %s" % k)


ORES = {"done": "OrDone", "error": "OrError"}


def c_sobs(ctx, st, o):
    r = ORES.get(o["res"], "OrNone") if st["op"] == "dep" else "OrNone"
    evs = cL([c_dev(e) for e in o["events"]]) if st["op"] == "dep" else "[]"
    return "(Build_sobs %s %s %s %s %s %d %d)" % (r, evs, c_depl(ctx, o["dep"]), cL([c_dset(s) for s in o["sets"]]),
                                                   pl.c_store(o["post"]), o["next_rv"], o["next_uid"])


def c_table(ctx):
    return cL([cP(cP(cN(t), cO(None if cc is None else cN(cc))), cN(h)) for t, cc, h in ctx.table()])


def c_slices(sc):
    return cL([cP(cN(s["name"]), cL([pl.c_pobj(o) for o in s["objects"]])) for s in sc.get("slices", [])])


def c_case(ctx, sc, obs):
    """The last step may be an unmodelled handover race (op "race"): it goes into dc_race and is judged by the monitors only."""
    steps, sobs = list(sc["steps"]), list(obs["steps"])
    race = "None"
    if steps and steps[-1]["op"] == "race":
        st, so = steps.pop(), sobs.pop()
        race = "(Some %s)" % cP(nm(st["name"]), c_sobs(ctx, {"op": "set"}, so))
    if any(s["op"] == "race" for s in steps):
        raise pl.Unrepresentable("a race step must be the last step")
    return "(Build_dcase %s %s %s %s %s %s)" % (
        c_table(ctx), c_slices(sc), c_world(ctx, sc["dep"], sc["sets"], sc["store"], sc["next_rv"], sc["next_uid"]),
        cL([c_step(ctx, s) for s in steps]), cL([c_sobs(ctx, s, o) for s, o in zip(steps, sobs)]), race)


def scenario(ctx, dep, sets, steps, store=None, next_rv=50, next_uid=60):
    return {"alphabet": ctx.alphabet, "names": ctx.names, "dep": dep, "sets": sort_dsets(sets), "store": store or [],
            "slices": SLICES, "next_rv": next_rv, "next_uid": next_uid, "steps": steps}


IMPORTS = ("From PKO Require Import Base Owner Api Phase ObjectSet Deployment.\n"
           "From PKOCorr Require Import PhaseCorr SetCorr DeployCorr.")


def run_cases(run, pairs, judge, arity, extra_imports="", shard=100):
    """pairs: list of (ctx, scenario). Returns [(ctx, scenario, observation, tuple of bools | None)]."""
    scs = [sc for _, sc in pairs]
    outs = vlib.run_harness("deployment", scs)
    terms, idx = [], []
    for i, ((ctx, sc), o) in enumerate(zip(pairs, outs)):
        if "obs" not in o:
            run.violation("corr:%s/harness error or panic" % run.pid, {"correspondence": "harness", "scenario": slim(sc), "out": o}, False)
            continue
        try:
            terms.append(c_case(ctx, sc, o["obs"]))
            idx.append(i)
        except pl.Unrepresentable as e:
            run.violation("corr:%s/observation outside the model's event language: %s" % (run.pid, e),
                          {"correspondence": "DeployCorr event language", "scenario": slim(sc), "impl": o["obs"]}, False)
    res_, logs = vlib.judge_cases(run.pid, IMPORTS + "\n" + extra_imports, judge, terms, arity, shard=shard)
    for l in logs:
        run.violation("corr:%s/coq-eval" % run.pid, {"correspondence": "coq evaluation failed", "log": l}, False)
    return [(pairs[i][0], scs[i], outs[i]["obs"], r) for i, r in zip(idx, res_)]


def slim(sc):
    return {k: v for k, v in sc.items() if k != "names"}


# ---------------------------------------------------------------- templates

def po(gk, name, body=1):
    return pl.mk_pobj(gk, 0, name, body=body)


def ph(name, objs):
    return {"name": name, "class": False, "objects": objs}


def ref(k):
    """reference to ObjectSlice sl<k>, as a trailing pseudo object of a phase"""
    return {"gk": 9, "ns": 0, "name": k, "body": 0, "cp": 0, "ownerrefs": False, "dryreject": False}


# A, B, C overlap pairwise (A and B share object 1/n1, B and C share 1/n2); D is empty;
# E keeps 1/n1 (shared with A and B) in ObjectSlice 7 only; F has 1/n5 inline and 1/n2 (shared with B, C) in ObjectSlice 8;
# G has 1/n6 inline and references ObjectSlice 9, which does not exist (not yet visible / removed by a third party).
ALPHABET = [
    [ph(1, [po(1, 1), po(2, 3)])],
    [ph(1, [po(1, 1, body=2), po(1, 2)])],
    [ph(1, [po(1, 2, body=2)]), ph(2, [po(2, 4)])],
    [],
    [ph(1, [ref(7)])],
    [ph(1, [po(1, 5), ref(8)])],
    [ph(1, [po(1, 6), ref(9)])],
]
SLICES = [{"name": 7, "objects": [po(1, 1, body=3)]}, {"name": 8, "objects": [po(1, 2, body=3)]}]


def full_keys(ctx, tmpl, ns):
    """what a revision of template tmpl really contains: inline objects and the objects of its slices"""
    out = []
    for p in ctx.alphabet[tmpl - 1]:
        for o in p["objects"]:
            if o["gk"] == 9:
                for s in SLICES:
                    if s["name"] == o["name"]:
                        out += [{"gk": x["gk"], "ns": x["ns"] or ns, "name": x["name"]} for x in s["objects"]]
            else:
                out.append({"gk": o["gk"], "ns": o["ns"] or ns, "name": o["name"]})
    return out
