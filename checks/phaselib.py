"""Scenario language shared by the phase-level checks (harness mode "phase", coq/corr/PhaseCorr.v):
printers scenario/observation -> Coq terms, and scenario generators."""
from vlib import cN, cZ, cB, cL, cP, cO

FLAVORS = {"objectset": "FObjectSet", "samephase": "FSamePhase", "sameclusterphase": "FSameClusterPhase",
           "multiphase": "FMultiPhase", "multiclusterphase": "FMultiClusterPhase"}
CPS = ["CPPrevent", "CPIfNoController", "CPNone"]
class Unrepresentable(Exception):
    pass


ERR = {"NotPrevious": "ErrNotPrevious", "RevCollision": "ErrRevCollision", "RevParse": "ErrRevParse", "OwnerRef": "ErrOwnerRef",
       "Invalid": "ErrInvalid"}
PRES = {"ok": None, "notfound": "PNotFound", "Invalid": "PInvalid"}


def c_pres(e):
    if e["res"] == "ok":
        if e["post"] is None:
            raise Unrepresentable("successful patch without a stored object")
        return "(POk %s)" % c_obj(e["post"])
    if e["res"] in PRES:
        return PRES[e["res"]]
    raise Unrepresentable("%s failed: %s" % (e["verb"], e["res"]))
VIOL = {"ApiMissing": "VApiMissing", "OwnerRefs": "VOwnerRefs", "Namespace": "VNamespace", "Scope": "VScope", "DryRun": "VDryRun"}


def c_ref(r):
    if min(r[0], r[1], r[2]) < 0:
        raise Unrepresentable("owner reference with a name / uid outside the model's numbering: %r" % (r,))
    return "(Build_oref %d %d %d %s)" % (r[0], r[1], r[2], cB(r[3] == 1))


def c_rev(v):
    if v is None:
        return "RevNone"
    if v == "bad":
        return "RevBad"
    return "(RevNum %s)" % cZ(int(v))


def c_obj(o):
    return "(Build_obj %d %d %s %s %s %s %s %d %d %d %s %s %s)" % (
        o["uid"], o["rv"], cZ(o["gen"]), cL([c_ref(r) for r in o["owners"]]), cL([c_ref(r) for r in o["aowners"]]),
        c_rev(o["rev"]), cB(o["cache"]), o["pkg"], o["body"], o["avail"],
        cO(None if o["obsgen"] is None else cZ(o["obsgen"])), cB(o["deleting"]), cB(o["fin"]))


def c_key(k):
    return "(Build_okey %d %d %d)" % (k["gk"], k["ns"], k["name"])


def c_kobj(o):
    return cP(c_key(o), c_obj(o))


def c_store(objs):
    return cL([c_kobj(o) for o in objs])


def c_oid(o):
    return "(Build_oid %d %d %d %d)" % (o["kind"], o["ns"], o["name"], o["uid"])


def c_owner(o):
    return "(Build_owner %s %s %s %d)" % (c_oid(o), cZ(o["rev"]), cB(o["paused"]), o["pkg"])


def c_prev(p):
    return "(Build_prevrev %s %s)" % (c_oid(p), cL([cP(cN(a), cN(b)) for a, b in p["remotes"]]))


def c_pobj(p):
    return "(Build_pobj %d %d %d %d %s %s %s)" % (p["gk"], p["ns"], p["name"], p["body"], CPS[p["cp"]],
                                                  cB(p["ownerrefs"]), cB(p["dryreject"]))


def c_optobj(o):
    return cO(None if o is None else c_obj(o))


def c_envop(e):
    if e["op"] == "put":
        return "(EnvPut %s %s)" % (c_key(e["obj"]), c_obj(e["obj"]))
    return "(EnvDel %s)" % c_key(e["key"])


def c_event(e):
    k = c_key(e["key"])
    if e["verb"] == "apply":
        return "(EApply %s %s %s %s)" % (k, c_optobj(e["read"]), c_optobj(e["pre"]), c_pres(e))
    if e["read"] is None:
        raise Unrepresentable("%s without a preceding read" % e["verb"])
    if e["verb"] == "release":
        return "(ERelease %s %s %s %s)" % (k, c_obj(e["read"]), c_optobj(e["pre"]), c_pres(e))
    res = {"ok": "DOk", "notfound": "DNotFound", "conflict": "DConflict"}.get(e["res"])
    if res is None:
        raise Unrepresentable("delete failed: %s" % e["res"])
    return "(EDelete %s %s %d %d %s %s)" % (k, c_obj(e["read"]), e["puid"], e["prv"], c_optobj(e["pre"]), res)


def c_res(sc, obs):
    if sc["op"] == "teardown":
        if obs["res"] == "err":
            return "OTdErr"
        return "(OTd %s)" % cB(obs["done"])
    if obs["res"] == "preflight":
        return "(OPreflight %s)" % cL([VIOL[v] for v in obs["viol"]])
    if obs["res"] == "err":
        return "(OErr %s)" % cO(ERR.get(obs["err"]))
    return "(OOk %s %s)" % (cL([c_kobj(o) for o in obs["actual"]]), cL([c_key(k) for k in obs["failed"]]))


def c_case(sc, obs):
    return "(Build_pcase %s %s %s %s %s %d %d %s %s %s %s %s %s %d %d)" % (
        FLAVORS[sc["flavor"]], cB(sc["force"]), c_owner(sc["owner"]), cL([c_prev(p) for p in sc["prev"]]),
        c_store(sc["store"]), sc["next_rv"], sc["next_uid"], cB(sc["op"] == "teardown"),
        cL([c_pobj(p) for p in sc["objects"]]), cL([c_envop(e) for e in sc.get("between", [])]),
        c_res(sc, obs), cL([c_event(e) for e in obs["events"]]), c_store(obs["post"]), obs["next_rv"], obs["next_uid"])


# ------------------------------------------------------------------ generators

def mk_obj(gk, ns, name, uid, rv, **kw):
    o = {"gk": gk, "ns": ns, "name": name, "uid": uid, "rv": rv, "gen": 1, "owners": [], "aowners": [], "rev": None,
         "cache": True, "pkg": 0, "body": 1, "avail": 0, "obsgen": None, "deleting": False, "fin": False}
    o.update(kw)
    return o


def mk_pobj(gk, ns, name, body=1, cp=0, ownerrefs=False, dryreject=False):
    return {"gk": gk, "ns": ns, "name": name, "body": body, "cp": cp, "ownerrefs": ownerrefs, "dryreject": dryreject}


def mk_owner(kind, ns, name, uid, rev, paused=False, pkg=0):
    return {"kind": kind, "ns": ns, "name": name, "uid": uid, "rev": rev, "paused": paused, "pkg": pkg}


def flavor_owner_kind(flavor):
    return {"objectset": [1, 2], "samephase": [3], "sameclusterphase": [4], "multiphase": [3], "multiclusterphase": [4]}[flavor]


def is_annot(flavor):
    return flavor in ("multiphase", "multiclusterphase")
