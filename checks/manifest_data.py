BASELINE_CMD = "for m in . ./apis ./pkg; do (cd /repo/$m && GOPROXY=off go test -json -vet=off -count=1 -timeout 25m ./...); done"

NOTES = ("All hooks are injected with `go build -overlay` from /verif/harness (build tag `verif`); /repo carries no hook commits, "
         "so the guard-off tree is the pristine tree. See DESIGN.md for the trusted base.")

CHECKS = {
    "C14": {
        "technique": "Coq theorems (chunk laws for any limit/size function, by induction over the object list) + differential correspondence of the real chunkers against the model, monitor proved sound",
        "text": "Chunking laws are proved for all inputs in Coq (props/C14.v); the real chunkers are run on size vectors around the real limit and compared with the model inside Coq; the slice-transparency clauses are decided by the pass-level model (see level_note).",
        "note": "Trusted: Coq kernel + vm_compute, the Go harness (object padding, index recovery), Python driver. Model hand-written; tie is differential. Sizes assumed positive (checked per case).",
    },
}

NOT_APPLICABLE = {}
