BASELINE_CMD = "for m in . ./apis ./pkg; do (cd /repo/$m && GOPROXY=off go test -json -vet=off -count=1 -timeout 25m ./...); done"

NOTES = ("All hooks are injected with `go build -overlay` from /verif/harness (build tag `verif`); /repo carries no hook commits, "
         "so the guard-off tree is the pristine tree. See DESIGN.md for the trusted base.")

CHECKS = {
    "C14": {
        "technique": "Coq theorems: chunk laws for any limit/size function; slice naming loop for any hash function and any store of existing slices; slice GC as a pure function (exactness + safety); sliced ObjectSet pass as a wrapper around ObjectSet.v with a trace equation after erasing slice events; differential correspondence of the real chunkers, the real DeploymentReconciler (chunkPhase/reconcileSlice/sliceGarbageCollection) and the real ObjectSet controller on inline/sliced twin worlds, judged in Coq; monitors proved sound",
        "text": "props/C14.v proves: chunking is lossless/in order/size-bounded; the slice finally used has exactly the requested content and is controlled by the deployment, a clashing name is never reused, for every hash; GC deletes exactly labelled unreferenced slices; load after chunk is the identity; a sliced ObjectSet issues the inline ObjectSet's requests plus slice owner-reference updates in every lifecycle state (C14_sliced_fixed_equiv). Teardown equivalence was refuted for the controller before fix bcaa4f7 (witness kept). The real code is run on clashing stores (names from the real FNV hash), update histories that add/drop slices, and every lifecycle scenario twice (inline vs sliced).",
        "note": "Trusted: Coq kernel + vm_compute; hand-written models tied by differential runs; harness (recording Store, stub chunker returning prescribed chunks, tabulation of the real hash); Python driver. Sizes positive; hash separates collision counts for termination (the Go loop is unbounded); pass-level atomicity with fresh cache; equivalence stated for ObjectSets whose referenced slices exist (a missing slice is skipped during teardown).",
    },
}

_PHASE_NOTE = ("Trusted: Coq 8.16.1 kernel + vm_compute; the hand-written model (coq/theories/Base,Owner,Api,Phase.v) tied to the code by differential "
               "runs of the real controllers.PhaseReconciler (real boxcutter owner strategies, real preflight checkers, real prober) against the "
               "harness's recording API server (twin of Api.v: SSA as merge with uid-keyed ownerReferences, at-most-one-controller validation, "
               "delete preconditions, finalizer-delayed deletion, no-op writes do not bump resourceVersion); scenario printers; Python driver. "
               "Pass-level atomicity except for the scripted third-party op between read and write.")

CHECKS.update({
    "C01": {
        "technique": "Coq theorems: decision-ladder <-> 'permitted' equivalence for all inputs; per-pass 'every write justified / untouched / refusal reported / adoption carried out' for arbitrary store and phase by induction over the object list; + exhaustive adoption table and random phases through the real ReconcilePhase, monitor evaluated on the implementation's requests",
        "text": "props/C01.v proves the adoption ladder equivalent to the property's predicate for every object state, owner, previous list, collisionProtection, strategy and force flag, and lifts it to whole passes over arbitrary worlds (no write unless absent/controlled/permitted; non-permitted objects byte-identical and unnamed; completed pass refused nothing; collision error only for a refusal; permitted adoption carried out). The real PhaseReconciler is run on the full abstract adoption table and on random multi-object phases with third-party interference; model agreement and the property monitor are evaluated in Coq.",
        "note": _PHASE_NOTE,
    },
    "C02": {
        "technique": "Coq theorems: adoption only from revision <= owner's; owner-list algebra of ReleaseController+SetControllerReference under the apply merge (exactly one controller, former owners demoted, revision set) for all well-formed owner lists; + differential runs of the real ReconcilePhase with a per-apply monitor",
        "text": "props/C02.v proves that Adopt implies recorded revision <= the adopter's, and that a permitted adoption leaves exactly one controller (the adopter), all former owners demoted-but-present (native) or replaced (annotation), and the adopter's revision recorded. The real code is run over handover states (previous direct / via remote phase / stale uid / foreign) in both strategies; every apply is checked by the monitor. History-level revision monotonicity over chains of revisions is covered by the ObjectSet/ObjectDeployment-level checks.",
        "note": _PHASE_NOTE + " Freshness and no-tampering hypotheses as in DESIGN section 9.",
    },
    "C05": {
        "technique": "Coq theorems at API-call granularity with an arbitrary third party between read and write: every teardown request is a precondition-pinned delete of a controlled object or the release patch of a co-owned one; delete takes effect only on the inspected uid+resourceVersion; foreign/unlisted objects untouched; + exhaustive teardown table x interference through the real TeardownPhase",
        "text": "props/C05.v proves, for any world, phase, strategy and ANY function modelling third-party activity between the uncached read and the write, that teardown only issues deletes of objects controlled in the inspected version carrying exactly its UID/resourceVersion (effective only on that version) or the release patch (owner reference + cache label only); objects owned by others or unlisted are unchanged. The real TeardownPhase is run on the exhaustive ownership x preflight x interference table on a server that enforces preconditions.",
        "note": _PHASE_NOTE + " The orphan-propagation clause is decided at the ObjectSet level (Teardown short-circuit).",
    },
    "C12": {
        "technique": "Coq model of dynamiccache.Cache with theorems over all operation sequences (per-kind invariants by induction) under adversarial informer start/registration/delete failures; differential correspondence against the real Cache wired to a scripted informer map, monitor proved sound; -race runs for the concurrency clause",
        "text": "Informer-iff-owner, handlers-complete, idempotent Watch, exact Free and failing reads are stated over all Watch/Free/Get/List/OwnersForGKV sequences with adversarial failures and arbitrary map-iteration order (props/C12.v). For the code before fix 95ce509 the first two are refuted (witness kept); for the repaired code they are proved in full. The real Cache is run on a corpus, all sequences up to length 3 (judged in Coq), all of length 4 (quick) / 5 (thorough) over 2 owners x 2 kinds x outcomes plus 3-kind/3-owner variants, random sequences up to length 40, and concurrent callers under the race detector.",
        "note": "Trusted: Coq kernel + vm_compute; for the long sweeps extraction of C12Corr.judge (ExtrOcamlBasic only, no Extract Constant/Inductive directives) + ocamlopt + harness/ocaml/c12_driver.ml, cross-checked against vm_compute each run; Go harness (scripted informer map); Python driver. Mutex serialisation is runtime behaviour: partial, supported by -race runs only. informerMap.Delete failures excuse the affected kind.",
    },
    "C13": {
        "technique": "Coq theorems about the object collector (permutation invariance, conservation, order, stripping, labels) for all file lists; template stage as a fold over arbitrary iteration order; function-table purity sweep regenerated from the code; differential correspondence of the real render pipeline with repeated renders",
        "text": "props/C13.v proves permutation invariance (map order cannot matter), conservation (multiset equality), manifest phase order, path-then-document order, control-annotation stripping and package labels for all inputs; generated packages are rendered 20/50 times each through the real pipeline and judged in Coq; the template function table is dumped from the code and swept against the impure names. Three order-dependence defects were found and fixed in /repo (fix: commits 10a6940, 514b770).",
        "note": "Trusted: Coq kernel + vm_compute, the Go harness (stepwise copy of Deploy's render sequence cross-checked by running the real Deploy), the Python generator as ground-truth oracle. YAML/CEL/template execution are oracles of the model. Map iteration orders are sampled, not enumerated.",
    },
    "C17": {
        "technique": "Coq theorems over all probe lists, objects and CEL oracles (conjunction law, unselected pass, all failures reported, stale never passes, fieldsEqual missing fails, CEL boolean); per-condition staleness proved in full after fix 9b2e4f3 (old shape kept as a v0 refutation); differential correspondence of the real internal/probing.Parse and pkg/probing with a clause-wise monitor proved sound",
        "text": "props/C17.v proves the composition laws of Parse for every input. The real Parse, ParseProbes and ParseSelector are run on generated probe lists x unstructured objects (malformed shapes, stale/float/string observedGeneration) and compared with the model in Coq; purity checked by deep comparison. The per-condition staleness clause was refuted for duplicate condition types before fix 9b2e4f3 and is now proved without hypothesis.",
        "note": "Trusted: Coq kernel + vm_compute; Go harness (message-to-reason table, index attribution); Python generator/printer. CEL evaluation is an oracle filled from the real NewCELProbe.",
    },
    "C20": {
        "technique": "Coq theorems over all step sequences of the two-critical-section state machine of RequestManager (induction over the schedule) + differential correspondence of the real RequestManager.Pull driven through linearised schedules (scripted gated pull, accessor under the lock), monitor proved sound; aliasing probed by mutating every returned Files map; -race sample in thorough",
        "text": "For every schedule the model is proved to keep at most one pull per image in flight, answer each request exactly once at the next Done of its image, hand out pairwise distinct copies and start a fresh pull after a broadcast (props/C20.v). The real code is run on all well-formed schedules up to length 5 (quick) / 7 (thorough) over 3 callers x 2 images plus random ones and compared with the model in Coq. Overlap steps stall the broadcast (extra receiver at the head of inFlight) while another caller Pulls the same image: the run is accepted only if some linearisation (Done;Req or Req;Done) of every overlap reproduces it (monitor_sound_lin). Aliasing probe: zero-length/spare-capacity/nil files, in-place appends, backing-array addresses of every returned copy.",
        "note": "Trusted: Coq kernel + vm_compute, Go harness (linearisation via goroutine states + accessor), Python driver. Atomicity of the two lock scopes is tested by the forced overlaps (only the first send of the broadcast is a stall point), memory-level privacy by the aliasing probe, race freedom under -race: tested, not proved (partial).",
    },
})

_SET_NOTE = ("Trusted: Coq 8.16.1 kernel + vm_compute; hand-written model coq/theories/ObjectSet.v (GenericObjectSetController.Reconcile: "
             "finalizer, revision, phase loop, status derivation, deletion/archival) on top of Phase.v/Api.v, tied to the code by running the real "
             "objectsets.New(Cluster)ObjectSetController(...).Reconcile against the recording API server and comparing request by request and the "
             "post state of members and ObjectSets inside Coq; scenario printers; Python driver. Pass-level atomicity, fresh cache; condition messages "
             "and timestamps are not compared; slices and delegated phases are covered by C14/C15.")

CHECKS.update({
    "C03": {
        "technique": "Coq theorems over one Reconcile pass of the ObjectSet controller for arbitrary worlds and specs (gating, first-failure, completeness by induction over the phase list with frame lemmas); differential correspondence of the real controller; monitor on the implementation's request order vs post-pass object states",
        "text": "props/C03.v proves for every world and every ObjectSet that a request naming an object of phase j implies all objects of all earlier phases are present and pass the probe in the states the pass obtained, that the phase named as failing is the first incomplete one and nothing after it is touched. The real controller is run on generated worlds (all member/ownership/status states, lifecycle states) and judged in Coq.",
        "note": _SET_NOTE,
    },
    "C04": {
        "technique": "Coq theorems: teardown loop order and finalizer/Archived gating for arbitrary worlds (induction over the reversed phase list), full inversion of the deletion pass; differential correspondence of the real controller on deleting/archived ObjectSets with finalizer-delayed deletions",
        "text": "props/C04.v proves that a teardown request names an object of a phase only if all objects of all later phases are absent or no longer controlled (or excluded by the teardown preflight, an explicit disjunct), and that the finalizer is removed / Archived=True reported only after every phase reported done; otherwise the finalizer stays and Archived=False is reported. Restart-safety follows from the pass being a function of the store alone (checked by fresh controller instances per pass).",
        "note": _SET_NOTE + " Orphan deletion is the C05 clause (C05_orphan_deletes_nothing).",
    },
    "C06": {
        "technique": "Coq theorems on the status derivation and on whole passes (Available=True justified and controllerOf sound+complete; Succeeded rule; InTransition rule; archival clauses) plus an invariant 'Succeeded never withdrawn' over every pass; monitor on every status request of the real controller",
        "text": "props/C06.v proves each clause of the property for all worlds; Succeeded stability is an invariant preserved by every Reconcile (all branches incl. finalizer handling, conflicts, deletion, archival). Every status update request of the real controller is compared with the member states of the same pass.",
        "note": _SET_NOTE,
    },
    "C09": {
        "technique": "Coq theorems: a paused owner issues no member write (phase level for all five controller flavours with arbitrary third parties; controller level for ObjectSets) yet reports what the cache holds; differential runs of the real PhaseReconciler and ObjectSet controller with paused owners",
        "text": "props/C09.v proves hands-off for paused ObjectSets and paused phase owners over all worlds and phases, and that the per-object result while paused is exactly the cache content (so probing continues). ObjectDeployment/Package pause propagation is decided at the deployment level (C07/C08 model).",
        "note": _SET_NOTE,
    },
    "C11": {
        "technique": "Coq theorems: preflight gate (any violation anywhere => no write), duplicate gate, namespace bound for rollout and teardown for arbitrary worlds and third parties; exhaustive violation-kind x position x flavour x scope table through the real PhaseReconciler plus controller-level runs",
        "text": "props/C11.v proves that nothing is written unless every object of the phase passed preflight, that an ObjectSet listing the same object twice (after the namespace default) writes nothing, and that namespaced ObjectSets / same-cluster ObjectSetPhases never write, delete or release outside their namespace or on cluster-scoped kinds. A duplicate-detection defect (a2bc3f3) and a scope-check defect (aa47ee3) were found and fixed.",
        "note": _SET_NOTE + " Dry-run verdicts are scripted by the recording server (rejects marked objects, cluster-scoped kinds with a namespace, namespaced kinds without one).",
    },
    "C10": {
        "technique": "PARTIAL: Coq theorems for per-request idempotence of every write PKO issues (apply, release patch, preconditioned delete, owner-reference merge) + fault enumeration on the real ObjectSet controller: every request of every pass x {error before effect, lost response}, fresh controller and cache per pass (restart anywhere), third-party drift, fair rounds to quiescence, end state vs undisturbed reference",
        "text": "props/C10.v proves that repeating any request whose effect already took place changes nothing (what makes re-running a pass after a crash or lost response safe) and that re-applying an object right after a successful apply is a no-op. Convergence itself (same end state as the undisturbed run, zero state-changing writes at quiescence) is explored on the real controller over fresh/partial/handover/teardown/archive/paused/collision worlds with every request index as a fault point and drift before every pass; that part is fault enumeration, not proof.",
        "note": "PARTIAL. Trusted: Coq kernel; Go harness (recording server with fault injection per request index, workload-controller and garbage-collector steps), Python driver. Not proved: multi-revision convergence under arbitrary fair schedules, workqueue fairness, real informers. Drift excludes stripping ownerReferences (re-adoption is refused by collision protection, C01) and is not repaired while paused (C09) or behind a collision (C01/C03). End states compare controllers (not demoted former owners) and ignore member status, which belongs to workload controllers.",
    },
    "C16": {
        "technique": "Coq theorems over an executable model of one Package controller pass (pipeline of stages with oracle outcomes; every API request can fail before/after its effect; a third party can write the ObjectDeployment before any request, giving Conflict and driving the RetryOnConflict loop; history invariant by induction) + differential correspondence of the real GenericPackageController/PackageDeployer request by request, monitor proved sound",
        "text": "Stage-failure => no ObjectDeployment write, persisted conditions, hash short cut, template = render of the new spec (also after Conflict + re-Get + retry) and the history invariant are proved for all oracle outcomes, stored states, API-request outcomes, concurrent-writer schedules and histories (props/C16.v). The constraints clause is proved for the code as it is and refuted for the code before cb58cda (_v0_, witness kept). The real controller runs on generated packages, environments, edit sequences, pull failures, per-request API faults and concurrent writers before every request of the passes that write the deployment.",
        "note": "Trusted: Coq kernel + vm_compute, Go harness (scripted puller, recording server, template identity = sha256 of canonical JSON vs a reference render), Python generator whose intended stage outcomes are the oracle. Assumed: spec hash collision free; packages small enough for no ObjectSlices; Package never deleted. Concurrent writer = metadata-only update of the ObjectDeployment.",
    },
    "C18": {
        "technique": "Coq theorems over an executable model of one ObjectTemplate controller pass (arbitrary render functions, kind tables, pre-states, lifted to all histories) + step-by-step differential correspondence of the real ObjectTemplate controllers (recording API server, real dynamiccache.Cache with scripted informers, real EnqueueWatchingObjects), monitor proved sound",
        "text": "Every clause is proved per pass for arbitrary pre-states and every history (props/C18.v): writes equal the render of the values read in that pass; required-missing / unparsable / out-of-namespace leave the target unwritten with Invalid; optional-missing requeues; deletion frees then removes the finalizer; successful passes leave the template watching every source kind. The namespace clause is proved in full (refutation against the check before aa47ee3 kept as C18_v0_*); malformed source items and conditions (former C19 panics) are modelled as error classes.",
        "note": "Trusted: Coq kernel + vm_compute; harness (abstraction functions, Store + namespace wrapper, scripted informer); Python driver. Pass-granular interleavings; cache in sync (C12); event delivery and queue->Reconcile are runtime.",
    },
    "C19": {
        "technique": "PARTIAL: panic-site inventory regenerated from the source by a go/types translator (unchecked assertions, index/slice expressions, panic, Must helpers, pointer used before its error check, recursion, nil to foreign pointer/interface parameters, dereference of pointer-typed struct-field chains with nil-check dominance flag, ==/!= on two any operands) and checked complete against a Coq table (finite-domain proof by vm_compute); Coq models Ok|Err|Panic of the stages that are PKO's own logic with totality theorems (old shapes kept as _v0 refutations with repair relations); structure-aware and byte-level fuzzing of the real code under recover",
        "text": "Every potential panic site of the anchored packages is accounted for in coq/theories/NoPanic.v on every run (a new unchecked assertion/index breaks the check); the modelled stages are proved panic-free after fixes 6890742, e1805ac, a818a7e, 35e301a (refutations of the old shapes kept). ~6.7k (quick) / ~206k (thorough) inputs (structure-aware JSONSchemaProps generator + exhaustive small-scope schema corpus, fieldsEqual shape pairs, byte-level) go through the real pipeline, CLI, probing, condition mapping, ObjectTemplate handling, annotation owner strategy and OCI import under recover and a watchdog. Sites repaired by fix commits are Fixed table entries that are no longer accepted, so a fall-back to an old shape fails the inventory.",
        "note": "PARTIAL by nature: panics inside yaml, text/template, sprig, cel-go, go-containerregistry, apimachinery, nil dereference of parameters/locals/call results, nil-map writes, division, conversions, interface-typed map keys, stack exhaustion are fuzzed only. ByConstruction/Library/Validated verdicts are reviewed claims, proved only where a stage model exists. The guard flag of the inventory is a syntactic heuristic. One finding stays open (boxcutter annotation owner strategy panics on a non-JSON owners annotation; third-party module).",
    },
})

NOT_APPLICABLE = {}
