"""C13: package rendering is deterministic and loses or duplicates no object.

Theorems: props/C13.v (collector laws for all file lists and manifests; the template stage as fixed by
10a6940 is a function of the file map for every enumeration; the pre-fix stage stays refuted as a record).
Run-time part: generated packages are taken N times through the deployer's real sequence
(harness mode `render`), every repetition from a fresh file map; the harness reports what the
collection stage started from and what came out; `C13Corr.judge` evaluates model agreement, the
property monitor and the generator's own expectation inside Coq. The template function table is
dumped from the code on every run (mode `render-funcs`) and swept against the impure names."""
import json
import os
import re
import subprocess

import vlib
from vlib import cN, cB, cL, cP, cO, cS

IMPORTS = "From PKO Require Import Collector.\nFrom PKOCorr Require Import C13Corr."

ID_GETFILE = "C13 template output order-dependent: getFile reads a path written by another template"
ID_KEYS = "C13 template output order-dependent: sprig keys/values return Go map iteration order"
ID_INSERT = ("C13 render outcome order-dependent: a template output named *.gotmpl is inserted into the "
             "file map while it is ranged over")
ID_NONDET = "C13 repeated renders of an unchanged package differ"
ID_CTX = "C13 rendering mutates the render context (config) / repeated renders with the same context differ"
ID_COLLECT = "C13 collected phases lose, duplicate, misplace, reorder or mislabel objects"
ID_EXPECT = "C13 rendered phases differ from the objects the package contains"
ID_ACCEPTED = "C13 invalid package is rendered instead of rejected"
ID_IMPURE = "C13 template function table contains impure function: %s"

A_PHASE = "package-operator.run/phase"
A_CONDMAP = "package-operator.run/condition-map"
A_COLLISION = "package-operator.run/collision-protection"
A_CEL = "package-operator.run/condition"
CONTROL = {A_PHASE: 1, A_CONDMAP: 2, A_COLLISION: 3, A_CEL: 4}
L_PACKAGE = "package-operator.run/package"
L_INSTANCE = "package-operator.run/instance"
COMMON = {L_PACKAGE: 1, L_INSTANCE: 2}

# ------------------------------------------------------------------ impure function names
# Names of sprig / text-template functions that reach the clock, randomness, the environment, the
# network, host files (time zone database, OS path conventions) or generate key material.
# Source: docs/*.md of github.com/Masterminds/sprig/v3 in the module cache (date.md, crypto.md,
# strings.md "rand*"/"shuffle", math.md "randInt", uuid.md, os.md, network.md, paths.md "os*"),
# plus sprig's own `nonhermeticFunctions` (functions.go), read from the module cache on every run.
IMPURE_DOCS = [
    # date.md (clock; date/htmlDate/toDate use time.Local, *InZone load the host's zoneinfo)
    "now", "ago", "date", "dateInZone", "date_in_zone", "duration", "durationRound", "unixEpoch",
    "dateModify", "date_modify", "mustDateModify", "must_date_modify", "htmlDate", "htmlDateInZone",
    "toDate", "mustToDate",
    # strings.md / math.md / uuid.md (randomness)
    "randAlphaNum", "randAlpha", "randNumeric", "randAscii", "shuffle", "randInt", "uuidv4",
    # crypto.md (random salts/IVs, key and certificate generation, clock for validity)
    "bcrypt", "htpasswd", "randBytes", "derivePassword", "genPrivateKey", "buildCustomCert", "genCA",
    "genCAWithKey", "genSelfSignedCert", "genSelfSignedCertWithKey", "genSignedCert",
    "genSignedCertWithKey", "encryptAES", "decryptAES",
    # os.md (environment)
    "env", "expandenv",
    # network.md
    "getHostByName",
    # paths.md (host OS path conventions)
    "osBase", "osClean", "osDir", "osExt", "osIsAbs",
]
# sprig functions whose result order is Go's map iteration order (dicts.md: "the keys will not be
# in a predictable order")
MAP_ORDER = ["keys", "values"]
# functions package-operator adds itself (transformfiles_funcs.go:228-252, file_funcs.go:10-15, template.go:111-115)
KNOWN_EXTRA = ["b64decMap", "include", "toYAML", "fromYAML", "getFile", "getFileGlob", "cel"]


def sprig_nonhermetic():
    """sprig's own list of non-repeatable functions, from the module the tree builds against."""
    try:
        p = subprocess.run(["go", "list", "-m", "-f", "{{.Dir}}", "github.com/Masterminds/sprig/v3"],
                           cwd=vlib.REPO, env=vlib.go_env(), stdout=subprocess.PIPE, stderr=subprocess.PIPE, text=True)
        src = open(os.path.join(p.stdout.strip(), "functions.go")).read()
        m = re.search(r"var nonhermeticFunctions = \[\]string\{(.*?)\n\}", src, re.S)
        return re.findall(r'"([A-Za-z0-9_]+)"', m.group(1)) if m else []
    except (OSError, AttributeError):
        return []


# ------------------------------------------------------------------ package generator
PHASE_POOL = ["crds", "namespace", "rbac", "config", "deploy", "hooks", "pre", "post", "a", "z"]
# names chosen to stress the order of objects.go:105-109 ('/' sorts as NUL: below '!', '-', '.', '0')
PATH_POOL = ["a.yaml", "a-b.yaml", "a/b.yaml", "a/b/c.yaml", "a/b-c.yaml", "a!b.yaml", "a0.yaml", "ab.yaml",
             "a.yml", "b.yaml", "b/a.yaml", "a/a.yaml", "A.yaml", "z.yaml", "a b.yaml", "a/b/c/d.yaml",
             "a/b.yml", "a.b/c.yaml", "a-b/c.yaml", "ä.yaml", "b/_b.yaml", "_a.yaml", "a/z.yaml", "0.yaml"]
KINDS = [("v1", "ConfigMap"), ("v1", "Secret"), ("v1", "ServiceAccount"), ("apps/v1", "Deployment"),
         ("v1", "Service")]
EXTRA_ANNOS = ["example.com/owner", "note", "app.kubernetes.io/managed-by", "package-operator.run/other"]
EXTRA_LABELS = ["app", "tier", "example.com/part-of", L_PACKAGE]
DIGEST = "sha256:" + "ab" * 32


def path_key(p):
    return p.replace("/", "\x00").encode()


class Ctx:
    """Render context values the generator knows the truth about."""

    def __init__(self, r):
        self.prefix = r.choice(["abc", "x", "pre", "dflt"])
        self.flag = r.random() < 0.5
        self.count = r.choice([0, 1, 2, 3])
        self.tags = {k: r.choice(["1", "two", "x-y"]) for k in r.sample(["env", "team", "zone", "rev"], r.randint(0, 3))}
        self.items = r.sample(["i1", "i2", "i3"], r.randint(0, 3))
        self.openshift = r.random() < 0.4
        self.kube = r.choice(["v1.27.3", "v1.29.0", "v1.30.1"])
        # what is passed explicitly; the rest comes from the schema defaults
        self.given = {k for k in ("prefix", "flag", "count", "tags", "items") if r.random() < 0.7}
        self.defaults = {"prefix": "dflt", "flag": False, "count": 2, "tags": {}, "items": []}
        for k in ("prefix", "flag", "count", "tags", "items"):
            if k not in self.given:
                setattr(self, k, self.defaults[k])

    def config(self):
        return {k: getattr(self, k) for k in sorted(self.given)}

    def environment(self):
        env = {"kubernetes": {"version": self.kube}}
        if self.openshift:
            env["openShift"] = {"version": "4.15.1"}
        return env

    def cel_pool(self):
        """(CEL expression, truth)"""
        return [("true", True), ("false", False), ("config.flag == true", self.flag), ("!config.flag", not self.flag),
                ("cond.isFlag", self.flag), ("!cond.isFlag && cond.always", not self.flag),
                ("has(environment.openShift)", self.openshift), ("cond.onOpenShift || config.prefix == \"abc\"",
                                                                  self.openshift or self.prefix == "abc"),
                ("environment.kubernetes.version.startsWith(\"v1.2\")", self.kube.startswith("v1.2")),
                ("config.prefix != \"x\"", self.prefix != "x")]

    def guard_pool(self):
        """(template condition, truth)"""
        return [(".config.flag", self.flag), ("not .config.flag", not self.flag), ('cel "cond.isFlag"', self.flag),
                ('eq .config.prefix "abc"', self.prefix == "abc"), ('hasKey .environment "openShift"', self.openshift),
                ('cel "has(environment.openShift) || true"', True), ("gt (int .config.count) 1", self.count > 1)]


def q(s):
    return json.dumps(s, ensure_ascii=False)


def doc_text(d):
    """YAML (or template) text of one document spec."""
    lines = []
    if d.get("api") is not None:
        lines.append("apiVersion: %s" % d["api"])
    if d.get("kind") is not None:
        lines.append("kind: %s" % d["kind"])
    lines.append("metadata:")
    lines.append("  name: %s" % d["name_t"])
    if d.get("ns"):
        lines.append("  namespace: %s" % q(d["ns"]))
    if d["annos_t"]:
        lines.append("  annotations:")
        for k, v in d["annos_t"]:
            if "\n" in v:
                lines.append("    %s: |" % q(k))
                lines += ["      " + l for l in v.split("\n")]
            else:
                lines.append("    %s: %s" % (q(k), v if v.startswith("{{") or v.startswith('"') else q(v)))
    if d["labels_t"]:
        lines.append("  labels:")
        for k, v in d["labels_t"]:
            lines.append("    %s: %s" % (q(k), v if v.startswith("{{") or v.startswith('"') else q(v)))
    lines += d.get("body", ["data:", "  k: v"])
    return "\n".join(lines) + "\n"


def gen_docs(r, ctx, phases, names, templated, pname):
    """Document specs of one file plus the objects they must yield (before path exclusion)."""
    docs, exp = [], []
    for _ in range(r.choice([1, 1, 2, 2, 3])):
        api, kind = r.choice(KINDS)
        base = "o%d" % len(names)
        names.append(base)
        d = {"api": api, "kind": kind, "ns": r.choice([None, None, "ns1"]), "annos_t": [], "labels_t": []}
        name = base
        d["name_t"] = q(base)
        if templated and r.random() < 0.5:
            name, d["name_t"] = "%s-%s" % (ctx.prefix, base), '"{{ .config.prefix }}-%s"' % base
        phase = r.choice(phases)
        annos, labels = {}, {}
        d["annos_t"].append((A_PHASE, phase))
        cond, collision, condmap = None, "", False
        if r.random() < 0.35:
            cond = r.choice(ctx.cel_pool())
            d["annos_t"].append((A_CEL, cond[0]))
        if r.random() < 0.25:
            collision = r.choice(["IfNoController", "None", "Prevent"])
            d["annos_t"].append((A_COLLISION, collision))
        if r.random() < 0.2:
            condmap = True
            d["annos_t"].append((A_CONDMAP, r.choice(["Available => my.io/Available",
                                                     "Available => my.io/Available\nProgressing => my.io/Progressing"])))
        for k in r.sample(EXTRA_ANNOS, r.choice([0, 0, 1, 2])):
            if templated and r.random() < 0.5:
                annos[k] = ctx.kube
                d["annos_t"].append((k, "{{ .environment.kubernetes.version | quote }}"))
            else:
                annos[k] = "v-" + base
                d["annos_t"].append((k, annos[k]))
        for k in r.sample(EXTRA_LABELS, r.choice([0, 0, 1, 2])):
            if templated and r.random() < 0.5:
                labels[k] = pname + "-app"
                d["labels_t"].append((k, '{{ include "pkg.app" . | quote }}'))
            else:
                labels[k] = "l-" + base
                d["labels_t"].append((k, labels[k]))
        r.shuffle(d["annos_t"])
        body = ["data:", "  k: %s" % q("v-" + base)]
        if templated:
            body += r.choice([
                ['  tags: {{ keys .config.tags | sortAlpha | join "," | quote }}'],
                ["  tags: |", "    {{- toYAML .config.tags | nindent 4 }}"],
                ['  all: {{ range $k, $v := .config.tags }}{{ $k }}={{ $v }};{{ end }}x'],
                ["  inst: {{ .package.metadata.name | upper | quote }}"],
                ['  static: {{ getFile "files/static.txt" | b64enc | quote }}'],
                ['  image: {{ default "none" (get .images "app") | quote }}'],
                []])
        d["body"] = body
        obj = {"id": "%s/%s/%s" % (kind, d["ns"] or "", name), "phase": phase, "annos": annos, "labels": labels,
               "collision": collision, "condmap": condmap, "keep": cond is None or cond[1]}
        text = doc_text(d)
        if templated and r.random() < 0.3:
            g = r.choice(ctx.guard_pool())
            text = "{{- if %s }}\n%s{{- end }}\n" % (g[0], text)
            objs = [obj] if g[1] else []
        elif templated and r.random() < 0.2:
            d2 = dict(d)
            d2["name_t"] = '"%s-{{ $i }}"' % name
            d2["annos_t"] = [(k, v.replace(".environment", "$.environment")) for k, v in d["annos_t"]]
            d2["labels_t"] = [(k, v.replace('"pkg.app" .', '"pkg.app" $')) for k, v in d["labels_t"]]
            d2["body"] = [l.replace(".config", "$.config").replace(".package", "$.package").replace(".images", "$.images")
                          for l in body]
            text = "{{- range $i, $e := until (int .config.count) }}\n---\n%s{{- end }}\n" % doc_text(d2)
            objs = [dict(obj, id="%s/%s/%s-%d" % (kind, d["ns"] or "", name, i)) for i in range(ctx.count)]
        else:
            objs = [obj]
        docs.append(text)
        exp += objs
    sep = r.choice(["---\n", "---\n", "\n---\n", "---\n# comment only\n---\n", "---\n---\n"])
    content = sep.join(docs)
    if r.random() < 0.3:
        content = "---\n" + content
    return content, exp


def manifest_text(name, phases, ctx, cond_paths, images, components, scopes=("Namespaced", "Cluster")):
    m = ["apiVersion: manifests.package-operator.run/v1alpha1", "kind: PackageManifest", "metadata:",
         "  name: %s" % name, "spec:", "  scopes: [%s]" % ", ".join(scopes), "  phases:"]
    for p in phases:
        m.append("  - name: %s" % p)
    if components:
        m.append("  components: {}")
    m += ["  config:", "    openAPIV3Schema:", "      type: object", "      properties:",
          "        prefix: {type: string, default: dflt}", "        flag: {type: boolean, default: false}",
          "        count: {type: integer, default: 2}",
          "        tags: {type: object, additionalProperties: {type: string}, default: {}}",
          "        items: {type: array, items: {type: string}, default: []}"]
    m += ["  filter:", "    conditions:", "    - name: isFlag", "      expression: config.flag == true",
          "    - name: onOpenShift", "      expression: has(environment.openShift)",
          "    - name: always", "      expression: \"true\""]
    if cond_paths:
        m.append("    paths:")
        for g, e in cond_paths:
            m += ["    - glob: %s" % q(g), "      expression: %s" % q(e)]
    if images:
        m += ["  images:", "  - name: app", "    image: quay.io/verif/app:v1"]
    m += ["  availabilityProbes:", "  - probes:", "    - condition: {type: Available, status: \"True\"}",
          "    selector:", "      kind: {group: apps, kind: Deployment}"]
    return "\n".join(m) + "\n"


LOCK = ("apiVersion: manifests.package-operator.run/v1alpha1\nkind: PackageManifestLock\nmetadata:\n"
        "  creationTimestamp: \"2024-01-01T00:00:00Z\"\nspec:\n  images:\n  - name: app\n"
        "    image: quay.io/verif/app:v1\n    digest: %s\n" % DIGEST)

HELPERS = ('{{- define "pkg.app" -}}{{ .package.metadata.name }}-app{{- end -}}\n'
           '{{- define "pkg.unused" -}}{{ include "pkg.app" . | upper }}{{- end -}}\n')


def gen_mutator(r, ctx, phases, pname):
    """Templates that WRITE to .config (sprig set/unset/merge/append), another template that reads the
    key, and objects whose CEL condition is on that key. The template context is a per-render copy
    (template.go templateContext), shared by the templates of one render in sorted path order: a
    reader sorted after the writer sees the change, one sorted before does not, and the CEL filter
    stage - which gets the caller's context - never does."""
    op = r.choice(["set", "unset", "merge", "append"])
    n = len(ctx.items)
    has_env = "env" in ctx.tags
    write, read, before, after, cel_true, cel_false = {
        "set": ('set .config "injected" "yes"', 'default "no" (get .config "injected")', "no", "yes",
                "!has(config.injected)", "has(config.injected)"),
        "merge": ('merge .config (dict "merged" "m")', 'default "no" (get .config "merged")', "no", "m",
                  "!has(config.merged)", "has(config.merged)"),
        "unset": ('unset .config.tags "env"', 'hasKey .config.tags "env" | toString', str(has_env).lower(), "false",
                  '("env" in config.tags) == %s' % str(has_env).lower(), '("env" in config.tags) != %s' % str(has_env).lower()),
        "append": ('set .config "items" (append .config.items "extra")', "len .config.items | toString", str(n), str(n + 1),
                   "size(config.items) == %d" % n, "size(config.items) > %d" % n),
    }[op]
    wpath = r.choice(["m/writer.yaml", "a/0w.yaml", "b/w.yml"])
    rpath = r.choice(["0-reader.yaml", "zz-reader.yaml", "a/0a-reader.yaml", "n/reader.yaml"])
    cpath = r.choice(["cel-mut.yaml", "a/cel-mut.yaml", "zz/cel-mut.yml"])
    ph = lambda: r.choice(phases)
    files, per_file = {}, {}
    p1, p2, p3, p4 = ph(), ph(), ph(), ph()
    files[wpath + ".gotmpl"] = "{{- $_ := %s }}\n%s" % (write, cm("mut-writer", p1, "k", "v"))
    per_file[wpath] = [{"id": "ConfigMap//mut-writer", "phase": p1, "annos": {}, "labels": {}, "collision": "",
                        "condmap": False, "keep": True}]
    seen = after if (wpath + ".gotmpl") < (rpath + ".gotmpl") else before
    files[rpath + ".gotmpl"] = cm("mut-reader", p2, "k", "v").replace(
        "  annotations:\n", "  annotations:\n    seen: {{ %s | quote }}\n" % read)
    per_file[rpath] = [{"id": "ConfigMap//mut-reader", "phase": p2, "annos": {"seen": seen}, "labels": {}, "collision": "",
                        "condmap": False, "keep": True}]

    def celdoc(name, phase, expr):
        return cm(name, phase, "k", "v").replace("  annotations:\n", "  annotations:\n    %s: %s\n" % (A_CEL, q(expr)))
    files[cpath] = celdoc("mut-kept", p3, cel_true) + "---\n" + celdoc("mut-dropped", p4, cel_false)
    per_file[cpath] = [
        {"id": "ConfigMap//mut-kept", "phase": p3, "annos": {}, "labels": {}, "collision": "", "condmap": False, "keep": True},
        {"id": "ConfigMap//mut-dropped", "phase": p4, "annos": {}, "labels": {}, "collision": "", "condmap": False, "keep": False}]
    return files, per_file


def glob_match(glob, path):
    if glob.endswith("/**"):
        return path.startswith(glob[:-2])
    return glob == path


def gen_package(r, ctx, mname, pname, names, allow_paths=True):
    """One (sub-)package: files, the manifest phases and the expected phases."""
    phases = r.sample(PHASE_POOL, r.randint(1, 4))
    paths = r.sample(PATH_POOL, r.randint(1, 8))
    images = r.random() < 0.3
    files, per_file = {}, {}
    any_tmpl = False
    for p in paths:
        templated = r.random() < 0.45
        content, exp = gen_docs(r, ctx, phases, names, templated, pname)
        any_tmpl |= templated
        files[p + (".gotmpl" if templated else "")] = content
        base = p.rsplit("/", 1)[-1]
        per_file[p] = [] if base.startswith("_") else exp
    if r.random() < 0.35:
        mfiles, mper = gen_mutator(r, ctx, phases, pname)
        files.update(mfiles)
        per_file.update(mper)
        paths = paths + sorted(mper)
    if any_tmpl:
        files[r.choice(["_helpers.gotmpl", "templates/_helpers.yaml.gotmpl", "a/_h.tpl.gotmpl"])] = HELPERS
        files["files/static.txt"] = "static content\n"
    if r.random() < 0.4:
        files[r.choice(["README.md", "docs/notes.txt", "a/NOTES"])] = "not an object file: {{ now }}\n"
    cond_paths = []
    if allow_paths and r.random() < 0.35:
        for _ in range(r.randint(1, 2)):
            p = r.choice(paths)
            glob = p if "/" not in p or r.random() < 0.5 else p.split("/")[0] + "/**"
            cond_paths.append((glob, r.choice(ctx.cel_pool())))
    files["manifest.yaml" if r.random() < 0.8 else "manifest.yml"] = manifest_text(
        mname, phases, ctx, [(g, e[0]) for g, e in cond_paths], images, False)
    if images:
        files["manifest.lock.yaml"] = LOCK
    # expected phases
    common = {L_PACKAGE: mname, L_INSTANCE: pname}
    out = {p: [] for p in phases}
    for p in sorted(per_file, key=path_key):
        if any(glob_match(g, p) and not e[1] for g, e in cond_paths):
            continue
        for o in per_file[p]:
            if o["keep"]:
                out[o["phase"]].append({"id": o["id"], "annos": o["annos"], "labels": dict(o["labels"], **common),
                                        "collision": o["collision"], "condmap": o["condmap"]})
    expected = [{"name": p, "objs": out[p]} for p in phases if out[p]]
    return files, phases, expected


DEFECTS = {
    "unknown-phase": "violation:Phase name not found in manifest",
    "missing-phase": "violation:Missing package-operator.run/phase Annotation",
    "duplicate": "violation:Duplicate Object",
    "missing-version": "violation:GroupVersionKind not set",
    "invalid-yaml": "violation:Invalid YAML",
    "invalid-cel": "violation:The CEL expression in package-operator.run/condition annotation is invalid.",
    "template-exec": "template-exec",
    "template-parse": "template-parse",
    "no-manifest": "violation:PackageManifest not found",
    "config-invalid": "config-invalid",
    "invalid-label": "violation:Labels invalid",
    "scope": "violation:Package unsupported scope",
}


def inject(r, defect, files, ctx_cfg):
    """Break an otherwise valid package in exactly one way."""
    bad = {"api": "v1", "kind": "ConfigMap", "name_t": "bad", "ns": None, "labels_t": [],
           "annos_t": [(A_PHASE, "@PHASE@")]}
    mpath = "manifest.yaml" if "manifest.yaml" in files else "manifest.yml"
    phase = re.search(r"- name: (\S+)", files[mpath]).group(1)
    if defect == "unknown-phase":
        bad["annos_t"] = [(A_PHASE, "no-such-phase")]
    elif defect == "missing-phase":
        bad["annos_t"] = [("note", "x")]
    elif defect == "missing-version":
        # (a missing kind is already refused by the YAML decoder as invalid YAML)
        bad["api"], bad["annos_t"] = None, [(A_PHASE, phase)]
    elif defect == "invalid-cel":
        bad["annos_t"] = [(A_PHASE, phase), (A_CEL, "config.flag ==")]
    elif defect == "invalid-label":
        bad["annos_t"], bad["labels_t"] = [(A_PHASE, phase)], [("app", "not a valid label value!")]
    elif defect == "duplicate":
        bad["annos_t"] = [(A_PHASE, phase)]
        files["zz/dup-1.yaml"] = doc_text(bad)
    if defect in ("unknown-phase", "missing-phase", "missing-version", "invalid-cel", "invalid-label", "duplicate"):
        files[r.choice(["zz/bad.yaml", "bad.yaml", "a/bad.yml"])] = doc_text(bad)
    elif defect == "invalid-yaml":
        files["zz/bad.yaml"] = "apiVersion: v1\nkind: ConfigMap\nmetadata:\n  name: bad\n   annotations: [\n"
    elif defect == "template-exec":
        files["zz/bad.yaml.gotmpl"] = r.choice(['{{ fail "no" }}\n', '{{ include "undefined-helper" . }}\n'])
    elif defect == "template-parse":
        files["zz/bad.yaml.gotmpl"] = r.choice(["{{ if }}\n", "{{ undefinedFunction 1 }}\n", "{{ .config.flag \n"])
    elif defect == "no-manifest":
        del files[mpath]
    elif defect == "config-invalid":
        ctx_cfg["prefix"] = 123
    elif defect == "scope":
        files[mpath] = files[mpath].replace("scopes: [Namespaced, Cluster]", "scopes: [Cluster]")


def mutate(r, files):
    """Malformed stream: byte-level damage to one or two files."""
    chunks = ["{{", "}}", "---\n", "\t", ": ", "- ", "{{ end }}", "{{ if }}", "|\n", "&a ", "*a ", "!!binary ", "\x00",
              "\"", "'", "{", "[", "#", "\n\n", "  ", "{{ . }}", "ÿ"]
    for p in r.sample(sorted(files), min(len(files), r.choice([1, 1, 2]))):
        s = files[p]
        for _ in range(r.randint(1, 3)):
            i = r.randint(0, len(s))
            k = r.choice(["del", "dup", "ins", "ins", "trunc"])
            if k == "del":
                s = s[:i] + s[i + r.randint(1, 12):]
            elif k == "dup":
                j = min(len(s), i + r.randint(1, 30))
                s = s[:j] + s[i:j] + s[j:]
            elif k == "ins":
                s = s[:i] + r.choice(chunks) + s[i:]
            else:
                s = s[:i]
        files[p] = s


def cm(name, phase, key, val):
    return ("apiVersion: v1\nkind: ConfigMap\nmetadata:\n  name: %s\n  annotations:\n    %s: %s\ndata:\n  %s: %s\n"
            % (name, A_PHASE, phase, key, val))


def witness_packages():
    """The packages that were order-dependent before commits 10a6940/514b770; they are ordinary corpus
    members now and must render the same way every time."""
    man = manifest_text("witness", ["one", "two"], None, [], False, False)
    common = {L_PACKAGE: "witness", L_INSTANCE: "inst"}

    def exp(*objs):
        out = {}
        for phase, name in objs:
            out.setdefault(phase, []).append({"id": "ConfigMap//" + name, "annos": {}, "labels": dict(common),
                                              "collision": "", "condmap": False})
        return [{"name": p, "objs": out[p]} for p in ("one", "two") if p in out]

    ws = []
    # a.yaml.gotmpl reads b.yaml, which b.yaml.gotmpl overwrites
    ws.append(("witness:getfile", {
        "manifest.yaml": man, "b.yaml": cm("b", "one", "v", "static"), "b.yaml.gotmpl": cm("b", "one", "v", "templated"),
        "a.yaml.gotmpl": cm("a", "two", "copy", '{{ getFile "b.yaml" | fromYAML | dig "data" "v" "none" | quote }}')}, {},
        exp(("one", "b"), ("two", "a"))))
    # the same through getFileGlob and in a sub directory
    ws.append(("witness:getfile", {
        "manifest.yaml": man, "d/b.yaml": cm("b", "one", "v", "static"), "d/b.yaml.gotmpl": cm("b", "one", "v", "templated"),
        "d/c.yaml.gotmpl": cm("c", "one", "v", "c"),
        "a.yaml.gotmpl": cm("a", "two", "copy", '{{ getFileGlob "d/*.yaml" | toJson | sha256sum | quote }}')}, {},
        exp(("two", "a"), ("one", "b"), ("one", "c"))))
    # a reader that sorts AFTER the writer: it must still see the packaged b.yaml (the snapshot), which
    # shows in an annotation of the rendered object
    zexp = exp(("one", "b"), ("two", "z"))
    zexp[1]["objs"][0]["annos"] = {"copy": "static"}
    ws.append(("witness:getfile", {
        "manifest.yaml": man, "b.yaml": cm("b", "one", "v", "static"), "b.yaml.gotmpl": cm("b", "one", "v", "templated"),
        "z.yaml.gotmpl": cm("z", "two", "x", "y").replace(
            "  annotations:\n", '  annotations:\n    copy: {{ getFile "b.yaml" | fromYAML | dig "data" "v" "none" | quote }}\n')},
        {}, zexp))
    # sprig keys / values
    for fn in MAP_ORDER:
        ws.append(("witness:keys", {
            "manifest.yaml": man,
            "a.yaml.gotmpl": cm("a", "one", "k", '{{ %s .config.tags | join "," | quote }}' % fn)},
            {"tags": {"a": "1", "b": "2", "c": "3", "d": "4", "e": "5"}}, exp(("one", "a"))))
    # output named like a template (it is not a YAML file, so no object comes of it)
    ws.append(("witness:insert", {"manifest.yaml": man, "c.yaml.gotmpl.gotmpl": cm("c", "one", "v", "x")}, {}, []))
    return ws


def harness_scenario(files, component, pname, config, env, reps, deploy_reps):
    return {"files": files, "component": component,
            "package": {"name": pname, "namespace": "ns-" + pname, "labels": {"l": "1"}, "annotations": {},
                        "image": "quay.io/verif/pkg:v1"},
            "config": config, "environment": env, "reps": reps, "deploy_reps": deploy_reps}


def gen(seed, tier):
    r = vlib.rng(seed, "C13")
    n, reps, dreps, wreps = (60, 20, 3, 200) if tier == "quick" else (600, 50, 5, 400)
    scs = []
    for cls, files, cfg, expected in witness_packages():
        scs.append({"class": cls, "expected": expected, "expect_err": None,
                    "harness": harness_scenario(files, "", "inst", cfg, {"kubernetes": {"version": "v1.29.0"}},
                                                wreps, dreps)})
    defects = sorted(DEFECTS)
    for i in range(n):
        ctx = Ctx(r)
        pname = r.choice(["inst", "my-pkg", "p%d" % i])
        names = []
        kind = r.random()
        mname = "pkg%d" % i
        files, phases, expected = gen_package(r, ctx, mname, pname, names, allow_paths=kind >= 0.28)
        component = ""
        if 0.28 <= kind < 0.43:
            # multi-component package; render the root or one of the components
            mpath = "manifest.yaml" if "manifest.yaml" in files else "manifest.yml"
            files[mpath] = files[mpath].replace("  phases:\n", "  components: {}\n  phases:\n", 1)
            comps = {}
            for cname in r.sample(["backend", "frontend", "db"], r.randint(1, 2)):
                cf, _, cexp = gen_package(r, ctx, cname, pname, names)
                comps[cname] = cexp
                for p, c in cf.items():
                    files["components/%s/%s" % (cname, p)] = c
            if r.random() < 0.6:
                component = r.choice(sorted(comps))
                expected = comps[component]
        cfg = ctx.config()
        sc = {"class": "valid", "expected": expected, "expect_err": None}
        if kind < 0.16:
            defect = defects[i % len(defects)] if r.random() < 0.7 else r.choice(defects)
            inject(r, defect, files, cfg)
            sc = {"class": "defect:" + defect, "expected": None, "expect_err": DEFECTS[defect]}
        elif kind < 0.28:
            mutate(r, files)
            sc = {"class": "malformed", "expected": None, "expect_err": None}
        elif component or "components: {}" in files.get("manifest.yaml", files.get("manifest.yml", "")):
            sc["class"] = "valid:component" if component else "valid:multi-root"
        sc["harness"] = harness_scenario(files, component, pname, cfg, ctx.environment(), reps, dreps)
        scs.append(sc)
    return scs


# ------------------------------------------------------------------ Coq terms
class Intern:
    def __init__(self, fixed=None, start=10):
        self.t = {"": 0} if fixed is None else dict(fixed)
        self.next = start

    def __call__(self, s):
        if s not in self.t:
            self.t[s] = self.next
            self.next += 1
        return self.t[s]


def kvs(m, kint, vint):
    return cL([cP(cN(kint(k)), cN(vint(v))) for k, v in sorted(m.items())])


def case_term(g, identical, ctx_unchanged, expected):
    val = Intern(start=1)
    akey, lkey = Intern(CONTROL), Intern(COMMON)
    phases = cL([cN(val(p)) for p in g["manifest_phases"] or []])
    files = []
    for f in g["files"] or []:
        objs = ["(Build_object %s %s %s %s)" % (cN(val(o["id"])), kvs(o["annos"], akey, val), kvs(o["labels"], lkey, val),
                                                cB(o["keep"])) for o in f["objs"]]
        files.append("(Build_file %s %s %s)" % (cL([cN(b) for b in f["path"].encode()]), cB(f["excluded"]), cL(objs)))

    def out_obj(o, annos):
        return "(Build_out_object %s %s %s %s %s)" % (
            cN(val(o["id"])), cO(None if annos is None else kvs(annos, akey, val)), kvs(o["labels"], lkey, val),
            cN(val(o["collision"])), cB(bool(o.get("condmap", o.get("condmaps")))))

    out = cL([cP(cN(val(p["name"])), cL([out_obj(o, o["annos"] if o["has_annos"] else None) for o in p["objs"]]))
              for p in g["phases"]])
    exp = cL([cP(cN(val(p["name"])), cL([out_obj(o, o["annos"] or None) for o in p["objs"]]))
              for p in (expected or [])])
    sc = cP(phases, cN(val(g["manifest_name"])), cN(val(g["pname"])), cL(files))
    return cP(sc, cP(cB(identical), cB(ctx_unchanged), out), exp)


TEMPLATE_SUFFIX = ".gotmpl"   # packagetypes/utils.go:13


def tcase_term(g):
    """What the template stage was given and what it left behind (paths and content digests interned)."""
    pid, did = Intern(start=1), Intern(start=1)
    before, after = g["files_before"] or {}, g["files_after"] or {}
    tm = sorted(p for p in before if p.endswith(TEMPLATE_SUFFIX))
    fl = lambda m: cL([cP(cN(pid(p)), cN(did(d))) for p, d in sorted(m.items())])
    # templates that are only in `after` matter too: the model must not execute them
    tm_all = sorted(set(tm) | {p for p in after if p.endswith(TEMPLATE_SUFFIX)})
    return cP(fl(before), cL([cN(pid(p)) for p in tm_all]),
              cL([cP(cN(pid(p)), cN(pid(p[:-len(TEMPLATE_SUFFIX)]))) for p in tm_all]), fl(after))


JUDGE = ("(fun ct => let '(c, t) := ct in let '(s, (i, u, o), e) := c in "
         "(agree c, monitor c, monitor (s, (true, true, o), e), expect_ok c, tagree t))")


def nondet_identity(cls):
    return {"witness:getfile": ID_GETFILE, "witness:keys": ID_KEYS, "witness:insert": ID_INSERT}.get(cls, ID_NONDET)


def slim(sc, obs=None):
    """Replayable scenario plus a compact view of the observation."""
    out = {"scenario": sc}
    if obs is not None:
        out["impl"] = {"all_identical": obs["all_identical"], "distinct_outputs": obs["distinct_outputs"],
                       "ctx_before": obs.get("ctx_before"), "ctx_after": obs.get("ctx_after"),
                       "ctx_unchanged": obs.get("ctx_unchanged"),
                       "deploy_outs": obs.get("deploy_outs"),
                       "groups": [{"count": g["count"], "err": g["err"], "hash": g["hash"], "json": g["json"][:1500],
                                   "phases": g["phases"], "files": g["files"]} for g in obs["groups"][:4]]}
    return out


# ------------------------------------------------------------------ function table sweep
def sweep_functions(run):
    outs = vlib.run_harness("render-funcs", [{"extra": IMPURE_DOCS + MAP_ORDER}], par=1)
    o = outs[0]
    if "obs" not in o:
        run.violation("corr:C13/render-funcs harness error", {"out": o}, False)
        return
    obs = o["obs"]
    allowed = sorted(set(obs["table"]) | set(obs["probed"]))
    impure = sorted(set(IMPURE_DOCS) | set(sprig_nonhermetic()))
    body = ["From Coq Require Import List String Bool.", "Import ListNotations.", "From PKOCorr Require Import C13Corr.",
            "Open Scope string_scope.",
            "(* generated by checks/C13.py from the function table of the tree under test *)",
            "Definition impure : list string := %s." % cL(['"%s"' % n for n in impure]),
            "Definition map_order : list string := %s." % cL(['"%s"' % n for n in MAP_ORDER]),
            "Definition allowed : list string := %s." % cL(['"%s"' % n for n in allowed]),
            "Definition R := Eval vm_compute in (pure_table impure allowed, impure_hits impure allowed,",
            "                                    pure_table map_order allowed, impure_hits map_order allowed).",
            "Print R."]
    rc, out = vlib.coqc_eval(os.path.join(vlib.BUILD, "C13"), "funcs_C13", "\n".join(body))
    m = re.search(r"R\s*=\s*\(\s*(true|false)\s*,\s*\[(.*?)\]\s*,\s*(true|false)\s*,\s*\[(.*?)\]\s*\)", out, re.S)
    if rc != 0 or not m:
        run.violation("corr:C13/coq-eval function table", {"correspondence": "coq evaluation failed", "log": out[-3000:]}, False)
        return
    hits = re.findall(r'"([^"]+)"', m.group(2))
    ohits = re.findall(r'"([^"]+)"', m.group(4))
    if (m.group(1) == "true") != (not hits) or (m.group(3) == "true") != (not ohits):
        run.violation("corr:C13/coq-eval function table", {"correspondence": "inconsistent sweep result", "log": out[-3000:]}, False)
    for h in hits:
        run.violation(ID_IMPURE % h, {"function": h, "scenario": "template function table of RenderTemplates",
                                      "impl": {"allowed": allowed}}, True)
    if ohits:
        # the names alone decide nothing (since 514b770 they are wrapped to order by key); the keys/values
        # packages of the corpus do
        run.notes.append("function table has names sprig documents as map-order dependent (%s); "
                         "their determinism is checked by the keys/values packages" % ",".join(ohits))
    unknown = sorted(set(allowed) - set(obs["sprig_all"]) - set(KNOWN_EXTRA) - set(obs["builtins"]))
    if unknown:
        run.violation("corr:C13/template function of unknown provenance: " + ",".join(unknown),
                      {"correspondence": "function table contains names the sweep cannot classify", "names": unknown}, False)
    missed = sorted(set(obs["probed"]) - set(obs["table"]) - set(obs["builtins"]))
    if missed:
        run.notes.append("functions reachable from templates but not in SprigFuncs/FileFuncs/cel: " + ",".join(missed))
    run.cov["function_table"] = {"allowed": len(allowed), "impure_names": len(impure), "impure_hits": hits,
                                 "map_order_hits": ohits, "candidates_probed": obs["candidates"]}
    return len(allowed)


# ------------------------------------------------------------------ the check
def check(run, tier, seed, replay=None):
    run.assumptions += [
        "CEL evaluation, YAML parsing and template execution are taken as reported by the real stages (oracles of the model); "
        "their results are cross-checked against the generator's own knowledge of every generated package",
        "map iteration orders are sampled (N renders from fresh maps), not enumerated; collector and template stage (as fixed "
        "by 10a6940) are proved order-independent for all enumerations in the model",
        "manifest phase names pairwise different (ValidatePackageManifest) and paths free of NUL bytes, checked per case",
        "validateConstraints (needs an API client) is covered by C16; the harness runs Deploy with no constraints",
        "input preservation: one render context object is shared by the N stepwise renders of a package and its JSON digest is "
        "compared before the first and after the last render (the real Deploy builds a fresh context per call)",
    ]
    vlib.std_proof_stage(run, "C13")
    ok, blog = vlib.build_harness()
    if not ok:
        run.violation("corr:harness-build", {"correspondence": "harness no longer builds against the tree", "log": blog[-4000:]}, False)
        return
    nfuncs = sweep_functions(run) or 0
    scs = [json.load(open(replay))["replay"]["scenario"]] if replay else gen(seed, tier)
    scs = [s for s in scs if isinstance(s, dict) and "harness" in s]
    outs = vlib.run_harness("render", [s["harness"] for s in scs], par=8)
    terms, where = [], []
    renders = 0
    for i, (sc, o) in enumerate(zip(scs, outs)):
        cls = sc["class"]
        if "obs" not in o:
            if "panic" in o and cls == "malformed":
                run.notes.append("panic on a malformed package (robustness is C19's subject): " + o["panic"][:120])
            else:
                run.violation("corr:C13/render harness error", {"scenario": sc, "out": {k: str(v)[:2000] for k, v in o.items()}}, False)
            continue
        obs = o["obs"]
        renders += obs["reps"] + obs["deploy_reps"]
        groups = obs["groups"]
        rendered = [g for g in groups if not g["err"]]
        errs = sorted({g["err"] for g in groups if g["err"]})
        if any(e.startswith("harness-") or e.startswith("scenario-") for e in errs):
            run.violation("corr:C13/harness could not observe the collection stage", slim(sc, obs), False)
            continue
        if not obs["ctx_unchanged"]:
            run.violation(ID_CTX, slim(sc, obs), True)
        elif not obs["all_identical"]:
            run.violation(nondet_identity(cls), slim(sc, obs), True)
        if sc["expect_err"] is not None:
            if rendered or any(not d["rejected"] for d in obs.get("deploy_outs") or []):
                run.violation(ID_ACCEPTED + " (%s)" % cls, slim(sc, obs), True)
            elif errs != [sc["expect_err"]]:
                run.violation("corr:C13/rejected for another reason than the generator intended", slim(sc, obs), False)
        elif sc["expected"] is not None and errs:
            run.violation("corr:C13/valid generated package is rejected", slim(sc, obs), False)
        key = (cls, len(rendered[0]["manifest_phases"]) if rendered else 0,
               tuple(f["path"] for f in rendered[0]["files"]) if rendered else (),
               sum(len(p["objs"]) for p in rendered[0]["phases"]) if rendered else 0, tuple(errs))
        nobj = sum(len(f["objs"]) for f in rendered[0]["files"]) if rendered else 0
        if nobj >= 2 or (errs and errs != ["other"]):
            run.classes.add(key)
        for g in rendered:
            if len(set(g["manifest_phases"])) != len(g["manifest_phases"]) or any("\x00" in f["path"] for f in g["files"]):
                run.violation("corr:C13/case outside the model's hypotheses", slim(sc, obs), False)
                continue
            g["pname"] = sc["harness"]["package"]["name"]
            terms.append(cP(case_term(g, obs["all_identical"], obs["ctx_unchanged"], sc["expected"]), tcase_term(g)))
            where.append((i, g))
    res, logs = vlib.judge_cases("C13", IMPORTS, JUDGE, terms, 5, shard=60)
    for l in logs:
        run.violation("corr:C13/coq-eval", {"correspondence": "coq evaluation failed", "log": l}, False)
    for (i, g), r in zip(where, res):
        if r is None:
            continue
        sc, obs = scs[i], outs[i]["obs"]
        agree, mon, mon_ident, exp_ok, tagree = r
        if not tagree:
            run.violation("corr:C13/template stage model and implementation differ",
                          dict(slim(sc, obs), correspondence="C13Corr.tagree", files_before=g["files_before"],
                               files_after=g["files_after"]), False)
        if not mon_ident:
            run.violation(ID_COLLECT, slim(sc, obs), True)
        elif mon != (obs["all_identical"] and obs["ctx_unchanged"]):
            run.violation("corr:C13/monitor and harness disagree on repeated renders", slim(sc, obs), False)
        if sc["expected"] is not None and not exp_ok:
            # for the formerly order-dependent packages a wrong result is the old defect coming back
            ident = nondet_identity(sc["class"]) if sc["class"].startswith("witness:") else ID_EXPECT
            run.violation(ident, dict(slim(sc, obs), expected=sc["expected"]), True)
        if not agree:
            run.violation("corr:C13/collector model and implementation differ",
                          dict(slim(sc, obs), correspondence="C13Corr.agree"), False)
    run.cov["evaluations"] = len(terms) + 1
    run.cov["packages"] = len(scs)
    run.cov["renders"] = renders
    run.cov["rule"] = (
        "fixed corpus first (the getFile / keys-values / double-suffix packages that were order-dependent before "
        "10a6940 and 514b770), then structured random packages (1-4 phases, 1-8 object files from a pool of "
        "sort-order-stressing paths, 1-3 documents each, ~45%% templates with helpers/include/guards/range/getFile of static "
        "files, ~35%% with templates that write to .config (set/unset/merge/append) read back by another template and by CEL "
        "conditions, CEL condition annotations, conditional paths, images from a lock file, ~15%% multi-component), ~16%% with one "
        "injected defect and a known rejection class, ~12%% byte-damaged; each rendered N times from fresh file maps but with ONE render "
        "context object (digest compared before/after) through the deployer's sequence, plus the real Deploy; one evaluation = one distinct observation judged in Coq, +1 for the function "
        "table sweep over %d names; non-trivial = at least two parsed objects or a classified rejection; distinct = (class, "
        "phase count, object paths, collected objects, rejection classes)" % nfuncs)
    run.cov["samples"] = [slim(scs[i], outs[i].get("obs")) for i in (0, min(6, len(scs) - 1), len(scs) - 1)][:3]
    for s in run.cov["samples"]:
        if "impl" in s:
            for g in s["impl"]["groups"]:
                g["json"] = g["json"][:300]
