"""Shared driver pieces of C07 / C08."""
import json
import vlib, phaselib as pl, deplib as dl, depgen

ID_C07 = ("C07 second ObjectSet created for an unchanged template: the just-created ObjectSet without a revision "
          "is treated as a hash collision in the slow-cache branch")
ID_C07B = ("C07 ObjectSet created although the previous create is not listed yet (template edited in between): "
           "incomplete previous list, two ObjectSets with the same revision number")
ID_C08 = ("C08 revision archived although it controls an object of the next newer revision that lives in an ObjectSlice "
          "(the archive reconciler looks at inline objects only)")
ID_C08M = ("C08 revision archived although an ObjectSlice referenced by the next newer revision could not be read "
           "(its contents are unknown; the pass has to fail instead)")
ID_C08S = ("C08 object present in the outgoing and the incoming revision deleted during the handover "
           "(incoming revision keeps it in an ObjectSlice)")
ID_C08T = ("C08 object present in the outgoing and the incoming revision deleted during the handover "
           "(status.controllerOf of the outgoing revision stops at its first phase with a failing probe)")
ID_C08L = ("C08 object present in the outgoing and the incoming revision deleted during the handover "
           "(a paused pass of the outgoing revision could not see it: cache label removed by the teardown of an older revision)")
ID_C08A = ("C08 object present in the outgoing and the incoming revision deleted during the handover "
           "(outgoing revision archived on the Available report of a revision that does not control the object)")
ID_C08U = ("C08 revision archived although its status.controllerOf was never reported "
           "(unknown is not 'controls nothing') and no newer revision is Available")


def archived_unreported(sc, obs):
    """an archive request for a revision whose stored controllerOf is nil while no newer revision reports Available"""
    pre = sc["sets"]
    for st, so in zip(sc["steps"], obs["steps"]):
        if st["op"] == "dep":
            for e in so["events"]:
                if e["kind"] == "update" and e.get("life") == 2 and e["res"] in ("ok", "lost"):
                    r = next((s for s in pre if s["name"] == e["name"]), None)
                    if r is not None and not r["ctrlof"] and not r["ctrlset"] and \
                            not any(s["revision"] > r["revision"] and any(c[0] == 0 and c[1] == 0 for c in s["conds"]) for s in pre):
                        return True
        pre = so["sets"]
    return False
ID_C08P = ("C08 object present in the outgoing and the incoming revision deleted during the handover "
           "(status.controllerOf of the outgoing revision omits an object it controls in a phase it did reconcile)")


def handover_identity(sc, obs):
    """Which of the known ways led to the first handover violation of a history; None = none of them."""
    pre_sets, pre_store = sc["sets"], sc["store"]
    for st, so in zip(sc["steps"], obs["steps"]):
        if st["op"] == "set":
            r = next((s for s in pre_sets if s["name"] == st["name"]), None)
            if r is not None and r["life"] == 2:
                gone = [o for o in pre_store if not any(p["gk"] == o["gk"] and p["ns"] == o["ns"] and p["name"] == o["name"] for p in so["post"])]
                newer = sorted([s for s in pre_sets if s["revision"] > r["revision"]], key=lambda s: s["revision"])
                if gone and newer and newer[0]["life"] != 2:
                    nx = newer[0]
                    shared = [o for o in gone if any(q["gk"] == o["gk"] and q["name"] == o["name"] for p in nx["phases"] for q in p["objects"])]
                    if shared:
                        o = shared[0]
                        if any(k["gk"] == o["gk"] and k["name"] == o["name"] for k in r["ctrlof"]):
                            return ID_C08A
                        if not o["cache"]:
                            return ID_C08L
                        if len(r["phases"]) > 1:
                            # F-C08c: the object sits BEHIND the first phase whose probe fails (Widgets, kind 2, are probed)
                            def fails(p):
                                for q in p["objects"]:
                                    if q["gk"] == 2:
                                        ob = next((x for x in pre_store if x["gk"] == 2 and x["name"] == q["name"]), None)
                                        if ob is None or ob["avail"] != 1:
                                            return True
                                return False
                            failing = next((i for i, p in enumerate(r["phases"]) if fails(p)), None)
                            mine = next((i for i, p in enumerate(r["phases"]) if any(q["gk"] == o["gk"] and q["name"] == o["name"] for q in p["objects"])), None)
                            if failing is not None and mine is not None and mine > failing:
                                return ID_C08T
                            return ID_C08P
                        return None
        pre_sets, pre_store = so["sets"], so["post"]
    return None
ID_NS_PREV = "C07 ObjectSet created with an ObjectSet of another namespace in spec.previous (or none created because of one)"
ID_NS_REQ = "C08 deployment pass pauses / archives / deletes / creates an ObjectSet outside the deployment's namespace"


def namespace_violations(sc, obs):
    """Observational: requests of deployment passes and the foreign ObjectSets themselves. Returns a set of identities."""
    out = set()
    if not sc.get("foreign"):
        return out
    fnames = {f["name"] for f in sc["foreign"]}
    show = lambda fs: [(f["name"], f["life"], f["deleting"], f["pbp"]) for f in fs]
    before = show(sorted(sc["foreign"], key=lambda f: f["name"]))
    own = {s["name"] for s in sc["sets"]}
    for st, so in zip(sc["steps"], obs["steps"]):
        for e in so["events"]:
            if e.get("otherns"):
                out.add(ID_NS_REQ)
            if e["kind"] == "create" and any(p in fnames and p not in own for p in e.get("prev") or []):
                out.add(ID_NS_PREV)
        if show(so.get("foreign", [])) != before:
            out.add(ID_NS_REQ)
        own = {s["name"] for s in so["sets"]}
    return out


def note_shapes(run):
    run.cov["model"] = ("the code as it is: slow-cache test accepts revision 0 (0384cff), archive reconciler reads ObjectSlices (f07b836); "
                        "the shapes before these commits are kept as _v0 definitions with _v0_refuted theorems only")


def has_stale(sc):
    return any(s["op"] == "dep" and s.get("stale") for s in sc["steps"])


def has_slices(sc):
    return any(o["gk"] == 9 for s in sc["sets"] for p in s["phases"] for o in p["objects"]) or \
        any(o["gk"] == 9 for s in sc["steps"] if s["op"] == "edit" for p in sc["alphabet"][s["tmpl"] - 1] for o in p["objects"]) or \
        any(o["gk"] == 9 for p in sc["alphabet"][sc["dep"]["tmpl"] - 1] for o in p["objects"])


def has_missing_slice(sc):
    have = {s["name"] for s in sc.get("slices", [])}
    refs = {o["name"] for s in sc["sets"] for p in s["phases"] for o in p["objects"] if o["gk"] == 9}
    return bool(refs - have)


def pass_class(st, so):
    if st["op"] != "dep":
        return (st["op"],)
    return ("dep", bool(st.get("stale")), (st.get("fault") or [None, None])[1], so["res"],
            tuple((e["kind"], e["res"], e.get("life") if e["kind"] == "update" else None) for e in so["events"]))


def slim_obs(obs):
    return [{"res": s["res"], "events": s["events"], "dep": s["dep"],
             "sets": [{k: x[k] for k in ("name", "life", "revision", "prev", "hash", "pbp", "conds", "ctrlof", "deleting")} for x in s["sets"]],
             "foreign": [(x["name"], x["life"], x["deleting"], x["pbp"]) for x in s.get("foreign", [])]}
            for s in obs["steps"]]
