"""Shared driver pieces of C07 / C08: which variants of the code the tree under test follows (witness scenarios)."""
import json
import vlib, phaselib as pl, deplib as dl, depgen

ID_C07 = ("C07 second ObjectSet created for an unchanged template: the just-created ObjectSet without a revision "
          "is treated as a hash collision in the slow-cache branch")
ID_C07B = ("C07 ObjectSet created although the previous create is not listed yet (template edited in between): "
           "incomplete previous list, two ObjectSets with the same revision number")
ID_C08 = ("C08 revision archived although it controls an object of the next newer revision that lives in an ObjectSlice "
          "(the archive reconciler looks at inline objects only)")
ID_C08S = ("C08 object present in the outgoing and the incoming revision deleted during the handover "
           "(incoming revision keeps it in an ObjectSlice)")


def witnesses():
    ctx = dl.Ctx(dl.ALPHABET)
    old = dl.mk_dset(ctx, ctx.h(2), 101, 2, 1, hash=ctx.h(2), conds=[depgen.AV_T(1), depgen.SUCC(1)])
    w07 = dl.scenario(ctx, dl.mk_dep(ctx, 1), [old], [{"op": "dep"}, {"op": "dep", "stale": True}])
    r1 = dl.mk_dset(ctx, ctx.h(1), 101, 1, 1, hash=ctx.h(1), conds=[depgen.AV_F(1)], ctrlof=[{"gk": 1, "ns": 1, "name": 1}])
    r2 = dl.mk_dset(ctx, ctx.h(5), 102, 5, 2, hash=ctx.h(5), prev=[ctx.h(1)], conds=[depgen.AV_F(1)])
    w08 = dl.scenario(ctx, dl.mk_dep(ctx, 5), [r1, r2], [{"op": "dep"}])
    return w07, w08


def detect_variants(run):
    """Sets deplib.REV0OK / deplib.SLICEAWARE from the behaviour of the tree under test. Returns False on harness trouble."""
    w07, w08 = witnesses()
    outs = vlib.run_harness("deployment", [w07, w08])
    if any("obs" not in o for o in outs):
        run.violation("corr:%s/witness harness error" % run.pid, {"out": outs}, False)
        return False
    # F-C07 witness: after the stale pass the collision counter is still unset iff the slow-cache test accepts revision 0
    dl.REV0OK = outs[0]["obs"]["steps"][1]["dep"]["cc"] is None
    # second half of F-C14: the unavailable revision 1 is asked to pause iff the getter does not see slice 7
    dl.SLICEAWARE = not any(e["kind"] == "update" for e in outs[1]["obs"]["steps"][0]["events"])
    run.notes.append("new-revision reconciler follows the %s slow-cache test (witness: create, stale List, Get sees revision 0 -> %s)" % (
        "repaired" if dl.REV0OK else "current", "no collision" if dl.REV0OK else "collisionCount bumped"))
    run.notes.append("archive reconciler %s (witness: unavailable revision 1 controls ConfigMap n1, revision 2 keeps it in ObjectSlice sl7 -> %s)" % (
        "reads the ObjectSlices of the next revision" if dl.SLICEAWARE else "looks at inline objects only",
        "revision 1 left alone" if dl.SLICEAWARE else "revision 1 paused for archival"))
    run.cov["implementation_model"] = "rev0ok=%s sliceaware=%s" % (dl.REV0OK, dl.SLICEAWARE)
    return True


def has_stale(sc):
    return any(s["op"] == "dep" and s.get("stale") for s in sc["steps"])


def has_slices(sc):
    return any(o["gk"] == 9 for s in sc["sets"] for p in s["phases"] for o in p["objects"]) or \
        any(o["gk"] == 9 for s in sc["steps"] if s["op"] == "edit" for p in sc["alphabet"][s["tmpl"] - 1] for o in p["objects"]) or \
        any(o["gk"] == 9 for p in sc["alphabet"][sc["dep"]["tmpl"] - 1] for o in p["objects"])


def pass_class(st, so):
    if st["op"] != "dep":
        return (st["op"],)
    return ("dep", bool(st.get("stale")), (st.get("fault") or [None, None])[1], so["res"],
            tuple((e["kind"], e["res"], e.get("life") if e["kind"] == "update" else None) for e in so["events"]))


def slim_obs(obs):
    return [{"res": s["res"], "events": s["events"], "dep": s["dep"],
             "sets": [{k: x[k] for k in ("name", "life", "revision", "prev", "hash", "pbp", "conds", "ctrlof", "deleting")} for x in s["sets"]]}
            for s in obs["steps"]]
