"""C02 handover: theorems in props/C02.v; adoption table + random phases, monitor on every apply."""
import phasecheck as pc


def check(run, tier, seed, replay=None):
    scs = pc.table(tier) + pc.random_phases(seed + 1, 400 if tier == "quick" else 8000)
    pc.phase_check(run, "C02", tier, seed, replay, scs, "C02Corr.judge",
                   lambda sc, obs: "C02 adoption from a higher revision, lowered revision, or more/less than one controller after handover",
                   "adoption table and seeded random multi-object phases (handover states: previous direct / via remote phase / "
                   "demoted / stale uid / foreign), both strategies", faults=True)
