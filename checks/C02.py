"""C02 handover: theorems in props/C02.v; adoption table + random phases, monitor on every apply."""
import json
import phasecheck as pc
import setcheck, vlib

CONTROLLER_ID = "C02 (Cluster)ObjectSet controller: adoption from a higher revision, revision lowered, apply over an unread object, or not exactly one controller"


def check(run, tier, seed, replay=None):
    rsc = json.load(open(replay))["replay"]["scenario"] if replay else None
    if rsc is not None and "target" in rsc:
        vlib.std_proof_stage(run, "C02")
        setcheck.controller_stage(run, "C02", tier, seed, "judge02s", CONTROLLER_ID, replay_sc=rsc)
        return
    scs = pc.table(tier) + pc.random_phases(seed + 1, 400 if tier == "quick" else 8000)
    pc.phase_check(run, "C02", tier, seed, replay, scs, "C02Corr.judge",
                   lambda sc, obs: "C02 adoption from a higher revision, lowered revision, or more/less than one controller after handover",
                   "adoption table and seeded random multi-object phases (handover states: previous direct / via remote phase / "
                   "demoted / stale uid / foreign), both strategies", faults=True)
    if not replay:
        setcheck.controller_stage(run, "C02", tier, seed, "judge02s", CONTROLLER_ID)
