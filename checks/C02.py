"""C02 handover: theorems in props/C02.v; adoption table + random phases, monitor on every apply."""
import json
import phasecheck as pc
import setcheck, vlib, dlglib as dl, C15 as dlg

CONTROLLER_ID = "C02 (Cluster)ObjectSet controller: adoption from a higher revision, revision lowered, apply over an unread object, or not exactly one controller"
HOSTED_ID = ("C02 ObjectSetPhase controller as wired by the managers (same-cluster / hosted-cluster): apply over an object the pass "
             "did not read, adoption from a higher revision, revision lowered (also: the ObjectSet's own revision recomputed lower "
             "between passes), or not exactly one controller")


def hosted(seed, tier):
    """Passes of the real ObjectSetPhase controllers, built through their constructors with the managers' argument
    roles, two recording servers in hosted-cluster mode: members missing from the dynamic cache and controlled by a
    newer revision, teardown reads, and ObjectSets with phase objects and members in arbitrary states."""
    r = vlib.rng(seed, "C02h")
    scs = [dl.scenario_hosted(r, cluster, teardown) for cluster in (True, False) for teardown in (False, True)]
    # a previous revision vanishes between two passes of the next one: its revision must not be recomputed lower
    scs += [dl.scenario_prev_deleted(r), dl.scenario_prev_deleted(r, strategy="annot")]
    for i in range(24 if tier == "quick" else 400):
        scs.append(dl.scenario_states(r, strategy="annot" if i % 2 == 0 else "native"))
    return [dl.place(sc) for sc in scs]


def check(run, tier, seed, replay=None):
    rsc = json.load(open(replay))["replay"]["scenario"] if replay else None
    if rsc is not None and "stages" in rsc:
        vlib.std_proof_stage(run, "C02")
        n, _, _, _ = dlg.delegation_stage(run, "C02", [rsc], id_mon=HOSTED_ID, id_twin=HOSTED_ID, id_own=HOSTED_ID)
        run.cov["evaluations"] = n
        return
    if rsc is not None and "target" in rsc:
        vlib.std_proof_stage(run, "C02")
        setcheck.controller_stage(run, "C02", tier, seed, "judge02s", CONTROLLER_ID, replay_sc=rsc)
        return
    scs = pc.table(tier) + pc.random_phases(seed + 1, 400 if tier == "quick" else 8000)
    pc.phase_check(run, "C02", tier, seed, replay, scs, "C02Corr.judge",
                   lambda sc, obs: "C02 adoption from a higher revision, lowered revision, or more/less than one controller after handover",
                   "adoption table and seeded random multi-object phases (handover states: previous direct / via remote phase / "
                   "demoted / stale uid / foreign), both strategies", faults=True)
    if not replay:
        setcheck.controller_stage(run, "C02", tier, seed, "judge02s", CONTROLLER_ID)
        n, _, _, _ = dlg.delegation_stage(run, "C02", hosted(seed, tier), id_mon=HOSTED_ID, id_twin=HOSTED_ID, id_own=HOSTED_ID)
        run.cov["evaluations"] += n
