"""C05 teardown: theorems in props/C05.v; exhaustive teardown table x third-party op between read and write; plus
the orphan clause at the controller level (ObjectSets with local and delegated phases deleted with orphan propagation)."""
import phasecheck as pc
import json
import setgen, setlib as sl, vlib, dlglib as dl, C15 as dlg

ORPHAN_ID = "C05 ObjectSet teardown deletes a member or an ObjectSetPhase under orphan propagation, or an ObjectSetPhase it does not control"
DLG_ID = ("C05 delegated teardown: a phase object deleted with orphan propagation has its members deleted, or an ObjectSetPhase is "
          "deleted without having been read from the API server in this pass and found controlled by the ObjectSet")


def delegated_teardowns(seed, tier):
    """Passes of the real ObjectSetPhase and ObjectSet controllers on phase objects deleted with orphan propagation and on
    teardowns during which the cached client still serves an old incarnation of the phase object, plus ObjectSets with
    phase objects in arbitrary states (deleting / orphan finalizer among them)."""
    r = vlib.rng(seed, "C05d")
    scs = dl.teardown_corpus(r)
    for i in range(6 if tier == "quick" else 120):
        scs.append(dl.scenario_phase_orphan(r, r.random() < 0.3, "annot" if i % 3 == 2 else "native", with_set=r.random() < 0.7))
        scs.append(dl.scenario_lagged_teardown(r, r.random() < 0.3, r.choice(["recreated", "reowned", "released"]), archive=r.random() < 0.4))
    return [dl.place(sc) for sc in scs]


def orphan_sets(seed, n):
    """Deleting ObjectSets carrying the orphan finalizer: local-only worlds and worlds with delegated phases."""
    out = []
    for sc in setgen.gen(seed, n // 3, salt="C05o") + setgen.gen_delegated(seed, n - n // 3, salt="C05od"):
        t = [s for s in sc["sets"] if s["name"] == sc["target"]["name"] and s["kind"] == sc["target"]["kind"]][0]
        t["conds"] = [c for c in t["conds"] if not (c[0] == 4 and c[1] == 0)]   # not yet archived
        t["deleting"], t["orphan"], t["fin"] = True, True, True
        out.append(sc)
    return out


def going_sets(seed, n):
    """ObjectSets with delegated phases that are being deleted or archived (no orphan finalizer): a phase object is
    deleted (or its finalizer stripped) only after it was read in this pass and found controlled by THIS ObjectSet;
    phase objects controlled by another ObjectSet, by nobody, or recorded under a stale uid are left alone."""
    out = []
    for i, sc in enumerate(setgen.gen_delegated(seed, n, salt="C05g")):
        t = [s for s in sc["sets"] if s["name"] == sc["target"]["name"] and s["kind"] == sc["target"]["kind"]][0]
        t["conds"] = [c for c in t["conds"] if not (c[0] == 4 and c[1] == 0)]
        t["orphan"], t["fin"] = False, True
        if i % 2:
            t["deleting"] = True
        else:
            t["life"] = 2
        out.append(sc)
    return out


def check(run, tier, seed, replay=None):
    rsc = json.load(open(replay))["replay"]["scenario"] if replay else None
    if rsc is not None and "stages" in rsc:
        vlib.std_proof_stage(run, "C05")
        n, _, _, _ = dlg.delegation_stage(run, "C05", [rsc], id_mon=DLG_ID, id_twin=DLG_ID, id_own=DLG_ID)
        run.cov["evaluations"] = n
        return
    set_replay = rsc is not None and "target" in rsc
    scs = [] if set_replay else pc.teardown_table(tier) + pc.random_teardowns(seed, 300 if tier == "quick" else 6000)
    pc.phase_check(run, "C05", tier, seed, None if set_replay else replay, scs, "C05Corr.judge",
                   lambda sc, obs: "C05 delete of an uncontrolled object / wrong preconditions / effect on a different version / foreign object touched",
                   "exhaustive teardown table (ownership state x strategy x teardown preflight outcome x third-party op between "
                   "read and write x finalizer x cache label) through the real TeardownPhase on the recording server, plus seeded random teardowns; "
                   "plus deleting ObjectSets with the orphan finalizer (local and delegated phases, ObjectSetPhase objects in arbitrary "
                   "states) through the real (Cluster)ObjectSet controller: no delete of any member and no delete / finalizer strip of any ObjectSetPhase", faults=True)
    if replay and not set_replay:
        return
    osc = [rsc] if set_replay else orphan_sets(seed, 120 if tier == "quick" else 1500) + going_sets(seed, 150 if tier == "quick" else 2000)
    res = sl.run_cases(run, osc, "judge05sg", 2, "From PKOCorr Require Import SetMonitors SetJudges.")
    run.cov["evaluations"] += len(res)
    for sc, obs, r in res:
        if r is None:
            continue
        agree, mon = r
        run.classes.add(("orphan-set", obs["res"], tuple((e["kind"], (e.get("member") or {}).get("verb") or (e.get("phase") or {}).get("op")) for e in obs["events"])))
        if not mon:
            run.violation(ORPHAN_ID, {"scenario": sc, "impl": obs}, True)
        elif not agree:
            run.violation("corr:C05/ObjectSet controller model and implementation differ",
                          {"correspondence": "SetCorr.agree", "scenario": sc, "impl": obs}, False)
    if not replay:
        n, _, _, _ = dlg.delegation_stage(run, "C05", delegated_teardowns(seed, tier), id_mon=DLG_ID, id_twin=DLG_ID, id_own=DLG_ID)
        run.cov["evaluations"] += n
