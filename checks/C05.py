"""C05 teardown: theorems in props/C05.v; exhaustive teardown table x third-party op between read and write."""
import phasecheck as pc


def check(run, tier, seed, replay=None):
    scs = pc.teardown_table(tier) + pc.random_teardowns(seed, 300 if tier == "quick" else 6000)
    pc.phase_check(run, "C05", tier, seed, replay, scs, "C05Corr.judge",
                   lambda sc, obs: "C05 delete of an uncontrolled object / wrong preconditions / effect on a different version / foreign object touched",
                   "exhaustive teardown table (ownership state x strategy x teardown preflight outcome x third-party op between "
                   "read and write x finalizer x cache label) through the real TeardownPhase on the recording server, plus seeded random teardowns", faults=True)
