"""C14: chunking laws (theorems in props/C14.v) + correspondence of the real chunkers with Chunk.v."""
import json
import vlib
from vlib import cN, cB, cL, cP, cO

IMPORTS = "From PKOCorr Require Import C14Corr."


def gen(seed, tier):
    r = vlib.rng(seed, "C14")
    out = []
    # corpus-like fixed cases first
    fixed = [[], [(12, 0)], [(12, 1)], [(6, 0), (6, 0)], [(6, 0), (6, 1)], [(12, 0), (0, 0)], [(13, 0), (13, 0)],
             [(4, 0), (4, 0), (4, 0)], [(4, 0), (4, 0), (4, 1)], [(11, 0), (1, 0), (1, 0)], [(0, 0)] * 5]
    for f in fixed:
        for st in ("binpack", "each"):
            out.append({"strategy": st, "sizes": [{"q": q, "d": d} for q, d in f]})
    n = 120 if tier == "quick" else 1500
    for _ in range(n):
        k = r.choice([1, 2, 2, 3, 3, 4, 5, 6, 8])
        sizes = []
        for _ in range(k):
            q = r.choice([0, 1, 2, 3, 4, 6, 6, 8, 11, 12, 12, 13])
            d = r.choice([0, 0, 0, 1, -1, 2, -2, r.randint(-50, 50)])
            sizes.append({"q": q, "d": d})
        out.append({"strategy": "each" if r.random() < 0.15 else "binpack", "sizes": sizes})
    return out


def term(sc, obs):
    out = None if obs["bypass"] else cL([cL([cN(i) for i in c]) for c in obs["chunks"]])
    return cP(cB(sc["strategy"] == "binpack"), cN(obs["limit"]), cL([cN(s) for s in obs["sizes"]]), cO(out))


def check(run, tier, seed, replay=None):
    run.assumptions += ["object sizes are positive (len(json.Marshal(obj)) >= 2), checked per case",
                        "sliced-vs-inline pass equivalence and slice GC are covered by the pass-level checks (see DESIGN)"]
    vlib.std_proof_stage(run, "C14")
    ok, blog = vlib.build_harness()
    if not ok:
        run.violation("corr:harness-build", {"correspondence": "harness no longer builds against the tree", "log": blog[-4000:]}, False)
        return
    scs = [json.load(open(replay))["replay"]["scenario"]] if replay else gen(seed, tier)
    outs = vlib.run_harness("chunk", scs, par=8)
    terms, idx = [], []
    for i, (sc, o) in enumerate(zip(scs, outs)):
        if "obs" not in o:
            run.violation("corr:C14/chunk harness error", {"scenario": sc, "out": o}, False)
            continue
        if any(s <= 0 for s in o["obs"]["sizes"]):
            run.violation("corr:C14/nonpositive size", {"scenario": sc, "out": o}, False)
            continue
        terms.append(term(sc, o["obs"]))
        idx.append(i)
    res, logs = vlib.judge_cases("C14", IMPORTS, "judge", terms, 2)
    for l in logs:
        run.violation("corr:C14/coq-eval", {"correspondence": "coq evaluation failed", "log": l}, False)
    run.cov["evaluations"] = len(terms)
    for i, r in zip(idx, res):
        if r is None:
            continue
        sc, obs = scs[i], outs[i]["obs"]
        cls = (sc["strategy"], obs["bypass"], len(obs["chunks"]), tuple(len(c) for c in obs["chunks"]))
        if len(obs["sizes"]) >= 2:
            run.classes.add(cls)
        agree, mon = r
        if not mon:
            run.violation("C14 chunking loses, reorders or oversizes objects (%s)" % sc["strategy"],
                          {"scenario": sc, "impl": obs}, True)
        elif not agree:
            run.violation("corr:C14/chunk model and implementation differ",
                          {"correspondence": "C14Corr.agree", "scenario": sc, "impl": obs}, False)
    run.cov["rule"] = ("size vectors in twelfths of the real 1 MiB limit +- a few bytes, objects padded to the exact size; "
                       "non-trivial = at least two objects; distinct = (strategy, bypass, slice-length vector)")
    run.cov["samples"] = [{"scenario": scs[i], "impl": outs[i].get("obs")} for i in idx[:3]]
