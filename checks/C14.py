"""C14: ObjectSlices are a transparent, lossless encoding of phase objects.
Stages: chunk laws (real chunkers vs Chunk.v), slice names (real chunkPhase/reconcileSlice vs Slices.chunk_phase),
slice garbage collection (histories of the real DeploymentReconciler.Reconcile vs Slices.slice_gc), and the sliced
ObjectSet (real (Cluster)ObjectSet controller on twin worlds, inline vs sliced, vs Slices.sliced_pass[_fixed])."""
import copy
import json
import os
import vlib
import phaselib as pl
import setlib as sl
import setgen
import dlglib as dl
from vlib import cN, cB, cL, cP, cO

IMPORTS = "From PKOCorr Require Import C14Corr."
SIMPORTS = ("From PKO Require Import Base Owner Api Phase ObjectSet Slices.\n"
            "From PKOCorr Require Import PhaseCorr SetCorr C14SliceCorr.")

F_C14 = ("C14 sliced ObjectSet is torn down/archived before its slices are loaded: objects in slices are not deleted "
         "in order (deletion) or not at all (archival)")
ID_DEPLOYVIEW = ("C14 the ObjectDeployment controller (archive decision) sees other objects for a revision whose objects live in "
                 "ObjectSlices than for the same revision with the objects inline")
ID_DEPLOYVIEW_MISSING = ("C14 the ObjectDeployment controller (archive decision) takes a partial object list for a revision although one "
                         "of its ObjectSlices cannot be read")
ID_TEARDOWN = ("C14 a deleted / archived ObjectSet referencing ObjectSlices is not torn down like the ObjectSet with the objects of its "
               "existing slices inline (objects of a slice left behind, or deleted out of order)")
ID_ACTIVE = "C14 sliced ObjectSet rolls out or reports status differently from the same ObjectSet with the objects inline"
ID_MISSING = ("C14 an ObjectSet whose referenced slice cannot be loaded is rolled out anyway "
              "(member or phase objects written, or availability newly reported, without the slice's objects)")
ID_FAULT = ("C14 a failed read of a referenced slice during teardown/archival is treated as 'slice gone': the ObjectSet is torn down "
            "without the slice's objects (finalizer removed / Archived=True / members deleted out of order) instead of erroring")
ID_NAMES = "C14 slice name reused for different content or a foreign controller, or an existing slice modified"
ID_LOSSLESS = ("C14 the slices named by the stored deployment template do not decode to the phase's objects "
               "(a slice name was reused for different content)")
ID_REDEPLOY = ("C14 redeploying the unchanged package creates new ObjectSlices / changes the slice names of the template "
               "(names are not determined by content: the stored slice never equals the rendered one)")
ID_GC = "C14 slice garbage collection deleted a slice that the template or an ObjectSet of the deployment references"


# ------------------------------------------------------------------ chunk laws (clause 1)

def gen(seed, tier):
    r = vlib.rng(seed, "C14")
    out = []
    # corpus-like fixed cases first
    fixed = [[], [(12, 0)], [(12, 1)], [(6, 0), (6, 0)], [(6, 0), (6, 1)], [(12, 0), (0, 0)], [(13, 0), (13, 0)],
             [(4, 0), (4, 0), (4, 0)], [(4, 0), (4, 0), (4, 1)], [(11, 0), (1, 0), (1, 0)], [(0, 0)] * 5]
    for f in fixed:
        for st in ("binpack", "each"):
            out.append({"strategy": st, "sizes": [{"q": q, "d": d} for q, d in f]})
    n = 120 if tier == "quick" else 4000
    for _ in range(n):
        k = r.choice([1, 2, 2, 3, 3, 4, 5, 6, 8])
        sizes = []
        for _ in range(k):
            q = r.choice([0, 1, 2, 3, 4, 6, 6, 8, 11, 12, 12, 13])
            d = r.choice([0, 0, 0, 1, -1, 2, -2, r.randint(-50, 50)])
            sizes.append({"q": q, "d": d})
        out.append({"strategy": "each" if r.random() < 0.15 else "binpack", "sizes": sizes})
    return out


def term(sc, obs):
    out = None if obs["bypass"] else cL([cL([cN(i) for i in c]) for c in obs["chunks"]])
    return cP(cB(sc["strategy"] == "binpack"), cN(obs["limit"]), cL([cN(s) for s in obs["sizes"]]), cO(out))


def chunk_stage(run, scs):
    outs = vlib.run_harness("chunk", scs, par=8)
    terms, idx = [], []
    for i, (sc, o) in enumerate(zip(scs, outs)):
        if "obs" not in o:
            run.violation("corr:C14/chunk harness error", {"scenario": sc, "out": o}, False)
            continue
        if any(s <= 0 for s in o["obs"]["sizes"]):
            run.violation("corr:C14/nonpositive size", {"scenario": sc, "out": o}, False)
            continue
        terms.append(term(sc, o["obs"]))
        idx.append(i)
    res, logs = vlib.judge_cases("C14", IMPORTS, "judge", terms, 2)
    for l in logs:
        run.violation("corr:C14/coq-eval", {"correspondence": "coq evaluation failed", "log": l}, False)
    for i, r in zip(idx, res):
        if r is None:
            continue
        sc, obs = scs[i], outs[i]["obs"]
        cls = ("chunk", sc["strategy"], obs["bypass"], len(obs["chunks"]), tuple(len(c) for c in obs["chunks"]))
        if len(obs["sizes"]) >= 2:
            run.classes.add(cls)
        agree, mon = r
        if not mon:
            run.violation("C14 chunking loses, reorders or oversizes objects (%s)" % sc["strategy"],
                          {"scenario": sc, "impl": obs}, True)
        elif not agree:
            run.violation("corr:C14/chunk model and implementation differ",
                          {"correspondence": "C14Corr.agree", "scenario": sc, "impl": obs}, False)
    return len(terms), [{"scenario": scs[i], "impl": outs[i].get("obs")} for i in idx[:1]]


# ------------------------------------------------------------------ slice names (clause 2)

def load_collisions():
    """Corpus of real 32-bit collisions of the slice-name hash between contents with the same object identities."""
    try:
        return [tuple(p) for p in json.load(open(os.path.join(vlib.VERIF, "checks", "c14_collisions.json")))["pairs"]]
    except (OSError, ValueError, KeyError):
        return []


def validate_collisions(run):
    """Re-validates the corpus against the real hash of the tree under test: a changed hash function is noticed."""
    pairs = load_collisions()
    if not pairs:
        run.notes.append("collision corpus checks/c14_collisions.json missing or empty: forced clashes come from pre-placed slices only")
        return
    outs = vlib.run_harness("slicenames", [{"cluster": False, "contents": [a, b], "maxcc": 0, "pre": [], "chunks": []} for a, b in pairs])
    good = 0
    for (a, b), o in zip(pairs, outs):
        names = {c: n for c, _, n in o.get("obs", {}).get("names", [])}
        if names.get(a) is not None and names.get(a) == names.get(b):
            good += 1
        else:
            vlib.log("C14: corpus pair %s no longer collides under the real slice-name hash" % ((a, b),))
    run.notes.append("collision corpus: %d of %d pairs collide under the real utils.ComputeFNV32Hash of this tree%s" % (
        good, len(pairs), "" if good == len(pairs) else " (hash function changed? regenerate with harness mode slicecollide; "
        "the pre-placed-slice scenarios still force every clash)"))


def gen_names(seed, tier):
    """Contents are numbers; numbers equal modulo 3 list the same object identities with different manifests."""
    r = vlib.rng(seed, "C14/names")
    out = []

    def mk(pre, chunks, cluster=False, extra=()):
        contents = sorted({c for c in chunks} | {a[0] for a, _, _ in pre} | {c for _, c, _ in pre} | set(extra))
        return {"cluster": cluster, "contents": contents, "maxcc": len(pre) + 2,
                "pre": [{"at": list(a), "content": c, "ctrl": k} for a, c, k in pre], "chunks": chunks}
    # exhaustive small scope: one chunk (content 0); every kind of holder of its first and of its second name:
    # equal content (0), other objects (1), the same objects with other manifests (3) x controller kind
    holders = [None] + [(c, k) for c in (0, 1, 3) for k in (0, 1, 2, 3)]
    for h0 in holders:
        for h1 in holders:
            pre = []
            if h0:
                pre.append(((0, 0), h0[0], h0[1]))
            if h1:
                pre.append(((0, 1), h1[0], h1[1]))
            out.append(mk(pre, [0]))
    out.append(mk([], [0, 1, 0, 2, 1]))                    # equal chunks share a slice
    out.append(mk([((0, 0), 1, 1)], [0, 0], True))         # cluster scope
    out.append(mk([((4, 0), 7, 1), ((4, 1), 1, 1)], [4, 7]))  # same identities, other manifests, controlled: must not be reused
    # real hash collisions: the slice of the old revision is still there when the update arrives
    for a, b in load_collisions():
        out.append(mk([((a, 0), a, 1)], [b]))
        out.append(mk([((b, 0), b, 1)], [a, b]))
    n = 200 if tier == "quick" else 6000
    for _ in range(n):
        k = r.choice([3, 4, 6, 7, 9])
        chunks = [r.randrange(k) for _ in range(r.choice([1, 2, 2, 3, 4, 5]))]
        pre = []
        for _ in range(r.choice([0, 1, 2, 2, 3, 4, 6])):
            at = (r.choice(chunks) if r.random() < 0.85 else r.randrange(k), r.choice([0, 0, 0, 1, 1, 2, 3]))
            x = r.random()
            held = at[0] if x < 0.4 else (at[0] + 3 * r.choice([1, 2])) if x < 0.7 else r.randrange(k)
            pre.append((at, held, r.choice([0, 1, 1, 1, 1, 2, 3])))
        out.append(mk(pre, chunks, r.random() < 0.2))
    return out


def names_term(sc, obs):
    num = {}

    def nn(s):
        if s not in num:
            num[s] = len(num) + 1
        return num[s]

    def es(c, ctrl):
        return "{| es_content := %d; es_ctrl := %s |}" % (c if c >= 0 else 999, cB(ctrl))
    table = cL([cP(cN(c), cN(cc), cN(nn(n))) for c, cc, n in obs["names"]])
    pre = cL([cP(cN(nn(s["name"])), es(s["content"], s["ctrl"])) for s in obs["pre"]])
    post = cL([cP(cN(nn(s["name"])), es(s["content"], s["ctrl"])) for s in obs["post"]])
    created = {q["name"] for q in obs["requests"] if q["verb"] == "create" and not q.get("err")}
    outl, seen = [], set()
    for n in obs["slices"]:
        outl.append(cP(cN(nn(n)), cB(n in created and n not in seen)))
        seen.add(n)
    other = [q for q in obs["requests"] if q["verb"] != "create"]
    if other:
        raise pl.Unrepresentable("chunkPhase issued %s on a slice" % other[0]["verb"])
    return "(Build_ncase %s %s %s %s %s %s)" % (table, pre, cL([cN(c) for c in sc["chunks"]]), cB(bool(obs.get("err"))),
                                                cL(outl), post)


def names_stage(run, scs):
    outs = vlib.run_harness("slicenames", scs, par=8)
    terms, idx = [], []
    for i, (sc, o) in enumerate(zip(scs, outs)):
        if "obs" not in o:
            run.violation("corr:C14/slicenames harness error or panic", {"scenario": sc, "out": o}, False)
            continue
        try:
            terms.append(names_term(sc, o["obs"]))
            idx.append(i)
        except pl.Unrepresentable as e:
            run.violation("corr:C14/slicenames observation outside the model: %s" % e, {"scenario": sc, "impl": o["obs"]}, False)
    res, logs = vlib.judge_cases("C14", SIMPORTS, "njudge", terms, 2, tag="names")
    for l in logs:
        run.violation("corr:C14/coq-eval", {"correspondence": "coq evaluation failed (slicenames)", "log": l}, False)
    for i, r in zip(idx, res):
        if r is None:
            continue
        sc, obs = scs[i], outs[i]["obs"]
        reqs = tuple("c" if not q.get("err") else "x" for q in obs["requests"])
        if sc["pre"]:
            run.classes.add(("names", len(sc["chunks"]), reqs, len(set(obs["slices"]))))
        agree, mon = r
        if not mon:
            run.violation(ID_NAMES, {"scenario": sc, "impl": obs}, True)
        elif not agree:
            run.violation("corr:C14/slice naming model and implementation differ",
                          {"correspondence": "C14SliceCorr.nagree", "scenario": sc, "impl": obs}, False)
    return len(terms), [{"scenario": scs[i], "impl": {k: outs[i]["obs"][k] for k in ("slices", "requests")}} for i in idx[70:71]]


# ------------------------------------------------------------------ slice garbage collection (clause 4)

def gen_gc(seed, tier):
    r = vlib.rng(seed, "C14/gc")
    out = [
        # update drops a slice that the previous revision's ObjectSet still references; then that ObjectSet goes away
        {"cluster": False, "steps": [
            {"op": "deploy", "phases": [[0, 1], []]}, {"op": "newset", "name": 1, "listed": 0},
            {"op": "deploy", "phases": [[0, 2], [3]]}, {"op": "newset", "name": 2, "listed": 0},
            {"op": "deploy", "phases": [[2], []]}, {"op": "delset", "name": 1}, {"op": "deploy", "phases": [[2], []]},
            {"op": "delset", "name": 2}, {"op": "deploy", "phases": [[], []]}]},
        # ObjectSets outside the selector / namespace do not protect; labelled strangers are collected
        {"cluster": False, "steps": [
            {"op": "deploy", "phases": [[0, 1]]}, {"op": "newset", "name": 1, "listed": 1}, {"op": "newset", "name": 2, "listed": 2},
            {"op": "slice", "at": [3, 0], "label": 0, "ctrl": 2}, {"op": "slice", "at": [3, 1], "label": 1, "ctrl": 1},
            {"op": "slice", "at": [3, 2], "label": 2, "ctrl": 1}, {"op": "deploy", "phases": [[2]]}]},
        {"cluster": True, "steps": [
            {"op": "deploy", "phases": [[0, 1]]}, {"op": "newset", "name": 1, "listed": 0}, {"op": "deploy", "phases": [[2]]},
            {"op": "delset", "name": 1}, {"op": "deploy", "phases": [[2]]}]},
        # v1, v2 drops a slice, revision 1 is paused then archived (and later being deleted) but still exists, update to v3:
        # the slice dropped by v2 is still referenced by the archived revision
        {"cluster": False, "steps": [
            {"op": "deploy", "phases": [[0, 1]]}, {"op": "newset", "name": 1, "listed": 0},
            {"op": "deploy", "phases": [[0, 2]]}, {"op": "newset", "name": 2, "listed": 0},
            {"op": "setlife", "name": 1, "life": 1}, {"op": "deploy", "phases": [[0, 2]]},
            {"op": "setlife", "name": 1, "life": 2}, {"op": "deploy", "phases": [[0, 5]]},
            {"op": "setlife", "name": 1, "life": 2, "gone": True}, {"op": "deploy", "phases": [[0, 5]]},
            {"op": "delset", "name": 1}, {"op": "deploy", "phases": [[0, 5]]}]},
        {"cluster": True, "steps": [
            {"op": "deploy", "phases": [[0, 1]]}, {"op": "newset", "name": 1, "listed": 0, "life": 2},
            {"op": "deploy", "phases": [[2]]}, {"op": "deploy", "phases": [[2]]}]},
        # an update that keeps the objects and changes their manifests (0 -> 3) while a slice with the old manifests,
        # controlled by the deployment, sits under the name of the new content: the state a hash collision produces
        {"cluster": False, "steps": [
            {"op": "deploy", "phases": [[0, 1]]}, {"op": "newset", "name": 1, "listed": 0},
            {"op": "slice", "at": [3, 0], "label": 0, "ctrl": 1, "holds": 0}, {"op": "deploy", "phases": [[3, 1]]},
            {"op": "newset", "name": 2, "listed": 0}, {"op": "deploy", "phases": [[3, 1]]}]},
    ]
    # two chunked packages of the same name in two namespaces with different content, updated in turn: the collector of
    # one must not touch the slices of the other; unchanged redeploys in between
    out.append({"cluster": False, "steps": [
        {"op": "deploy", "phases": [[0, 1]]}, {"op": "deploy", "phases": [[2, 4]], "other": True},
        {"op": "newset", "name": 1, "listed": 0}, {"op": "newset", "name": 2, "listed": 0, "other": True},
        {"op": "deploy", "phases": [[0, 1]]}, {"op": "deploy", "phases": [[2, 4]], "other": True},
        {"op": "deploy", "phases": [[0, 5]]}, {"op": "deploy", "phases": [[7, 4]], "other": True},
        {"op": "delset", "name": 1}, {"op": "deploy", "phases": [[0, 5]]}, {"op": "deploy", "phases": [[7, 4]], "other": True}]})
    # objects whose only annotation is the CEL condition (contents 3, 4, 5), deployed twice unchanged
    out.append({"cluster": False, "steps": [{"op": "deploy", "phases": [[3, 4], [5]]}, {"op": "deploy", "phases": [[3, 4], [5]]},
                                            {"op": "newset", "name": 1, "listed": 0}, {"op": "deploy", "phases": [[3, 4], [5]]}]})
    out.append({"cluster": True, "steps": [{"op": "deploy", "phases": [[3, 9]]}, {"op": "deploy", "phases": [[3, 9]]}]})
    # the same with real collisions of the slice-name hash: revision 1 ships a, the update ships b (same objects,
    # other manifests, same 32-bit hash) while the slice of a still exists (its ObjectSet is still there)
    for a, b in load_collisions():
        out.append({"cluster": False, "steps": [
            {"op": "deploy", "phases": [[a, 1]]}, {"op": "newset", "name": 1, "listed": 0},
            {"op": "deploy", "phases": [[b, 1]]}, {"op": "newset", "name": 2, "listed": 0},
            {"op": "delset", "name": 1}, {"op": "deploy", "phases": [[b, 1]]}, {"op": "deploy", "phases": [[a], [b]]}]})
    n = 120 if tier == "quick" else 4000
    for _ in range(n):
        k = r.choice([3, 4, 6, 9, 12])
        nph = r.choice([1, 1, 2, 3])
        steps, sets, nset = [], [], 1

        cluster = r.random() < 0.2
        two = (not cluster) and r.random() < 0.35      # a same-named deployment in a second namespace
        last = {}

        def deploy():
            other = two and r.random() < 0.45
            if other in last and r.random() < 0.3:
                phases = last[other]                   # redeploy of the unchanged package
            else:
                phases = [[r.randrange(k) for _ in range(r.choice([0, 0, 1, 2, 2, 3]))] for _ in range(nph)]
            last[other] = phases
            st = {"op": "deploy", "phases": phases}
            if other:
                st["other"] = True
            return st
        steps.append(deploy())
        for _ in range(r.choice([2, 3, 4, 5, 6, 8])):
            x = r.random()
            if x < 0.3:
                st = {"op": "newset", "name": nset, "listed": r.choice([0, 0, 0, 0, 1, 2]),
                      "life": r.choice([0, 0, 0, 1, 2, 2]), "gone": r.random() < 0.1}
                if two and r.random() < 0.4:
                    st["other"], st["listed"] = True, r.choice([0, 0, 1])
                steps.append(st)
                sets.append(nset)
                nset += 1
            elif x < 0.4 and sets:
                # older revisions get paused, archived, deleted-but-still-there
                steps.append({"op": "setlife", "name": r.choice(sets), "life": r.choice([1, 2, 2, 2]), "gone": r.random() < 0.2})
            elif x < 0.5 and sets:
                steps.append({"op": "delset", "name": sets.pop(r.randrange(len(sets)))})
            elif x < 0.62:
                c = r.randrange(k)
                st = {"op": "slice", "at": [c, r.choice([0, 0, 1, 2])], "label": r.choice([0, 0, 1, 2]), "ctrl": r.choice([0, 1, 1, 2])}
                if r.random() < 0.6:
                    st["holds"] = r.choice([c + 3, c + 6, r.randrange(k)])      # mostly: same objects, other manifests
                steps.append(st)
            else:
                steps.append(deploy())
        steps.append(deploy())
        out.append({"cluster": cluster, "steps": steps})
    return out


def gc_terms(sc, obs_steps):
    """One case per deploy step of a history. Slices are numbered by (namespace, name)."""
    out = []
    prev = {}           # acting namespace -> (desired phases, template names) of its previous deploy step
    for o in obs_steps:
        num = {}
        A = o["ns"]

        def nn(ns, s):
            if (ns, s) not in num:
                num[(ns, s)] = len(num) + 1
            return num[(ns, s)]
        tmpl = cL([cL([cN(nn(A, n)) for n in ph]) for ph in o["template"]])
        sets = cL(["(Build_gset %s %s)" % (cB(s["listed"]), cL([cL([cN(nn(s["ns"], n)) for n in ph]) for ph in s["refs"]])) for s in o["sets"]])
        slices = cL(["(Build_gslice %d %s)" % (nn(s["ns"], s["name"]), cB(s["labelled"])) for s in o["before"]])
        bad = [q for q in o["requests"] if q.get("err") and not (q["verb"] == "create" and q["err"] == "AlreadyExists")]
        if o.get("err") or bad:
            raise pl.Unrepresentable("Reconcile failed: %s %s" % (o.get("err"), bad[:1]))
        deleted = cL([cN(nn(q["ns"], q["name"])) for q in o["requests"] if q["verb"] == "delete"])
        created = cL([cN(nn(q["ns"], q["name"])) for q in o["requests"] if q["verb"] == "create" and not q.get("err")])
        # references held in OTHER namespaces: templates of other deployments, ObjectSets living there
        foreign = {(d["ns"], n) for d in o["others"] if d["ns"] != A for ph in d["template"] for n in ph}
        foreign |= {(s["ns"], n) for s in o["sets"] if s["ns"] != A for ph in s["refs"] for n in ph}
        want = sc["steps"][o["step"]]["phases"]
        # "unchanged redeploy": same phases and chunks as the deployment's previous deploy, and no slice was deleted
        # since the slices of that deploy were written (premise of C14_redeploy_unchanged: the store kept them and
        # every slice they collided with; once the collector has removed a colliding slice the name is free again)
        redeploy = A in prev and prev[A][0] == want and not prev[A][2]
        prevt = cL([cL([cN(nn(A, n)) for n in ph]) for ph in (prev[A][1] if redeploy else [])])
        ndel = sum(1 for q in o["requests"] if q["verb"] == "delete")
        for k in prev:
            prev[k] = (prev[k][0], prev[k][1], prev[k][2] or ndel > 0)
        prev[A] = (want, o["template"], ndel > 0)

        def cc(l):
            return cL([cL([cN(c if c >= 0 else 999999990 - c) for c in ph]) for ph in l])
        out.append("(Build_gcase %s %s %s %s %s %s %s %s %s %s)" % (
            tmpl, sets, slices, deleted, cc([ph for ph in o["want"] if ph]), cc([ph for ph in o["got"] if ph]),
            cL([cN(nn(ns, n)) for ns, n in sorted(foreign)]), cB(redeploy), prevt, created))
    return out


def gc_stage(run, scs):
    outs = vlib.run_harness("slicegc", scs, par=8)
    terms, idx = [], []
    for i, (sc, o) in enumerate(zip(scs, outs)):
        if "obs" not in o:
            run.violation("corr:C14/slicegc harness error or panic", {"scenario": sc, "out": o}, False)
            continue
        try:
            ts = gc_terms(sc, o["obs"])
        except pl.Unrepresentable as e:
            run.violation("corr:C14/slicegc observation outside the model: %s" % e, {"scenario": sc, "impl": o["obs"]}, False)
            continue
        for j, t in enumerate(ts):
            terms.append(t)
            idx.append((i, j))
    res, logs = vlib.judge_cases("C14", SIMPORTS, "gjudge", terms, 4, tag="gc")
    for l in logs:
        run.violation("corr:C14/coq-eval", {"correspondence": "coq evaluation failed (slicegc)", "log": l}, False)
    for (i, j), r in zip(idx, res):
        if r is None:
            continue
        sc, o = scs[i], outs[i]["obs"][j]
        ndel = sum(1 for q in o["requests"] if q["verb"] == "delete")
        nref = len({n for s in o["sets"] if s["listed"] for ph in s["refs"] for n in ph} - {n for ph in o["template"] for n in ph})
        if o["before"]:
            if o["others"]:
                run.classes.add(("gc-two-namespaces", o["ns"], min(ndel, 2)))
            tn = {n for ph in o["template"] for n in ph}
            held = tuple(sorted({(s["life"] or "Active") + ("/deleting" if s["gone"] else "") for s in o["sets"] if s["listed"]
                                 and any(n not in tn for ph in s["refs"] for n in ph)}))
            run.classes.add(("gc", min(ndel, 3), min(nref, 3), sum(1 for s in o["sets"] if not s["listed"]) > 0,
                             sum(1 for s in o["before"] if not s["labelled"]) > 0, held))
        agree, mon, hmon, rmon = r
        if not rmon:
            run.violation(ID_REDEPLOY, {"scenario": sc, "step": o["step"], "impl": o}, True)
        if not hmon:
            run.violation(ID_LOSSLESS, {"scenario": sc, "step": o["step"], "impl": o}, True)
        if not mon:
            run.violation(ID_GC, {"scenario": sc, "step": o["step"], "impl": o}, True)
        elif not agree:
            run.violation("corr:C14/slice GC model and implementation differ",
                          {"correspondence": "C14SliceCorr.gagree", "scenario": sc, "step": o["step"], "impl": o}, False)
    return len(terms), [{"scenario": scs[0], "impl": [{k: o[k] for k in ("step", "template", "requests")} for o in outs[0].get("obs", [])]}]


# ------------------------------------------------------------------ sliced ObjectSet vs inline ObjectSet (clause 3)

DEP_REF = [5, 3, 30, 1]      # the ObjectDeployment controlling the slices


def slice_twin(r, sc, p_drop=0.12, p_fault=0.4):
    """Moves a random subset of each phase's objects of the target into 1-2 slices. Returns the scenario pair."""
    t = sc["target"]
    sliced = copy.deepcopy(sc)
    inline = copy.deepcopy(sc)
    ts = [s for s in sliced["sets"] if (s["kind"], s["ns"], s["name"]) == (t["kind"], t["ns"], t["name"])][0]
    ti = [s for s in inline["sets"] if (s["kind"], s["ns"], s["name"]) == (t["kind"], t["ns"], t["name"])][0]
    slices, refs, nxt = [], [], 70
    drop = r.random() < p_drop
    for pi, ph in enumerate(ts["phases"]):
        objs = ph["objects"]
        x = r.random()
        if x < 0.15:
            moved = []
        elif x < 0.55:
            moved = list(range(len(objs)))
        else:
            moved = [i for i in range(len(objs)) if r.random() < 0.5]
        names = []
        if moved or r.random() < 0.1:
            mobjs = [objs[i] for i in moved]
            x = r.random()
            if x < 0.3:
                parts = [mobjs]
            elif x < 0.75:
                cut = r.randint(0, len(mobjs))
                parts = [mobjs[:cut], mobjs[cut:]]
            else:
                c1 = r.randint(0, len(mobjs))
                c2 = r.randint(c1, len(mobjs))
                parts = [mobjs[:c1], mobjs[c1:c2], mobjs[c2:]]
            for part in parts:
                owners = [DEP_REF]
                y = r.random()
                if y < 0.45:
                    owners = owners + [[t["kind"], t["name"], t["uid"], 0]]
                elif y < 0.55:
                    owners = [[t["kind"], t["name"], 999, 0]] + owners      # stale reference: same name, other uid
                elif y < 0.6:
                    owners = owners + [[t["kind"], 9, 90, 0]]               # only the previous revision owns it
                slices.append({"ns": t["ns"], "name": nxt, "objects": part, "owners": owners, "rv": 20 + len(slices)})
                names.append(nxt)
                nxt += 1
        refs.append(names)
        ph["objects"] = [o for i, o in enumerate(objs) if i not in moved]
    missing = None
    if drop and slices:
        # one or several referenced slices are gone (any subset, also the first of a phase with later ones still there)
        for _ in range(r.choice([1, 1, 2, 3])):
            if slices:
                missing = slices.pop(r.randrange(len(slices)))
    if r.random() < 0.1 and slices:
        slices.append({"ns": 2 if t["ns"] else 0, "name": slices[0]["name"] if t["ns"] else 69, "objects": [], "owners": [], "rv": 39})
    by = {(s["ns"], s["name"]): s for s in slices}
    for pi, ph in enumerate(ti["phases"]):
        ph["objects"] = ts["phases"][pi]["objects"] + [o for n in refs[pi] for o in by.get((t["ns"], n), {"objects": []})["objects"]]
    sliced["refs"] = [{"kind": t["kind"], "ns": t["ns"], "name": t["name"], "slices": refs}]
    sliced["slices"] = sorted(slices, key=lambda s: (s["ns"], s["name"]))
    sliced["next_srv"] = 40
    # a failing read of a slice while a deleted / archived ObjectSet is torn down (only the teardown handler's reads are
    # scripted in the model): any index, also beyond the last read
    nreads = sum(len(x) for x in refs)
    if (ts["deleting"] or ts["life"] == 2) and nreads and r.random() < p_fault:
        sliced["slice_fault"] = {"read": r.randrange(nreads + 1), "kind": r.choice(["err", "timeout", "gone", "neterr", "neterr"])}
    return {"sliced": sliced, "inline": inline, "missing": missing is not None}


def delegate_some(r, sc):
    """Turns some phases of the target into delegated ones (class "default"), with or without an existing ObjectSetPhase
    object controlled by the ObjectSet; the phase object is desired with the inlined objects in both twins."""
    t = sc["target"]
    ts = [s for s in sc["sets"] if (s["kind"], s["ns"], s["name"]) == (t["kind"], t["ns"], t["name"])][0]
    if not ts["phases"]:
        return sc
    sc = copy.deepcopy(sc)
    ts = [s for s in sc["sets"] if (s["kind"], s["ns"], s["name"]) == (t["kind"], t["ns"], t["name"])][0]
    sc["phases"], sc["nss"] = [], ([[t["ns"], r.choice([0, 0, 0, 1])]] if t["ns"] and r.random() < 0.9 else [])
    for i, ph in enumerate(ts["phases"]):
        if r.random() >= 0.5:
            continue
        ph["class"] = True
        if r.random() < 0.6:
            g = r.choice([1, 1, 2])
            conds = r.choice([[], [[0, 0, 0, g]], [[0, 0, 0, g]], [[0, 1, 1, g]], [[0, 0, 0, max(g - 1, 1)]]])
            if r.random() < 0.3:
                conds = conds + [[3, 0, 6, g]]
            sc["phases"].append(dl.mk_phase_obj(4 if t["kind"] == 2 else 3, t["ns"], dl.join_name(t["name"], ph["name"]), 300 + i, rv=30 + i,
                                                gen=g, owners=[[t["kind"], t["name"], t["uid"], 1]], fin=r.random() < 0.8,
                                                deleting=r.random() < 0.1, pkg=ts["pkg"], paused=r.choice([ts["life"] == 1] * 3 + [ts["life"] != 1]),
                                                revision=ts["revision"], prev=list(ts["prev"]), objects=copy.deepcopy(ph["objects"]),
                                                conds=conds, ctrlof=[]))
            if sc["phases"][-1]["deleting"]:
                sc["phases"][-1]["fin"] = True
            if r.random() < 0.7:
                ts["remotes"] = ts["remotes"] + [[sc["phases"][-1]["name"], 300 + i]]
    return sc


WITNESS = {
    "force": False, "next_rv": 50, "next_uid": 60, "target": {"kind": 1, "ns": 1, "name": 10, "uid": 100},
    "store": [pl.mk_obj(1, 1, 1, 7, 8, owners=[[1, 10, 100, 1]], rev=1)],
    "sets": [sl.mk_set(1, 1, 10, 100, rv=5, deleting=True, phases=[{"name": 1, "class": False, "objects": [pl.mk_pobj(1, 0, 1)]}],
                       ctrlof=[{"gk": 1, "ns": 1, "name": 1}])],
}


def witness_pair(archived=False):
    inline = copy.deepcopy(WITNESS)
    if archived:
        inline["sets"][0]["deleting"] = False
        inline["sets"][0]["life"] = 2
    sliced = copy.deepcopy(inline)
    sliced["sets"][0]["phases"][0]["objects"] = []
    sliced["refs"] = [{"kind": 1, "ns": 1, "name": 10, "slices": [[7]]}]
    sliced["slices"] = [{"ns": 1, "name": 7, "objects": [pl.mk_pobj(1, 0, 1)], "owners": [[1, 10, 100, 0]], "rv": 3}]
    sliced["next_srv"] = 4
    return {"sliced": sliced, "inline": inline, "missing": False}


def fault_witnesses():
    out = []
    for archived in (False, True):
        for kind in ("err", "timeout", "gone", "neterr"):
            p = witness_pair(archived)
            p["sliced"]["slice_fault"] = {"read": 0, "kind": kind}
            out.append(p)
    return out


def missing_witnesses():
    """Active ObjectSet, phase 1 lives entirely in a slice that does not exist (never created / deleted by a third party),
    phase 2 is inline: nothing of phase 2 may be written and Available must not be claimed."""
    out = []
    for new in (False, True):
        inline = copy.deepcopy(WITNESS)
        t = inline["sets"][0]
        t["deleting"] = False
        t["phases"] = [{"name": 1, "class": False, "objects": []},
                       {"name": 2, "class": False, "objects": [pl.mk_pobj(1, 0, 2)]}]
        t["ctrlof"] = []
        inline["store"] = []
        if new:
            t["revision"], t["fin"] = 0, False
        sliced = copy.deepcopy(inline)
        sliced["refs"] = [{"kind": 1, "ns": 1, "name": 10, "slices": [[7], []]}]
        sliced["slices"] = []
        sliced["next_srv"] = 4
        out.append({"sliced": sliced, "inline": inline, "missing": True})
    return out


def gone_witnesses():
    """Deleted / archived ObjectSet, one phase with three slices of one controlled object each; every non-empty subset
    of the slices is gone. The teardown handler skips a slice that is gone and still loads the later ones: the twin
    carries exactly the objects of the slices that exist."""
    out = []
    for archived in (False, True):
        for mask in range(1, 8):
            inline = copy.deepcopy(WITNESS)
            t = inline["sets"][0]
            if archived:
                t["deleting"], t["life"] = False, 2
            inline["store"] = [pl.mk_obj(1, 1, i, 7 + 2 * i, 8 + 2 * i, owners=[[1, 10, 100, 1]], rev=1) for i in (1, 2, 3)]
            t["ctrlof"] = [{"gk": 1, "ns": 1, "name": i} for i in (1, 2, 3)]
            sliced = copy.deepcopy(inline)
            sliced["sets"][0]["phases"] = [{"name": 1, "class": False, "objects": []}]
            sliced["refs"] = [{"kind": 1, "ns": 1, "name": 10, "slices": [[71, 72, 73]]}]
            sliced["slices"] = [{"ns": 1, "name": 70 + i, "objects": [pl.mk_pobj(1, 0, i)], "owners": [[1, 10, 100, 0]], "rv": 2 + i}
                                for i in (1, 2, 3) if not mask & (1 << (i - 1))]
            sliced["next_srv"] = 9
            t["phases"] = [{"name": 1, "class": False, "objects": [pl.mk_pobj(1, 0, i) for i in (1, 2, 3) if not mask & (1 << (i - 1))]}]
            out.append({"sliced": sliced, "inline": inline, "missing": True})
    return out


def c_slice(s):
    return "((%d, %d), Build_slice %s %s %d)" % (s["ns"], s["name"], cL([pl.c_pobj(o) for o in s["objects"]]),
                                                 cL([pl.c_ref(x) for x in s["owners"]]), s["rv"])


def c_xev(e):
    if e.get("set") is not None:
        return "(XSet %s)" % sl.c_sev(e["set"])
    s = e["slice"]
    if s["verb"] != "update" or s.get("err"):
        raise pl.Unrepresentable("slice request outside the model: %s %s" % (s["verb"], s.get("err")))
    return "(XSliceUpdate %d %d %s)" % (s["ns"], s["name"], cL([pl.c_ref(x) for x in s["owners"]]))


def x_term(pair, obs, fixed):
    sc, so, io = pair["sliced"], obs["sliced"], obs["inline"]
    t = sc["target"]
    refs = cL([cP(cN(x["kind"]), cN(x["ns"]), cN(x["name"]), cL([cL([cN(n) for n in ph]) for ph in x["slices"]])) for x in sc["refs"]])
    flt = sc.get("slice_fault")
    return ("(Build_xcase %s %s %s %d %d %s %s %s %s %s %d %d %d %d %s %s %s %s %s %s %d %d %s %d %s %s %s %s %s %d %d)" % (
        cB(fixed), cB(sc["force"]), pl.c_store(sc["store"]), sc["next_rv"], sc["next_uid"], cL([sl.c_set(s) for s in sc["sets"]]),
        cL([sl.c_osphase(p) for p in sc.get("phases", [])]), sl.c_nss(sc.get("nss", [])),
        refs, cL([c_slice(s) for s in sc["slices"]]), sc["next_srv"], t["kind"], t["ns"], t["name"],
        cO(None if flt is None else cN(flt["read"])),
        sl.RES[so["res"]], cL([c_xev(e) for e in so["events"]]), pl.c_store(so["post"]), cL([sl.c_set(s) for s in so["sets"]]),
        cL([sl.c_osphase(p) for p in so["phases"]]),
        so["next_rv"], so["next_uid"], cL([c_slice(s) for s in so["slices"]]), so["next_srv"],
        sl.RES[io["res"]], cL([sl.c_sev(e["set"]) for e in io["events"]]), pl.c_store(io["post"]),
        cL([sl.c_set(s) for s in io["sets"]]), cL([sl.c_osphase(p) for p in io["phases"]]), io["next_rv"], io["next_uid"]))


def detect_fixed(run):
    """Which wrapper does the implementation follow? Decided by the witness of Slices' sliced_teardown_refuted:
    the deleted sliced ObjectSet either deletes the object that lives in its slice (slices loaded before teardown)
    or only drops its finalizer."""
    out = vlib.run_harness("slicedset", [witness_pair()])[0]
    if "obs" not in out:
        run.violation("corr:C14/slicedset harness error on the witness", {"out": out}, False)
        return None
    evs = out["obs"]["sliced"]["events"]
    return any((e.get("set") or {}).get("kind") == "member" for e in evs)


def sliced_stage(run, pairs, fixed, ids=None):
    ids = ids or {}
    outs = vlib.run_harness("slicedset", [{"sliced": p["sliced"], "inline": p["inline"]} for p in pairs], par=8)
    terms, idx = [], []
    for i, (p, o) in enumerate(zip(pairs, outs)):
        if "obs" not in o:
            run.violation("corr:%s/slicedset harness error or panic" % run.pid, {"correspondence": "harness", "scenario": p, "out": o}, False)
            continue
        try:
            terms.append(x_term(p, o["obs"], fixed))
            idx.append(i)
        except pl.Unrepresentable as e:
            run.violation("corr:%s/slicedset observation outside the model's event language: %s" % (run.pid, e),
                          {"correspondence": "C14SliceCorr event language", "scenario": p, "impl": o["obs"]}, False)
    res, logs = vlib.judge_cases(run.pid, SIMPORTS, "xjudge", terms, 6, shard=150, tag="sliced")
    for l in logs:
        run.violation("corr:%s/coq-eval" % run.pid, {"correspondence": "coq evaluation failed (slicedset)", "log": l}, False)
    for i, r in zip(idx, res):
        if r is None:
            continue
        p, obs = pairs[i], outs[i]["obs"]
        a_sliced, a_inline, mon, going, mmon, fmon = r
        t = p["sliced"]["target"]
        ts = [s for s in p["sliced"]["sets"] if s["name"] == t["name"] and s["kind"] == t["kind"]][0]
        nsl = sum(len(x) for x in p["sliced"]["refs"][0]["slices"])
        if nsl:
            run.classes.add(("sliced", ts["life"], ts["deleting"], ts["fin"], p["missing"], (p["sliced"].get("slice_fault") or {}).get("kind"),
                             obs["sliced"]["res"],
                             tuple(("slice" if e.get("slice") else e["set"]["kind"] + str((e["set"].get("member") or {}).get("verb", "")))
                                   for e in obs["sliced"]["events"])))
        replay = {"scenario": {"sliced": p["sliced"], "inline": p["inline"], "missing": p["missing"]}, "impl": obs}
        if not mmon:
            run.violation(ids.get("missing", ID_MISSING), replay, True)
        if not fmon:
            run.violation(ids.get("fault", ID_FAULT), replay, True)
        if not mon:
            # F_C14 names the defect of the controller that tears down before loading slices at all; a tree that does load
            # them (the witness decides) and still differs is reported under the general identity
            run.violation(ids.get("going", ID_TEARDOWN if fixed else F_C14) if going else ids.get("active", ID_ACTIVE), replay, True)
        elif not a_sliced and mmon and fmon:
            run.violation("corr:%s/sliced ObjectSet pass: model (%s) and implementation differ" % (run.pid, "sliced_pass_fixed" if fixed else "sliced_pass"),
                          dict(replay, correspondence="C14SliceCorr.xagree_sliced"), False)
        elif not a_inline:
            run.violation("corr:%s/inline twin: ObjectSet controller model and implementation differ" % run.pid,
                          dict(replay, correspondence="SetCorr.agree on inline_of"), False)
    return len(terms), [{"scenario": {"refs": pairs[i]["sliced"]["refs"], "slices": pairs[i]["sliced"]["slices"],
                                      "target": [s for s in pairs[i]["sliced"]["sets"] if s["name"] == 10][0]},
                         "impl": {"sliced": {k: outs[i]["obs"]["sliced"][k] for k in ("res", "events")},
                                  "inline": {k: outs[i]["obs"]["inline"][k] for k in ("res", "events")}}} for i in idx[2:3]]


def objects_stage(run, pairs):
    """The archive reconciler's view (real getObjectsIncludingSlices) of the sliced target vs its inline twin."""
    scs = []
    for p in pairs:
        t = p["sliced"]["target"]
        pick = lambda w: [s for s in w["sets"] if (s["kind"], s["ns"], s["name"]) == (t["kind"], t["ns"], t["name"])][0]
        scs.append({"set": pick(p["sliced"]), "refs": p["sliced"]["refs"][0]["slices"], "slices": p["sliced"]["slices"],
                    "inline": pick(p["inline"])})
    outs = vlib.run_harness("sliceobjects", scs, par=8)
    terms, idx = [], []
    for i, (sc, o) in enumerate(zip(scs, outs)):
        if "obs" not in o:
            run.violation("corr:C14/sliceobjects harness error or panic", {"scenario": sc, "out": o}, False)
            continue
        ob = o["obs"]
        terms.append("(Build_ocase %s %s %s %s %s %s)" % (
            sl.c_set(sc["set"]), cL([cL([cN(n) for n in ph]) for ph in sc["refs"]]), cL([c_slice(x) for x in sc["slices"]]),
            cB(bool(ob.get("err"))), cL([pl.c_key(k) for k in ob["keys"]]), cL([pl.c_key(k) for k in ob["inline"]])))
        idx.append(i)
    res, logs = vlib.judge_cases(run.pid, SIMPORTS, "ojudge", terms, 2, tag="objects")
    for l in logs:
        run.violation("corr:C14/coq-eval", {"correspondence": "coq evaluation failed (sliceobjects)", "log": l}, False)
    for i, r in zip(idx, res):
        if r is None:
            continue
        sc, ob = scs[i], outs[i]["obs"]
        agree, mon = r
        if any(sc["refs"]):
            run.classes.add(("objects", sc["set"]["kind"], bool(ob.get("err")), len(ob["keys"]) > 0,
                             any(o["ns"] == 0 for x in sc["slices"] for o in x["objects"])))
        if not mon:
            have = {(x["ns"], x["name"]) for x in sc["slices"]}
            miss = any((sc["set"]["ns"], n) not in have for ph in sc["refs"] for n in ph)
            run.violation(ID_DEPLOYVIEW_MISSING if miss else ID_DEPLOYVIEW, {"scenario": sc, "impl": ob}, True)
        elif not agree:
            run.violation("corr:C14/deployment view of a sliced revision: model and implementation differ",
                          {"correspondence": "C14SliceCorr.oagree", "scenario": sc, "impl": ob}, False)
    return len(terms), []


def gen_pairs(seed, tier):
    r = vlib.rng(seed, "C14/sliced")
    n = 400 if tier == "quick" else 20000
    base = setgen.gen(seed, n, salt="C14")
    # every lifecycle state explicitly
    rr = vlib.rng(seed, "C14/modes")
    for mode in ("active", "paused", "new", "deleting", "archived", "archived-done"):
        for _ in range(12 if tier == "quick" else 60):
            base.append(setgen.gen_scenario(rr, mode))
    # a fifth of the scenarios with delegated phases (mixed phase lists)
    base = [delegate_some(r, sc) if r.random() < 0.2 else sc for sc in base]
    return ([witness_pair(), witness_pair(True)] + fault_witnesses() + missing_witnesses() + gone_witnesses() +
            [slice_twin(r, sc) for sc in base])


def sliced_extra(run, tier, seed, which, identity, replay=None, going_identity=None):
    """Additive stage for C03 (which="missing": a slice of an earlier phase cannot be loaded in an active pass) and C04
    (which="fault": a slice read fails while a deleted / archived ObjectSet is torn down): the sliced twin machinery of
    C14, focused on that clause and reported under the caller's identity. Judged by C14SliceCorr.mmonitor / fmonitor
    (sound for Slices.sliced_pass / sliced_pass_faulty: props/C14.v)."""
    fixed = detect_fixed(run)
    if fixed is None:
        return 0
    if replay:
        sc = json.load(open(replay))["replay"]["scenario"]
        sc.setdefault("missing", False)
        pairs = [sc]
    else:
        r = vlib.rng(seed, "%s/sliced" % run.pid)
        n = 150 if tier == "quick" else 2500
        if which == "missing":
            modes, kw, pairs = ["active", "active", "active", "new", "paused"], {"p_drop": 1.0, "p_fault": 0.0}, missing_witnesses()
        else:
            modes, kw, pairs = ["deleting", "deleting", "archived"], {"p_drop": 0.3, "p_fault": 0.6}, fault_witnesses() + gone_witnesses()
        pairs = pairs + [slice_twin(r, setgen.gen_scenario(r, r.choice(modes)), **kw) for _ in range(n)]
    ids = {which: identity}
    if going_identity:
        ids["going"] = going_identity
    n, _ = sliced_stage(run, pairs, fixed, ids)
    run.cov["evaluations"] += n
    run.cov["rule"] += ("; sliced twins (C14 machinery): %s" % ("active ObjectSets with a referenced slice missing" if which == "missing"
                        else "deleting / archived ObjectSets with a failing slice read (500, timeout, 410, transport error)"))
    return n


# ------------------------------------------------------------------ driver

def check(run, tier, seed, replay=None):
    run.assumptions += [
        "object sizes are positive (len(json.Marshal(obj)) >= 2), checked per case",
        "slice naming: the hash is a parameter of the model; the harness tabulates the real utils.ComputeFNV32Hash for the contents and collision "
        "counts of the scenario, so clashes are forced by placing slices under the names the real code computes; termination of the collision loop "
        "needs a hash that separates collision counts (Slices' slice_fuel_suffices; the Go loop is unbounded)",
        "slice GC: an ObjectSet belongs to the deployment iff it is in its namespace and matches its selector (what the collector lists); the list "
        "is as fresh as the store",
        "sliced ObjectSet: pass-level atomicity with cache reads as fresh as the store; API-server semantics of coq/theories/Api.v / ObjectSet.v as "
        "implemented by the harness's recording server; resourceVersions are opaque, ObjectSlices draw theirs from a counter of their own in model "
        "and harness so that the inline and the sliced run can be compared by equality; the equivalence is stated for ObjectSets whose referenced "
        "slices all exist; a referenced slice that is missing is judged by the missing-slice clause (no rollout, no new claim of availability)",
        "read faults: only Gets of ObjectSlices issued while a deleted / archived ObjectSet is torn down are scripted (one failing read per pass: "
        "500, ServerTimeout, 410 Gone, transport error without API status); every error other than NotFound must abort the pass",
        "deployment-controller view: getObjectsIncludingSlices is run on the target ObjectSet of the sliced twins with a reader as fresh as the "
        "store; identifiers are compared as multisets; the archive decision built on it is C08's",
        "slice contents of the naming / GC stages are rendered by the real packagerender collector (RenderObjectSetTemplateSpec) from package "
        "objects carrying only the phase annotation / only the CEL condition / another annotation / both; the recording server drops empty "
        "metadata.annotations / labels maps of the objects embedded in ObjectSlices on create and update, as the API server's decoding does",
        "slice GC across namespaces: slices are identified by (namespace, name); a slice of another namespace counts as referenced if a "
        "deployment template or an ObjectSet of that namespace names it; 'unchanged redeploy' = same phases and chunks as the deployment's "
        "previous deploy with no slice deleted in between (after the collector removed a colliding slice its name is free again and the real "
        "code moves the content back to the lower collision count)",
        "slice GC holders: every ObjectSet the collector lists counts, whatever its lifecycle state (active, paused, archived, being deleted)",
    ]
    vlib.std_proof_stage(run, "C14")
    ok, blog = vlib.build_harness()
    if not ok:
        run.violation("corr:harness-build", {"correspondence": "harness no longer builds against the tree", "log": blog[-4000:]}, False)
        return
    fixed = detect_fixed(run)
    if fixed is None:
        return
    run.notes.append("sliced ObjectSet pass compared with Slices.%s (decided by the witness of sliced_teardown_refuted)" %
                     ("sliced_pass_fixed" if fixed else "sliced_pass"))
    validate_collisions(run)
    if replay:
        sc = json.load(open(replay))["replay"]["scenario"]
        if "sizes" in sc:
            n, samples = chunk_stage(run, [sc])
        elif "chunks" in sc:
            n, samples = names_stage(run, [sc])
        elif "steps" in sc:
            n, samples = gc_stage(run, [sc])
        elif "set" in sc and "inline" in sc:
            outs = None
            n, samples = objects_stage(run, [{"sliced": {"target": {k: sc["set"][k] for k in ("kind", "ns", "name")}, "sets": [sc["set"]],
                                                         "refs": [{"slices": sc["refs"]}], "slices": sc["slices"]},
                                              "inline": {"sets": [sc["inline"]]}}])
        else:
            sc.setdefault("missing", False)
            n, samples = sliced_stage(run, [sc], fixed)
        run.cov["evaluations"] = n
        run.cov["samples"] = [{"scenario": sc}]
        run.cov["rule"] = "replay"
        return
    n1, s1 = chunk_stage(run, gen(seed, tier))
    n2, s2 = names_stage(run, gen_names(seed, tier))
    n3, s3 = gc_stage(run, gen_gc(seed, tier))
    pairs = gen_pairs(seed, tier)
    n4, s4 = sliced_stage(run, pairs, fixed)
    n5, _ = objects_stage(run, pairs)
    run.cov["evaluations"] = n1 + n2 + n3 + n4 + n5
    run.notes.append("evaluations per stage: chunk %d, slice names %d, slice GC (deploy steps) %d, sliced/inline twin passes %d, "
                     "deployment-controller views %d" % (n1, n2, n3, n4, n5))
    run.cov["rule"] = (
        "chunk: size vectors in twelfths of the real 1 MiB limit +- a few bytes, objects padded to the exact size; non-trivial = at least two "
        "objects; distinct = (strategy, bypass, slice-length vector). names: every holder (content x controller kind) of the first two names of a "
        "chunk exhaustively, then random stores of clashing slices; non-trivial = some slice pre-exists; distinct = (chunks, create outcomes, "
        "distinct slices). gc: histories of deploy / ObjectSet created from the template / ObjectSet deleted / stranger slices; one case per "
        "deploy step; non-trivial = slices exist; distinct = (deletes, slices protected only by ObjectSets, unlisted sets, unlabelled slices). "
        "sliced: setgen scenarios (active, paused, new, deleting, archived, archived-done) with a random subset of each phase's objects moved into "
        "1-2 slices (owner reference present / absent / stale, 5% with a missing slice); non-trivial = at least one slice referenced; distinct = "
        "(lifecycle, deleting, finalizer, missing, outcome, request kinds in order)")
    run.cov["samples"] = s1 + s2 + s3 + s4
