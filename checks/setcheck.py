"""Generic driver of the ObjectSet-level checks (C03, C04, C06, C09, C11)."""
import glob, json, os
import vlib, setlib as sl, setgen, phasecheck as pc, phaselib as pl

IMPORTS = "From PKOCorr Require Import SetMonitors PhaseMonitors SetJudges."


def corpus(pid):
    out = []
    for f in sorted(glob.glob(os.path.join(vlib.VERIF, "corpus", pid, "*.json"))):
        d = json.load(open(f))
        sc = d.get("replay", d).get("scenario")
        if sc and "target" in sc:
            out.append(sc)
    return out


def set_stage(run, pid, scs, judge, identity, extra_identities=()):
    """judge yields (agree, monitor, extra monitors...): each extra monitor has its own violation identity."""
    results = sl.run_cases(run, scs, judge, 2 + len(extra_identities), IMPORTS)
    for sc, obs, r in results:
        if r is None:
            continue
        agree, mon = r[0], r[1]
        for ok, ident in zip(r[2:], extra_identities):
            if not ok and mon:
                run.violation(ident, {"scenario": sc, "impl": obs}, True)
        t = [s for s in sc["sets"] if s["name"] == sc["target"]["name"]]
        t = t[0] if t else {}
        run.classes.add(("set", t.get("life"), t.get("deleting"), t.get("fin"), obs["res"],
                         tuple((e["kind"], (e.get("member") or {}).get("verb") or (e.get("phase") or {}).get("op")) for e in obs["events"])))
        if not mon:
            run.violation(identity, {"scenario": sc, "impl": obs}, True)
        elif not agree:
            run.violation("corr:%s/ObjectSet controller model and implementation differ" % pid,
                          {"correspondence": "SetCorr.agree", "scenario": sc, "impl": obs}, False)
    return results


def fault_stage(run, pid, tier, seed, results, judge, identity, extra_identities=()):
    """API faults and lost responses inside a controller pass (crash points): every request of a sample of the
    local-phase scenarios fails without effect ("err") or takes effect with its response lost ("lost").  The model
    has no faults, so only the monitors are judged: a request that failed without effect is no request of the pass
    (dropped), a lost response is a request that took effect."""
    import random
    rng = random.Random(seed * 6151 + 3)
    cands = []
    for sc, obs, r in results:
        if sc.get("phases") or not obs.get("requests") or any(ph["class"] for s_ in sc["sets"] for ph in s_["phases"]):
            continue   # scenarios with delegated phases are not part of this stage
        for i, q in enumerate(obs["requests"]):
            for kind in pc.FAULT_KINDS:
                if kind == "conflict" and " dry " in q + " ":
                    # DryRun.Check reports a 409 of the dry run as a preflight VIOLATION (not an error), and teardown
                    # treats a violating object as nothing to clean up (DESIGN.md section 9, explicit disjunct of C04):
                    # that case is judged with the object marked as rejected by the dry run (C11's dry-run fault stage)
                    continue
                cands.append((sc, i, kind, "read" if q.split()[0] in ("get", "list") else "dry" if " dry " in q + " " else "write"))
    rng.shuffle(cands)
    n = 750 if tier == "quick" else 9000
    # a third each: reads (a reconciler may go on with a stale or missing picture), dry runs (preflight of rollout
    # and teardown), writes
    reads = [c for c in cands if c[3] == "read"][: n // 3]
    def going(sc):
        t = [s_ for s_ in sc["sets"] if s_["name"] == sc["target"]["name"] and s_["kind"] == sc["target"]["kind"]]
        return bool(t) and (t[0]["deleting"] or t[0]["life"] == 2)
    # dry runs of teardown passes first: teardown treats a preflight VIOLATION as "nothing to clean up", so what the
    # checker makes of a failed dry run decides whether an object is skipped
    dry = [c for c in cands if c[3] == "dry" and going(c[0])][: n // 6]
    dry += [c for c in cands if c[3] == "dry" and not going(c[0])][: n // 3 - len(dry)]
    writes = dry + [c for c in cands if c[3] == "write"][: n - len(reads) - len(dry)]
    scs = [dict(sc, faults={str(i): kind}) for sc, i, kind, _ in reads + writes]
    outs = vlib.run_harness("objectset", scs)
    terms, idx = [], []
    for i, (sc, o) in enumerate(zip(scs, outs)):
        if "obs" not in o:
            run.violation("corr:%s/harness error or panic" % pid, {"correspondence": "harness", "scenario": sc, "out": o}, False)
            continue
        obs = o["obs"]
        kind = list(sc["faults"].values())[0]
        evs = []
        for e in obs["events"]:
            if e["kind"] == "member":
                m = e["member"]
                if m.get("fault") == "err":
                    continue
                if m.get("fault") == "lost":
                    e = dict(e, member=dict(m, res="ok" if m["post"] is not None or m["verb"] == "delete" else "notfound"))
            elif e.get("err") == "InjectedFault":
                if kind != "lost":
                    continue
                e = dict(e, ok=True, err="")
            evs.append(e)
        try:
            terms.append(sl.c_case(sc, dict(obs, events=evs)))
            idx.append(i)
        except pl.Unrepresentable as ex:
            run.violation("corr:%s/observation outside the model's event language: %s" % (pid, ex),
                          {"correspondence": "SetCorr event language (fault stage)", "scenario": sc, "impl": obs}, False)
    res, logs = vlib.judge_cases(pid + "f", sl.IMPORTS + "\n" + IMPORTS, judge, terms, 2 + len(extra_identities))
    for l in logs:
        run.violation("corr:%s/coq-eval" % pid, {"correspondence": "coq evaluation failed", "log": l}, False)
    nf = 0
    for i, r in zip(idx, res):
        if r is None:
            continue
        nf += 1
        sc, obs = scs[i], outs[i]["obs"]
        run.classes.add(("set-fault", list(sc["faults"].values())[0], obs["res"], tuple(e["kind"] for e in obs["events"])))
        if not r[1]:
            run.violation(identity + " (after an API fault inside the pass)", {"scenario": sc, "impl": obs}, True)
    run.cov["fault_stage"] = {"evaluations": nf, "reads_faulted": len(reads), "writes_faulted": len(writes),
                              "judged": "monitors only (the model has no faults); failed-without-effect requests dropped, lost responses count as requests"}
    return nf


def history_stage(run, pid, tier, seed, scs, judge, identity, extra_identities=(), passes=3):
    """Consecutive passes of the same ObjectSet (fresh controller and cache each): whatever a pass leaves in the
    API objects (status, condition texts, finalizers) is the only state carried; passes 2..n are judged like the
    first one, from the abstract state the previous pass left."""
    import random
    rng = random.Random(seed * 31337 + 1)
    pick = [sc for sc in scs if not any(ph["class"] for s_ in sc["sets"] for ph in s_["phases"])]
    rng.shuffle(pick)
    pick = pick[: 150 if tier == "quick" else 2500]
    # half of the histories run on one long-lived controller instance (what it keeps in memory between passes is then
    # inside the run), half on a fresh controller per pass (restart between passes): the model has no in-memory state
    pick = [dict(sc, reuse=(i % 2 == 0)) for i, sc in enumerate(pick)]
    outs = vlib.run_harness("objectset", [dict(sc, passes=passes) for sc in pick])
    terms, meta = [], []
    for sc, o in zip(pick, outs):
        if "obs" not in o:
            run.violation("corr:%s/harness error or panic" % pid, {"correspondence": "harness", "scenario": dict(sc, passes=passes), "out": o}, False)
            continue
        prev = o["obs"]
        for i, nxt in enumerate(prev.get("more") or []):
            sci = dict(sc, store=prev["post"], sets=prev["sets"], phases=prev.get("phases", []), next_rv=prev["next_rv"], next_uid=prev["next_uid"])
            try:
                terms.append(sl.c_case(sci, nxt))
                meta.append((sc, i + 2, sci, nxt))
            except pl.Unrepresentable as ex:
                run.violation("corr:%s/observation outside the model's event language: %s" % (pid, ex),
                              {"correspondence": "SetCorr event language (history stage)", "scenario": dict(sc, passes=passes), "impl": nxt}, False)
            prev = nxt
    res, logs = vlib.judge_cases(pid + "h", sl.IMPORTS + "\n" + IMPORTS, judge, terms, 2 + len(extra_identities))
    for l in logs:
        run.violation("corr:%s/coq-eval" % pid, {"correspondence": "coq evaluation failed", "log": l}, False)
    nh = 0
    for (sc, k, sci, obs), r in zip(meta, res):
        if r is None:
            continue
        nh += 1
        run.classes.add(("set-history", k, obs["res"], tuple(e["kind"] for e in obs["events"])))
        if not r[1]:
            run.violation(identity + " (pass %d of consecutive passes)" % k, {"scenario": sci, "history_from": dict(sc, passes=passes), "impl": obs}, True)
        elif not r[0]:
            run.violation("corr:%s/ObjectSet controller model and implementation differ (pass %d of consecutive passes)" % (pid, k),
                          {"correspondence": "SetCorr.agree", "scenario": sci, "history_from": dict(sc, passes=passes), "impl": obs}, False)
    run.cov["history_stage"] = {"evaluations": nh, "passes": passes}
    return nh


def set_check(run, pid, tier, seed, replay, n_quick, n_thorough, judge, identity, rule, phase_judge=None, phase_scs=None, extra_identities=()):
    run.assumptions += [
        "pass-level atomicity with cache reads as fresh as the store",
        "API-server semantics of coq/theories/Api.v / ObjectSet.v (status subresource with resourceVersion conflicts, "
        "finalizer-delayed deletion) as implemented by the harness's recording server; condition messages and transition times are not compared",
        "availability probe of the scenarios: kind Widget, condition Available=True, observedGeneration current or absent",
    ]
    vlib.std_proof_stage(run, pid)
    ok, blog = vlib.build_harness()
    if not ok:
        run.violation("corr:harness-build", {"correspondence": "harness no longer builds against the tree", "log": blog[-4000:]}, False)
        return
    if replay:
        sc = json.load(open(replay))["replay"]["scenario"]
        if "target" in sc:
            res = set_stage(run, pid, [sc], judge, identity, extra_identities)
            run.cov["evaluations"] = len(res)
        else:
            res = pc.run_cases(run, [sc], phase_judge, 2)
            run.cov["evaluations"] = len(res)
        run.cov["samples"] = [{"scenario": sc}]
        run.cov["rule"] = "replay"
        return
    n = n_quick if tier == "quick" else n_thorough
    # worlds with delegated phases and ObjectSetPhase objects in arbitrary states (the same clauses, read for the
    # phase objects): about a fifth of the local-only worlds
    scs = corpus(pid) + setgen.gen(seed, n, salt=pid) + setgen.gen_delegated(seed, n // 5, salt=pid + "d")
    res = set_stage(run, pid, scs, judge, identity, extra_identities)
    n = len(res) + fault_stage(run, pid, tier, seed, res, judge, identity, extra_identities)
    n += history_stage(run, pid, tier, seed, scs, judge, identity, extra_identities)
    samples = [{"scenario": s, "impl": {k: o[k] for k in ("res", "events")}} for s, o, _ in res[:1]]
    if phase_judge:
        pres = pc.run_cases(run, phase_scs, phase_judge, 2)
        for sc, obs, r in pres:
            if r is None:
                continue
            agree, mon = r
            run.classes.add(("phase", sc["flavor"], sc["op"], obs["res"], obs.get("err"), tuple(e["verb"] for e in obs["events"])))
            if not mon:
                run.violation(identity, {"scenario": sc, "impl": obs}, True)
            elif not agree:
                run.violation("corr:%s/phase model and implementation differ" % pid,
                              {"correspondence": "PhaseCorr.agree", "scenario": sc, "impl": obs}, False)
        n += len(pres)
        if pid == "C11":
            pc.dryrun_fault_stage(run, pid, tier, seed, pres, identity)
        samples += [{"scenario": s, "impl": {k: o[k] for k in ("res", "viol", "events") if k in o}} for s, o, _ in pres[:1]]
    run.cov["evaluations"] = n + run.cov.get("dryrun_fault_stage", {}).get("evaluations", 0)
    run.cov["rule"] = rule + ("; plus ObjectSets with delegated phases and pre-existing ObjectSetPhase objects in arbitrary states "
                              "(stale / current status, paused mismatch, stale status.remotePhases uid, deleting, foreign controller, "
                              "other class, terminating namespace); distinct = (level, lifecycle/flavor, outcome, request kinds in order)")
    run.cov["samples"] = samples


def controller_stage(run, pid, tier, seed, judge, identity, n_quick=400, n_thorough=6000, replay_sc=None):
    """C01 / C02 at the controller level: generated worlds (a third of them handovers with two declared previous
    revisions) through the real (Cluster)ObjectSet controller, its member requests judged by the phase-level monitors."""
    if replay_sc is not None:
        scs = [replay_sc]
    else:
        n = n_quick if tier == "quick" else n_thorough
        scs = setgen.gen(seed, n - n // 3, salt=pid + "c") + setgen.gen_handover(seed, n // 3, salt=pid + "h")
    res = set_stage(run, pid, scs, judge, identity)
    run.cov["evaluations"] = run.cov.get("evaluations", 0) + len(res)
    run.cov["controller_stage"] = {"evaluations": len(res), "judge": judge}
    return res
