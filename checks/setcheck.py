"""Generic driver of the ObjectSet-level checks (C03, C04, C06, C09, C11)."""
import glob, json, os
import vlib, setlib as sl, setgen, phasecheck as pc

IMPORTS = "From PKOCorr Require Import SetMonitors PhaseMonitors."


def corpus(pid):
    out = []
    for f in sorted(glob.glob(os.path.join(vlib.VERIF, "corpus", pid, "*.json"))):
        d = json.load(open(f))
        sc = d.get("replay", d).get("scenario")
        if sc and "target" in sc:
            out.append(sc)
    return out


def set_stage(run, pid, scs, judge, identity, extra_identities=()):
    """judge yields (agree, monitor, extra monitors...): each extra monitor has its own violation identity."""
    results = sl.run_cases(run, scs, judge, 2 + len(extra_identities), IMPORTS)
    for sc, obs, r in results:
        if r is None:
            continue
        agree, mon = r[0], r[1]
        for ok, ident in zip(r[2:], extra_identities):
            if not ok and mon:
                run.violation(ident, {"scenario": sc, "impl": obs}, True)
        t = [s for s in sc["sets"] if s["name"] == sc["target"]["name"]]
        t = t[0] if t else {}
        run.classes.add(("set", t.get("life"), t.get("deleting"), t.get("fin"), obs["res"],
                         tuple((e["kind"], (e.get("member") or {}).get("verb") or (e.get("phase") or {}).get("op")) for e in obs["events"])))
        if not mon:
            run.violation(identity, {"scenario": sc, "impl": obs}, True)
        elif not agree:
            run.violation("corr:%s/ObjectSet controller model and implementation differ" % pid,
                          {"correspondence": "SetCorr.agree", "scenario": sc, "impl": obs}, False)
    return results


def set_check(run, pid, tier, seed, replay, n_quick, n_thorough, judge, identity, rule, phase_judge=None, phase_scs=None, extra_identities=()):
    run.assumptions += [
        "pass-level atomicity with cache reads as fresh as the store",
        "API-server semantics of coq/theories/Api.v / ObjectSet.v (status subresource with resourceVersion conflicts, "
        "finalizer-delayed deletion) as implemented by the harness's recording server; condition messages and transition times are not compared",
        "availability probe of the scenarios: kind Widget, condition Available=True, observedGeneration current or absent",
    ]
    vlib.std_proof_stage(run, pid)
    ok, blog = vlib.build_harness()
    if not ok:
        run.violation("corr:harness-build", {"correspondence": "harness no longer builds against the tree", "log": blog[-4000:]}, False)
        return
    if replay:
        sc = json.load(open(replay))["replay"]["scenario"]
        if "target" in sc:
            res = set_stage(run, pid, [sc], judge, identity, extra_identities)
            run.cov["evaluations"] = len(res)
        else:
            res = pc.run_cases(run, [sc], phase_judge, 2)
            run.cov["evaluations"] = len(res)
        run.cov["samples"] = [{"scenario": sc}]
        run.cov["rule"] = "replay"
        return
    n = n_quick if tier == "quick" else n_thorough
    # worlds with delegated phases and ObjectSetPhase objects in arbitrary states (the same clauses, read for the
    # phase objects): about a fifth of the local-only worlds
    scs = corpus(pid) + setgen.gen(seed, n, salt=pid) + setgen.gen_delegated(seed, n // 5, salt=pid + "d")
    res = set_stage(run, pid, scs, judge, identity, extra_identities)
    n = len(res)
    samples = [{"scenario": s, "impl": {k: o[k] for k in ("res", "events")}} for s, o, _ in res[:1]]
    if phase_judge:
        pres = pc.run_cases(run, phase_scs, phase_judge, 2)
        for sc, obs, r in pres:
            if r is None:
                continue
            agree, mon = r
            run.classes.add(("phase", sc["flavor"], sc["op"], obs["res"], obs.get("err"), tuple(e["verb"] for e in obs["events"])))
            if not mon:
                run.violation(identity, {"scenario": sc, "impl": obs}, True)
            elif not agree:
                run.violation("corr:%s/phase model and implementation differ" % pid,
                              {"correspondence": "PhaseCorr.agree", "scenario": sc, "impl": obs}, False)
        n += len(pres)
        if pid == "C11":
            pc.dryrun_fault_stage(run, pid, tier, seed, pres, identity)
        samples += [{"scenario": s, "impl": {k: o[k] for k in ("res", "viol", "events") if k in o}} for s, o, _ in pres[:1]]
    run.cov["evaluations"] = n + run.cov.get("dryrun_fault_stage", {}).get("evaluations", 0)
    run.cov["rule"] = rule + ("; plus ObjectSets with delegated phases and pre-existing ObjectSetPhase objects in arbitrary states "
                              "(stale / current status, paused mismatch, stale status.remotePhases uid, deleting, foreign controller, "
                              "other class, terminating namespace); distinct = (level, lifecycle/flavor, outcome, request kinds in order)")
    run.cov["samples"] = samples


def controller_stage(run, pid, tier, seed, judge, identity, n_quick=400, n_thorough=6000, replay_sc=None):
    """C01 / C02 at the controller level: generated worlds (a third of them handovers with two declared previous
    revisions) through the real (Cluster)ObjectSet controller, its member requests judged by the phase-level monitors."""
    if replay_sc is not None:
        scs = [replay_sc]
    else:
        n = n_quick if tier == "quick" else n_thorough
        scs = setgen.gen(seed, n - n // 3, salt=pid + "c") + setgen.gen_handover(seed, n // 3, salt=pid + "h")
    res = set_stage(run, pid, scs, judge, identity)
    run.cov["evaluations"] = run.cov.get("evaluations", 0) + len(res)
    run.cov["controller_stage"] = {"evaluations": len(res), "judge": judge}
    return res
