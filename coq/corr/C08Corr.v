(** C08 (and the deployment half of C09): monitors evaluated on the implementation's observation only.
    The state before a step is the state observed after the previous step (the scenario's world for the first). *)
From Coq Require Import List NArith ZArith Bool.
From PKO Require Import Util Base Owner Api Phase ObjectSet Deployment.
From PKOCorr Require Import PhaseCorr SetCorr DeployCorr.
Import ListNotations.
Local Open Scope N_scope.

(** The observed state before / after a step. *)
Record ostate := { st_dep : depl; st_sets : list dset; st_store : store }.
Definition init_state (c : dcase) : ostate :=
  {| st_dep := dw_dep (dc_init c); st_sets := dw_sets (dc_init c); st_store := w_store (dw_w (dc_init c)) |}.
Definition obs_state (o : sobs) : ostate := {| st_dep := so_dep o; st_sets := so_sets o; st_store := so_store o |}.

(** The revisions of the deployment, oldest first: by revision number, then by name. *)
Definition chain (s : ostate) : list dset := isort rev_lt (isort name_lt (filter ds_sel (st_sets s))).

Fixpoint after_name (n : N) (l : list dset) : option (list dset) :=
  match l with
  | [] => None
  | x :: r => if sname x =? n then Some r else after_name n r
  end.

Definition effective (r : wres) : bool := match r with WOk | WLost => true | _ => false end.

Section Step.
  Variable slices : N -> option (list pobj).
  Variable pre : ostate.
  Variable s : step.
  Variable o : sobs.

  Definition archived_names : list N :=
    flat_map (fun e => match e with DUpdate n LArchived _ r => if effective r then [n] else [] | _ => [] end) (so_events o).
  Definition delete_names : list N :=
    flat_map (fun e => match e with DDelete n _ => [n] | _ => [] end) (so_events o).

  (** "archives a revision only after that revision has confirmed it is paused, and only if a newer revision is
      Available or the revision itself is unavailable and controls nothing that the next newer revision contains;
      the newest revision is never archived" *)
  Definition archive_ok_with (sl : N -> option (list pobj)) (known : bool) (n : N) : bool :=
    match find_dset (chain pre) n, after_name n (chain pre) with
    | Some r, Some newer =>
        is_status_paused r && negb (is_nil newer) &&
        (existsb is_available newer ||
         (negb (is_available r) &&
          match newer with
          | nx :: _ => (negb known || forallb (fun m => match sl m with Some _ => true | None => false end) (slice_refs nx)) &&
                       (* a controllerOf that was never reported (nil) is "unknown", not "controls nothing" *)
                       match active_objects r with
                       | Some act => is_nil (inter_keys (full_objects sl nx) act)
                       | None => false
                       end
          | [] => false
          end))
    | _, _ => false
    end.
  (** what the next newer revision contains is only known if every ObjectSlice it references exists *)
  Definition archive_ok := archive_ok_with slices true.
  (** the same rule judged on the inline objects only (what the archive reconciler looks at before the repair) *)
  Definition m08_archive_inline : bool :=
    match s with SDep _ _ => forallb (archive_ok_with (fun _ => None) false) archived_names | _ => true end.
  Definition m08_archive : bool :=
    match s with SDep _ _ => forallb archive_ok archived_names | _ => true end.

  (** "history pruning deletes only the oldest revisions beyond revisionHistoryLimit, never the current one" *)
  Definition m08_gc : bool :=
    match s with
    | SDep _ _ =>
        let prev := removelast (chain pre) in
        let k := Z.to_nat (Z.of_nat (length prev) - match d_limit (st_dep pre) with Some l => l | None => 10 end) in
        forallb (fun n => existsb (N.eqb n) (firstn k (map sname prev))) delete_names
    | _ => true
    end.

  (** The ObjectDeployment controller sends nothing else: creates, lifecycle updates, deletes of ObjectSets and its own
      status; it never touches a member object (the harness reports any other request as outside the event language). *)

  (** C09: "pausing an ObjectDeployment pauses every non-archived revision and creates or archives no revision while
      paused"; the completeness half (every non-archived revision) is judged when nothing is waiting for its revision
      number and no request failed. *)
  Definition all_ok : bool :=
    forallb (fun e => match e with
                      | DUpdate _ _ _ r => match r with WOk => true | _ => false end
                      | DStatus _ _ _ _ _ r => match r with WOk => true | _ => false end
                      | _ => true end) (so_events o).
  Definition m09_paused : bool :=
    match s with
    | SDep stale _ =>
        negb (d_paused (st_dep pre)) ||
        (forallb (fun e => match e with
                           | DUpdate n LPaused true _ =>
                               match find_dset (st_sets pre) n with Some x => negb (is_archived x) | None => false end
                           | DStatus _ _ _ _ _ _ => true
                           | _ => false end) (so_events o) &&
         (stale || existsb (fun x => Z.eqb (srev x) 0) (chain pre) || negb all_ok ||
          match so_res o with OrDone => false | _ => true end ||
          (forallb (fun x => is_archived x || paused_by_parent x ||
                             existsb (fun e => match e with DUpdate n LPaused true WOk => n =? sname x | _ => false end) (so_events o))
                   (chain pre) &&
           (* after the pass every non-archived revision is Paused *)
           forallb (fun x => negb (ds_sel x) || is_archived x || is_spec_paused x) (so_sets o))))
    | _ => true
    end.

  (** C09: "unpausing releases exactly the revisions the parent had paused" *)
  Definition m09_unpause : bool :=
    match s with
    | SDep stale _ =>
        forallb (fun e => match e with
                          | DUpdate n LActive pbp _ =>
                              negb pbp && negb (d_paused (st_dep pre)) &&
                              match find_dset (st_sets pre) n with Some x => paused_by_parent x && negb (is_archived x) | None => false end
                          | _ => true end) (so_events o) &&
        (d_paused (st_dep pre) || stale || existsb (fun x => Z.eqb (srev x) 0) (chain pre) || negb all_ok ||
         match so_res o with OrDone => false | _ => true end ||
         forallb (fun x => is_archived x || negb (paused_by_parent x) ||
                           existsb (fun e => match e with DUpdate n LActive false WOk => n =? sname x | _ => false end) (so_events o))
                 (chain pre))
    | _ => true
    end.

  (** "An object present in both the outgoing and the incoming revision is adopted in place and is never deleted during
      the handover": a pass of the ObjectSet controller for an archived revision removes no member object that the next
      newer revision of the deployment contains (inline or in one of its ObjectSlices). *)
  Definition removed_keys : list okey :=
    map fst (filter (fun ko => match lookup (fst ko) (so_store o) with None => true | Some _ => false end) (st_store pre)).
  Definition m08_shared : bool :=
    match s with
    | SSet _ n =>
        match find_dset (chain pre) n, after_name n (chain pre) with
        | Some r, Some (nx :: _) =>
            negb (is_archived r) || is_archived nx ||
            is_nil (inter_keys (full_objects slices nx) removed_keys)
        | _, _ => true
        end
    | _ => true
    end.

  Definition step_monitors : list bool := [m08_archive; m08_gc; m09_paused; m09_unpause; m08_shared; m08_archive_inline].
End Step.

Fixpoint run_monitors (slices : N -> option (list pobj)) (pre : ostate) (steps : list step) (obs : list sobs) : list (list bool) :=
  match steps, obs with
  | s :: steps', o :: obs' => step_monitors slices pre s o :: run_monitors slices (obs_state o) steps' obs'
  | _, _ => []
  end.

Definition last_state (c : dcase) : ostate :=
  match rev (dc_obs c) with o :: _ => obs_state o | [] => init_state c end.

(** The unmodelled last step (a handover race) is judged like a pass of the outgoing revision's ObjectSet controller. *)
Definition monitors08 (c : dcase) : list (list bool) :=
  run_monitors (table_slices (dc_slices c)) (init_state c) (dc_steps c) (dc_obs c) ++
  match dc_race c with
  | Some (n, o) => [step_monitors (table_slices (dc_slices c)) (last_state c) (SSet false n) o]
  | None => []
  end.

Definition column (k : nat) (rows : list (list bool)) : bool := forallb (fun r => nth k r true) rows.

(** agree, archive rule, pruning rule, paused hands-off, unpause exact, shared object kept, archive rule on inline objects *)
Definition judge08 (c : dcase) : list bool :=
  let m := monitors08 c in [agree c; column 0 m; column 1 m; column 2 m; column 3 m; column 4 m; column 5 m].

(** * Soundness of the archive and pruning monitors on the model (any hash function, any fault; fresh List):
      the monitor accepts what the model does. *)
From Coq Require Import Lia.
From PKO Require Import BaseProofs DeploymentProofs.

Definition state_of (w : dworld) : ostate := {| st_dep := dw_dep w; st_sets := dw_sets w; st_store := w_store (dw_w w) |}.
Definition obs_of (w' : dworld) (evs : list dev) (r : dpres) : sobs :=
  {| so_res := match r with DpDone => OrDone | DpError => OrError end; so_events := evs; so_dep := dw_dep w';
     so_sets := isort name_lt (dw_sets w'); so_store := w_store (dw_w w'); so_rv := w_rv (dw_w w'); so_uid := w_uid (dw_w w') |}.

Lemma chain_listed w : chain (state_of w) = listed false w.
Proof.
  unfold chain, listed, state_of. cbn. f_equal. f_equal. apply filter_ext. intros s. unfold hidden. cbn. now rewrite andb_true_r.
Qed.

Lemma existsb_Neqb n l : In n l -> existsb (N.eqb n) l = true.
Proof. intros H. apply existsb_exists. exists n. split; [assumption|apply N.eqb_refl]. Qed.

Lemma after_name_split l1 r l2 : ~ In (sname r) (map sname l1) -> after_name (sname r) (l1 ++ r :: l2) = Some l2.
Proof.
  induction l1 as [|x l IH]; cbn; intros H; [now rewrite N.eqb_refl|].
  destruct (sname x =? sname r) eqn:E; [apply N.eqb_eq in E; elim H; now left|]. apply IH. intros Hin. apply H. now right.
Qed.

Lemma find_dset_split l1 r l2 : ~ In (sname r) (map sname l1) -> find_dset (l1 ++ r :: l2) (sname r) = Some r.
Proof.
  unfold find_dset. induction l1 as [|x l IH]; cbn; intros H; [now rewrite N.eqb_refl|].
  destruct (sname x =? sname r) eqn:E; [apply N.eqb_eq in E; elim H; now left|]. apply IH. intros Hin. apply H. now right.
Qed.

Lemma archivable_archive_ok slices w n :
  NoDup (map sname (dw_sets w)) -> archivable (full_objects slices) (refs_known slices) (listed false w) n -> archive_ok slices (state_of w) n = true.
Proof.
  intros Hnd (l1 & r & l2 & EL & En & Hne & Hsp & Har & Hd). unfold archive_ok, archive_ok_with. rewrite chain_listed, EL, <- En.
  pose proof (listed_nodup false w Hnd) as HndL. rewrite EL, map_app in HndL. cbn in HndL. apply NoDup_remove_2 in HndL.
  assert (Hni : ~ In (sname r) (map sname l1)) by (intros H; apply HndL; apply in_or_app; now left).
  rewrite (find_dset_split _ _ _ Hni), (after_name_split _ _ _ Hni), Hsp. cbn [andb].
  destruct l2 as [|nx l3]; [now elim Hne|]. cbn [is_nil negb andb].
  destruct Hd as [(s & Hs & Ha & _)|(Hav & nx' & l3' & act & E & _ & Hact & Hkn & Hdis)].
  - assert (existsb is_available (nx :: l3) = true) by (apply existsb_exists; exists s; auto). now rewrite H.
  - injection E as <- <-. rewrite Hav. cbn [negb andb orb]. apply orb_true_iff. right. apply andb_true_iff. split.
    { apply forallb_forall. intros m Hm. specialize (Hkn m Hm). destruct (slices m); [reflexivity|now elim Hkn]. }
    rewrite Hact. now apply inter_keys_nil.
Qed.

Theorem monitor_sound_archive hash fault slices w w' evs r :
  NoDup (map sname (dw_sets w)) -> dep_pass hash fault slices false w = (w', evs, r) ->
  m08_archive slices (state_of w) (SDep false fault) (obs_of w' evs r) = true.
Proof.
  intros Hnd Hp. unfold m08_archive, archived_names. cbn [so_events obs_of]. apply forallb_forall. intros n Hn.
  apply in_flat_map in Hn. destruct Hn as (e & He & Hn). destruct e as [| n0 life pbp ur | |]; try contradiction.
  destruct life; try contradiction. destruct (effective ur); [|contradiction]. destruct Hn as [<-|[]].
  apply archivable_archive_ok; [assumption|]. eapply archive_sound_now; eauto.
Qed.

Theorem monitor_sound_gc hash fault slices w w' evs r :
  NoDup (map sname (dw_sets w)) -> dep_pass hash fault slices false w = (w', evs, r) ->
  m08_gc (state_of w) (SDep false fault) (obs_of w' evs r) = true.
Proof.
  intros Hnd Hp. unfold m08_gc, delete_names. cbn [so_events obs_of st_dep state_of]. apply forallb_forall. intros n Hn.
  apply in_flat_map in Hn. destruct Hn as (e & He & Hn). destruct e as [| | n0 dr |]; try contradiction. destruct Hn as [<-|[]].
  destruct (gc_sound hash fault slices true true false w w' evs r n0 dr Hnd Hp He) as (l0 & newest & EL & Hin & _).
  rewrite chain_listed, EL, removelast_app_last. apply existsb_Neqb. exact Hin.
Qed.
