(** Correspondence and monitor for the chunking clause of C14. *)
From Coq Require Import List Arith NArith Bool Lia.
From PKO Require Import Util Chunk ChunkProofs.
Import ListNotations.
Local Open Scope N_scope.

(** A case: strategy (true = BinpackNextFit, false = EachObject), the limit, the measured
    sizes of the input objects, and the implementation's output as lists of input indices
    (None = bypass). *)
Definition case := (bool * N * list N * option (list (list N)))%type.

Definition size_of (sizes : list N) (i : N) : N := nth (N.to_nat i) sizes 0.
Definition idxs (sizes : list N) : list N := map N.of_nat (seq 0 (length sizes)).

Definition model (bp : bool) (limit : N) (sizes : list N) : option (list (list N)) :=
  if bp then binpack (size_of sizes) limit (idxs sizes) else Some (each_object (idxs sizes)).

Definition agree (c : case) : bool :=
  let '(bp, limit, sizes, out) := c in
  option_eqb (list_eqb (list_eqb N.eqb)) (model bp limit sizes) out.

(** The property's monitor on an observed output: lossless, in order, no empty slice,
    each slice within the limit unless it is a single object; binpack bypasses exactly
    when everything fits into one slice. *)
Definition chunk_okb (sizes : list N) (limit : N) (c : list N) : bool :=
  negb (is_nil c) && ((total (size_of sizes) c <=? limit) || (Nat.eqb (length c) 1)).

Definition monitor (c : case) : bool :=
  let '(bp, limit, sizes, out) := c in
  match out with
  | None => bp && ((Nat.leb (length sizes) 1) || (total (size_of sizes) (idxs sizes) <=? limit))
  | Some cs =>
      list_eqb N.eqb (concat cs) (idxs sizes) &&
      (if bp then forallb (chunk_okb sizes limit) cs && Nat.leb 2 (length cs)
                  && (limit <? total (size_of sizes) (idxs sizes))
       else forallb (fun c => Nat.eqb (length c) 1) cs)
  end.

Definition judge (c : case) : bool * bool := (agree c, monitor c).

Lemma idxs_length sizes : length (idxs sizes) = length sizes.
Proof. unfold idxs. now rewrite map_length, seq_length. Qed.

(** Soundness of the monitor for the model: whatever the inputs (sizes positive, as
    len(json.Marshal(_)) always is), the model's own output satisfies the monitor. *)
Theorem monitor_sound bp limit sizes :
  (forall i, 0 < size_of sizes i) ->
  monitor (bp, limit, sizes, model bp limit sizes) = true.
Proof.
  intros Hpos. unfold monitor, model. destruct bp.
  - destruct (binpack (size_of sizes) limit (idxs sizes)) as [cs|] eqn:E.
    + destruct (binpack_some_laws _ limit Hpos _ _ E) as (Hc & Hok & Hlen & Hlim).
      rewrite !andb_true_iff. repeat split.
      * now apply list_eqb_N_spec.
      * apply forallb_forall. intros c Hin. rewrite Forall_forall in Hok. destruct (Hok c Hin) as [Hne Hsz].
        unfold chunk_okb. rewrite andb_true_iff, negb_true_iff, orb_true_iff. split.
        -- now apply is_nil_false.
        -- destruct Hsz as [H|H]; [left; now apply N.leb_le|right; now apply Nat.eqb_eq].
      * now apply Nat.leb_le.
      * now apply N.ltb_lt.
    + apply (binpack_none_iff _ limit Hpos) in E. cbn [andb]. rewrite orb_true_iff.
      rewrite idxs_length in E. destruct E as [H|H]; [left; now apply Nat.leb_le|right; now apply N.leb_le].
  - rewrite andb_true_iff. split.
    + apply list_eqb_N_spec. apply each_concat.
    + apply forallb_forall. intros c Hin. pose proof (each_singletons (idxs sizes)) as H.
      rewrite Forall_forall in H. apply Nat.eqb_eq. now apply H.
Qed.
