(** Correspondence between the real (Cluster)ObjectDeployment controller, interleaved with the real ObjectSet
    controller (harness mode "deployment"), and Deployment.v. Shared by C07 and C08. *)
From Coq Require Import List NArith ZArith Bool.
From PKO Require Import Util Base Owner Api Phase ObjectSet Deployment.
From PKOCorr Require Import PhaseCorr SetCorr.
Import ListNotations.
Local Open Scope N_scope.

(** The real hash function on the finitely many (template digest, collision count) pairs of a scenario. *)
Definition htable := list (N * option N * N).
Definition table_hash (t : htable) (dg : N) (cc : option N) : N :=
  match find (fun e => (fst (fst e) =? dg) && option_eqb N.eqb (snd (fst e)) cc) t with
  | Some e => snd e
  | None => 0
  end.

Inductive ores := OrDone | OrError | OrNone.    (* outcome of a controller pass; OrNone: the step is not a controller pass *)

(** What the implementation did in one step. *)
Record sobs := {
  so_res : ores; so_events : list dev;
  so_dep : depl; so_sets : list dset; so_store : store; so_rv : N; so_uid : N
}.

(** The ObjectSlices of the scenario (never written by the deployment controller). *)
Definition stable := list (N * list pobj).
Definition table_slices (t : stable) (n : N) : option (list pobj) :=
  match find (fun e => fst e =? n) t with Some e => Some (snd e) | None => None end.

(** [dc_race]: an optional last step that is not modelled (judged by the monitors only): a pass of the ObjectSet
    controller for the named ObjectSet during which another ObjectSet's pass runs between a read and the following
    write of the first (the model's passes are atomic). *)
Record dcase := { dc_table : htable; dc_slices : stable; dc_init : dworld; dc_steps : list step; dc_obs : list sobs;
                  dc_race : option (N * sobs) }.

Definition wres_eqb (a b : wres) : bool :=
  match a, b with WOk, WOk | WErr, WErr | WLost, WLost | WConflict, WConflict | WNotFound, WNotFound => true | _, _ => false end.
Definition cres_eqb (a b : cres) : bool :=
  match a, b with CrOk, CrOk | CrExists, CrExists | CrErr, CrErr | CrLost, CrLost => true | _, _ => false end.
Definition delres_eqb (a b : delres) : bool :=
  match a, b with DlOk, DlOk | DlNotFound, DlNotFound | DlErr, DlErr | DlLost, DlLost => true | _, _ => false end.

Definition dev_eqb (a b : dev) : bool :=
  match a, b with
  | DCreate n1 p1 v1 h1 r1, DCreate n2 p2 v2 h2 r2 =>
      (n1 =? n2) && list_eqb phase_eqb p1 p2 && list_eqb N.eqb v1 v2 && (h1 =? h2) && cres_eqb r1 r2
  | DUpdate n1 l1 b1 r1, DUpdate n2 l2 b2 r2 => (n1 =? n2) && lifecycle_eqb l1 l2 && Bool.eqb b1 b2 && wres_eqb r1 r2
  | DDelete n1 r1, DDelete n2 r2 => (n1 =? n2) && delres_eqb r1 r2
  | DStatus h1 c1 cs1 r1 co1 x1, DStatus h2 c2 cs2 r2 co2 x2 =>
      (h1 =? h2) && option_eqb N.eqb c1 c2 && list_eqb dcond_eqb cs1 cs2 && Z.eqb r1 r2 && list_eqb N.eqb co1 co2 && wres_eqb x1 x2
  | _, _ => false
  end.

Definition depl_eqb (a b : depl) : bool :=
  oid_eqb (d_id a) (d_id b) && (oi_uid (d_id a) =? oi_uid (d_id b)) && (d_rv a =? d_rv b) && Z.eqb (d_gen a) (d_gen b) &&
  Bool.eqb (d_paused a) (d_paused b) && (d_digest a =? d_digest b) && list_eqb phase_eqb (d_phases a) (d_phases b) &&
  option_eqb Z.eqb (d_limit a) (d_limit b) && status_eqb_d a b.

Definition dset_eqb (a b : dset) : bool :=
  oset_eqb (ds_set a) (ds_set b) && option_eqb N.eqb (ds_hash a) (ds_hash b) && Bool.eqb (ds_pbp a) (ds_pbp b) &&
  Bool.eqb (ds_sel a) (ds_sel b) && (ds_ctrl a =? ds_ctrl b) && Bool.eqb (ds_ctrlset a) (ds_ctrlset b).

(** One step of the model with its observable outcome. *)
Definition model_step (t : htable) (sl : stable) (w : dworld) (s : step) : dworld * ores * list dev :=
  match s with
  | SDep stale fault =>
      let '(w', evs, r) := dep_pass (table_hash t) fault (table_slices sl) stale w in
      (w', match r with DpDone => OrDone | DpError => OrError end, evs)
  | _ => (do_step (table_hash t) (table_slices sl) w s, OrNone, [])
  end.

Definition ores_eqb (a b : ores) : bool :=
  match a, b with OrDone, OrDone | OrError, OrError | OrNone, OrNone => true | _, _ => false end.

(** The implementation's outcome of a non-deployment step is not compared (only its effect is). *)
Definition step_agree_parts (s : step) (w' : dworld) (r : ores) (evs : list dev) (o : sobs) : list bool :=
  [ match s with SDep _ _ => ores_eqb r (so_res o) | _ => true end;
    match s with SDep _ _ => list_eqb dev_eqb evs (so_events o) | _ => true end;
    depl_eqb (dw_dep w') (so_dep o);
    list_eqb dset_eqb (isort name_lt (dw_sets w')) (so_sets o);
    store_eqb (w_store (dw_w w')) (so_store o);
    (w_rv (dw_w w') =? so_rv o) && (w_uid (dw_w w') =? so_uid o) ].

Fixpoint run_agree (t : htable) (sl : stable) (w : dworld) (steps : list step) (obs : list sobs) : list (list bool) :=
  match steps, obs with
  | s :: steps', o :: obs' =>
      let '(w', r, evs) := model_step t sl w s in
      step_agree_parts s w' r evs o :: run_agree t sl w' steps' obs'
  | [], [] => []
  | _, _ => [[false]]
  end.

Definition agree_parts (c : dcase) : list (list bool) :=
  run_agree (dc_table c) (dc_slices c) (dc_init c) (dc_steps c) (dc_obs c).
Definition agree (c : dcase) : bool := forallb (forallb (fun b => b)) (agree_parts c).

(** The model's trace: the world before each step, the step, the model's events. Used by the monitors' soundness
    statements. *)
Fixpoint model_obs (t : htable) (sl : stable) (w : dworld) (steps : list step) : list sobs :=
  match steps with
  | [] => []
  | s :: steps' =>
      let '(w', r, evs) := model_step t sl w s in
      {| so_res := r; so_events := evs; so_dep := dw_dep w'; so_sets := isort name_lt (dw_sets w');
         so_store := w_store (dw_w w'); so_rv := w_rv (dw_w w'); so_uid := w_uid (dw_w w') |} :: model_obs t sl w' steps'
  end.
