(** Soundness of the phase-level monitors of C09 and C11 for the model. *)
From Coq Require Import List NArith ZArith Bool Lia.
From PKO Require Import Util Base BaseProofs Owner Api ApiProofs Phase PhaseProofs TeardownProofs PreflightProofs.
From PKOCorr Require Import PhaseCorr PhaseMonitors C05Sound C01Sound.
Import ListNotations.
Local Open Scope N_scope.

Lemma store_sub_refl s : store_sub s s = true.
Proof.
  unfold store_sub. apply forallb_forall. intros kv _. destruct (lookup (fst kv) s) as [o|]; cbn; [now apply obj_eqb_spec|reflexivity].
Qed.
Lemma store_eqb_refl s : store_eqb s s = true.
Proof. unfold store_eqb. now rewrite store_sub_refl. Qed.

Lemma okeys_eqb_refl (l : list okey) : list_eqb okey_eqb l l = true.
Proof. induction l as [|k l IH]; cbn; [reflexivity|]. now rewrite okey_eqb_refl, IH. Qed.

(** m09r (the paused pass ends like the model's: same actual keys, same failed keys) accepts every pass of the model. *)
Theorem m09r_sound (c : pcase) : m09r (set_obs c (model_run c)) = true.
Proof.
  unfold m09r. destruct (model_run c) as [[w e] r] eqn:E.
  change (model_run (set_obs c (w, e, r))) with (model_run c). rewrite E.
  cbn [set_obs pc_res pc_between pc_teardown pc_owner snd].
  destruct (pc_teardown c), (ow_paused (pc_owner c)), (is_nil (pc_between c)); cbn [negb orb]; try reflexivity.
  destruct r; try reflexivity. now rewrite !okeys_eqb_refl.
Qed.

(** C09: a paused phase owner writes nothing, whatever third parties do; with quiet third parties the
    members are unchanged. *)
Theorem m09p_sound (c : pcase) : m09p (set_obs c (model_run c)) = true.
Proof.
  unfold m09p. destruct (model_run c) as [[w e] r] eqn:E.
  cbn [set_obs pc_teardown pc_owner pc_events pc_between pc_store pc_post].
  destruct (pc_teardown c) eqn:Ht; [reflexivity|]. destruct (ow_paused (pc_owner c)) eqn:Hp; [|reflexivity]. cbn [negb orb].
  unfold model_run in E. rewrite Ht in E.
  destruct (reconcile_phase (pc_cfg c) (apply_envops (pc_between c)) (pc_world c) (pc_owner c) (pc_prev c) false (pc_objects c)) as [[w0 e0] r0] eqn:Er.
  assert (Hwe : w = w0 /\ e = e0) by (destruct r0; injection E as <- <- _; auto). destruct Hwe as [-> ->].
  assert (H0 : w0 = pc_world c /\ e0 = []).
  { unfold reconcile_phase in Er. destruct (flat_map _ (pc_objects c)); [|injection Er as <- <- _; auto].
    eapply phase_paused_no_write; eauto. }
  destruct H0 as [-> ->]. cbn. destruct (is_nil (pc_between c)); cbn; [apply store_eqb_refl|reflexivity].
Qed.

(** C11: rollout gate and namespace bound, for any third party. *)
Theorem m11p_rollout_sound (c : pcase) :
  pc_teardown c = false -> m11p (set_obs c (model_run c)) = true.
Proof.
  intros Ht. unfold m11p. destruct (model_run c) as [[w e] r] eqn:E.
  set (c' := set_obs c (w, e, r)).
  change (pc_teardown c') with (pc_teardown c). change (pc_objects c') with (pc_objects c).
  change (pc_events c') with e. change (pc_res c') with r. change (pc_owner c') with (pc_owner c).
  rewrite Ht. cbn [negb orb andb].
  unfold model_run in E. rewrite Ht in E.
  destruct (reconcile_phase (pc_cfg c) (apply_envops (pc_between c)) (pc_world c) (pc_owner c) (pc_prev c) false (pc_objects c)) as [[w0 e0] r0] eqn:Er.
  assert (Hwe : e = e0) by (destruct r0; injection E as _ <- _; auto). subst e0.
  assert (Hviol : forall p, violates c' p = negb (is_nil (preflight_obj (pc_flavor c) (pc_owner c) false p))) by reflexivity.
  apply andb_true_iff. split.
  - (* gate *)
    destruct (existsb (violates c') (pc_objects c)) eqn:Ev; [|reflexivity]. cbn [negb orb].
    apply existsb_exists in Ev. destruct Ev as (p & Hin & Hv). rewrite Hviol in Hv. apply negb_true_iff in Hv.
    assert (Hne : preflight_obj (c_flavor (pc_cfg c)) (pc_owner c) false p <> []).
    { cbn [pc_cfg c_flavor]. intros Hn. rewrite Hn in Hv. discriminate. }
    destruct (phase_preflight_gate (pc_cfg c) (apply_envops (pc_between c)) (pc_world c) (pc_owner c) (pc_prev c) false (pc_objects c) p Hin Hne) as (vs & Hg & Hvs).
    rewrite Hg in Er. injection Er as <- <- <-. injection E as _ <-. destruct vs; [contradiction|reflexivity].
  - (* namespace bound *)
    assert (Hnb : ns_bound c' = match pc_flavor c with FObjectSet | FSamePhase => negb (oi_ns (ow_id (pc_owner c)) =? 0) | _ => false end) by reflexivity.
    rewrite Hnb.
    destruct (match pc_flavor c with FObjectSet | FSamePhase => negb (oi_ns (ow_id (pc_owner c)) =? 0) | _ => false end) eqn:Eb; [|reflexivity].
    cbn [negb orb].
    assert (Hf : ns_bound_flavor (c_flavor (pc_cfg c)) = true /\ oi_ns (ow_id (pc_owner c)) <> 0).
    { cbn [pc_cfg c_flavor]. destruct (pc_flavor c); try discriminate; split; try reflexivity;
        apply negb_true_iff in Eb; now apply N.eqb_neq in Eb. }
    destruct Hf as [Hf Hns].
    pose proof (phase_writes_ns_bound (pc_cfg c) _ _ _ _ _ _ _ _ Hf Hns Er) as Hb.
    apply forallb_forall. intros x Hx. rewrite Forall_forall in Hb. destruct (Hb x Hx) as [H1 H2].
    rewrite H1, N.eqb_refl, H2. reflexivity.
Qed.

(** The fault-stage monitor of C11 is the write clause of [m11p]. *)
Theorem m11f_sound (c : pcase) : pc_teardown c = false -> m11f (set_obs c (model_run c)) = true.
Proof.
  intros Ht. pose proof (m11p_rollout_sound c Ht) as H. unfold m11p in H. unfold m11f.
  apply andb_true_iff in H. destruct H as [H _]. apply andb_true_iff in H. destruct H as [H _].
  destruct (pc_teardown (set_obs c (model_run c))); [reflexivity|]. cbn [orb] in *.
  destruct (negb (existsb (violates (set_obs c (model_run c))) (pc_objects (set_obs c (model_run c))))); [reflexivity|].
  cbn [orb] in *. apply andb_true_iff in H. now destruct H.
Qed.

(** C04 at the phase level, for the ObjectSet controllers' flavour (native owner references), quiet third
    parties and a phase whose entries name distinct objects: the model never reports a phase as cleaned up
    while a listed, teardown-admissible object is still controlled by the owner. *)
From PKO Require Import ObjectSet ObjectSetProofs.
Theorem m04p_objectset_sound (c : pcase) :
  pc_flavor c = FObjectSet -> is_nil (pc_between c) = true ->
  NoDup (map (desired_key (pc_owner c)) (pc_objects c)) ->
  m04p (set_obs c (model_run c)) = true.
Proof.
  intros Hfl Hq Hnd. unfold m04p. destruct (model_run c) as [[w e] r] eqn:E.
  set (c' := set_obs c (w, e, r)).
  change (pc_teardown c') with (pc_teardown c). change (pc_objects c') with (pc_objects c).
  change (pc_res c') with r. change (pc_owner c') with (pc_owner c). change (pc_post c') with (w_store w).
  change (pc_flavor c') with (pc_flavor c).
  destruct (pc_teardown c) eqn:Ht; [|reflexivity]. cbn [negb orb].
  unfold model_run in E. rewrite Ht in E. rewrite (quiet_between c Hq) in E.
  destruct (teardown_phase (pc_cfg c) idw (pc_world c) (pc_owner c) (pc_objects c)) as [[w0 e0] r0] eqn:Et.
  destruct r0 as [|d]; injection E as <- <- <-; [reflexivity|].
  cbv beta iota. destruct d; [|reflexivity].
  unfold teardown_phase in Et.
  assert (Hcfg : pc_cfg c = {| c_flavor := FObjectSet; c_force := pc_force c |}) by (unfold pc_cfg; now rewrite Hfl).
  rewrite Hcfg in Et.
  destruct (td_objs_done (pc_force c) (pc_owner c) (pc_objects c) _ _ _ _ Et Hnd) as [_ Hall].
  apply forallb_forall. intros p Hp. specialize (Hall p Hp). unfold td_obj_done in Hall.
  assert (Hv : violates c' p = negb (is_nil (preflight_obj (pc_flavor c) (pc_owner c) false p))) by reflexivity.
  rewrite Hv, Hfl. destruct Hall as [Hpf|Hl].
  - destruct (preflight_obj FObjectSet (pc_owner c) false p); [contradiction|reflexivity].
  - apply orb_true_iff. right. unfold key_of in Hl. cbn [flavor_strat].
    destruct (lookup (desired_key (pc_owner c) p) (w_store w0)); [now rewrite Hl|reflexivity].
Qed.
