(** Correspondence and monitors for the slice clauses of C14 (harness modes "slicenames", "slicegc",
    "slicedset"; models in theories/Slices.v). *)
From Coq Require Import List Arith NArith ZArith Bool Lia.
From PKO Require Import Util Base BaseProofs Owner Api Phase ObjectSet ObjectSetProofs Slices SlicesProofs.
From PKOCorr Require Import PhaseCorr SetCorr.
Import ListNotations.
Local Open Scope N_scope.

(** * (a) slice names *)

(** The real hash as observed: a table (content, collision count) -> name; names outside the table get
    numbers that clash with nothing. Contents are numbers (equal number = DeepEqual objects). *)
Definition tbl_hash (t : list (N * N * N)) (c cc : N) : N :=
  match find (fun e => let '(c', cc', _) := e in (c' =? c) && (cc' =? cc)) t with
  | Some (_, _, n) => n
  | None => 1000000 + c * 1000 + cc
  end.

Record ncase := {
  nc_table : list (N * N * N);
  nc_pre : nstore N;                   (* slices that exist before chunkPhase: name -> content, controlled? *)
  nc_chunks : list N;                  (* the chunks the chunker returned, by content *)
  (* observation *)
  nc_err : bool;                       (* chunkPhase returned an error *)
  nc_out : list (N * bool);            (* phase.Slices in order, and whether that slice was created by this call *)
  nc_post : nstore N                   (* all slices afterwards *)
}.

Definition eslice_eqb (a b : eslice N) : bool := (es_content a =? es_content b) && Bool.eqb (es_ctrl a) (es_ctrl b).
Definition nstore_sub (a b : nstore N) : bool :=
  forallb (fun kv => option_eqb eslice_eqb (nlookup (fst kv) a) (nlookup (fst kv) b)) a.
Definition nstore_eqb (a b : nstore N) : bool := nstore_sub a b && nstore_sub b a.

Definition nmodel (c : ncase) : nstore N * option (list (N * N * bool)) :=
  chunk_phase N.eqb (tbl_hash (nc_table c)) (nc_pre c) (nc_chunks c).

Definition nagree (c : ncase) : bool :=
  match nmodel c with
  | (st, Some l) =>
      negb (nc_err c) &&
      list_eqb (fun a b => (fst a =? fst b) && Bool.eqb (snd a) (snd b)) (map (fun x => (fst (fst x), snd x)) l) (nc_out c) &&
      nstore_eqb st (nc_post c)
  | (_, None) => false
  end.

(** The property on the observation: every chunk ended in a slice that holds exactly its content and is
    controlled by the deployment (so a name held by other content or by a foreign controller was not
    reused, and equal names mean equal content); no existing slice was modified. *)
Definition nmonitor (c : ncase) : bool :=
  forallb (fun kv => option_eqb eslice_eqb (nlookup (fst kv) (nc_pre c)) (nlookup (fst kv) (nc_post c))) (nc_pre c) &&
  (nc_err c ||
   (Nat.eqb (length (nc_out c)) (length (nc_chunks c)) &&
    forallb (fun cx => option_eqb eslice_eqb (nlookup (fst (snd cx)) (nc_post c))
                                  (Some {| es_content := fst cx; es_ctrl := true |}))
            (combine (nc_chunks c) (nc_out c)))).

Definition njudge (c : ncase) : bool * bool := (nagree c, nmonitor c).

Lemma eslice_eqb_refl e : eslice_eqb e e = true.
Proof. unfold eslice_eqb. now rewrite N.eqb_refl, eqb_reflx. Qed.

Lemma nlookup_of_in (n : N) (e : eslice N) st : In (n, e) st -> exists e', nlookup n st = Some e'.
Proof.
  induction st as [|[m e0] r IH]; cbn; [contradiction|].
  destruct (N.eqb_spec n m); [eauto|]. intros [H|H]; [injection H; congruence|auto].
Qed.

(** Soundness: the model's own output satisfies the monitor, for every hash table, store and chunk list. *)
Theorem nmonitor_sound table pre chunks st l :
  chunk_phase N.eqb (tbl_hash table) pre chunks = (st, Some l) ->
  nmonitor {| nc_table := table; nc_pre := pre; nc_chunks := chunks; nc_err := false;
              nc_out := map (fun x => (fst (fst x), snd x)) l; nc_post := st |} = true.
Proof.
  intros H. destruct (chunk_phase_names N.eqb N.eqb_eq (tbl_hash table) _ _ _ _ H) as (Hlen & Hall & Hpres).
  unfold nmonitor. cbn [nc_pre nc_post nc_err nc_out nc_chunks orb]. rewrite !andb_true_iff. repeat split.
  - apply forallb_forall. intros [n e] Hin. cbn [fst].
    destruct (nlookup_of_in _ _ _ Hin) as (e' & El). rewrite El, (Hpres _ _ El). cbn. apply eslice_eqb_refl.
  - apply Nat.eqb_eq. now rewrite map_length.
  - clear Hlen Hpres H. induction Hall as [|c x cs xs Hx _ IH]; [reflexivity|].
    cbn [map combine forallb]. rewrite IH, andb_true_r. destruct x as [[n cc] cr]. cbn [fst snd].
    destruct Hx as [_ Hl]. rewrite Hl. cbn. apply eslice_eqb_refl.
Qed.

(** * (b) slice garbage collection *)

Record gcase := {
  gc_tmpl : list (list N);             (* slice names per phase of the template as just written *)
  gc_sets : list gset;                 (* every ObjectSet of the cluster *)
  gc_slices : list gslice;             (* every ObjectSlice at the instant of the collection *)
  gc_deleted : list N;                 (* observation: the Delete requests *)
  gc_want : list (list N);             (* the chunks (by content) the chunker returned for each phase of the update *)
  gc_got : list (list N);              (* observation: the contents of the slices the stored template names, per phase *)
  gc_foreign : list N;                 (* slices of OTHER namespaces that a deployment template or an ObjectSet there references *)
  gc_redeploy : bool;                  (* this step redeploys the unchanged package (same phases, same chunks as the step before) *)
  gc_prev : list (list N);             (* ... the slice names the template had after that step *)
  gc_created : list N                  (* observation: the slices created by this step *)
}.

(** Slices are numbered by (namespace, name); those referenced from other namespaces are never in the collector's list. *)
Definition gwf (c : gcase) : bool :=
  forallb (fun s => negb (gs_labelled s && existsb (N.eqb (gs_name s)) (gc_foreign c))) (gc_slices c).

Definition gagree (c : gcase) : bool :=
  list_eqb N.eqb (slice_gc (gc_tmpl c) (gc_sets c) (gc_slices c)) (gc_deleted c) && gwf c.

(** No deleted slice is named by the template or by an ObjectSet of the deployment, nor - in whatever namespace of
    the cluster it lives - by another deployment's template or an ObjectSet next to it. *)
Definition gmonitor (c : gcase) : bool :=
  forallb (fun n => negb (existsb (N.eqb n) (concat (gc_tmpl c))) && negb (existsb (N.eqb n) (gc_foreign c)) &&
                    forallb (fun s => negb (g_listed s) || negb (existsb (N.eqb n) (concat (g_refs s)))) (gc_sets c))
          (gc_deleted c).

(** The stored template decodes to the phases' chunks: slice by slice, in order, the content found under the
    name the template references is the content that was to be stored (no name was reused for other content). *)
Definition hmonitor (c : gcase) : bool := list_eqb (list_eqb N.eqb) (gc_got c) (gc_want c).

(** Redeploying the unchanged package creates no slice and keeps the names ("names are determined by content"). *)
Definition rmonitor (c : gcase) : bool :=
  negb (gc_redeploy c) || (is_nil (gc_created c) && list_eqb (list_eqb N.eqb) (gc_tmpl c) (gc_prev c)).

Definition gjudge (c : gcase) : bool * bool * bool * bool := (gagree c, gmonitor c, hmonitor c, rmonitor c).

Definition got_of (st : nstore N) (ls : list (list (N * N * bool))) : list (list N) :=
  map (map (fun x => match content_of st (fst (fst x)) with Some c => c | None => 999999999 end)) ls.

Theorem hmonitor_sound table st phases st' ls (c : gcase) :
  chunk_phases N.eqb (tbl_hash table) st phases = (st', Some ls) ->
  gc_want c = phases -> gc_got c = got_of st' ls -> hmonitor c = true.
Proof.
  intros H Hw Hg. destruct (chunk_phases_lossless N.eqb N.eqb_eq (tbl_hash table) _ _ _ _ H) as [Hm _].
  unfold hmonitor. rewrite Hw, Hg. unfold got_of. apply list_list_eqb_N_spec. clear H Hw Hg.
  revert ls Hm. induction phases as [|ph r IH]; intros [|l ls] Hm; try discriminate; [reflexivity|].
  cbn [map] in *. injection Hm as Hl Hr. rewrite (IH _ Hr). f_equal.
  clear -Hl. revert l Hl. induction ph as [|c0 cs IHc]; intros [|x l] Hl; try discriminate; [reflexivity|].
  cbn [map] in *. injection Hl as Hx Hl. rewrite Hx, (IHc _ Hl). reflexivity.
Qed.

Definition names_of (ls : list (list (N * N * bool))) : list (list N) := map (map (fun x => fst (fst x))) ls.
Definition created_of (ls : list (list (N * N * bool))) : list N :=
  concat (map (fun l => map (fun x => fst (fst x)) (filter (fun x => snd x) l)) ls).

(** Redeploying the unchanged package in the model: the second run exists, and any observation that reports its
    names and creations satisfies the redeploy monitor. *)
Theorem rmonitor_sound table st phases st1 ls :
  chunk_phases N.eqb (tbl_hash table) st phases = (st1, Some ls) ->
  exists ls2, chunk_phases N.eqb (tbl_hash table) st1 phases = (st1, Some ls2) /\
    forall c : gcase, gc_tmpl c = names_of ls2 -> gc_prev c = names_of ls -> gc_created c = created_of ls2 -> rmonitor c = true.
Proof.
  intros H. exists (map (@reused) ls). split; [exact (redeploy_unchanged N.eqb N.eqb_eq (tbl_hash table) _ _ _ _ H)|].
  intros c Ht Hp Hc. unfold rmonitor. destruct (gc_redeploy c); [|reflexivity]. cbn [negb orb].
  rewrite Ht, Hp, Hc. rewrite andb_true_iff. split.
  - unfold created_of, reused. clear. induction ls as [|l ls IH]; [reflexivity|]. cbn [map concat].
    assert (Hn : map (fun x : N * N * bool => fst (fst x)) (filter (fun x => snd x) (map (fun x : N * N * bool => (fst (fst x), snd (fst x), false)) l)) = []).
    { induction l as [|x l IHl]; [reflexivity|exact IHl]. }
    rewrite Hn. exact IH.
  - apply list_list_eqb_N_spec. unfold names_of, reused. rewrite map_map. apply map_ext. intros l. rewrite map_map. now apply map_ext.
Qed.


Theorem gmonitor_sound (c : gcase) :
  gc_deleted c = slice_gc (gc_tmpl c) (gc_sets c) (gc_slices c) -> gwf c = true -> gmonitor c = true.
Proof.
  intros Hd Hwf. unfold gmonitor. rewrite Hd. apply forallb_forall. intros n Hn.
  destruct (gc_safe _ _ _ _ Hn) as [Ht Hs]. rewrite !andb_true_iff. repeat split.
  - apply negb_true_iff. destruct (existsb (N.eqb n) (concat (gc_tmpl c))) eqn:E; [|reflexivity].
    apply existsb_Neqb in E. apply in_concat in E. destruct E as (ph & H1 & H2). exfalso. exact (Ht ph H1 H2).
  - apply gc_only_labelled in Hn. destruct Hn as (s & Hin & Hname & Hl).
    unfold gwf in Hwf. rewrite forallb_forall in Hwf. specialize (Hwf s Hin). rewrite Hl, Hname in Hwf. exact Hwf.
  - apply forallb_forall. intros s Hin. destruct (g_listed s) eqn:El; [|reflexivity]. cbn.
    apply negb_true_iff. destruct (existsb (N.eqb n) (concat (g_refs s))) eqn:E; [|reflexivity].
    apply existsb_Neqb in E. apply in_concat in E. destruct E as (ph & H1 & H2). exfalso. exact (Hs s ph Hin El H1 H2).
Qed.


(** * (c) sliced ObjectSet vs inline ObjectSet *)

Record xcase := {
  xc_fixed : bool;       (* compare the implementation with sliced_pass_fixed (slices loaded before teardown) *)
  xc_force : bool; xc_store : store; xc_rv : N; xc_uid : N;
  xc_sets : list oset;   (* as stored: phases carry their inline objects only *)
  xc_phases : list osphase; xc_nss : list (N * bool);   (* ObjectSetPhase objects and environment Namespaces *)
  xc_refs : refs_tbl; xc_slices : slstore; xc_srv : N;
  xc_kind : N; xc_ns : N; xc_name : N;
  xc_fault : option N;   (* Some i: the i-th read of an ObjectSlice in this pass fails with an error other than NotFound *)
  (* observation of the run on the sliced world *)
  xs_res : sres; xs_events : list xev; xs_post : store; xs_sets' : list oset; xs_phases' : list osphase;
  xs_rv' : N; xs_uid' : N; xs_slices' : slstore; xs_srv' : N;
  (* observation of the run on the twin world with the objects inline *)
  xi_res : sres; xi_events : list sev; xi_post : store; xi_sets' : list oset; xi_phases' : list osphase;
  xi_rv' : N; xi_uid' : N
}.

Definition xc_world (c : xcase) : xworld :=
  {| xw_sw := {| sw_w := {| w_store := xc_store c; w_rv := xc_rv c; w_uid := xc_uid c |}; sw_sets := xc_sets c;
                 sw_phases := xc_phases c; sw_nss := xc_nss c |};
     xw_refs := xc_refs c; xw_sl := {| xs_store := xc_slices c; xs_rv := xc_srv c |} |}.

Definition xmodel (c : xcase) : xworld * list xev * sres :=
  if xc_fixed c then sliced_pass_faulty (xc_force c) (option_map N.to_nat (xc_fault c)) (xc_world c) (xc_kind c) (xc_ns c) (xc_name c)
  else sliced_pass (xc_force c) (xc_world c) (xc_kind c) (xc_ns c) (xc_name c).

Definition xev_eqb (a b : xev) : bool :=
  match a, b with
  | XSet x, XSet y => sev_eqb x y
  | XSliceUpdate n1 m1 o1, XSliceUpdate n2 m2 o2 => (n1 =? n2) && (m1 =? m2) && list_eqb oref_eqb o1 o2
  | _, _ => false
  end.

Definition slice_eqb (a b : slkey * slice) : bool :=
  slkey_eqb (fst a) (fst b) && list_eqb pobj_eqb (sl_objects (snd a)) (sl_objects (snd b)) &&
  list_eqb oref_eqb (sl_owners (snd a)) (sl_owners (snd b)) && (sl_rv (snd a) =? sl_rv (snd b)).

Definition xagree_sliced (c : xcase) : bool :=
  let '(x, e, r) := xmodel c in
  sres_eqb r (xs_res c) && list_eqb xev_eqb e (xs_events c) && store_eqb (w_store (sw_w (xw_sw x))) (xs_post c) &&
  list_eqb oset_eqb (sw_sets (xw_sw x)) (xs_sets' c) && phases_eqb (sw_phases (xw_sw x)) (xs_phases' c) &&
  (w_rv (sw_w (xw_sw x)) =? xs_rv' c) && (w_uid (sw_w (xw_sw x)) =? xs_uid' c) &&
  list_eqb slice_eqb (xs_store (xw_sl x)) (xs_slices' c) && (xs_rv (xw_sl x) =? xs_srv' c).

(** The twin world is derived from the sliced one inside Coq; the inline run is judged by SetCorr.agree. *)
Definition xinline_case (c : xcase) : scase :=
  {| sc_force := xc_force c; sc_store := xc_store c; sc_rv := xc_rv c; sc_uid := xc_uid c;
     sc_sets := sw_sets (inline_of (xc_world c)); sc_phases := xc_phases c; sc_nss := xc_nss c; sc_kind := xc_kind c; sc_ns := xc_ns c; sc_name := xc_name c;
     sc_res := xi_res c; sc_events := xi_events c; sc_post := xi_post c; sc_sets' := xi_sets' c;
     sc_phases' := xi_phases' c; sc_rv' := xi_rv' c; sc_uid' := xi_uid' c |}.
Definition xagree_inline (c : xcase) : bool := SetCorr.agree (xinline_case c).

(** The property: provided every slice the ObjectSet references exists - or the ObjectSet is being deleted / archived,
    where a slice that is gone is skipped by design and the twin carries the objects of the slices that exist -
    the sliced run equals the inline
    run after erasing the slice requests: same requests on members and on the ObjectSet (finalizer, status
    with revision, conditions, controllerOf, remote phases; requests on ObjectSetPhase objects of delegated
    phases), same result, same final member store, same final ObjectSets (with the slices inlined), same
    ObjectSetPhase objects, same counters. *)
(** A read fault of the scenario that the pass runs into (only the teardown handler's reads are scripted). *)
Definition xfault_hits (c : xcase) : bool :=
  match find_set (xc_sets c) (xc_kind c) (xc_ns c) (xc_name c) with
  | None => false
  | Some mem => is_going mem && fault_hits (option_map N.to_nat (xc_fault c)) (xc_refs c) mem
  end.

Definition xmonitor (c : xcase) : bool :=
  match find_set (xc_sets c) (xc_kind c) (xc_ns c) (xc_name c) with
  | None => true
  | Some mem =>
      (negb (slices_exist (xc_slices c) (xc_refs c) mem) && negb (is_going mem)) || xfault_hits c ||
      (list_eqb sev_eqb (erase_slice_events (xs_events c)) (xi_events c) && sres_eqb (xs_res c) (xi_res c) &&
       store_eqb (xs_post c) (xi_post c) &&
       list_eqb oset_eqb (map (inline_set (xs_slices' c) (xc_refs c)) (xs_sets' c)) (xi_sets' c) &&
       list_eqb osphase_eqb (xs_phases' c) (xi_phases' c) &&
       (xs_rv' c =? xi_rv' c) && (xs_uid' c =? xi_uid' c))
  end.

(** deleted or archived (and not yet Archived=True): the part of the quantifier F-C14 is about *)
Definition xgoing (c : xcase) : bool :=
  match find_set (xc_sets c) (xc_kind c) (xc_ns c) (xc_name c) with
  | None => false
  | Some mem => is_going mem
  end.

(** A referenced slice that cannot be loaded. ObjectSet not being deleted or archived, some referenced slice
    missing: the pass writes no member object and no ObjectSetPhase object, and no status request newly claims
    availability (Available is sent as stored, or False); the member objects are as before. *)
Definition keepsb (mem : oset) (e : sev) : bool :=
  match e with
  | SMeta (MStatus _ conds _ _ _ _) =>
      option_eqb cond_eqb (find_cond conds CAvailable) (find_cond (os_conds mem) CAvailable) ||
      match find_cond conds CAvailable with Some cd => cstatus_eqb (cd_status cd) SFalse | None => false end
  | SMeta (MFinalizer _ _) => true
  | SPhase (PGet _ _) => true
  | SPhase _ => false
  | SMember _ => false
  end.

Definition mmonitor (c : xcase) : bool :=
  match find_set (xc_sets c) (xc_kind c) (xc_ns c) (xc_name c) with
  | None => true
  | Some mem =>
      is_going mem || slices_exist (xc_slices c) (xc_refs c) mem ||
      (forallb (keepsb mem) (erase_slice_events (xs_events c)) && store_eqb (xs_post c) (xc_store c))
  end.

(** A slice read that fails with anything but NotFound while the ObjectSet is torn down: no member request, the
    finalizer is not removed, Archived=True is not reported, and the pass ends with an error. *)
Definition fmonitor (c : xcase) : bool :=
  negb (xfault_hits c) ||
  (forallb (fun e => match e with
                     | SMember _ => false
                     | SMeta (MFinalizer false _) => false
                     | SMeta (MStatus _ cs _ _ _ _) => negb (cond_true cs CArchived)
                     | _ => true
                     end) (erase_slice_events (xs_events c)) &&
   match xs_res c with SError => true | _ => false end).

Definition xjudge (c : xcase) : bool * bool * bool * bool * bool * bool :=
  (xagree_sliced c, xagree_inline c, xmonitor c, xgoing c, mmonitor c, fmonitor c).

(** ** Soundness of the monitor: reflexivity of the comparison functions ... *)
Lemma list_eqb_refl {A} (eqb : A -> A -> bool) (Hr : forall x, eqb x x = true) l : list_eqb eqb l l = true.
Proof. induction l as [|x l IH]; cbn; [reflexivity|now rewrite Hr, IH]. Qed.
Lemma option_eqb_refl {A} (eqb : A -> A -> bool) (Hr : forall x, eqb x x = true) o : option_eqb eqb o o = true.
Proof. destruct o; cbn; auto. Qed.
Lemma obj_eqb_refl o : obj_eqb o o = true.
Proof. now apply obj_eqb_spec. Qed.
Lemma oref_eqb_refl o : oref_eqb o o = true.
Proof. now apply oref_eqb_spec. Qed.

Lemma ev_eqb_refl e : ev_eqb e e = true.
Proof.
  destruct e as [k r p q|k r p q|k r u v p d]; cbn;
    rewrite ?okey_eqb_refl, ?obj_eqb_refl, ?N.eqb_refl, ?(option_eqb_refl obj_eqb obj_eqb_refl); cbn.
  - destruct q; cbn; auto using obj_eqb_refl.
  - destruct q; cbn; auto using obj_eqb_refl.
  - now destruct d.
Qed.

Lemma cond_eqb_refl c : cond_eqb c c = true.
Proof. destruct c as [[] [] [] g]; cbn; now rewrite Z.eqb_refl. Qed.
Lemma nn_eqb_refl x : nn_eqb x x = true.
Proof. unfold nn_eqb. now rewrite !N.eqb_refl. Qed.

Lemma pobj_eqb_refl p : pobj_eqb p p = true.
Proof. unfold pobj_eqb. rewrite !N.eqb_refl, !eqb_reflx. now destruct (po_cp p). Qed.

Lemma osphase_eqb_refl p : osphase_eqb p p = true.
Proof.
  unfold osphase_eqb, oid_eqb. rewrite !N.eqb_refl, !Z.eqb_refl, !eqb_reflx,
    (list_eqb_refl oref_eqb oref_eqb_refl), (list_eqb_refl N.eqb N.eqb_refl), (list_eqb_refl pobj_eqb pobj_eqb_refl),
    (list_eqb_refl cond_eqb cond_eqb_refl), (list_eqb_refl okey_eqb okey_eqb_refl). reflexivity.
Qed.

Lemma pev_eqb_refl e : pev_eqb e e = true.
Proof.
  destruct e as [n r|n r|n b r|n d|n o|n a o|n cs ks o]; cbn;
    rewrite ?N.eqb_refl, ?eqb_reflx, ?(option_eqb_refl osphase_eqb osphase_eqb_refl),
      ?(list_eqb_refl cond_eqb cond_eqb_refl), ?(list_eqb_refl okey_eqb okey_eqb_refl); try reflexivity.
  now destruct d.
Qed.

Lemma sev_eqb_refl e : sev_eqb e e = true.
Proof.
  destruct e as [x|[a o|r cs ks rm f ok]|p]; cbn.
  - apply ev_eqb_refl.
  - now rewrite !eqb_reflx.
  - rewrite Z.eqb_refl, (list_eqb_refl cond_eqb cond_eqb_refl), (list_eqb_refl okey_eqb okey_eqb_refl),
      (list_eqb_refl nn_eqb nn_eqb_refl), (option_eqb_refl N.eqb N.eqb_refl), eqb_reflx. reflexivity.
  - apply pev_eqb_refl.
Qed.

Lemma sres_eqb_refl r : sres_eqb r r = true.
Proof. destruct r as [|[]|]; reflexivity. Qed.

Lemma store_sub_refl s : store_sub s s = true.
Proof. unfold store_sub. apply forallb_forall. intros kv _. apply option_eqb_refl. apply obj_eqb_refl. Qed.
Lemma store_eqb_refl s : store_eqb s s = true.
Proof. unfold store_eqb. now rewrite store_sub_refl. Qed.

Lemma phase_eqb_refl p : phase_eqb p p = true.
Proof. unfold phase_eqb. now rewrite N.eqb_refl, eqb_reflx, (list_eqb_refl pobj_eqb pobj_eqb_refl). Qed.
Lemma lifecycle_eqb_refl l : lifecycle_eqb l l = true.
Proof. now destruct l. Qed.
Lemma oset_eqb_refl s : oset_eqb s s = true.
Proof.
  unfold oset_eqb, oid_eqb. rewrite !N.eqb_refl, !Z.eqb_refl, !eqb_reflx, lifecycle_eqb_refl,
    (list_eqb_refl phase_eqb phase_eqb_refl), (list_eqb_refl N.eqb N.eqb_refl), (list_eqb_refl cond_eqb cond_eqb_refl),
    (list_eqb_refl okey_eqb okey_eqb_refl), (list_eqb_refl nn_eqb nn_eqb_refl). reflexivity.
Qed.

(** ... and the equivalence theorems. An observation built from the two model runs: *)
Definition xcase_of_f (fault : option N) (fixed force : bool) (x : xworld) (kind ns name : N)
           (sl : xworld * list xev * sres) (il : sworld * list sev * sres) : xcase :=
  let '(x', evs, r) := sl in
  let '(sw', ievs, ir) := il in
  {| xc_fixed := fixed; xc_force := force; xc_store := w_store (sw_w (xw_sw x)); xc_rv := w_rv (sw_w (xw_sw x));
     xc_uid := w_uid (sw_w (xw_sw x)); xc_sets := sw_sets (xw_sw x);
     xc_phases := sw_phases (xw_sw x); xc_nss := sw_nss (xw_sw x); xc_refs := xw_refs x;
     xc_slices := xs_store (xw_sl x); xc_srv := xs_rv (xw_sl x); xc_kind := kind; xc_ns := ns; xc_name := name;
     xc_fault := fault;
     xs_res := r; xs_events := evs; xs_post := w_store (sw_w (xw_sw x')); xs_sets' := sw_sets (xw_sw x'); xs_phases' := sw_phases (xw_sw x');
     xs_rv' := w_rv (sw_w (xw_sw x')); xs_uid' := w_uid (sw_w (xw_sw x'));
     xs_slices' := xs_store (xw_sl x'); xs_srv' := xs_rv (xw_sl x');
     xi_res := ir; xi_events := ievs; xi_post := w_store (sw_w sw'); xi_sets' := sw_sets sw'; xi_phases' := sw_phases sw';
     xi_rv' := w_rv (sw_w sw'); xi_uid' := w_uid (sw_w sw') |}.

Definition xcase_of := xcase_of_f None.

Lemma xfault_hits_none c : xc_fault c = None -> xfault_hits c = false.
Proof.
  intros H. unfold xfault_hits, fault_hits. rewrite H. cbn. destruct (find_set _ _ _ _); [|reflexivity].
  now rewrite andb_false_r, andb_false_r.
Qed.

Lemma xmonitor_of_equiv fixed force x kind ns name x' evs r :
  (forall mem, find_set (sw_sets (xw_sw x)) kind ns name = Some mem ->
               slices_exist (xs_store (xw_sl x)) (xw_refs x) mem = true \/ is_going mem = true ->
               objectset_pass force (inline_of x) kind ns name = (inline_of x', erase_slice_events evs, r) /\
               xw_refs x' = xw_refs x) ->
  xmonitor (xcase_of fixed force x kind ns name (x', evs, r) (objectset_pass force (inline_of x) kind ns name)) = true.
Proof.
  intros H. unfold xmonitor. rewrite xfault_hits_none; [|unfold xcase_of, xcase_of_f; now destruct (objectset_pass _ _ _ _ _) as [[? ?] ?]].
  unfold xcase_of, xcase_of_f.
  destruct (objectset_pass force (inline_of x) kind ns name) as [[sw' ievs] ir] eqn:E.
  cbn [xc_sets xc_kind xc_ns xc_name xc_slices xc_refs xs_events xi_events xs_res xi_res xs_post xi_post xs_slices' xs_sets' xi_sets' xs_phases' xi_phases'
       xs_rv' xi_rv' xs_uid' xi_uid'].
  destruct (find_set (sw_sets (xw_sw x)) kind ns name) as [mem|] eqn:Hf; [|reflexivity].
  specialize (H mem eq_refl).
  destruct (slices_exist (xs_store (xw_sl x)) (xw_refs x) mem) eqn:Hex; [|destruct (is_going mem) eqn:Hg; [|reflexivity]].
  1: destruct (H (or_introl eq_refl)) as [Heq Hrefs]. 2: destruct (H (or_intror eq_refl)) as [Heq Hrefs].
  all: cbn [negb orb andb]; injection Heq as -> -> ->;
    unfold inline_of, inline_sw; cbn [sw_w sw_sets]; rewrite Hrefs;
    now rewrite (list_eqb_refl sev_eqb sev_eqb_refl), sres_eqb_refl, store_eqb_refl, (list_eqb_refl oset_eqb oset_eqb_refl),
      (list_eqb_refl osphase_eqb osphase_eqb_refl), !N.eqb_refl.
Qed.


(** For the repair candidate the monitor accepts every pass, in every lifecycle state ... *)
Theorem xmonitor_sound_fixed force x kind ns name :
  xmonitor (xcase_of true force x kind ns name (sliced_pass_fixed force x kind ns name)
                     (objectset_pass force (inline_of x) kind ns name)) = true.
Proof.
  destruct (sliced_pass_fixed force x kind ns name) as [[x' evs] r] eqn:E.
  apply xmonitor_of_equiv. intros mem Hf Hex.
  destruct (is_going mem) eqn:Hg.
  - destruct (sliced_fixed_equiv_teardown force x kind ns name mem x' evs r Hf Hg E) as (H1 & H2 & _). auto.
  - destruct Hex as [Hex|Hex]; [|discriminate].
    destruct (sliced_fixed_equiv force x kind ns name mem x' evs r Hf Hex E) as (H1 & H2 & _). auto.
Qed.

(** ... for the pass as it is, every pass on an ObjectSet that is not being deleted or archived. *)
Theorem xmonitor_sound_active force x kind ns name :
  xgoing (xcase_of false force x kind ns name (sliced_pass force x kind ns name)
                   (objectset_pass force (inline_of x) kind ns name)) = false ->
  xmonitor (xcase_of false force x kind ns name (sliced_pass force x kind ns name)
                     (objectset_pass force (inline_of x) kind ns name)) = true.
Proof.
  destruct (sliced_pass force x kind ns name) as [[x' evs] r] eqn:E. intros Hgo.
  apply xmonitor_of_equiv. intros mem Hf Hex.
  assert (Hg : is_going mem = false).
  { unfold xgoing, xcase_of, xcase_of_f in Hgo. destruct (objectset_pass force (inline_of x) kind ns name) as [[a b] c0].
    cbn [xc_sets xc_kind xc_ns xc_name] in Hgo. now rewrite Hf in Hgo. }
  destruct Hex as [Hex|Hex]; [|congruence].
  destruct (sliced_equiv_active force x kind ns name mem x' evs r Hf Hg Hex E) as (H1 & H2 & _). auto.
Qed.

(** The witness of F-C14 as a case: the monitor rejects the pass as it is on the deleted sliced ObjectSet. *)
Lemma xmonitor_witness :
  xmonitor (xcase_of false false (wit_world true LActive) 1 1 10 (sliced_pass false (wit_world true LActive) 1 1 10)
                     (objectset_pass false (inline_of (wit_world true LActive)) 1 1 10)) = false.
Proof. vm_compute. reflexivity. Qed.

(** ** Soundness of the missing-slice and read-fault monitors *)

Lemma option_cond_eqb_refl o : option_eqb cond_eqb o o = true.
Proof. apply option_eqb_refl. apply cond_eqb_refl. Qed.

Lemma keepsb_of mem e : status_keeps mem e -> keepsb mem e = true.
Proof.
  destruct e as [x|[a o|r cs ks rm f ok]|[]]; cbn; try tauto; try reflexivity.
  intros (_ & [Ha|(cd & Hc & Hs)] & _).
  - rewrite Ha. now rewrite option_cond_eqb_refl.
  - rewrite Hc, Hs. cbn. apply orb_true_r.
Qed.

Lemma mmonitor_of fault fixed force x kind ns name x' evs r il :
  (forall mem, find_set (sw_sets (xw_sw x)) kind ns name = Some mem -> is_going mem = false ->
               slices_exist (xs_store (xw_sl x)) (xw_refs x) mem = false ->
               Forall (status_keeps mem) (erase_slice_events evs) /\
               w_store (sw_w (xw_sw x')) = w_store (sw_w (xw_sw x))) ->
  mmonitor (xcase_of_f fault fixed force x kind ns name (x', evs, r) il) = true.
Proof.
  intros H. unfold mmonitor, xcase_of_f. destruct il as [[sw' ievs] ir].
  cbn [xc_sets xc_kind xc_ns xc_name xc_slices xc_refs xs_events xs_post xc_store].
  destruct (find_set (sw_sets (xw_sw x)) kind ns name) as [mem|] eqn:Hf; [|reflexivity].
  destruct (is_going mem) eqn:Hg; [reflexivity|].
  destruct (slices_exist (xs_store (xw_sl x)) (xw_refs x) mem) eqn:Hex; [reflexivity|]. cbn [orb].
  destruct (H mem eq_refl Hg Hex) as [Hk Hst]. rewrite Hst, store_eqb_refl, andb_true_r.
  apply forallb_forall. intros e He. apply keepsb_of. rewrite Forall_forall in Hk. now apply Hk.
Qed.

(** Every pass of either wrapper satisfies the missing-slice monitor ... *)
Theorem mmonitor_sound force x kind ns name il :
  mmonitor (xcase_of_f None false force x kind ns name (sliced_pass force x kind ns name) il) = true.
Proof.
  destruct (sliced_pass force x kind ns name) as [[x' evs] r] eqn:E. apply mmonitor_of. intros mem Hf Hg Hex.
  destruct (sliced_missing_slice_no_rollout force x kind ns name mem x' evs r Hf Hg Hex E) as (H1 & H2 & _). auto.
Qed.

Theorem mmonitor_sound_fixed force fault x kind ns name il :
  mmonitor (xcase_of_f fault true force x kind ns name
                       (sliced_pass_faulty force (option_map N.to_nat fault) x kind ns name) il) = true.
Proof.
  destruct (sliced_pass_faulty force (option_map N.to_nat fault) x kind ns name) as [[x' evs] r] eqn:E.
  apply mmonitor_of. intros mem Hf Hg Hex.
  destruct (sliced_missing_slice_no_rollout_fixed force _ x kind ns name mem x' evs r Hf Hg Hex E) as (H1 & H2 & _). auto.
Qed.

(** ... and every pass of the repaired wrapper with a failing slice read satisfies the read-fault monitor. *)
Theorem fmonitor_sound force fault x kind ns name il :
  fmonitor (xcase_of_f fault true force x kind ns name
                       (sliced_pass_faulty force (option_map N.to_nat fault) x kind ns name) il) = true.
Proof.
  destruct (sliced_pass_faulty force (option_map N.to_nat fault) x kind ns name) as [[x' evs] r] eqn:E.
  destruct il as [[sw' ievs] ir]. unfold fmonitor, xfault_hits, xcase_of_f.
  cbn [xc_sets xc_kind xc_ns xc_name xc_refs xc_fault xs_events xs_res].
  destruct (find_set (sw_sets (xw_sw x)) kind ns name) as [mem|] eqn:Hf; [|reflexivity].
  destruct (is_going mem && fault_hits (option_map N.to_nat fault) (xw_refs x) mem) eqn:Eh; [|reflexivity].
  cbn [negb orb]. apply andb_true_iff in Eh. destruct Eh as [Hg Hh].
  unfold fault_hits in Hh. apply andb_true_iff in Hh. destruct Hh as [Hfin Hi].
  destruct fault as [i|]; [|discriminate]. cbn [option_map] in *. apply Nat.ltb_lt in Hi.
  rewrite (teardown_read_fault_inert force _ x kind ns name mem Hf Hg Hfin Hi) in E. injection E as <- <- <-. reflexivity.
Qed.

(** * The ObjectDeployment controller's view of a sliced revision (harness mode "sliceobjects") *)
From Coq Require Import Permutation.

Record ocase := {
  oc_set : oset;                 (* as stored: inline objects only *)
  oc_refs : list (list N);       (* its slice names per phase *)
  oc_slices : slstore;
  (* observation *)
  oc_err : bool;                 (* getObjectsIncludingSlices returned an error *)
  oc_keys : list okey;           (* the identifiers it returned for the sliced ObjectSet *)
  oc_inline : list okey          (* ... and for the twin with the objects inline *)
}.

Definition oc_tbl (c : ocase) : refs_tbl :=
  [(oi_kind (os_id (oc_set c)), oi_ns (os_id (oc_set c)), oi_name (os_id (oc_set c)), oc_refs c)].

Definition oagree (c : ocase) : bool :=
  match deploy_objects (oc_slices c) (oc_tbl c) (oc_set c) with
  | Some l => negb (oc_err c) && list_eqb okey_eqb l (oc_keys c)
  | None => oc_err c
  end &&
  let i := inline_set (oc_slices c) (oc_tbl c) (oc_set c) in
  list_eqb okey_eqb (map (spec_key i) (all_objects i)) (oc_inline c).

Definition kcount (k : okey) (l : list okey) : nat := length (filter (okey_eqb k) l).
Definition keys_permb (a b : list okey) : bool := forallb (fun k => Nat.eqb (kcount k a) (kcount k b)) (a ++ b).

(** If every referenced slice exists, the archive reconciler sees the same objects (as a multiset) for the sliced
    ObjectSet as for the ObjectSet with the objects inline; if one cannot be read it does not produce a view at all
    (the objects of the revision are not known; the decision must not be taken on a partial list). *)
Definition omonitor (c : ocase) : bool :=
  if slices_exist (oc_slices c) (oc_tbl c) (oc_set c)
  then negb (oc_err c) && keys_permb (oc_keys c) (oc_inline c)
  else oc_err c.

Definition ojudge (c : ocase) : bool * bool := (oagree c, omonitor c).

Lemma kcount_perm k a b : Permutation a b -> kcount k a = kcount k b.
Proof.
  unfold kcount. induction 1 as [|x a b _ IH|x y a|a b c0 _ IH1 _ IH2]; cbn; try reflexivity.
  - destruct (okey_eqb k x); cbn; now rewrite IH.
  - destruct (okey_eqb k y), (okey_eqb k x); reflexivity.
  - now rewrite IH1.
Qed.

Lemma keys_permb_of a b : Permutation a b -> keys_permb a b = true.
Proof. intros H. unfold keys_permb. apply forallb_forall. intros k _. apply Nat.eqb_eq. now apply kcount_perm. Qed.

Theorem omonitor_sound s refs slices :
  let t := [(oi_kind (os_id s), oi_ns (os_id s), oi_name (os_id s), refs)] in
  omonitor {| oc_set := s; oc_refs := refs; oc_slices := slices;
              oc_err := match deploy_objects slices t s with Some _ => false | None => true end;
              oc_keys := match deploy_objects slices t s with Some l => l | None => [] end;
              oc_inline := map (spec_key (inline_set slices t s)) (all_objects (inline_set slices t s)) |} = true.
Proof.
  intros t. unfold omonitor, oc_tbl. cbn [oc_slices oc_set oc_refs oc_err oc_keys oc_inline]. fold t.
  destruct (deploy_objects slices t s) as [l|] eqn:H.
  - pose proof (deploy_objects_inline _ _ _ _ H) as Hp. unfold deploy_objects in H.
    destruct (slices_exist slices t s); [|discriminate]. cbn [negb andb]. now apply keys_permb_of.
  - apply deploy_objects_none in H. now rewrite H.
Qed.
