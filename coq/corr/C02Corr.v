(** C02 monitor: handover moves objects forward only and leaves exactly one controller. *)
From Coq Require Import List NArith ZArith Bool.
From PKO Require Import Util Base Owner OwnerProofs Api Phase AdoptionProofs AdoptProofs.
From PKOCorr Require Import PhaseCorr.
Import ListNotations.
Local Open Scope N_scope.

Section Mon.
  Variable c : pcase.
  Let s := flavor_strat (pc_flavor c).
  Let ow := pc_owner c.

  Definition rev_le (a : obj) (z : Z) : bool :=
    match obj_revision a with Some r => (r <=? z)%Z | None => false end.

  Definition ev_okb (e : ev) : bool :=
    match e with
    | EApply k rd pre post =>
        match post with
        | POk o =>
            (* never two controllers *)
            refs_valid (o_owners o) && (Nat.leb (length (filter r_ctrl (refs s o))) 1) &&
            (* every apply records the owner's revision *)
            revann_eqb (o_rev o) (RevNum (ow_rev ow)) &&
            match rd with
            | Some r0 =>
                if is_controller s (ow_id ow) r0 then true else
                (* an adoption: only from a revision that is not higher, never lowering it *)
                rev_le r0 (ow_rev ow) &&
                (* afterwards the adopting owner is the only controller; with quiet third parties and a
                   well-formed owner list the former owners are still listed, demoted *)
                (negb (is_nil (pc_between c)) || negb (obj_wfb s (ow_id ow) r0) ||
                 (list_eqb oref_eqb (filter r_ctrl (refs s o)) [ctrl_ref (ow_id ow)] &&
                  match s with
                  | Native => forallb (fun r => same_gkn r (ow_id ow) || existsb (oref_eqb (demote r)) (o_owners o)) (o_owners r0)
                  | Annot => list_eqb oref_eqb (o_aowners o) [ctrl_ref (ow_id ow)]
                  end))
            | None =>
                (* an apply the pass did not precede by a successful read of the object must be a create:
                   with quiet third parties the object must not exist (no apply over an unread object) *)
                negb (is_nil (pc_between c)) || match pre with None => true | Some _ => false end
            end
        | _ => true
        end
    | _ => true
    end.

  Definition monitor : bool := pc_teardown c || forallb ev_okb (pc_events c).
End Mon.

Definition judge (c : pcase) : bool * bool := (agree c, monitor c).
