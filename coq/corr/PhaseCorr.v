(** Correspondence between the real PhaseReconciler (harness mode "phase") and Phase.v:
    case type, model run, agreement. Shared by C01, C02, C05, C09, C11. *)
From Coq Require Import List NArith ZArith Bool.
From PKO Require Import Util Base Owner Api Phase.
Import ListNotations.
Local Open Scope N_scope.

(** Third-party operations applied directly to the store. *)
Inductive envop := EnvPut (k : okey) (o : obj) | EnvDel (k : okey).

Definition apply_envop (w : world) (e : envop) : world :=
  match e with
  | EnvPut k o => with_store w (upsert k o (w_store w))
  | EnvDel k => with_store w (remove_key k (w_store w))
  end.
Definition apply_envops (ops : list envop) (w : world) : world := fold_left apply_envop ops w.

(** What the harness reports as the outcome of the call. *)
Inductive ores :=
| OErr (e : option errclass)                 (* None: an error class the model does not produce *)
| OPreflight (vs : list viol)
| OOk (actual : list (okey * obj)) (failed : list okey)
| OTd (done : bool)
| OTdErr.

Record pcase := {
  pc_flavor : flavor; pc_force : bool; pc_owner : owner; pc_prev : list prevrev;
  pc_store : store; pc_rv : N; pc_uid : N;
  pc_teardown : bool; pc_objects : list pobj; pc_between : list envop;
  (* observation of the implementation *)
  pc_res : ores; pc_events : list ev; pc_post : store; pc_rv' : N; pc_uid' : N
}.

Definition pc_cfg (c : pcase) : cfg := {| c_flavor := pc_flavor c; c_force := pc_force c |}.
Definition pc_world (c : pcase) : world := {| w_store := pc_store c; w_rv := pc_rv c; w_uid := pc_uid c |}.

Definition model_run (c : pcase) : world * list ev * ores :=
  if pc_teardown c then
    match teardown_phase (pc_cfg c) (apply_envops (pc_between c)) (pc_world c) (pc_owner c) (pc_objects c) with
    | (w, e, TdErr) => (w, e, OTdErr)
    | (w, e, TdOk d) => (w, e, OTd d)
    end
  else
    match reconcile_phase (pc_cfg c) (apply_envops (pc_between c)) (pc_world c) (pc_owner c) (pc_prev c) false (pc_objects c) with
    | (w, e, PhErr x) => (w, e, OErr (Some x))
    | (w, e, PhPreflight vs) => (w, e, OPreflight vs)
    | (w, e, PhOk a f) => (w, e, OOk a f)
    end.

Definition okobj_eqb (a b : okey * obj) : bool := okey_eqb (fst a) (fst b) && obj_eqb (snd a) (snd b).

Definition ores_eqb (a b : ores) : bool :=
  match a, b with
  | OErr x, OErr y => option_eqb errclass_eqb x y
  | OPreflight x, OPreflight y => list_eqb viol_eqb x y
  | OOk a1 f1, OOk a2 f2 => list_eqb okobj_eqb a1 a2 && list_eqb okey_eqb f1 f2
  | OTd x, OTd y => Bool.eqb x y
  | OTdErr, OTdErr => true
  | _, _ => false
  end.

Definition dres_eqb (a b : dres) : bool :=
  match a, b with DOk, DOk | DNotFound, DNotFound | DConflict, DConflict => true | _, _ => false end.

Definition pres_eqb (a b : pres) : bool :=
  match a, b with
  | POk x, POk y => obj_eqb x y
  | PNotFound, PNotFound | PInvalid, PInvalid => true
  | _, _ => false
  end.

Definition ev_eqb (a b : ev) : bool :=
  match a, b with
  | EApply k1 r1 p1 q1, EApply k2 r2 p2 q2 =>
      okey_eqb k1 k2 && option_eqb obj_eqb r1 r2 && option_eqb obj_eqb p1 p2 && pres_eqb q1 q2
  | ERelease k1 r1 p1 q1, ERelease k2 r2 p2 q2 =>
      okey_eqb k1 k2 && obj_eqb r1 r2 && option_eqb obj_eqb p1 p2 && pres_eqb q1 q2
  | EDelete k1 r1 u1 v1 p1 d1, EDelete k2 r2 u2 v2 p2 d2 =>
      okey_eqb k1 k2 && obj_eqb r1 r2 && (u1 =? u2) && (v1 =? v2) && option_eqb obj_eqb p1 p2 && dres_eqb d1 d2
  | _, _ => false
  end.

Definition store_sub (a b : store) : bool :=
  forallb (fun kv => option_eqb obj_eqb (lookup (fst kv) a) (lookup (fst kv) b)) a.
Definition store_eqb (a b : store) : bool := store_sub a b && store_sub b a.

Definition agree (c : pcase) : bool :=
  let '(w, e, r) := model_run c in
  ores_eqb r (pc_res c) && list_eqb ev_eqb e (pc_events c) && store_eqb (w_store w) (pc_post c) &&
  (w_rv w =? pc_rv' c) && (w_uid w =? pc_uid' c).

(** For diagnosis in replay files. *)
Definition agree_parts (c : pcase) : bool * bool * bool * bool :=
  let '(w, e, r) := model_run c in
  (ores_eqb r (pc_res c), list_eqb ev_eqb e (pc_events c), store_eqb (w_store w) (pc_post c),
   (w_rv w =? pc_rv' c) && (w_uid w =? pc_uid' c)).
