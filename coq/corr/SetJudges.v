(** The judges the controller-level checks evaluate. Five monitors of SetMonitors.v / C15Corr.v reject a pass of
    the MODEL itself in corner cases (SetMonSound2.v: m03_refuted, m06_refuted, m09d_refuted, m04d_refuted,
    m06d_refuted, each with the boolean condition on the scenario that excludes exactly that corner). A monitor that
    rejects the model would raise a false alarm on an implementation that does what the model does, so the judges
    below do not judge those corners by the monitor (agreement with the model still applies there), and every
    guarded monitor is proved to accept every pass of the model, without hypothesis. *)
From Coq Require Import List NArith ZArith Bool.
From PKO Require Import Util Base Owner Api Phase ObjectSet.
From PKOCorr Require Import PhaseCorr SetCorr SetMonitors SetMonSound SetMonSound2.
Import ListNotations.

Definition m03g (c : scase) : bool := negb (phase_names_unique c) || m03 c.
Definition m06g (c : scase) : bool := negb (nsless_refs_literal c) || m06 c.
Definition m09dg (c : scase) : bool := negb (rev_before_remotes c) || m09d c.
Definition m04dg (c : scase) : bool := negb (going_keys_nodup c) || m04d c.
Definition m06dg (c : scase) : bool := negb (phase_objects_carried c) || m06d c.

Definition judge03g (c : scase) : bool * bool := (agree c, m03g c && m03d c).
(** C04, the invariant the teardown clauses rest on ("the finalizer stays until done" presupposes it is there whenever
    the ObjectSet may control something): an active ObjectSet that does not carry the cached finalizer issues no member
    or phase-object write unless the first request of the pass is the successful finalizer patch. *)
Definition sev_writes (e : sev) : bool :=
  match e with SMember _ => true | SPhase (PGet _ _) => false | SPhase _ => true | SMeta _ => false end.
Definition m04f (c : scase) : bool :=
  match target c with
  | None => true
  | Some m =>
      negb (is_activeb m) || os_fin m ||
      match sc_events c with
      | SMeta (MFinalizer true true) :: _ => true
      | evs => negb (existsb sev_writes evs)
      end
  end.
Definition judge04g (c : scase) : bool * bool := (agree c, m04 c && m04dg c && m04f c).
Definition judge05sg (c : scase) : bool * bool :=
  (agree c, m04dg c && match target c with Some m => negb (is_goingb m) || negb (os_orphan m) || is_nil (members c) | None => true end).
Definition judge06g (c : scase) : bool * bool := (agree c, m06g c && m06dg c).
(** C09 "yet keeps probing them and reporting Available and Paused": a pass of a paused, active ObjectSet that carries
    its finalizer and a revision and has only in-process phases does not fail - whatever is missing or unready is
    reported through the status, not through an error that leaves the status unwritten. *)
Definition m09s (c : scase) : bool :=
  match target c with
  | None => true
  | Some m =>
      negb (is_activeb m) || negb (lifecycle_eqb (os_life m) LPaused) || negb (os_fin m) || Z.eqb (os_revision m) 0 ||
      existsb ph_class (os_phases m) ||
      match sc_res c with SError => false | _ => true end
  end.
Definition judge09g (c : scase) : bool * bool * bool * bool := (agree c, m09 c && m09dg c, m09d_all c, m09s c).

(** the guards read the scenario only *)
Lemma guards_obs c res :
  phase_names_unique (set_obs_s c res) = phase_names_unique c /\
  nsless_refs_literal (set_obs_s c res) = nsless_refs_literal c /\
  rev_before_remotes (set_obs_s c res) = rev_before_remotes c /\
  going_keys_nodup (set_obs_s c res) = going_keys_nodup c /\
  phase_objects_carried (set_obs_s c res) = phase_objects_carried c.
Proof. destruct res as [[sw e] r]. repeat split; reflexivity. Qed.

Theorem m03g_sound (c : scase) : m03g (set_obs_s c (SetCorr.model_run c)) = true.
Proof.
  unfold m03g. destruct (guards_obs c (SetCorr.model_run c)) as (-> & _).
  destruct (phase_names_unique c) eqn:H; [|reflexivity]. cbn [negb orb]. now apply m03_sound_partial.
Qed.
Theorem m06g_sound (c : scase) : m06g (set_obs_s c (SetCorr.model_run c)) = true.
Proof.
  unfold m06g. destruct (guards_obs c (SetCorr.model_run c)) as (_ & -> & _).
  destruct (nsless_refs_literal c) eqn:H; [|reflexivity]. cbn [negb orb]. now apply m06_sound_partial.
Qed.
Theorem m09dg_sound (c : scase) : m09dg (set_obs_s c (SetCorr.model_run c)) = true.
Proof.
  unfold m09dg. destruct (guards_obs c (SetCorr.model_run c)) as (_ & _ & -> & _).
  destruct (rev_before_remotes c) eqn:H; [|reflexivity]. cbn [negb orb]. now apply m09d_sound_partial.
Qed.
Theorem m04dg_sound (c : scase) : m04dg (set_obs_s c (SetCorr.model_run c)) = true.
Proof.
  unfold m04dg. destruct (guards_obs c (SetCorr.model_run c)) as (_ & _ & _ & -> & _).
  destruct (going_keys_nodup c) eqn:H; [|reflexivity]. cbn [negb orb]. now apply m04d_sound_partial.
Qed.
Theorem m06dg_sound (c : scase) : m06dg (set_obs_s c (SetCorr.model_run c)) = true.
Proof.
  unfold m06dg. destruct (guards_obs c (SetCorr.model_run c)) as (_ & _ & _ & _ & ->).
  destruct (phase_objects_carried c) eqn:H; [|reflexivity]. cbn [negb orb]. now apply m06d_sound_partial.
Qed.

Lemma active_body_prefix force sw0 evs0 mem sw' evs r :
  active_body force sw0 evs0 mem = (sw', evs, r) -> exists rest, evs = evs0 ++ rest.
Proof.
  unfold active_body.
  repeat (match goal with
   | |- context [match ?x with _ => _ end] => destruct x eqn:?
   | |- context [if ?x then _ else _] => destruct x eqn:?
   end).
  all: intros H; inversion H; subst; rewrite <- ?app_assoc; eexists; reflexivity.
Qed.

Theorem m04f_sound (c : scase) : m04f (set_obs_s c (SetCorr.model_run c)) = true.
Proof.
  unfold m04f. destruct (SetCorr.model_run c) as [[sw e] r] eqn:E.
  change (target (set_obs_s c (sw, e, r))) with (find_set (sc_sets c) (sc_kind c) (sc_ns c) (sc_name c)).
  destruct (find_set (sc_sets c) (sc_kind c) (sc_ns c) (sc_name c)) as [m|] eqn:Ef; [|reflexivity].
  destruct (is_activeb m) eqn:Ha; [|reflexivity]. cbn [negb orb].
  destruct (os_fin m) eqn:Hf; [reflexivity|]. cbn [orb].
  change (sc_events (set_obs_s c (sw, e, r))) with e.
  unfold is_activeb in Ha. rewrite !andb_true_iff, !negb_true_iff in Ha. destruct Ha as [[Ha1 Ha2] Ha3].
  unfold SetCorr.model_run, objectset_pass in E.
  change (sw_sets (sc_world c)) with (sc_sets c) in E. rewrite Ef, Ha1, Ha2, Ha3 in E. cbn [orb] in E.
  unfold active_pass in E. rewrite Hf in E.
  destruct (patch_finalizer (sc_world c) m true) as [sw1 [m1|]].
  - destruct (active_body_prefix _ _ _ _ _ _ _ E) as [rest ->]. reflexivity.
  - injection E as _ <- _. reflexivity.
Qed.

(** The monitor halves of the judges accept every pass of the model. *)
Theorem judge03g_sound c : snd (judge03g (set_obs_s c (SetCorr.model_run c))) = true.
Proof. cbn [judge03g snd]. now rewrite m03g_sound, m03d_sound. Qed.
Theorem judge04g_sound c : snd (judge04g (set_obs_s c (SetCorr.model_run c))) = true.
Proof. cbn [judge04g snd]. now rewrite m04_sound, m04dg_sound, m04f_sound. Qed.
Theorem judge06g_sound c : snd (judge06g (set_obs_s c (SetCorr.model_run c))) = true.
Proof. cbn [judge06g snd]. now rewrite m06g_sound, m06dg_sound. Qed.
Theorem judge09g_sound c : snd (fst (fst (judge09g (set_obs_s c (SetCorr.model_run c))))) = true.
Proof. cbn [judge09g fst snd]. now rewrite m09_sound, m09dg_sound. Qed.
Theorem judge11_sound c : snd (judge11 (set_obs_s c (SetCorr.model_run c))) = true.
Proof. cbn [judge11 snd]. now rewrite m11_sound, m11r_sound. Qed.
