(** Correspondence and monitor for C13 (package rendering is deterministic and conserves objects). *)
From Coq Require Import List Arith NArith Bool Lia Permutation.
From Coq Require String.
From PKO Require Import Util Collector Templates CollectorProofs.
Import ListNotations.
Local Open Scope N_scope.

(** A scenario is what the collection stage of the implementation started from, as reported by the
    harness: the manifest's phase names in manifest order, the manifest name and the Package name
    (values of the two package labels), and pathObjectMap - objects per path after parsing, with the
    verdicts of the conditional paths and of the CEL condition annotations.
    A case adds what the implementation did - whether all repeated renders (fresh file maps, hence
    fresh map iteration orders, but ONE render context object handed to all of them) gave the same
    ObjectSetTemplateSpec and hash, whether that render context (configuration, images, environment,
    Package metadata) still had the digest it had before the first render, and the phases of the
    spec - and what the package generator says the phases must be. *)
Definition scenario := (list N * N * N * list file)%type.
Definition case := (scenario * (bool * bool * collector) * collector)%type.

(** ** Equality of observations; Go maps are compared as sets of entries *)
Definition kv_eqb (a b : kv) : bool := (fst a =? fst b) && (snd a =? snd b).
Definition kvs_eqb (a b : list kv) : bool :=
  Nat.eqb (length a) (length b) && forallb (fun e => existsb (kv_eqb e) b) a.
Definition oo_eqb (a b : out_object) : bool :=
  (oo_id a =? oo_id b) && option_eqb kvs_eqb (oo_annos a) (oo_annos b) &&
  kvs_eqb (oo_labels a) (oo_labels b) && (oo_collision a =? oo_collision b) &&
  Bool.eqb (oo_condmap a) (oo_condmap b).
Definition coll_eqb (a b : collector) : bool :=
  list_eqb (fun e f => (fst e =? fst f) && list_eqb oo_eqb (snd e) (snd f)) a b.

Definition model (s : scenario) : collector :=
  let '(phases, mname, pname, fs) := s in collect phases mname pname fs.

(** The model run on the reported pathObjectMap gives the implementation's phases. *)
Definition agree (c : case) : bool :=
  let '(s, (_, _, out), _) := c in coll_eqb (model s) out.

(** The generator's ground truth: the phases it built the package to have. *)
Definition expect_ok (c : case) : bool :=
  let '(_, (_, _, out), expected) := c in coll_eqb expected out.

(** ** The property on the implementation's output *)
Fixpoint subseqb (a b : list N) : bool :=
  match a, b with
  | [], _ => true
  | _ :: _, [] => false
  | x :: a', y :: b' => if x =? y then subseqb a' b' else subseqb a b'
  end.

Fixpoint nodupb (l : list N) : bool :=
  match l with [] => true | x :: r => negb (existsb (N.eqb x) r) && nodupb r end.

(** identities of the objects in the output phase named [p] (none if there is no such phase) *)
Definition ids_in (out : collector) (p : N) : list N :=
  match find (fun e => fst e =? p) out with Some e => map oo_id (snd e) | None => [] end.

Definition obj_ok (mname pname : N) (oo : out_object) : bool :=
  (* Package Operator control annotations removed; never an empty, non-nil annotation map *)
  match oo_annos oo with
  | None => true
  | Some l => nonempty l && forallb (fun k => negb (has_key k l)) control_keys
  end &&
  (* package labels added *)
  option_eqb N.eqb (lookup L_PACKAGE (oo_labels oo)) (Some mname) &&
  option_eqb N.eqb (lookup L_INSTANCE (oo_labels oo)) (Some pname).

Definition monitor (c : case) : bool :=
  let '((phases, mname, pname, fs), (identical, ctx_unchanged, out), _) := c in
  (* repeated renders of the unchanged package gave one template and one hash *)
  identical &&
  (* rendering is a function OF files, configuration, images and environment: it left the render
     context it was given as it was (the model's render takes the configuration as a value and
     returns outputs only, Templates.render_stage; on the Go side this clause is the test) *)
  ctx_unchanged &&
  (* phases in manifest order, each at most once *)
  subseqb (map fst out) phases && nodupb (map fst out) &&
  (* every object that passed the filters and names a manifest phase is in that phase exactly once,
     and the objects of a phase stand in path-then-document order *)
  forallb (fun p => list_eqb N.eqb (ids_in out p)
                             (map o_id (filter (phase_is p) (concat_objects fs)))) phases &&
  forallb (fun e => forallb (obj_ok mname pname) (snd e)) out.

(** ** The template stage *)
(** What the harness saw of RenderTemplates: pkg.Files before (path, content digest), which paths
    carry the template suffix and what they are called without it (the suffix rule of
    packagetypes/utils.go:16-19, applied by the driver), and pkg.Files after a successful render. *)
Definition tcase := (filelist * list N * list (N * N) * filelist)%type.

(** The fixed stage ([render_templates_fixed]) run on the files before, with the observed outputs as
    the execution oracle, must give exactly the files after: every packaged template was executed
    and its output stored under the stripped name, nothing else was executed, added or changed. *)
Definition tmodel (t : tcase) : option fmap :=
  let '(init, tmpls, striptab, final) := t in
  let strip := fun p => match alookup p striptab with Some q => q | None => p end in
  render_templates_fixed (fun p => existsb (N.eqb p) tmpls) strip
                         (fun p _ => alookup (strip p) final) init.

Definition tagree (t : tcase) : bool :=
  let '(init, _, _, final) := t in
  match tmodel t with
  | None => false
  | Some m => forallb (fun k => option_eqb N.eqb (m k) (alookup k final)) (map fst init ++ map fst final)
  end.

(** The verdict does not depend on the order in which the harness listed the files before. *)
Lemma tmodel_enum_invariant init init' tmpls striptab final :
  Permutation init init' -> NoDup (map fst init) ->
  tmodel (init, tmpls, striptab, final) = tmodel (init', tmpls, striptab, final).
Proof. intros Hp Hnd. unfold tmodel. now apply templates_order_independent. Qed.

Definition judge (c : case) : bool * bool * bool := (agree c, monitor c, expect_ok c).

(** ** The purity sweep of the template function table: evaluated on the names the harness dumps. *)
Definition pure_table (impure allowed : list String.string) : bool :=
  forallb (fun n => negb (existsb (String.eqb n) impure)) allowed.
(** the offending names, for the report *)
Definition impure_hits (impure allowed : list String.string) : list String.string :=
  filter (fun n => existsb (String.eqb n) impure) allowed.

(** ** Soundness of the monitor for the model *)
Lemma subseqb_tail b : forall x a, subseqb (x :: a) b = true -> subseqb a b = true.
Proof.
  induction b as [|y b IH]; intros x a; cbn; [discriminate|].
  destruct a as [|z a]; [reflexivity|].
  destruct (x =? y); intros H.
  - cbn. destruct (z =? y); [now apply IH in H|exact H].
  - apply IH in H. cbn. destruct (z =? y); [now apply IH in H|exact H].
Qed.

Lemma subseqb_filter g l : subseqb (filter g l) l = true.
Proof.
  induction l as [|y l IH]; cbn; [reflexivity|].
  destruct (g y); cbn.
  - now rewrite N.eqb_refl.
  - destruct (filter g l) as [|x r] eqn:E; [reflexivity|].
    destruct (x =? y); [now apply subseqb_tail in IH|exact IH].
Qed.

Lemma nodupb_complete l : NoDup l -> nodupb l = true.
Proof.
  induction 1 as [|x l Hnin Hnd IH]; cbn; [reflexivity|]. rewrite IH, andb_true_r.
  destruct (existsb (N.eqb x) l) eqn:E; [|reflexivity].
  apply existsb_exists in E. destruct E as (y & Hy & Hxy). apply N.eqb_eq in Hxy. now subst.
Qed.

Lemma ids_in_char (G : N -> list out_object) p l :
  ids_in (filter (fun e => nonempty (snd e)) (map (fun q => (q, G q)) l)) p =
  if existsb (N.eqb p) l then map oo_id (G p) else [].
Proof.
  unfold ids_in. induction l as [|q l IH]; cbn; [reflexivity|].
  destruct (G q) as [|a r] eqn:Eq; cbn.
  - rewrite IH. destruct (N.eqb_spec p q) as [->|]; cbn; [|reflexivity].
    rewrite Eq. cbn. now destruct (existsb (N.eqb q) l).
  - rewrite (N.eqb_sym q p). destruct (N.eqb_spec p q) as [->|]; cbn; [now rewrite Eq|exact IH].
Qed.

Lemma ids_of_phase_objs mname pname p objs :
  map oo_id (phase_objs p (map (label_object mname pname) objs)) = map o_id (filter (phase_is p) objs).
Proof.
  unfold phase_objs. induction objs as [|o objs IH]; cbn; [reflexivity|].
  unfold phase_is in *. change (phase_of (label_object mname pname o)) with (phase_of o).
  destruct (phase_of o =? p); cbn; now rewrite IH.
Qed.

Lemma obj_ok_model mname pname o : obj_ok mname pname (strip_object (label_object mname pname o)) = true.
Proof.
  unfold obj_ok. rewrite !andb_true_iff. repeat split.
  - destruct (annotations_stripped (label_object mname pname o)) as (Hc & _ & Hne).
    unfold annos_of in Hc. destruct (oo_annos (strip_object (label_object mname pname o))) as [l|]; [|reflexivity].
    rewrite andb_true_iff. split; [destruct l; [congruence|reflexivity]|].
    apply forallb_forall. intros k Hk. now rewrite (Hc k Hk).
  - cbn. now rewrite N.eqb_refl.
  - cbn. now rewrite N.eqb_refl.
Qed.

(** Whatever the reported pathObjectMap, for a manifest with pairwise different phase names (enforced
    by ValidatePackageManifest) the model's own output, rendered identically every time from an
    untouched context, satisfies the monitor. *)
Theorem monitor_sound phases mname pname fs expected :
  NoDup phases ->
  monitor ((phases, mname, pname, fs), (true, true, model (phases, mname, pname, fs)), expected) = true.
Proof.
  intros Hnd. unfold monitor, model. cbn [andb].
  rewrite !andb_true_iff. repeat split.
  - unfold collect. rewrite (phase_order _ _ Hnd). apply subseqb_filter.
  - unfold collect. rewrite (phase_order _ _ Hnd). apply nodupb_complete. now apply NoDup_filter.
  - apply forallb_forall. intros p Hp. apply list_eqb_N_spec.
    unfold collect. rewrite phase_collector_char, (dedup_last_nodup _ Hnd).
    rewrite (ids_in_char (fun q => phase_objs q (map (label_object mname pname) (concat_objects fs)))).
    assert (E : existsb (N.eqb p) phases = true)
      by (apply existsb_exists; exists p; split; [assumption|apply N.eqb_refl]).
    rewrite E. apply ids_of_phase_objs.
  - apply forallb_forall. intros [p l] Hin. apply forallb_forall. intros oo Hoo. cbn in Hoo.
    destruct (collect_objects _ _ _ _ _ _ _ Hin Hoo) as (o & _ & _ & ->). apply obj_ok_model.
Qed.
