(** C05 monitor: teardown requests, evaluated on the implementation's pass. *)
From Coq Require Import List NArith ZArith Bool.
From PKO Require Import Util Base Owner Api Phase.
From PKOCorr Require Import PhaseCorr.
Import ListNotations.
Local Open Scope N_scope.

Section Mon.
  Variable c : pcase.
  Let s := flavor_strat (pc_flavor c).
  Let ow := pc_owner c.
  Let key (p : pobj) := desired_key ow p.

  Definition same_but_release (o st rd : obj) : bool :=
    (o_uid o =? o_uid st) && Z.eqb (o_gen o) (o_gen st) && list_eqb oref_eqb (o_aowners o) (o_aowners st) &&
    revann_eqb (o_rev o) (o_rev st) && negb (o_cache o) && (o_pkg o =? o_pkg st) && (o_body o =? o_body st) &&
    (o_avail o =? o_avail st) && option_eqb Z.eqb (o_obsgen o) (o_obsgen st) &&
    Bool.eqb (o_deleting o) (o_deleting st) && Bool.eqb (o_fin o) (o_fin st) &&
    list_eqb oref_eqb (o_owners o)
      (match s with Native => remove_owner_l (ow_id ow) (o_owners rd) | Annot => o_owners rd end).

  (** The third party respects the API: same uid and resourceVersion means same object. *)
  Definition rv_determinesb (a b : obj) : bool :=
    negb ((o_uid a =? o_uid b) && (o_rv a =? o_rv b)) || obj_eqb a b.

  Definition ev_okb (e : ev) : bool :=
    existsb (fun p => okey_eqb (key p) (ev_key e)) (pc_objects c) &&
    match e with
    | EDelete _ rd puid prv pre r =>
        is_controller s (ow_id ow) rd && (puid =? o_uid rd) && (prv =? o_rv rd) &&
        match r, pre with
        | DOk, Some st => (o_uid st =? puid) && (o_rv st =? prv) &&
                          (* deleted only while the owner is the controller at that instant *)
                          (negb (rv_determinesb st rd) || is_controller s (ow_id ow) st)
        | DNotFound, None => true
        | DConflict, Some st => negb ((o_uid st =? puid) && (o_rv st =? prv))
        | _, _ => false
        end
    | ERelease _ rd pre post =>
        negb (is_controller s (ow_id ow) rd) && is_owner s (ow_id ow) rd &&
        match post, pre with
        | POk o, Some st => same_but_release o st rd
        | PNotFound, None => true
        | PInvalid, _ => true
        | _, _ => false
        end
    | EApply _ _ _ _ => false
    end.

  (** Objects the owner neither owns nor controls, and objects the phase does not name, are identical
      after the pass (no third party interfering). *)
  Definition untouched : bool :=
    negb (is_nil (pc_between c)) ||
    forallb (fun kv =>
      let '(k, o) := kv in
      (existsb (fun p => okey_eqb (key p) k) (pc_objects c) &&
       (is_owner s (ow_id ow) o || is_controller s (ow_id ow) o)) ||
      (option_eqb obj_eqb (lookup k (pc_post c)) (Some o) &&
       forallb (fun e => negb (okey_eqb (ev_key e) k)) (pc_events c))) (pc_store c).

  Definition monitor : bool :=
    negb (pc_teardown c) || (forallb ev_okb (pc_events c) && untouched).
End Mon.

Definition judge (c : pcase) : bool * bool := (agree c, monitor c).
