(** Correspondence and monitor for C18 (harness mode "template").
    A case is a scenario (retry intervals, initial world, steps) together with what the real controller
    did: per step the observation (events, requeue, error class | enqueued?) and the abstracted world
    after the step, plus the reference rendering of the final sources through the real transformer. *)
From Coq Require Import List NArith Bool Lia.
From PKO Require Import Util Template TemplateProofs.
Import ListNotations.
Local Open Scope N_scope.

(** The template family of the harness (mode_template.go, tTemplateText). *)
Record tcode := { tc_form : N; tc_kind : N; tc_ns : N; tc_name : N; tc_pick : list N; tc_orefs : bool }.

Fixpoint pick_all (ds : list N) (cfg : data) (acc : data) : option data :=
  match ds with
  | [] => Some acc
  | d :: r => match dlookup d cfg with None => None | Some v => pick_all r cfg (dset d v acc) end
  end.
Fixpoint pick_def (ds : list N) (cfg : data) (acc : data) : data :=
  match ds with
  | [] => acc
  | d :: r => pick_def r cfg (dset d (match dlookup d cfg with Some v => v | None => 0 end) acc)
  end.

Definition render_code (c : tcode) (cfg : data) (env : N) : rres :=
  let k := (tc_kind c, tc_ns c, tc_name c) in
  match tc_form c with
  | 0 => RObj k cfg (tc_orefs c)                                   (* range over .config *)
  | 1 => match pick_all (tc_pick c) cfg [] with                    (* .config.kN, missingkey=error *)
         | Some d => RObj k d (tc_orefs c) | None => RTmplErr end
  | 2 => RObj k (pick_def (tc_pick c) cfg []) (tc_orefs c)         (* index .config "kN" | default "v0" *)
  | 3 => RObj k (dset 99 (env mod 1000) cfg) (tc_orefs c)          (* + .environment.kubernetes.version *)
  | 6 => RObj k (dset 98 (env / 1000) (dset 99 (env mod 1000) cfg)) (tc_orefs c)   (* + the HyperShift part, see Template.view *)
  | 7 => RObj k (fold_left (fun acc kv => dset (fst kv + 2000) (snd kv) (dset (fst kv + 1000) (snd kv) acc)) cfg cfg)
              (tc_orefs c)                                         (* every collected value also as label and annotation *)
  | 4 => RTmplErr                                                  (* unparsable text *)
  | _ => RYamlErr                                                  (* renders to non-YAML *)
  end.

(** The harness's RESTMapper: 1 ConfigMap, 2 Secret (namespaced), 3 ClusterThing (cluster-scoped), others unknown. *)
Definition scope_tbl (kind : N) : option bool :=
  match kind with 1 | 2 => Some true | 3 => Some false | _ => None end.

Definition cworld := world tcode.
Definition cstep := step tcode.

Record ccase := {
  cc_ivres : N; cc_ivopt : N;
  cc_init : cworld;                      (* scenario *)
  cc_steps : list cstep;                 (* scenario *)
  cc_init_obs : cworld;                  (* what the harness seeded, abstracted back *)
  cc_obs : list (sobs * cworld);         (* implementation *)
  cc_ref : option (key * data)           (* reference rendering of the final sources (rendered key, no namespace override) *)
}.

(** ** Equalities *)
Definition cond_eqb (a b : cond) : bool :=
  (c_type a =? c_type b) && (c_status a =? c_status b) && (c_obsgen a =? c_obsgen b) && Bool.eqb (c_ok a) (c_ok b).
Definition label_eqb (a b : label) : bool :=
  match a, b with LAbsent, LAbsent | LTrue, LTrue => true | LOther x, LOther y => x =? y | _, _ => false end.
Definition obj_eqb (a b : obj) : bool :=
  data_eqb (o_data a) (o_data b) && label_eqb (o_lbl a) (o_lbl b) && (o_ctrl a =? o_ctrl b) && (o_gen a =? o_gen b)
  && option_eqb N.eqb (o_sobs a) (o_sobs b) && list_eqb cond_eqb (o_conds a) (o_conds b).
Definition store_sub (a b : store) : bool :=
  forallb (fun kv => option_eqb obj_eqb (lookup (fst kv) a) (lookup (fst kv) b)) a.
Definition store_eqb (a b : store) : bool := store_sub a b && store_sub b a.
Definition watch_sub (a b : list (N * N)) : bool := forallb (fun p => watched (fst p) (snd p) b) a.
Definition watch_eqb (a b : list (N * N)) : bool := watch_sub a b && watch_sub b a.
Definition source_eqb (a b : source) : bool :=
  (s_kind a =? s_kind b) && (s_ns a =? s_ns b) && (s_name a =? s_name b) && Bool.eqb (s_opt a) (s_opt b)
  && list_eqb pair_eqb (s_items a) (s_items b).
Definition tcode_eqb (a b : tcode) : bool :=
  (tc_form a =? tc_form b) && (tc_kind a =? tc_kind b) && (tc_ns a =? tc_ns b) && (tc_name a =? tc_name b)
  && list_eqb N.eqb (tc_pick a) (tc_pick b) && Bool.eqb (tc_orefs a) (tc_orefs b).
Definition tmpl_eqb (a b : tmpl tcode) : bool :=
  (t_ns a =? t_ns b) && list_eqb source_eqb (t_sources a) (t_sources b) && tcode_eqb (t_code a) (t_code b)
  && (t_gen a =? t_gen b) && Bool.eqb (t_fin a) (t_fin b) && Bool.eqb (t_del a) (t_del b) && (t_invalid a =? t_invalid b)
  && list_eqb pair_eqb (t_conds a) (t_conds b) && option_eqb key_eqb (t_ctrlof a) (t_ctrlof b).
Definition sink_eqb (a b : sink) : bool :=
  (sk_ver a =? sk_ver b) && Bool.eqb (sk_hs a) (sk_hs b) && (sk_ns a =? sk_ns b)
  && forallb (fun x => existsb (N.eqb x) (sk_hcs b)) (sk_hcs a) && forallb (fun x => existsb (N.eqb x) (sk_hcs a)) (sk_hcs b).
Definition world_eqb (a b : cworld) : bool :=
  store_eqb (w_store a) (w_store b) && option_eqb tmpl_eqb (w_tmpl a) (w_tmpl b)
  && watch_eqb (w_watch a) (w_watch b) && (w_env a =? w_env b) && sink_eqb (w_sink a) (w_sink b) && Bool.eqb (w_pending a) (w_pending b).
Definition wres_eqb (a b : wres) : bool :=
  match a, b with WOk, WOk | WAlreadyExists, WAlreadyExists | WBadRequest, WBadRequest | WOther, WOther => true | _, _ => false end.
Definition ev_eqb (a b : ev) : bool :=
  match a, b with
  | EWatch x, EWatch y => x =? y
  | EFree, EFree | EFinAdd, EFinAdd | EFinRm, EFinRm | EStatus, EStatus => true
  | EPatchLabel x d1, EPatchLabel y d2 | ECacheHit x d1, ECacheHit y d2 => key_eqb x y && data_eqb d1 d2
  | EPatchFail x, EPatchFail y => key_eqb x y
  | EFail x, EFail y => x =? y
  | ECreate k1 d1 r1, ECreate k2 d2 r2 | EUpdate k1 d1 r1, EUpdate k2 d2 r2 => key_eqb k1 k2 && data_eqb d1 d2 && wres_eqb r1 r2
  | _, _ => false
  end.
Definition sobs_eqb (a b : sobs) : bool :=
  match a, b with
  | OPass x, OPass y => list_eqb ev_eqb (p_evs x) (p_evs y) && (p_requeue x =? p_requeue y) && (p_err x =? p_err y)
  | OPassX x r1, OPassX y r2 =>
      list_eqb ev_eqb (p_evs x) (p_evs y) && (p_requeue x =? p_requeue y) && (p_err x =? p_err y)
      && list_eqb (option_eqb data_eqb) r1 r2
  | OAux x, OAux y => x =? y
  | OEnq x, OEnq y => Bool.eqb x y
  | ONone, ONone => true
  | _, _ => false
  end.

(** ** Agreement: the model run over the scenario reproduces every observation. *)
Definition model_run (c : ccase) : list (sobs * cworld) :=
  run render_code scope_tbl ns_escalation (cc_ivres c) (cc_ivopt c) (cc_init c) (cc_steps c).

(** The reference rendering as the model computes it: the sources of the final world collected without
    any admission check, rendered, key as written in the template. *)
Definition ref_of (w : cworld) : option (key * data) :=
  match w_tmpl w with
  | None => None
  | Some t =>
      match scan scope_tbl (fun _ => false) (w_store w) (t_ns t) (t_sources t) [] false with
      | ScOk cfg _ => match render_code (t_code t) cfg (w_env w) with RObj k d _ => Some (k, d) | _ => None end
      | _ => None
      end
  end.

Definition last_world (init : cworld) (l : list (sobs * cworld)) : cworld := last (map snd l) init.

Definition kd_eqb (a b : key * data) : bool := key_eqb (fst a) (fst b) && data_eqb (snd a) (snd b).

Definition agree (c : ccase) : bool :=
  world_eqb (cc_init c) (cc_init_obs c)
  && list_eqb (fun a b => sobs_eqb (fst a) (fst b) && world_eqb (snd a) (snd b)) (model_run c) (cc_obs c)
  && option_eqb kd_eqb (ref_of (last_world (cc_init c) (model_run c))) (cc_ref c).

(** For diagnosis in replay files: index of the first step where model and implementation differ. *)
Fixpoint first_diff (m o : list (sobs * cworld)) (i : N) : option (N * bool * bool) :=
  match m, o with
  | [], [] => None
  | a :: m', b :: o' =>
      if sobs_eqb (fst a) (fst b) && world_eqb (snd a) (snd b) then first_diff m' o' (i + 1)
      else Some (i, sobs_eqb (fst a) (fst b), world_eqb (snd a) (snd b))
  | _, _ => Some (i, false, false)
  end.
Definition diagnose (c : ccase) := (world_eqb (cc_init c) (cc_init_obs c), first_diff (model_run c) (cc_obs c) 0,
                                    ref_of (last_world (cc_init c) (model_run c))).

(** ** The monitor: the clauses of C18 evaluated on what the implementation did.
    Every step of a case is judged on (world before, step, observation, world after), all four taken from
    the implementation's side of the case (the world before the first step is the seeded one). *)
Notation R := render_code.
Notation SC := scope_tbl.

Definition live (pre : cworld) : option (tmpl tcode) :=
  match w_tmpl pre with Some t => if t_del t then None else Some t | None => None end.
Definition post_invalid (post : cworld) : N := match w_tmpl post with Some t => t_invalid t | None => 99 end.
Definition successful (pre post : cworld) (r : pres) : bool :=
  match live pre with Some _ => (p_err r =? 0) && (post_invalid post =? 0) | None => false end.
Definition is_none {A} (x : option A) : bool := match x with None => true | Some _ => false end.
(** a write of (k', d') realises the rendered object (k, d): same key, every rendered entry with its rendered value,
    no .data entry beyond the rendered ones; label / annotation keys the existing target alone had may stay
    (labels.Merge(existing, rendered), as the code on /repo does) *)
Definition realises (rendered written : key * data) : bool :=
  key_eqb (fst rendered) (fst written) && follows (snd written) (snd rendered).
Definition wrote (k : key) (d : data) (evs : list ev) : bool := existsb (realises (k, d)) (target_writes evs).

Definition c_scan (pre : cworld) (t : tmpl tcode) : scanres :=
  scan SC (src_bad SC (t_ns t)) (w_store pre) (t_ns t) (t_sources t) [] false.
Definition c_expected (t : tmpl tcode) (w : cworld) : option (key * data) := expected R SC t (w_store w) (w_env w).
Definition c_rendered (pre : cworld) (t : tmpl tcode) : option rres :=
  match c_scan pre t with ScOk cfg _ => Some (R (t_code t) cfg (w_env pre)) | _ => None end.
Definition src_ref (s : source) : key := (s_kind s, s_ns s, s_name s).
Definition src_obj (w : cworld) (t : tmpl tcode) (s : source) : option obj := lookup (nkey SC (src_key (t_ns t) s)) (w_store w).

(** 1. output_is_render *)
Definition cl_render (pre : cworld) (t : tmpl tcode) (r : pres) : bool :=
  forallb (fun kd => match c_expected t pre with Some e => realises e kd | None => false end) (target_writes (p_evs r))
  && match c_expected t pre with Some (k, d) => negb (p_err r =? 0) || wrote k d (p_evs r) | None => true end.
(** 2. required_missing_no_write *)
Definition cl_required (ivres : N) (pre post : cworld) (t : tmpl tcode) (r : pres) : bool :=
  (if existsb (fun s => negb (s_opt s) && negb (src_bad SC (t_ns t) s) && is_none (src_obj pre t s)) (t_sources t)
   then is_nil (target_writes (p_evs r)) && negb (post_invalid post =? 0) else true)
  && match c_scan pre t with ScMissing => (ivres =? 0) || negb (p_requeue r =? 0) | _ => true end.
(** 3. optional_missing_retry (that the target is still written is part of clause 1) *)
Definition cl_optional (ivopt : N) (pre : cworld) (t : tmpl tcode) (r : pres) : bool :=
  match c_scan pre t with ScOk _ true => (ivopt =? 0) || negb (p_requeue r =? 0) | _ => true end.
(** 4. unparsable_no_write *)
Definition cl_unparsable (pre post : cworld) (t : tmpl tcode) (r : pres) : bool :=
  match c_rendered pre t with
  | Some RTmplErr => is_nil (target_writes (p_evs r)) && negb (post_invalid post =? 0)
  | Some RYamlErr => is_nil (target_writes (p_evs r))
  | _ => true
  end.
(** 5. namespace_bound *)
Definition cl_nsbound (pre post : cworld) (t : tmpl tcode) (r : pres) : bool :=
  let tns := t_ns t in
  (tns =? 0)
  || (forallb (in_bounds SC tns) (label_patches (p_evs r))
      && forallb (is_namespaced SC) (watch_calls (p_evs r))
      && forallb (fun kd => in_bounds SC tns (fst kd)) (target_writes (p_evs r))
      && (if existsb (fun s => oob SC tns (src_ref s)) (t_sources t)
          then is_nil (target_writes (p_evs r)) && negb (post_invalid post =? 0) else true)
      && match c_rendered pre t with
         | Some (RObj k _ _) => if oob SC tns k then is_nil (target_writes (p_evs r)) && negb (post_invalid post =? 0) else true
         | _ => true
         end).
(** 6. delete_frees *)
Definition is_finrm (e : ev) : bool := match e with EFinRm => true | _ => false end.
Definition cl_delete (post : cworld) (t : tmpl tcode) (r : pres) : bool :=
  match p_evs r with
  | EFree :: rest =>
      is_nil (target_writes rest) && is_nil (label_patches rest)
      && forallb (fun p => negb (snd p =? me)) (w_watch post)
      && (if t_fin t then existsb is_finrm rest && is_none (w_tmpl post) else true)
  | _ => false
  end.
(** 7. tracks_sources *)
Definition cl_tracks (post : cworld) (t : tmpl tcode) : bool :=
  forallb (fun s => watched (s_kind s) me (w_watch post)
                    && match src_obj post t s with Some o => o_label o | None => true end) (t_sources t).
(** 8. quiescent: the stored target equals the render of the sources as they are after the pass *)
Definition self_write (t : tmpl tcode) (r : pres) : bool :=
  existsb (fun kd => existsb (fun s => key_eqb (nkey SC (src_key (t_ns t) s)) (fst kd)) (t_sources t)) (target_writes (p_evs r)).
Definition cl_quiescent (post : cworld) (t : tmpl tcode) (r : pres) : bool :=
  self_write t r
  || match w_tmpl post with
     | Some t' => match c_expected t' post with
                  | Some (k, d) => match lookup k (w_store post) with Some o => follows (o_data o) d | None => false end
                  | None => false
                  end
     | None => false
     end.
(** 9. a change of a labelled object of a kind the template watches enqueues the template *)
Definition cl_enqueue (pre : cworld) (k : key) (changed : obj -> bool) (b : bool) : bool :=
  match lookup k (w_store pre) with
  | Some o => if o_label o && watched (k_kind k) me (w_watch pre) && changed o then b else true
  | None => true
  end.

(** A pass during which third parties act and requests fail: whatever it writes is the render of what it
    read-and-labelled, and every source without such a read is optional. *)
Definition cl_reads (pre : cworld) (r : pres) (rs : list (option data)) : bool :=
  match target_writes (p_evs r) with
  | [] => true
  | ws =>
      match w_tmpl pre with
      | Some t =>
          match cfg_of_reads (t_sources t) rs [] with
          | Some cfg => match R (t_code t) cfg (w_env pre) with
                        | RObj k0 d _ => forallb (realises (eff_key (t_ns t) k0, d)) ws && Nat.eqb (length ws) 1
                        | _ => false
                        end
          | None => false
          end
      | None => false
      end
  end.

(** The clauses of one pass. *)
Definition pass_clauses (ivres ivopt : N) (pre post : cworld) (r : pres) : list bool :=
  match w_tmpl pre with
  | None => [is_nil (p_evs r); true; true; true; true; true; true; true; true]
  | Some t =>
      if t_del t then [true; true; true; true; true; cl_delete post t r; true; true; true]
      else [cl_render pre t r; cl_required ivres pre post t r; cl_optional ivopt pre t r; cl_unparsable pre post t r;
            cl_nsbound pre post t r; true;
            negb (successful pre post r) || cl_tracks post t;
            negb (successful pre post r) || cl_quiescent post t r; true]
  end.

(** All nine clauses of one step. *)
Definition step_clauses (ivres ivopt : N) (pre : cworld) (s : cstep) (o : sobs) (post : cworld) : list bool :=
  let nine := [true; true; true; true; true; true; true; true; true] in
  match s, o with
  | SPass, OPass r => pass_clauses ivres ivopt pre post r
  | SDrain, OPass r =>        (* the worker ran a pass: only legitimate if a request was pending; then judged like any pass *)
      if w_pending pre then pass_clauses ivres ivopt pre post r else [false; true; true; true; true; true; true; true; true]
  | SDrain, ONone => [negb (w_pending pre); true; true; true; true; true; true; true; true]
  | SPut k d _, OEnq b => [true; true; true; true; true; true; true; true; cl_enqueue pre k (fun o => negb (data_eqb (o_data o) d)) b]
  | SDel k, OEnq b => [true; true; true; true; true; true; true; true; cl_enqueue pre k (fun _ => true) b]
  | SPassX _, OPassX r rs => [cl_reads pre r rs; true; true; true; true; true; true; true; true]
  | SAux ns, OAux h =>       (* another template of the same controller: rendered with the environment as it is now, for its namespace *)
      [h =? hval (w_sink pre) ns; true; true; true; true; true; true; true; true]
  | SPoke _ _ _, ONone | SEdit _ _, ONone | STDel, ONone | SEnv _, ONone | SHyper _, ONone | SHc _ _, ONone => nine
  | _, _ => [false; true; true; true; true; true; true; true; true]      (* observation of the wrong shape *)
  end.

Fixpoint steps_clauses (ivres ivopt : N) (pre : cworld) (ss : list cstep) (os : list (sobs * cworld)) : list (list bool) :=
  match ss, os with
  | s :: ss', (o, post) :: os' => step_clauses ivres ivopt pre s o post :: steps_clauses ivres ivopt post ss' os'
  | [], [] => []
  | _, _ => [[false; true; true; true; true; true; true; true; true]]
  end.

(** The reference rendering of the final sources through the real transformer, when the history ends
    with a successful pass: the stored target carries exactly that body. *)
Definition final_clause (c : ccase) : bool :=
  match rev (cc_steps c), rev (cc_obs c) with
  | SPass :: ss', (OPass r, post) :: os' =>
      let pre := last_world (cc_init_obs c) (rev os') in
      match live pre with
      | Some t =>
          if successful pre post r && negb (self_write t r)
          then match cc_ref c with
               | Some (k0, d) => match lookup (eff_key (t_ns t) k0) (w_store post) with
                                 | Some o => follows (o_data o) d | None => false end
               | None => false
               end
          else true
      | None => true
      end
  | _, _ => true
  end.

(** Quiescence by events alone. A pass [arms] the clause when it succeeded with every source present (so
    nothing is left to a retry timer); source creations / edits / deletions and idle worker steps keep it
    armed, anything else (template edit, environment change, status write, template deletion) disarms
    it. If the history ends armed with no request pending, the stored target must equal the template
    rendered with the sources as they are at the end, and be visible to the cache. *)
Definition arms (pre post : cworld) (r : pres) : bool :=
  match live pre with
  | Some t => successful pre post r && negb (self_write t r)
              && forallb (fun s => negb (is_none (src_obj post t s))) (t_sources t)
  | None => false
  end.

Fixpoint quiet_scan (pre : cworld) (ss : list cstep) (os : list (sobs * cworld)) (armed : bool) : bool * cworld :=
  match ss, os with
  | s :: ss', (o, post) :: os' =>
      quiet_scan post ss' os'
        match s, o with
        | SPass, OPass r | SDrain, OPass r => arms pre post r
        | SDrain, ONone | SPut _ _ _, OEnq _ | SDel _, OEnq _ => armed
        | _, _ => false
        end
  | _, _ => (armed, pre)
  end.

Definition target_follows (w : cworld) : bool :=
  match w_tmpl w with
  | Some t' => match c_expected t' w with
               | Some (k, d) => match lookup k (w_store w) with Some o => follows (o_data o) d && o_label o | None => false end
               | None => false
               end
  | None => false
  end.

Definition quiet_clause (c : ccase) : bool :=
  let '(armed, w) := quiet_scan (cc_init_obs c) (cc_steps c) (cc_obs c) false in
  if armed && negb (w_pending w) then target_follows w else true.

Definition clause_n (n : nat) (l : list (list bool)) : bool := forallb (fun c => nth n c false) l.

Definition all_clauses (c : ccase) : list (list bool) :=
  steps_clauses (cc_ivres c) (cc_ivopt c) (cc_init_obs c) (cc_steps c) (cc_obs c).

Definition clause_vector (c : ccase) : list bool :=
  let l := all_clauses c in
  [clause_n 0 l; clause_n 1 l; clause_n 2 l; clause_n 3 l; clause_n 4 l;
   clause_n 5 l; clause_n 6 l; clause_n 7 l && final_clause c && quiet_clause c; clause_n 8 l].

(** The monitor: every clause on every step, no exception. *)
Definition monitor (c : ccase) : bool := forallb (fun b => b) (clause_vector c).

Definition judge (c : ccase) :=
  let g := clause_vector c in
  (agree c,
   (nth 0 g false, nth 1 g false, nth 2 g false, nth 3 g false, nth 4 g false, nth 5 g false, nth 6 g false, nth 7 g false, nth 8 g false)).

(** ** Soundness of the monitor for the model: whatever the scenario, the model's own run satisfies
    every clause on every step that does not have the shape of the known finding. *)
Lemma existsb_false_forall {A} (f : A -> bool) l : existsb f l = false -> forall x, In x l -> f x = false.
Proof.
  intros H x Hin. destruct (f x) eqn:E; [|reflexivity].
  assert (existsb f l = true) by (apply existsb_exists; eauto). congruence.
Qed.
Lemma kd_eqb_refl kd : kd_eqb kd kd = true.
Proof. unfold kd_eqb. now rewrite key_eqb_refl, data_eqb_refl. Qed.
Lemma is_nil_true {A} (l : list A) : l = [] -> is_nil l = true.
Proof. now intros ->. Qed.

Section Sound.
  Variables ivres ivopt : N.
  Notation pass := (pass R SC ns_escalation ivres ivopt).
  Notation do_step := (do_step R SC ns_escalation ivres ivopt).
  Notation run := (run R SC ns_escalation ivres ivopt).
  Notation final := (final R SC ns_escalation ivres ivopt).

  Section Live.
    Variables (w : cworld) (t : tmpl tcode) (w' : cworld) (r : pres).
    Hypothesis Ht : w_tmpl w = Some t.
    Hypothesis Hd : t_del t = false.
    Hypothesis Hp : pass w = (w', r).
    Let tns := t_ns t.

    Lemma g_scan : scan SC (pfbad SC tns) (w_store w) tns (t_sources t) [] false = c_scan w t.
    Proof. unfold c_scan. apply scan_ext. intros s Hin. fold tns. now rewrite src_bad_pf. Qed.

    Lemma live_w : live w = Some t.
    Proof. unfold live. now rewrite Ht, Hd. Qed.

    Lemma expected_inv k d : c_expected t w = Some (k, d) ->
      exists cfg rt k0 orefs, c_scan w t = ScOk cfg rt /\ R (t_code t) cfg (w_env w) = RObj k0 d orefs /\
                              pf_violation SC ns_escalation tns k0 orefs = false /\ k = eff_key tns k0.
    Proof.
      unfold c_expected, expected. fold (c_scan w t). destruct (c_scan w t) as [| | |cfg rt]; try discriminate.
      destruct (R (t_code t) cfg (w_env w)) as [| |k0 body orefs] eqn:Er; try discriminate.
      destruct (tgt_bad SC (t_ns t) k0 orefs) eqn:Eb; [discriminate|]. intros H. injection H as <- <-.
      exists cfg, rt, k0, orefs. rewrite bad_pf in Eb. auto.
    Qed.

    Lemma s_render : cl_render w t r = true.
    Proof.
      unfold cl_render. apply andb_true_iff. split.
      - apply forallb_forall. intros [k d] Hin.
        destruct (output_is_render _ _ _ _ _ _ _ _ Ht Hd Hp k d Hin) as (cfg & rt & k0 & body & orefs & Hs & Hr & Hf & Hpf & -> & _).
        fold tns in Hs, Hpf. rewrite g_scan in Hs.
        unfold c_expected, expected. fold (c_scan w t). rewrite Hs, Hr, bad_pf. fold tns. rewrite Hpf.
        unfold realises. cbn [fst snd]. now rewrite key_eqb_refl, Hf.
      - destruct (c_expected t w) as [[k d]|] eqn:Ee; [|reflexivity].
        destruct (expected_inv _ _ Ee) as (cfg & rt & k0 & orefs & Hs & Hr & Hpf & ->).
        rewrite <- g_scan in Hs.
        destruct (render_is_output _ _ _ _ _ _ _ _ Ht Hd Hp _ _ _ _ _ Hs Hr Hpf) as [He|(d' & Hw & Hf)].
        + apply N.eqb_neq in He. now rewrite He.
        + unfold wrote. fold tns in Hw. rewrite Hw. cbn [existsb]. unfold realises. cbn [fst snd].
          rewrite key_eqb_refl, Hf. cbn. now rewrite orb_true_r.
    Qed.

    Lemma s_required : cl_required ivres w w' t r = true.
    Proof.
      unfold cl_required. apply andb_true_iff. split.
      - destruct (existsb _ (t_sources t)) eqn:Ex; [|reflexivity].
        apply existsb_exists in Ex. destruct Ex as (s & Hin & Hs). apply andb_true_iff in Hs. destruct Hs as [Hs Hm].
        apply andb_true_iff in Hs. destruct Hs as [Ho _]. apply negb_true_iff in Ho.
        unfold src_obj in Hm. destruct (lookup (nkey SC (src_key (t_ns t) s)) (w_store w)) eqn:El; [discriminate|].
        destruct (required_missing_no_write _ _ _ _ _ _ _ _ Ht Hd Hp) as (Hw & _ & t' & Ht' & Hi); [eauto|].
        rewrite Hw. unfold post_invalid. rewrite Ht', Hi. reflexivity.
      - destruct (c_scan w t) eqn:Es; try reflexivity. rewrite <- g_scan in Es.
        destruct (required_missing_requeue _ _ _ _ _ _ _ _ Ht Hd Hp Es) as (-> & _).
        destruct (ivres =? 0); reflexivity.
    Qed.

    Lemma s_optional : cl_optional ivopt w t r = true.
    Proof.
      unfold cl_optional. destruct (c_scan w t) as [| | |cfg [|]] eqn:Es; try reflexivity. rewrite <- g_scan in Es.
      destruct (optional_missing_retry _ _ _ _ _ _ _ _ Ht Hd Hp _ Es) as (-> & _). destruct (ivopt =? 0); reflexivity.
    Qed.

    Lemma s_unparsable : cl_unparsable w w' t r = true.
    Proof.
      unfold cl_unparsable, c_rendered. destruct (c_scan w t) as [| | |cfg rt] eqn:Es; try reflexivity. rewrite <- g_scan in Es.
      destruct (R (t_code t) cfg (w_env w)) eqn:Er; try reflexivity.
      - destruct (unparsable_no_write _ _ _ _ _ _ _ _ Ht Hd Hp _ _ Es Er) as (-> & _ & _ & t' & Ht' & Hi).
        unfold post_invalid. rewrite Ht', Hi. reflexivity.
      - destruct (nonyaml_no_write _ _ _ _ _ _ _ _ Ht Hd Hp _ _ Es Er) as (-> & _). reflexivity.
    Qed.

    Lemma s_nsbound : cl_nsbound w w' t r = true.
    Proof.
      unfold cl_nsbound. fold tns. destruct (tns =? 0) eqn:E0; [reflexivity|]. cbn [orb].
      assert (Hns : tns <> 0) by now apply N.eqb_neq.
      rewrite !andb_true_iff. repeat split.
      - apply forallb_forall. intros k Hin. eapply patches_in_bounds; eauto.
      - apply forallb_forall. intros kd Hin. eapply watches_in_bounds; eauto.
      - apply forallb_forall. intros [k d] Hin. eapply writes_in_bounds; eauto.
      - destruct (existsb _ (t_sources t)) eqn:Ex; [|reflexivity].
        apply existsb_exists in Ex. destruct Ex as (s & Hin & Hs).
        destruct (source_out_of_bounds_no_write _ _ _ _ _ _ _ _ Ht Hd Hp) as (-> & _ & t' & Ht' & Hi).
        { exists s. split; [assumption|]. unfold src_bad. fold tns. unfold src_ref in Hs. now rewrite Hs. }
        unfold post_invalid. rewrite Ht', Hi. reflexivity.
      - unfold c_rendered. destruct (c_scan w t) as [| | |cfg rt] eqn:Es; try reflexivity.
        destruct (R (t_code t) cfg (w_env w)) as [| |k d orefs] eqn:Er; try reflexivity.
        destruct (oob SC tns k) eqn:Eo; [|reflexivity].
        rewrite <- g_scan in Es.
        destruct (target_out_of_bounds_no_write _ _ _ _ _ _ _ _ Ht Hd Hp _ _ _ _ _ Es Er) as (-> & _ & t' & Ht' & Hi); auto.
        { unfold tgt_bad. fold tns. rewrite Eo. now rewrite orb_true_r. }
        unfold post_invalid. rewrite Ht', Hi. reflexivity.
    Qed.

    Lemma successful_inv : successful w w' r = true -> p_err r = 0 /\ exists t', w_tmpl w' = Some t' /\ t_invalid t' = 0.
    Proof.
      unfold successful. rewrite live_w. intros H. apply andb_true_iff in H. destruct H as [H1 H2].
      apply N.eqb_eq in H1, H2. split; [assumption|]. unfold post_invalid in H2.
      destruct (w_tmpl w') as [t'|]; [eauto|discriminate].
    Qed.

    Lemma s_tracks : negb (successful w w' r) || cl_tracks w' t = true.
    Proof.
      destruct (successful w w' r) eqn:Es; [|reflexivity]. cbn. destruct (successful_inv Es) as [He Hi].
      pose proof (tracks_sources _ _ _ _ _ _ _ _ Ht Hd Hp He Hi) as Htr. rewrite Forall_forall in Htr.
      unfold cl_tracks. apply forallb_forall. intros s Hin. destruct (Htr s Hin) as [H1 H2].
      unfold src_obj. rewrite H1. cbn. destruct (lookup _ (w_store w')); auto.
    Qed.

    Lemma self_write_false : self_write t r = false ->
      forall k d, In (k, d) (target_writes (p_evs r)) -> forall s, In s (t_sources t) -> nkey SC (src_key (t_ns t) s) <> k.
    Proof.
      intros H k d Hin s Hs E. pose proof (existsb_false_forall _ _ H _ Hin) as H1. cbn in H1.
      pose proof (existsb_false_forall _ _ H1 _ Hs) as H2. cbn in H2. rewrite E, key_eqb_refl in H2. discriminate.
    Qed.

    Lemma s_quiescent : negb (successful w w' r) || cl_quiescent w' t r = true.
    Proof.
      destruct (successful w w' r) eqn:Es; [|reflexivity]. cbn. destruct (successful_inv Es) as [He Hi].
      unfold cl_quiescent. destruct (self_write t r) eqn:Esw; [reflexivity|]. cbn.
      destruct (success_equals_render _ _ _ _ _ _ _ _ Ht Hd Hp He Hi (self_write_false Esw))
        as (t' & k & d & o & H1 & H2 & H3 & H4 & _).
      rewrite H1. unfold c_expected. rewrite H2, H3, H4. reflexivity.
    Qed.
  End Live.

  Definition nine_true : list bool := [true; true; true; true; true; true; true; true; true].

  Lemma pass_sound w w' r b : pass w = (w', r) -> pass_clauses ivres ivopt w (with_pending w' b) r = nine_true.
  Proof.
    intros Ep. unfold pass_clauses. destruct (w_tmpl w) as [t|] eqn:Et.
    - destruct (t_del t) eqn:Ed.
      + destruct (delete_frees _ _ _ _ _ _ _ _ Et Ed Ep) as (Hev & _ & _ & _ & _ & Hme & _ & Hfin & _).
        unfold cl_delete. rewrite Hev. cbn [w_watch w_tmpl with_pending].
        assert (Hw : forallb (fun p => negb (snd p =? me)) (w_watch w') = true).
        { apply forallb_forall. intros [kd o] Hin. cbn. destruct (o =? me) eqn:E; [|reflexivity]. apply N.eqb_eq in E. subst o.
          specialize (Hme kd). unfold watched in Hme.
          assert (existsb (fun p => (fst p =? kd) && (snd p =? me)) (w_watch w') = true).
          { apply existsb_exists. exists (kd, me). split; [assumption|]. cbn. now rewrite !N.eqb_refl. }
          congruence. }
        rewrite Hw. destruct (t_fin t); cbn; [rewrite (Hfin eq_refl)|]; reflexivity.
      + change (cl_required ivres w (with_pending w' b) t r) with (cl_required ivres w w' t r).
        change (cl_unparsable w (with_pending w' b) t r) with (cl_unparsable w w' t r).
        change (cl_nsbound w (with_pending w' b) t r) with (cl_nsbound w w' t r).
        change (successful w (with_pending w' b) r) with (successful w w' r).
        change (cl_tracks (with_pending w' b) t) with (cl_tracks w' t).
        change (cl_quiescent (with_pending w' b) t r) with (cl_quiescent w' t r).
        unfold nine_true.
        rewrite (s_render _ _ _ _ Et Ed Ep), (s_required _ _ _ _ Et Ed Ep), (s_optional _ _ _ _ Et Ed Ep),
          (s_unparsable _ _ _ _ Et Ed Ep), (s_nsbound _ _ _ _ Et Ed Ep), (s_tracks _ _ _ _ Et Ed Ep),
          (s_quiescent _ _ _ _ Et Ed Ep). reflexivity.
    - rewrite (absent_noop _ _ _ _ _ Et) in Ep. injection Ep as <- <-. reflexivity.
  Qed.

  Lemma step_sound w s :
    let '(w', o) := do_step w s in
    step_clauses ivres ivopt w s o w' = nine_true.
  Proof.
    destruct s as [k d lbl|k|k so cs|srcs c| |e|hb|hns hb|ans|adv| |]; cbn [Template.do_step]; unfold note.
    - destruct (lookup k (w_store w)) as [o|] eqn:El.
      + destruct (data_eqb (o_data o) d) eqn:Ed; cbn; unfold cl_enqueue; rewrite El, Ed; cbn.
        * now rewrite andb_false_r.
        * unfold enqueued. rewrite andb_true_r. destruct (o_label o && watched (k_kind k) me (w_watch w)); reflexivity.
      + cbn. unfold cl_enqueue. now rewrite El.
    - destruct (lookup k (w_store w)) as [o|] eqn:El; cbn; unfold cl_enqueue; rewrite El; [|reflexivity].
      unfold enqueued. rewrite andb_true_r. destruct (o_label o && watched (k_kind k) me (w_watch w)); reflexivity.
    - destruct (lookup k (w_store w)); reflexivity.
    - destruct (w_tmpl w); reflexivity.
    - destruct (w_tmpl w) as [t|]; [destruct (t_fin t)|]; reflexivity.
    - reflexivity.
    - reflexivity.
    - reflexivity.
    - cbn [step_clauses]. now rewrite N.eqb_refl.
    - destruct (Template.passx R SC ns_escalation ivres ivopt adv w) as [[w' r] rs] eqn:Ep. cbn [step_clauses].
      replace (cl_reads w r rs) with true; [reflexivity|]. symmetry. unfold cl_reads.
      destruct (target_writes (p_evs r)) as [|[k d] ws] eqn:Ew; [reflexivity|].
      destruct (w_tmpl w) as [t|] eqn:Et.
      + destruct (passx_reads _ _ _ _ _ _ _ _ _ _ Et Ep k d) as (Hw & cfg & k0 & body & orefs & _ & Hc & Hr & Hf & _ & Hk); [rewrite Ew; now left|].
        cbn [t_sources t_code t_ns set_fin] in Hc, Hr, Hk. rewrite Ew in Hw. injection Hw as ->.
        rewrite Hc, Hr, <- Hk. cbn [forallb length]. unfold realises. cbn [fst snd]. now rewrite key_eqb_refl, Hf.
      + exfalso. unfold Template.passx, req in Ep. cbn [w_tmpl with_store] in Ep. rewrite Et in Ep.
        destruct (adv_fault adv 0) as [[|]|]; injection Ep as _ <- _; discriminate.
    - destruct (pass w) as [w' r] eqn:Ep. cbn [step_clauses]. now apply pass_sound.
    - destruct (w_pending w) eqn:Epd.
      + destruct (pass w) as [w' r] eqn:Ep. cbn [step_clauses]. rewrite Epd. now apply pass_sound.
      + cbn [step_clauses]. rewrite Epd. reflexivity.
  Qed.
End Sound.

Lemma last_cons {A} (a d : A) l : last (a :: l) d = last l a.
Proof. revert a d. induction l as [|b l IH]; intros a d; [reflexivity|]. change (last (a :: b :: l) d) with (last (b :: l) d). now rewrite !IH. Qed.

Lemma scan_ok_weaken bad1 bad2 st tns srcs : (forall s, bad2 s = true -> bad1 s = true) ->
  forall cfg retry c rt, scan SC bad1 st tns srcs cfg retry = ScOk c rt -> scan SC bad2 st tns srcs cfg retry = ScOk c rt.
Proof.
  intros Hb. induction srcs as [|s r IH]; intros cfg retry c rt; cbn; [auto|].
  destruct (bad1 s) eqn:E1; [discriminate|]. destruct (bad2 s) eqn:E2; [rewrite (Hb s E2) in E1; discriminate|].
  destruct (lookup (nkey SC (src_key tns s)) st).
  - destruct (copy_items (s_items s) o cfg); [apply IH|auto].
  - destruct (s_opt s); [apply IH|auto].
Qed.

Lemma ref_of_expected (w : cworld) t k d : w_tmpl w = Some t -> expected R SC t (w_store w) (w_env w) = Some (k, d) ->
  exists k0, ref_of w = Some (k0, d) /\ k = eff_key (t_ns t) k0.
Proof.
  intros Ht. unfold expected, ref_of. rewrite Ht.
  destruct (scan SC (src_bad SC (t_ns t)) (w_store w) (t_ns t) (t_sources t) [] false) as [| | |cfg rt] eqn:Es; try discriminate.
  rewrite (scan_ok_weaken (src_bad SC (t_ns t)) (fun _ => false) _ _ _ (fun s H => ltac:(discriminate)) _ _ _ _ Es).
  destruct (R (t_code t) cfg (w_env w)) as [| |k0 body orefs]; try discriminate.
  destruct (tgt_bad SC (t_ns t) k0 orefs); [discriminate|]. intros H. injection H as <- <-. eauto.
Qed.

Section Sound2.
  Variables ivres ivopt : N.
  Notation pass := (pass R SC ns_escalation ivres ivopt).
  Notation do_step := (do_step R SC ns_escalation ivres ivopt).
  Notation run := (run R SC ns_escalation ivres ivopt).
  Notation final := (final R SC ns_escalation ivres ivopt).

  Lemma steps_sound ss : forall w, Forall (fun c => c = nine_true) (steps_clauses ivres ivopt w ss (run w ss)).
  Proof.
    induction ss as [|s ss IH]; intros w; cbn; [constructor|].
    pose proof (step_sound ivres ivopt w s) as H. destruct (do_step w s) as [w' o]. cbn. constructor; [exact H|apply IH].
  Qed.

  Lemma clause_n_good n l : (n < 9)%nat -> Forall (fun c => c = nine_true) l -> clause_n n l = true.
  Proof.
    intros Hn H. unfold clause_n. apply forallb_forall. intros c Hin. rewrite Forall_forall in H.
    rewrite (H c Hin). do 9 (destruct n as [|n]; [reflexivity|]). lia.
  Qed.

  Lemma last_world_run ss : forall w, last_world w (run w ss) = final w ss.
  Proof.
    unfold last_world. induction ss as [|s ss IH]; intros w; [reflexivity|]. cbn.
    destruct (do_step w s) as [w' o] eqn:E. cbn [map snd]. rewrite last_cons, IH.
    unfold Template.final. cbn. rewrite ?E. reflexivity.
  Qed.

  Definition model_case (w : cworld) (ss : list cstep) : ccase :=
    {| cc_ivres := ivres; cc_ivopt := ivopt; cc_init := w; cc_steps := ss; cc_init_obs := w; cc_obs := run w ss;
       cc_ref := ref_of (last_world w (run w ss)) |}.

  Lemma final_sound w ss : final_clause (model_case w ss) = true.
  Proof.
    destruct ss as [|s0 ss0] using rev_ind; [reflexivity|]. clear IHss0.
    unfold final_clause, model_case. cbn [cc_steps cc_obs cc_init_obs cc_ref].
    unfold cstep, cworld in *. rewrite rev_app_distr, run_snoc, rev_app_distr. cbn [rev app].
    assert (Hlw : forall (l : list (sobs * world tcode)) o x, last_world w (l ++ [(o, x)]) = x).
    { intros l o x. unfold last_world. rewrite map_app. cbn. apply last_last. }
    rewrite Hlw, rev_involutive, last_world_run. set (wp := final w ss0).
    destruct s0; try reflexivity.
    cbn [Template.do_step]. destruct (pass wp) as [w' r] eqn:Ep. cbn [fst snd].
    change (successful wp (with_pending w' false) r) with (successful wp w' r).
    change (ref_of (with_pending w' false)) with (ref_of w').
    change (w_store (with_pending w' false)) with (w_store w').
    destruct (live wp) as [t|] eqn:El; [|reflexivity].
    unfold live in El. destruct (w_tmpl wp) as [t0|] eqn:Et; [|discriminate]. destruct (t_del t0) eqn:Ed; [discriminate|].
    injection El as <-.
    destruct (successful wp w' r && negb (self_write t0 r)) eqn:Es; [|reflexivity].
    apply andb_true_iff in Es. destruct Es as [Hsucc Hsw]. apply negb_true_iff in Hsw.
    destruct (successful_inv _ _ _ _ Et Ed Hsucc) as [He Hi].
    destruct (success_equals_render _ _ _ _ _ _ _ _ Et Ed Ep He Hi (self_write_false _ _ Hsw))
      as (t' & k & d & o & H1 & H2 & H3 & H4 & _).
    destruct (pass_table _ _ _ _ _ _ _ _ Et Ed Ep) as (_ & _ & _ & _ & _ & _ & (t2 & Ht2 & Hspec) & _).
    rewrite H1 in Ht2. injection Ht2 as <-. destruct Hspec as (Ens & _).
    destruct (ref_of_expected _ _ _ _ H1 H2) as (k0 & -> & ->). rewrite Ens, H3, H4. reflexivity.
  Qed.

  (** the quiet clause: while armed, either a request is pending or the world is calm *)
  Lemma arms_calm wp w' r b : pass wp = (w', r) -> arms wp (with_pending w' b) r = true -> calm R SC (with_pending w' b).
  Proof.
    intros Ep Ha. unfold arms in Ha. destruct (live wp) as [t|] eqn:El; [|discriminate].
    unfold live in El. destruct (w_tmpl wp) as [t0|] eqn:Et; [|discriminate]. destruct (t_del t0) eqn:Ed; [discriminate|].
    injection El as <-. apply andb_true_iff in Ha. destruct Ha as [Ha Hall]. apply andb_true_iff in Ha. destruct Ha as [Hsucc Hsw].
    apply negb_true_iff in Hsw. change (successful wp (with_pending w' b) r) with (successful wp w' r) in Hsucc.
    destruct (successful_inv _ _ _ _ Et Ed Hsucc) as [He Hi].
    apply (calm_with_pending R SC). apply (success_calms _ _ _ _ _ _ _ _ Et Ed Ep He Hi (self_write_false _ _ Hsw)).
    intros s Hs E. rewrite forallb_forall in Hall. specialize (Hall s Hs). unfold src_obj in Hall. cbn [w_store with_pending] in Hall.
    rewrite E in Hall. discriminate.
  Qed.

  Definition quiet_inv (armed : bool) (w : cworld) : Prop := armed = true -> w_pending w = true \/ calm R SC w.

  Lemma quiet_scan_sound ss : forall w armed, quiet_inv armed w ->
    let '(a, wf) := quiet_scan w ss (run w ss) armed in quiet_inv a wf.
  Proof.
    induction ss as [|s r IH]; intros w armed Hinv; [exact Hinv|].
    cbn [Template.run quiet_scan]. destruct (do_step w s) as [w1 o1] eqn:Es. cbn [quiet_scan].
    apply IH. destruct s; cbn [Template.do_step] in Es; unfold note in Es.
    - (* put *)
      assert (Ho : exists b, o1 = OEnq b).
      { destruct (lookup k (w_store w)); [destruct (data_eqb (o_data o) d)|]; injection Es as <- <-; eauto. }
      destruct Ho as (b & ->). intros Ha. destruct (Hinv Ha) as [Hp|Hc].
      + left. destruct (lookup k (w_store w)); [destruct (data_eqb (o_data o) d)|]; injection Es as <- _; cbn; now rewrite Hp.
      + destruct b.
        * left. destruct (lookup k (w_store w)); [destruct (data_eqb (o_data o) d)|]; injection Es as <- Hb; try discriminate; cbn; rewrite ?Hb; apply orb_true_r.
        * right. apply (calm_quiet_step R SC ivres ivopt w (SPut k d lbl)); [assumption|left; eauto|].
          cbn [Template.do_step]. unfold note. exact Es.
    - (* del *)
      assert (Ho : exists b, o1 = OEnq b).
      { destruct (lookup k (w_store w)); injection Es as <- <-; eauto. }
      destruct Ho as (b & ->). intros Ha. destruct (Hinv Ha) as [Hp|Hc].
      + left. destruct (lookup k (w_store w)); injection Es as <- _; cbn; now rewrite Hp.
      + destruct b.
        * left. destruct (lookup k (w_store w)); injection Es as <- Hb; try discriminate; cbn; rewrite ?Hb; apply orb_true_r.
        * right. apply (calm_quiet_step R SC ivres ivopt w (SDel k)); [assumption|right; eauto|].
          cbn [Template.do_step]. unfold note. exact Es.
    - destruct (lookup k (w_store w)); injection Es as <- <-; intros Ha; discriminate.
    - destruct (w_tmpl w); injection Es as <- <-; intros Ha; discriminate.
    - destruct (w_tmpl w) as [t|]; [destruct (t_fin t)|]; injection Es as <- <-; intros Ha; discriminate.
    - injection Es as <- <-. intros Ha; discriminate.
    - injection Es as <- <-. intros Ha; discriminate.
    - injection Es as <- <-. intros Ha; discriminate.
    - injection Es as <- <-. intros Ha; discriminate.
    - destruct (Template.passx R SC ns_escalation ivres ivopt a w) as [[w' r'] rs']. injection Es as <- <-. intros Ha; discriminate.
    - (* pass *)
      destruct (pass w) as [w' r'] eqn:Ep. injection Es as <- <-. intros Ha. right. now apply (arms_calm w w' r').
    - (* drain *)
      destruct (w_pending w) eqn:Epd.
      + destruct (pass w) as [w' r'] eqn:Ep. injection Es as <- <-. intros Ha. right. now apply (arms_calm w w' r').
      + injection Es as <- <-. exact Hinv.
  Qed.

  Lemma quiet_sound w ss : quiet_clause (model_case w ss) = true.
  Proof.
    unfold quiet_clause, model_case. cbn [cc_init_obs cc_steps cc_obs].
    pose proof (quiet_scan_sound ss w false (fun H => ltac:(discriminate))) as H.
    destruct (quiet_scan w ss (run w ss) false) as [a wf]. destruct a; [|reflexivity]. cbn [andb].
    destruct (w_pending wf) eqn:Ep; [reflexivity|]. cbn [negb].
    destruct (H eq_refl) as [Hp|(t & k & d & o & Ht & _ & Hex & _ & Hlk & Hod & Hol & _)]; [congruence|].
    unfold target_follows. rewrite Ht. unfold c_expected. rewrite Hex, Hlk, Hod, Hol. reflexivity.
  Qed.

  Theorem monitor_sound w ss : monitor (model_case w ss) = true.
  Proof.
    unfold monitor, clause_vector, all_clauses. cbn [model_case cc_ivres cc_ivopt cc_init_obs cc_steps cc_obs].
    pose proof (steps_sound ss w) as H. rewrite (final_sound w ss), (quiet_sound w ss).
    cbn [forallb].
    rewrite (clause_n_good 0 _ ltac:(lia) H), (clause_n_good 1 _ ltac:(lia) H), (clause_n_good 2 _ ltac:(lia) H),
      (clause_n_good 3 _ ltac:(lia) H), (clause_n_good 4 _ ltac:(lia) H), (clause_n_good 5 _ ltac:(lia) H),
      (clause_n_good 6 _ ltac:(lia) H), (clause_n_good 7 _ ltac:(lia) H), (clause_n_good 8 _ ltac:(lia) H). reflexivity.
  Qed.
End Sound2.

(** The former witness of F-C18 (cluster-scoped source named with the template's own namespace): the
    monitor accepts the model's run of it (the pass now reports Invalid), and it rejects the run the model
    makes with the namespace check as it was before aa47ee3 - so a recurrence of the defect is reported. *)
Definition witness_world : cworld :=
  {| w_store := [((3, 0, 1), {| o_data := [(1, 7)]; o_lbl := LAbsent; o_ctrl := 0; o_gen := 1; o_sobs := None; o_conds := [] |})];
     w_tmpl := Some {| t_ns := 1;
                       t_sources := [{| s_kind := 3; s_ns := 1; s_name := 1; s_opt := false; s_items := [(1, 1)] |}];
                       t_code := {| tc_form := 0; tc_kind := 1; tc_ns := 0; tc_name := 100; tc_pick := []; tc_orefs := false |};
                       t_gen := 1; t_fin := false; t_del := false; t_invalid := 0; t_conds := []; t_ctrlof := None |};
     w_watch := []; w_env := 1; w_sink := {| sk_ver := 1; sk_hs := false; sk_hcs := []; sk_ns := 1 |}; w_pending := false |}.

Definition v0_case (w : cworld) (ss : list cstep) : ccase :=
  let obs := run R SC ns_escalation_v0 30 60 w ss in
  {| cc_ivres := 30; cc_ivopt := 60; cc_init := w; cc_steps := ss; cc_init_obs := w; cc_obs := obs;
     cc_ref := ref_of (last_world w obs) |}.

Theorem monitor_rejects_v0 :
  monitor (v0_case witness_world [SPass]) = false /\ agree (v0_case witness_world [SPass]) = false /\
  monitor (model_case 30 60 witness_world [SPass]) = true.
Proof. repeat split; vm_compute; reflexivity. Qed.

(** A history in which everything the quiescence theorems assume holds (non-vacuity). *)
Definition sample_world : cworld :=
  {| w_store := [((1, 1, 1), {| o_data := [(1, 5)]; o_lbl := LAbsent; o_ctrl := 0; o_gen := 1; o_sobs := None; o_conds := [] |})];
     w_tmpl := Some {| t_ns := 1;
                       t_sources := [{| s_kind := 1; s_ns := 0; s_name := 1; s_opt := false; s_items := [(1, 1)] |};
                                     {| s_kind := 2; s_ns := 0; s_name := 2; s_opt := true; s_items := [(1, 2)] |}];
                       t_code := {| tc_form := 0; tc_kind := 1; tc_ns := 0; tc_name := 100; tc_pick := []; tc_orefs := false |};
                       t_gen := 1; t_fin := false; t_del := false; t_invalid := 0; t_conds := []; t_ctrlof := None |};
     w_watch := []; w_env := 1; w_sink := {| sk_ver := 1; sk_hs := false; sk_hcs := []; sk_ns := 1 |}; w_pending := false |}.
Definition sample_history : list cstep := [SPass; SPut (1, 1, 1) [(1, 6)] LAbsent; SPass].

Lemma sample_ok :
  let wp := final render_code scope_tbl ns_escalation 30 60 sample_world [SPass; SPut (1, 1, 1) [(1, 6)] LAbsent] in
  let w := final render_code scope_tbl ns_escalation 30 60 sample_world sample_history in
  let r := snd (pass render_code scope_tbl ns_escalation 30 60 wp) in
  (exists t, w_tmpl wp = Some t /\ t_del t = false /\
     scan scope_tbl (pfbad scope_tbl (t_ns t)) (w_store wp) (t_ns t) (t_sources t) [] false = ScOk [(1, 6)] true) /\
  p_err r = 0 /\ p_requeue r = 60 /\ target_writes (p_evs r) = [((1, 1, 100), [(1, 6)])] /\
  (exists t', w_tmpl w = Some t' /\ t_invalid t' = 0 /\ expected render_code scope_tbl t' (w_store w) (w_env w) = Some ((1, 1, 100), [(1, 6)])).
Proof.
  cbv zeta. split; [|split; [|split; [|split]]]; try (vm_compute; reflexivity).
  - eexists. split; [vm_compute; reflexivity|]. split; vm_compute; auto.
  - eexists. split; [vm_compute; reflexivity|]. split; vm_compute; reflexivity.
Qed.
