(** Soundness of the C05 monitor for the model: whatever the world, the phase, the owner, the strategy and
    the third-party operations between read and write, the model's own teardown pass satisfies the
    request-level clauses of the monitor; with quiet third parties also the "untouched" clause. *)
From Coq Require Import List NArith ZArith Bool Lia.
From PKO Require Import Util Base BaseProofs Owner Api ApiProofs Phase PhaseProofs TeardownProofs.
From PKOCorr Require Import PhaseCorr C05Corr.
Import ListNotations.
Local Open Scope N_scope.

Definition set_obs (c : pcase) (res : world * list ev * ores) : pcase :=
  let '(w, e, r) := res in
  {| pc_flavor := pc_flavor c; pc_force := pc_force c; pc_owner := pc_owner c; pc_prev := pc_prev c;
     pc_store := pc_store c; pc_rv := pc_rv c; pc_uid := pc_uid c; pc_teardown := pc_teardown c;
     pc_objects := pc_objects c; pc_between := pc_between c;
     pc_res := r; pc_events := e; pc_post := w_store w; pc_rv' := w_rv w; pc_uid' := w_uid w |}.

Lemma existsb_key_in (ow : owner) (ps : list pobj) k :
  In k (map (key_of ow) ps) -> existsb (fun p => okey_eqb (desired_key ow p) k) ps = true.
Proof.
  intros H. apply in_map_iff in H. destruct H as (p & <- & Hin). apply existsb_exists. exists p.
  split; [assumption|apply okey_eqb_refl].
Qed.

Lemma td_ev_local_okb (c : pcase) (e : ev) :
  td_ev_local (pc_cfg c) (pc_owner c) (pc_objects c) e -> ev_okb c e = true.
Proof.
  intros [Hk He]. unfold ev_okb. rewrite (existsb_key_in _ _ _ Hk). cbn [andb].
  destruct e as [k rd pre post | k rd pre post | k rd puid prv pre r]; [contradiction| |].
  - destruct He as (Hc & Ho & Hp). cbn in Hc, Ho. rewrite Hc, Ho. cbn [negb andb].
    destruct post as [o| |].
    + destruct Hp as (st & -> & Hu & Hg & Ha & Hr & Hca & Hpk & Hb & Hav & Hog & Hd & Hf & Hown).
      unfold same_but_release. rewrite Hu, Hg, Ha, Hr, Hca, Hpk, Hb, Hav, Hog, Hd, Hf. cbn in Hown. rewrite Hown.
      rewrite N.eqb_refl, Z.eqb_refl, !N.eqb_refl. cbn [negb andb].
      assert (list_eqb oref_eqb (o_aowners st) (o_aowners st) = true) as -> by (apply (list_eqb_spec oref_eqb oref_eqb_spec); reflexivity).
      assert (revann_eqb (o_rev st) (o_rev st) = true) as -> by now apply revann_eqb_spec.
      assert (option_eqb Z.eqb (o_obsgen st) (o_obsgen st) = true) as -> by (apply (option_eqb_spec Z.eqb Z.eqb_eq); reflexivity).
      rewrite !eqb_reflx. cbn [andb].
      apply (list_eqb_spec oref_eqb oref_eqb_spec). reflexivity.
    + now rewrite Hp.
    + reflexivity.
  - destruct He as (Hc & -> & -> & Hr). cbn in Hc. rewrite Hc, !N.eqb_refl. cbn [andb].
    destruct r.
    + destruct Hr as (st & -> & Hu & Hv). rewrite Hu, Hv, !N.eqb_refl. cbn [andb].
      unfold rv_determinesb. rewrite Hu, Hv, !N.eqb_refl. cbn [andb negb orb].
      destruct (obj_eqb st rd) eqn:E; [|reflexivity]. apply obj_eqb_spec in E. subst st. cbn. now rewrite Hc.
    + now rewrite Hr.
    + destruct Hr as (st & -> & Hne). apply negb_true_iff. apply andb_false_iff.
      destruct Hne as [H|H]; [left|right]; now apply N.eqb_neq.
Qed.

(** Request-level soundness: for ANY third-party activity. *)
Theorem monitor_requests_sound (c : pcase) :
  pc_teardown c = true ->
  forallb (ev_okb (set_obs c (model_run c))) (pc_events (set_obs c (model_run c))) = true.
Proof.
  intros Ht. unfold model_run. rewrite Ht.
  destruct (teardown_phase (pc_cfg c) (apply_envops (pc_between c)) (pc_world c) (pc_owner c) (pc_objects c)) as [[w e] r] eqn:E.
  unfold teardown_phase in E. pose proof (td_objs_events _ _ _ _ _ _ _ _ _ E) as Hev.
  assert (Hgoal : forall res, forallb (ev_okb (set_obs c (w, e, res))) e = true).
  { intros res. apply forallb_forall. intros x Hx. rewrite Forall_forall in Hev.
    apply (td_ev_local_okb (set_obs c (w, e, res)) x). exact (Hev x Hx). }
  destruct r; cbn [set_obs pc_events]; apply Hgoal.
Qed.
