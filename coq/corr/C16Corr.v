(** Correspondence and monitor for C16 (only valid, admissible packages roll out; unchanged
    packages are left alone). *)
From Coq Require Import List NArith Bool Lia.
From PKO Require Import Util Package PackageProofs.
Import ListNotations.
Local Open Scope N_scope.

(** ** Scenario and observation *)

(** The digest function of a scenario: a table from (image, config, component) to the digest of the
    reference render of that spec (taken by the harness with the real renderer); 0 = no render. *)
Definition dtable := list (N * N * N * N).

Fixpoint digest_of (t : dtable) (i c k : N) : N :=
  match t with
  | [] => 0
  | (i', c', k', d) :: r => if (i =? i') && (c =? c') && (k =? k') then d else digest_of r i c k
  end.

(** A case: which List validateUnique uses in the implementation under test (decided by the driver
    from a witness scenario; only [agree] uses it), the digest table, the initial Package spec, the
    other (Cluster)Packages of the cluster, the steps with the stage outcomes the scenario was built
    to produce, and what the implementation did in every pass.  The same for both flavours: a
    ClusterPackage scenario has no peers in other namespaces. *)
Definition case := (bool * dtable * spec * peers * list step * list obs)%type.

(** The request log of the implementation does not tell the controller's pause propagation from
    the deployment reconciler's update: both are "update ObjectDeployment". *)
Definition norm_ev (e : ev) : ev :=
  match e with EReq KPauseOD r => EReq KUpdateOD r | _ => e end.

Definition norm_obs (b : obs) : obs :=
  {| ob_events := map norm_ev (ob_events b); ob_err := ob_err b; ob_requeue := ob_requeue b;
     ob_hash := ob_hash b; ob_conds := ob_conds b; ob_od := ob_od b; ob_pulls := ob_pulls b |}.

Definition rkind_eqb (a b : rkind) : bool :=
  match a, b with
  | KGetPkg, KGetPkg | KGetOD, KGetOD | KPauseOD, KPauseOD | KListPkg, KListPkg | KCreateOD, KCreateOD
  | KUpdateOD, KUpdateOD | KListSet, KListSet | KListSlice, KListSlice | KStatus, KStatus => true
  | _, _ => false
  end.

Definition rout_eqb (a b : rout) : bool :=
  match a, b with OOk, OOk | ONotFound, ONotFound | OConflict, OConflict | OFault, OFault => true | _, _ => false end.

Definition ev_eqb (a b : ev) : bool :=
  match a, b with
  | EPull i, EPull j => i =? j
  | EDeploy, EDeploy => true
  | EReq k r, EReq k' r' => rkind_eqb k k' && rout_eqb r r'
  | _, _ => false
  end.

Definition cond_eqb (a b : cond) : bool :=
  ctype_eqb (c_type a) (c_type b) && Bool.eqb (c_status a) (c_status b)
  && creason_eqb (c_reason a) (c_reason b) && (c_gen a =? c_gen b).

Definition od_eqb (a b : od) : bool :=
  tmpl_eqb (d_tmpl a) (d_tmpl b) && Bool.eqb (d_paused a) (d_paused b) && (d_gen a =? d_gen b).

Definition obs_eqb (a b : obs) : bool :=
  list_eqb ev_eqb (ob_events a) (ob_events b) && Bool.eqb (ob_err a) (ob_err b)
  && Bool.eqb (ob_requeue a) (ob_requeue b) && option_eqb spec_eqb (ob_hash a) (ob_hash b)
  && list_eqb cond_eqb (ob_conds a) (ob_conds b) && option_eqb od_eqb (ob_od a) (ob_od b)
  && (ob_pulls a =? ob_pulls b).

Definition model_obs_gen (fixed scoped : bool) (t : dtable) (sp : spec) (ps : peers) (steps : list step) : list obs :=
  map norm_obs (run (digest_of t) fixed scoped steps (init_world sp ps) [] []).
(** the code as it is: validateUnique lists every (Cluster)Package *)
Definition model_obs := model_obs_gen true false.
(** validateUnique lists the labelled (Cluster)Packages of the scope *)
Definition model_obs_scoped := model_obs_gen true true.
(** the code before cb58cda *)
Definition model_obs_v0 := model_obs_gen false false.

(** Model and implementation made the same requests with the same outcomes, pulled and entered
    Deploy at the same points, and left the same Package status and ObjectDeployment, pass by pass. *)
Definition agree (c : case) : bool :=
  let '(scoped, t, sp, ps, steps, obss) := c in list_eqb obs_eqb (model_obs_gen true scoped t sp ps steps) obss.

(** ** The monitor: the property on the implementation's observations only *)

(** what the monitor remembers between passes: the current spec (from the scenario's edits), the
    last persisted unpackedHash and the last stored ObjectDeployment (from the observations), and
    the digests of the specs seen at a pass with a valid and admissible package *)
Record view := { v_spec : spec; v_hash : option spec; v_od : option od; v_good : list N;
                 v_done : option spec (* the spec the scenario knows to have been processed last:
                                         by an error-free, unpaused pass whose pull succeeded *) }.

Definition tmpl_of (x : option od) : option tmpl := option_map d_tmpl x.

(** the ObjectDeployment was created, deleted, or its template changed (spec.paused is C09's business) *)
Definition od_changed (a b : option od) : bool := negb (option_eqb tmpl_eqb (tmpl_of a) (tmpl_of b)).

(** condition [t] is present with status [b] *)
Definition shows (t : ctype) (b : bool) (l : list cond) : bool :=
  match find_cond t l with Some c => Bool.eqb (c_status c) b | None => false end.

Definition pull_or_deploy (e : ev) : bool := is_pull e || is_deploy e.

Definition tmpl_okb (G : list N) (x : option od) : bool :=
  match tmpl_of x with Some (Some d) => existsb (N.eqb d) G | _ => true end.

(** the clauses of C16, one boolean each *)
Record verdict := {
  m_pull : bool;   (* pull failure: no deployment change; Unpacked=False persisted, requeue *)
  m_load : bool;   (* load failure: no deployment change; Invalid=True persisted *)
  m_cons : bool;   (* unmet constraint: no deployment change; Invalid=True persisted *)
  m_cfg : bool;    (* configuration rejected by the schema: no deployment change *)
  m_valid : bool;  (* structural / object validation failure, unusable constraint or image reference: no deployment change *)
  m_unch : bool;   (* spec hash = unpackedHash: no pull, no Deploy, no deployment change *)
  m_tmpl : bool;   (* new spec, valid and admissible, error-free pass: template = fresh render of the spec *)
  m_hist : bool;   (* the stored template is empty or the render of a spec that was valid and admissible *)
  m_sync : bool;   (* status.unpackedHash only ever moves to the hash of the current spec, and when it does
                      for a valid and admissible package the stored template is the render of that spec *)
}.

Definition verdict_and (a b : verdict) : verdict :=
  {| m_pull := m_pull a && m_pull b; m_load := m_load a && m_load b; m_cons := m_cons a && m_cons b;
     m_cfg := m_cfg a && m_cfg b; m_valid := m_valid a && m_valid b; m_unch := m_unch a && m_unch b;
     m_tmpl := m_tmpl a && m_tmpl b; m_hist := m_hist a && m_hist b; m_sync := m_sync a && m_sync b |}.

Definition verdict_true : verdict :=
  {| m_pull := true; m_load := true; m_cons := true; m_cfg := true; m_valid := true; m_unch := true;
     m_tmpl := true; m_hist := true; m_sync := true |}.

Definition verdict_all (a : verdict) : bool :=
  m_pull a && m_load a && m_cons a && m_cfg a && m_valid a && m_unch a && m_tmpl a && m_hist a && m_sync a.

Definition good_after (dg : N -> N -> N -> N) (v : view) (o : oracle) : list N :=
  v_good v ++ (if all_ok o then [spec_digest dg (v_spec v)] else []).

(** [armed]: the scenario injects an API fault or a third-party write into this pass.  A condition has to be persisted by
    every error-free pass, and a pass without injected fault has to be error free as far as pull
    failures, load failures and unmet constraints are concerned. *)
Definition mon_pass (dg : N -> N -> N -> N) (v : view) (o : oracle) (armed : bool) (b : obs) : verdict :=
  let sp := v_spec v in
  let same := negb (od_changed (v_od v) (ob_od b)) in
  let reached := negb (s_paused sp) && negb (hash_eqb (v_hash v) sp) in
  let clean := negb (ob_err b) in
  let settled := clean || negb armed in
  {| m_pull := implb (negb (o_pull o))
                 (same && implb (reached && settled) (shows CUnpacked false (ob_conds b) && ob_requeue b));
     m_load := implb (negb (o_load o))
                 (same && implb (reached && settled && o_pull o) (shows CInvalid true (ob_conds b)));
     m_cons := implb (unmet o)
                 (same && implb (reached && (clean || negb armed && negb (cons_err o)) && o_pull o && o_load o)
                                (shows CInvalid true (ob_conds b)));
     m_cfg := implb (negb (config_ok o)) same;
     m_valid := implb (cons_err o || negb (o_images o) || negb (o_render o)) same;
     m_unch := implb (hash_eqb (v_hash v) sp || hash_eqb (v_done v) sp)
                     (none_of pull_or_deploy (ob_events b) && same);
     m_tmpl := implb (reached && clean && all_ok o)
                 (option_eqb tmpl_eqb (tmpl_of (ob_od b)) (Some (Some (spec_digest dg sp))));
     m_hist := tmpl_okb (good_after dg v o) (ob_od b);
     m_sync := implb (negb (option_eqb spec_eqb (ob_hash b) (v_hash v)))
                 (hash_eqb (ob_hash b) sp &&
                  implb (all_ok o) (option_eqb tmpl_eqb (tmpl_of (ob_od b)) (Some (Some (spec_digest dg sp))))) |}.

Definition done_after (v : view) (o : oracle) (b : obs) : option spec :=
  if ob_err b then None                      (* an error pass may or may not have persisted its status *)
  else if s_paused (v_spec v) then v_done v
  else if hash_eqb (v_done v) (v_spec v) then v_done v
  else if o_pull o then Some (v_spec v) else v_done v.

Definition view_after (dg : N -> N -> N -> N) (v : view) (o : oracle) (b : obs) : view :=
  {| v_spec := v_spec v; v_hash := ob_hash b; v_od := ob_od b; v_good := good_after dg v o;
     v_done := done_after v o b |}.

(** The oracle the property is judged by: stage outcomes of the scenario, uniqueness among the
    labelled (Cluster)Packages of the scope ([sem = true], i.e. [seen true]).  [sem = false] judges
    uniqueness the way the code as it is does; the driver uses it only to tell whether a verdict is
    due to nothing but that difference. *)
Fixpoint mon (dg : N -> N -> N -> N) (sem : bool) (ps : peers) (v : view) (armed : bool) (steps : list step) (obss : list obs) : verdict :=
  match steps with
  | [] => verdict_true
  | SEdit sp :: r =>
      mon dg sem ps {| v_spec := sp; v_hash := v_hash v; v_od := v_od v; v_good := v_good v; v_done := v_done v |} armed r obss
  | SFault _ _ :: r => mon dg sem ps v true r obss
  | SDisturb _ :: r => mon dg sem ps v true r obss
  | SPass o :: r =>
      match obss with
      | [] => verdict_true   (* a missing observation is a correspondence failure, not a property violation *)
      | b :: bs => verdict_and (mon_pass dg v (seen sem ps o) armed b)
                               (mon dg sem ps (view_after dg v (seen sem ps o) b) false r bs)
      end
  end.

Definition init_view (sp : spec) : view :=
  {| v_spec := sp; v_hash := None; v_od := None; v_good := []; v_done := None |}.

Definition monitor (c : case) : verdict :=
  let '(_, t, sp, ps, steps, obss) := c in mon (digest_of t) true ps (init_view sp) false steps obss.

(** the verdict if uniqueness were judged over every (Cluster)Package *)
Definition monitor_unscoped (c : case) : verdict :=
  let '(_, t, sp, ps, steps, obss) := c in mon (digest_of t) false ps (init_view sp) false steps obss.

Definition judge (c : case) : bool * (bool * bool * bool * bool * bool * bool * bool * bool * bool) * bool :=
  let m := monitor c in
  (agree c, (m_pull m, m_load m, m_cons m, m_cfg m, m_valid m, m_unch m, m_tmpl m, m_hist m, m_sync m),
   verdict_all (monitor_unscoped c)).

(** ** Soundness of the monitor for the models *)

Lemma option_tmpl_eqb_refl (x : option tmpl) : option_eqb tmpl_eqb x x = true.
Proof. destruct x as [[d|]|]; cbn; [apply N.eqb_refl|reflexivity|reflexivity]. Qed.

Lemma has_shows t b r l : has_cond t b r l = true -> shows t b l = true.
Proof. unfold has_cond, shows. destruct (find_cond t l); [|discriminate]. now rewrite andb_true_iff. Qed.

Lemma none_of_norm l : none_of pull_or_deploy (map norm_ev l) = none_of pull_or_deploy l.
Proof.
  unfold none_of. induction l as [|e l IH]; cbn; [reflexivity|]. rewrite IH. f_equal.
  destruct e as [| |k r]; try reflexivity. now destruct k.
Qed.

Lemma none_of_weaken (f g : ev -> bool) l : (forall e, g e = true -> f e = true) -> none_of f l = true -> none_of g l = true.
Proof.
  intros H. unfold none_of. rewrite !forallb_forall. intros Hf e Hin. specialize (Hf e Hin).
  destruct (g e) eqn:E; [|reflexivity]. now rewrite (H e E) in Hf.
Qed.

(** the monitor's view describes the model's stored objects *)
Definition consistent (v : view) (w : world) : Prop :=
  v_spec v = p_spec (w_pkg w) /\ v_hash v = p_hash (w_pkg w) /\ v_od v = w_od w /\
  (forall sp, v_done v = Some sp -> p_hash (w_pkg w) = Some sp).

Section Sound.
  Variable dg : N -> N -> N -> N.
  Variable fixed : bool.

  (** oracle outcomes on which the model at hand blocks what the property wants blocked *)
  Definition covered (o : oracle) : Prop := fixed = true \/ unmet o = false.

  Lemma covered_deployable o : covered o -> deployable fixed o = all_ok o.
  Proof.
    intros [->|H]; [reflexivity|]. unfold deployable, all_ok. rewrite H. destruct fixed; [reflexivity|].
    now rewrite andb_true_r.
  Qed.

  (** one pass with the oracle as the controller sees it *)
  Definition pass0 (o : oracle) (w : world) (f : list rstat) (d : list bool) : result :=
    reconcile dg fixed o {| st_w := w; st_f := f; st_d := d; st_dirty := false; st_log := [] |}.

  Lemma option_spec_eqb_refl (x : option spec) : option_eqb spec_eqb x x = true.
  Proof. destruct x; cbn; [apply spec_eqb_refl|reflexivity]. Qed.

  Lemma mon_pass_sound o w f d v armed :
    covered o -> consistent v w -> od_okb (v_good v) w = true -> (armed = false -> f = [] /\ d = []) ->
    let r := pass0 o w f d in
    verdict_all (mon_pass dg v o armed (norm_obs (obs_of r))) = true /\
    consistent (view_after dg v o (norm_obs (obs_of r))) (st_w (r_st r)) /\
    od_okb (good_after dg v o) (st_w (r_st r)) = true.
  Proof.
    intros Hcov (Hsp & Hh & Hod & Hdone) Hgood Harm r.
    set (s := {| st_w := w; st_f := f; st_d := d; st_dirty := false; st_log := [] |}).
    assert (Hnf : armed = false -> calm s) by (intros Ha; destruct (Harm Ha) as [-> ->]; repeat split).
    assert (Hr : r = pass_gen dg fixed o s) by reflexivity.
    assert (Hdep := covered_deployable o Hcov).
    (* history clause and new invariant *)
    assert (Hhist : od_okb (good_after dg v o) (st_w (r_st r)) = true).
    { apply od_okb_ok. unfold good_after. rewrite Hsp, <- Hdep.
      apply (reconcile_od_ok dg fixed (v_good v) o s). now apply od_okb_ok. }
    split; [|split; [|exact Hhist]].
    2:{ unfold consistent, view_after, norm_obs, obs_of. cbn. split; [|split; [reflexivity|split; [reflexivity|]]].
        - rewrite Hsp. unfold r, pass0.
          (* the spec is never written by a pass *)
          apply (reconcile_inv dg fixed o (fun w' => p_spec (w_pkg w) = p_spec (w_pkg w')) (w_pkg w)); auto.
          + intros b w' H. unfold eff_pause. now destruct (w_od w').
          + intros _ w' H. unfold eff_update. now destruct (w_od w').
        - (* what the scenario knows to be processed is what the status says *)
          intros x. unfold done_after. cbn.
          destruct (r_err r) eqn:Ee; [discriminate|].
          pose proof (pass_hash_ok dg fixed o s Ee) as Hph. unfold stored_pkg, pass_gen in Hph. cbn in Hph.
          unfold r, pass0. fold s. rewrite Hph. rewrite Hsp.
          destruct (s_paused (p_spec (w_pkg w))); [apply Hdone|].
          destruct (hash_eqb (v_done v) (p_spec (w_pkg w))) eqn:Ed.
          + intros Hx. specialize (Hdone x Hx). rewrite Hx in Ed. cbn in Ed. apply spec_eqb_eq in Ed. subst x.
            rewrite Hdone. cbn. now rewrite spec_eqb_refl.
          + destruct (hash_eqb (p_hash (w_pkg w)) (p_spec (w_pkg w))) eqn:Ehh.
            * destruct (o_pull o); [|apply Hdone]. intros Hx. injection Hx as <-.
              unfold hash_eqb in Ehh. destruct (p_hash (w_pkg w)) as [y|]; [|discriminate].
              apply spec_eqb_eq in Ehh. now subst y.
            * destruct (o_pull o); [tauto|apply Hdone]. }
    (* a pass over a non-deployable package changes nothing *)
    assert (Hsame : all_ok o = false -> od_changed (v_od v) (ob_od (norm_obs (obs_of r))) = false).
    { intros Hno. rewrite <- Hdep in Hno. destruct (not_deployable_no_deploy dg fixed o s Hno) as (l & _ & _ & Ht).
      unfold od_changed, norm_obs, obs_of. cbn. rewrite Hod. fold s. unfold tmpl_of.
      unfold od_tmpl, pass_gen in Ht. unfold r, pass0. fold s. rewrite Ht. now rewrite option_tmpl_eqb_refl. }
    assert (Hall : forall b, b = false -> all_ok o = true -> b = true -> False) by (intros; congruence).
    unfold verdict_all, mon_pass. cbn [m_pull m_load m_cons m_cfg m_valid m_unch m_tmpl m_hist m_sync].
    rewrite !andb_true_iff. repeat split.
    - (* pull *)
      destruct (o_pull o) eqn:Ep; [reflexivity|]. cbn [negb implb].
      rewrite Hsame by (unfold all_ok, stages_ok; now rewrite Ep). cbn [negb andb].
      destruct (negb (s_paused (v_spec v)) && negb (hash_eqb (v_hash v) (v_spec v)) && (negb (ob_err (norm_obs (obs_of r))) || negb armed)) eqn:E; [|reflexivity].
      cbn [implb]. rewrite !andb_true_iff in E. destruct E as [[E1 E2] E3].
      assert (Hreach : reach (w_pkg w) = true) by (unfold reach; rewrite <- Hsp, <- Hh; now rewrite E1, E2).
      assert (E3' : r_err (pass_gen dg fixed o s) = false).
      { apply orb_true_iff in E3. destruct E3 as [E3|E3]; apply negb_true_iff in E3; [exact E3|].
        now apply nofault_pull_failure; [apply Hnf| |]. }
      clear E3. rename E3' into E3.
      destruct (pull_failure_condition dg fixed o s Hreach Ep E3) as (_ & Hc & _ & Hrq).
      cbn. unfold stored_pkg, pass_gen in Hc, Hrq. unfold r, pass0. fold s. rewrite Hrq, andb_true_r.
      now apply has_shows in Hc.
    - (* load *)
      destruct (o_load o) eqn:El; [reflexivity|]. cbn [negb implb].
      rewrite Hsame by (unfold all_ok, stages_ok; rewrite El; now destruct (o_pull o)). cbn [negb andb].
      destruct (negb (s_paused (v_spec v)) && negb (hash_eqb (v_hash v) (v_spec v)) && (negb (ob_err (norm_obs (obs_of r))) || negb armed) && o_pull o) eqn:E; [|reflexivity].
      cbn [implb]. rewrite !andb_true_iff in E. destruct E as [[[E1 E2] E3] E4].
      assert (Hreach : reach (w_pkg w) = true) by (unfold reach; rewrite <- Hsp, <- Hh; now rewrite E1, E2).
      assert (E3' : r_err (pass_gen dg fixed o s) = false).
      { apply orb_true_iff in E3. destruct E3 as [E3|E3]; apply negb_true_iff in E3; [exact E3|].
        now apply nofault_load_failure; [apply Hnf| | |]. }
      clear E3. rename E3' into E3.
      destruct (load_failure_condition dg fixed o s Hreach E4 El E3) as (_ & Hc & _).
      cbn. unfold stored_pkg, pass_gen in Hc. unfold r, pass0. fold s. now apply has_shows in Hc.
    - (* constraints *)
      destruct (unmet o) eqn:Eu; [|reflexivity]. cbn [implb].
      rewrite Hsame by (unfold all_ok; rewrite Eu; now rewrite andb_false_r). cbn [negb andb].
      destruct (negb (s_paused (v_spec v)) && negb (hash_eqb (v_hash v) (v_spec v)) && (negb (ob_err (norm_obs (obs_of r))) || negb armed && negb (cons_err o)) && o_pull o && o_load o) eqn:E; [|reflexivity].
      cbn [implb]. rewrite !andb_true_iff in E. destruct E as [[[[E1 E2] E3] E4] E5].
      assert (Hreach : reach (w_pkg w) = true) by (unfold reach; rewrite <- Hsp, <- Hh; now rewrite E1, E2).
      destruct Hcov as [Hfx|Hfx]; [|congruence].
      assert (E3' : r_err (pass_gen dg true o s) = false).
      { apply orb_true_iff in E3. destruct E3 as [E3|E3]; [apply negb_true_iff in E3; cbn in E3; now rewrite <- Hfx|].
        apply andb_true_iff in E3. destruct E3 as [Ea Ec]. apply negb_true_iff in Ea, Ec.
        now apply nofault_unmet; [apply Hnf| | | | |]. }
      clear E3. rename E3' into E3.
      destruct (constraints_failure_condition dg o s Hreach E4 E5 Eu E3) as (_ & Hc & _).
      cbn. unfold stored_pkg, pass_gen in Hc. unfold r, pass0. fold s. rewrite Hfx. now apply has_shows in Hc.
    - (* config *)
      destruct (config_ok o) eqn:Ec; [reflexivity|]. cbn [negb implb].
      rewrite Hsame; [reflexivity|]. unfold all_ok, stages_ok. rewrite Ec.
      now destruct (o_pull o), (o_load o), (cons_err o).
    - (* validation *)
      destruct (cons_err o || negb (o_images o) || negb (o_render o)) eqn:Ev; [|reflexivity]. cbn [implb].
      rewrite Hsame; [reflexivity|]. unfold all_ok, stages_ok.
      destruct (cons_err o), (o_images o), (o_render o); cbn in Ev; try discriminate;
        now destruct (o_pull o), (o_load o), (config_ok o).
    - (* unchanged *)
      destruct (hash_eqb (v_hash v) (v_spec v) || hash_eqb (v_done v) (v_spec v)) eqn:Eh; [|reflexivity]. cbn [implb].
      assert (Hh' : hash_eqb (p_hash (w_pkg (st_w s))) (p_spec (w_pkg (st_w s))) = true).
      { cbn. apply orb_true_iff in Eh. destruct Eh as [Eh|Eh]; [now rewrite <- Hsp, <- Hh|].
        unfold hash_eqb in Eh. destruct (v_done v) as [x|] eqn:Ex; [|discriminate].
        rewrite (Hdone x eq_refl). cbn. now rewrite <- Hsp. }
      destruct (unchanged_no_pull dg fixed o s Hh') as (l & Hl & Hb & Ht).
      apply andb_true_iff. split.
      + unfold norm_obs, obs_of. cbn [ob_events]. rewrite none_of_norm. unfold new_events, pass_gen in Hl. cbn in Hl. unfold r, pass0. fold s. rewrite Hl.
        revert Hb. apply none_of_weaken. intros e He. unfold busy. unfold pull_or_deploy in He.
        apply orb_true_iff in He. destruct He as [He|He]; rewrite He; [now rewrite orb_true_r|now rewrite !orb_true_r].
      + unfold od_changed, norm_obs, obs_of. cbn. rewrite Hod. unfold tmpl_of.
        unfold od_tmpl, pass_gen in Ht. cbn in Ht. unfold r, pass0. fold s. rewrite Ht. now rewrite option_tmpl_eqb_refl.
    - (* template *)
      destruct (negb (s_paused (v_spec v)) && negb (hash_eqb (v_hash v) (v_spec v)) && negb (ob_err (norm_obs (obs_of r))) && all_ok o) eqn:E; [|reflexivity].
      cbn [implb]. rewrite !andb_true_iff in E. destruct E as [[[E1 E2] E3] E4].
      assert (Hreach : reach (w_pkg w) = true) by (unfold reach; rewrite <- Hsp, <- Hh; now rewrite E1, E2).
      apply negb_true_iff in E3. cbn in E3. rewrite <- Hdep in E4.
      destruct (changed_template dg fixed o s Hreach E4 E3) as (Ht & _).
      cbn. unfold od_tmpl, pass_gen in Ht. unfold tmpl_of, r, pass0. fold s. rewrite Ht. cbn. rewrite Hsp.
      apply N.eqb_refl.
    - (* history *)
      unfold od_okb, od_tmpl in Hhist. unfold tmpl_okb, tmpl_of. cbn. exact Hhist.
    - (* hash and template move together *)
      pose proof (hash_moves dg fixed o s) as Hm. cbn zeta in Hm. unfold stored_pkg, pass_gen in Hm. cbn [st_w s] in Hm.
      unfold norm_obs, obs_of. cbn [ob_hash ob_od]. fold s. unfold r, pass0. fold s.
      destruct Hm as [Hm|(Hm & _ & Ht)].
      + rewrite Hm, Hh. now rewrite option_spec_eqb_refl.
      + rewrite Hm. destruct (negb (option_eqb spec_eqb (Some (p_spec (w_pkg w))) (v_hash v))); [|reflexivity].
        cbn [implb hash_eqb]. rewrite Hsp, spec_eqb_refl. cbn [andb].
        destruct (all_ok o) eqn:Ea; [|reflexivity]. cbn [implb].
        unfold od_tmpl in Ht. unfold tmpl_of. rewrite (Ht Hdep). cbn. apply N.eqb_refl.
  Qed.

  Variable scoped : bool.
  Variable ps : peers.

  (** passes on which the model at hand judges the package as the property does *)
  Fixpoint all_covered (steps : list step) : Prop :=
    match steps with
    | [] => True
    | SPass o :: r => (covered (seen true ps o) /\ seen scoped ps o = seen true ps o) /\ all_covered r
    | _ :: r => all_covered r
    end.

  Lemma verdict_all_and a b : verdict_all a = true -> verdict_all b = true -> verdict_all (verdict_and a b) = true.
  Proof.
    unfold verdict_all, verdict_and. cbn. rewrite !andb_true_iff. intuition.
  Qed.

  (** no pass touches the peers *)
  Lemma pass0_peers o w f d : w_peers (st_w (r_st (pass0 o w f d))) = w_peers w.
  Proof.
    unfold pass0. symmetry.
    apply (reconcile_inv dg fixed o (fun w' => w_peers w = w_peers w') (w_pkg w)); auto.
    - intros b w' H. unfold eff_pause. now destruct (w_od w').
    - intros _ w' H. unfold eff_update. now destruct (w_od w').
  Qed.

  Lemma mon_sound steps : forall w f d v armed,
    all_covered steps -> w_peers w = ps -> consistent v w -> od_okb (v_good v) w = true ->
    (armed = false -> f = [] /\ d = []) ->
    verdict_all (mon dg true ps v armed steps (map norm_obs (run dg fixed scoped steps w f d))) = true.
  Proof.
    induction steps as [|x steps IH]; intros w f d v armed Hcov Hps Hcons Hgood Harm; cbn; [reflexivity|].
    destruct x as [sp|n k|n|o].
    - apply IH; [exact Hcov| | | |exact Harm].
      + unfold edit. now destruct (spec_eqb sp (p_spec (w_pkg w))).
      + destruct Hcons as (Hsp & Hh & Hod & Hdone). unfold consistent, edit. cbn.
        destruct (spec_eqb sp (p_spec (w_pkg w))) eqn:E; cbn; [apply spec_eqb_eq in E; subst sp|]; repeat split; assumption.
      + cbn. unfold od_okb, od_tmpl, edit in *. now destruct (spec_eqb sp (p_spec (w_pkg w))).
    - apply IH; try assumption. discriminate.
    - apply IH; try assumption. discriminate.
    - destruct Hcov as [[Hc Hal] Hcov]. cbn.
      change (do_pass dg fixed scoped o w f d) with (pass0 (seen scoped (w_peers w) o) w f d).
      rewrite Hps, Hal.
      destruct (mon_pass_sound (seen true ps o) w f d v armed Hc Hcons Hgood Harm) as (H1 & H2 & H3).
      apply verdict_all_and; [exact H1|]. apply IH; try assumption; [now rewrite pass0_peers|now split].
  Qed.
End Sound.

(** With the List restricted to the labelled (Cluster)Packages of the scope the model satisfies the
    monitor on every history: spec edits, API faults, third-party writes, passes with arbitrary stage
    outcomes, any peers. *)
Theorem monitor_sound_scoped sc t sp ps steps :
  verdict_all (monitor (sc, t, sp, ps, steps, model_obs_scoped t sp ps steps)) = true.
Proof.
  unfold monitor, model_obs_scoped, model_obs_gen. apply mon_sound.
  - induction steps as [|[| | |o] steps IH]; cbn; auto. split; [split; [now left|reflexivity]|assumption].
  - reflexivity.
  - repeat split. discriminate.
  - reflexivity.
  - now split.
Qed.

(** the Package carries the label and every other (Cluster)Package that exists carries it in the same scope *)
Definition plain (ps : peers) : bool := self_labelled ps && (n_elsewhere ps =? 0) && (n_unrelated ps =? 0).

(** no pass of the history has a uniqueInScope constraint *)
Fixpoint no_unique (steps : list step) : bool :=
  match steps with
  | [] => true
  | SPass o :: r => negb (is_some (o_unique o)) && no_unique r
  | _ :: r => no_unique r
  end.

(** The code as it is (every (Cluster)Package is listed) satisfies the monitor on every history
    without uniqueInScope constraint, and on every history among plain peers. *)
Theorem monitor_sound_partial sc t sp ps steps :
  plain ps = true \/ no_unique steps = true ->
  verdict_all (monitor (sc, t, sp, ps, steps, model_obs t sp ps steps)) = true.
Proof.
  intros Hpl. unfold monitor, model_obs, model_obs_gen. apply mon_sound.
  - induction steps as [|[| | |o] steps IH]; cbn in *; auto.
    + split; [split; [now left|]|].
      * destruct Hpl as [Hpl|Hnu].
        -- unfold plain in Hpl. rewrite !andb_true_iff, !N.eqb_eq in Hpl. destruct Hpl as [[H1 H2] H3].
           unfold seen, listed. rewrite H1, H2, H3. destruct (o_unique o); [|reflexivity]. replace (1 + n_same ps + 0 + 0) with (1 + n_same ps) by lia. reflexivity.
        -- apply andb_true_iff in Hnu. destruct Hnu as [Hn _]. unfold seen. destruct (o_unique o); [discriminate|reflexivity].
      * apply IH. destruct Hpl as [Hpl|Hnu]; [now left|right]. apply andb_true_iff in Hnu. tauto.
  - reflexivity.
  - repeat split. discriminate.
  - reflexivity.
  - now split.
Qed.

(** The witness of the defect fixed by cb58cda: the monitor rejects what the old Deploy did. *)
Definition wit_case_v0 : case :=
  (false, [(1, 0, 0, 7)], wit_spec, no_peers, [SPass wit_oracle],
   model_obs_v0 [(1, 0, 0, 7)] wit_spec no_peers [SPass wit_oracle]).

Lemma wit_case_v0_judged :
  agree wit_case_v0 = false /\ m_cons (monitor wit_case_v0) = false /\ m_hist (monitor wit_case_v0) = false.
Proof. vm_compute. repeat split. Qed.

(** The witnesses of the unscoped List (F-C16b): the monitor rejects what the code as it is does
    with a unique package next to a stranger (not rolled out), and with an unlabelled one (rolled out). *)
Definition wit_case_stranger : case :=
  (false, [(1, 0, 0, 7)], wit_spec, one_stranger, [SPass uniq_oracle],
   model_obs [(1, 0, 0, 7)] wit_spec one_stranger [SPass uniq_oracle]).
Definition wit_case_unlabelled : case :=
  (false, [(1, 0, 0, 7)], wit_spec, unlabelled, [SPass uniq_oracle],
   model_obs [(1, 0, 0, 7)] wit_spec unlabelled [SPass uniq_oracle]).

Lemma wit_case_unscoped_judged :
  agree wit_case_stranger = true /\ m_tmpl (monitor wit_case_stranger) = false /\
  agree wit_case_unlabelled = true /\ m_valid (monitor wit_case_unlabelled) = false.
Proof. vm_compute. repeat split. Qed.
