(** Correspondence and monitor for C16 (only valid, admissible packages roll out; unchanged
    packages are left alone). *)
From Coq Require Import List NArith Bool Lia.
From PKO Require Import Util Package PackageProofs.
Import ListNotations.
Local Open Scope N_scope.

(** ** Scenario and observation *)

(** The digest function of a scenario: a table from (image, config, component) to the digest of the
    reference render of that spec (taken by the harness with the real renderer); 0 = no render. *)
Definition dtable := list (N * N * N * N).

Fixpoint digest_of (t : dtable) (i c k : N) : N :=
  match t with
  | [] => 0
  | (i', c', k', d) :: r => if (i =? i') && (c =? c') && (k =? k') then d else digest_of r i c k
  end.

(** A case: which List validateUnique uses in the implementation under test (decided by the driver
    from a witness scenario; only [agree] uses it), the digest table, the initial Package spec, the
    other (Cluster)Packages of the cluster, the steps with the stage outcomes the scenario was built
    to produce, and what the implementation did in every pass.  The same for both flavours: a
    ClusterPackage scenario has no peers in other namespaces. *)
Definition case := (bool * dtable * spec * peers * list step * list obs)%type.

(** The request log of the implementation does not tell the controller's pause propagation from
    the deployment reconciler's update: both are "update ObjectDeployment". *)
Definition norm_ev (e : ev) : ev :=
  match e with EReq KPauseOD r => EReq KUpdateOD r | _ => e end.

Definition norm_obs (b : obs) : obs :=
  {| ob_events := map norm_ev (ob_events b); ob_err := ob_err b; ob_requeue := ob_requeue b;
     ob_hash := ob_hash b; ob_conds := ob_conds b; ob_od := ob_od b; ob_pulls := ob_pulls b |}.

Definition rkind_eqb (a b : rkind) : bool :=
  match a, b with
  | KGetPkg, KGetPkg | KGetOD, KGetOD | KPauseOD, KPauseOD | KListPkg, KListPkg | KCreateOD, KCreateOD
  | KUpdateOD, KUpdateOD | KListSet, KListSet | KListSlice, KListSlice | KStatus, KStatus => true
  | _, _ => false
  end.

Definition rout_eqb (a b : rout) : bool :=
  match a, b with OOk, OOk | ONotFound, ONotFound | OConflict, OConflict | OFault, OFault => true | _, _ => false end.

Definition ev_eqb (a b : ev) : bool :=
  match a, b with
  | EPull i, EPull j => i =? j
  | EDeploy, EDeploy => true
  | EReq k r, EReq k' r' => rkind_eqb k k' && rout_eqb r r'
  | _, _ => false
  end.

Definition cond_eqb (a b : cond) : bool :=
  ctype_eqb (c_type a) (c_type b) && Bool.eqb (c_status a) (c_status b)
  && creason_eqb (c_reason a) (c_reason b) && (c_gen a =? c_gen b).

Definition od_eqb (a b : od) : bool :=
  tmpl_eqb (d_tmpl a) (d_tmpl b) && Bool.eqb (d_paused a) (d_paused b) && (d_gen a =? d_gen b).

Definition obs_eqb (a b : obs) : bool :=
  list_eqb ev_eqb (ob_events a) (ob_events b) && Bool.eqb (ob_err a) (ob_err b)
  && Bool.eqb (ob_requeue a) (ob_requeue b) && option_eqb spec_eqb (ob_hash a) (ob_hash b)
  && list_eqb cond_eqb (ob_conds a) (ob_conds b) && option_eqb od_eqb (ob_od a) (ob_od b)
  && (ob_pulls a =? ob_pulls b).

Definition model_obs_gen (fixed scoped : bool) (t : dtable) (sp : spec) (ps : peers) (steps : list step) : list obs :=
  map norm_obs (run (digest_of t) fixed scoped steps (init_world sp ps) [] []).
(** the code as it is: validateUnique lists every (Cluster)Package *)
Definition model_obs := model_obs_gen true false.
(** validateUnique lists the labelled (Cluster)Packages of the scope *)
Definition model_obs_scoped := model_obs_gen true true.
(** the code before cb58cda *)
Definition model_obs_v0 := model_obs_gen false false.

(** Model and implementation made the same requests with the same outcomes, pulled and entered
    Deploy at the same points, and left the same Package status and ObjectDeployment, pass by pass. *)
Definition agree (c : case) : bool :=
  let '(scoped, t, sp, ps, steps, obss) := c in list_eqb obs_eqb (model_obs_gen true scoped t sp ps steps) obss.

(** ** The monitor: the property on the implementation's observations only *)

(** what the monitor remembers between passes: the current spec (from the scenario's edits), the
    last persisted unpackedHash and the last stored ObjectDeployment (from the observations), and
    the digests of the specs seen at a pass with a valid and admissible package *)
Record view := { v_spec : spec; v_hash : option spec; v_od : option od; v_good : list N;
                 v_done : option spec (* the spec the scenario knows to have been processed last:
                                         by an error-free, unpaused pass whose pull succeeded *) }.

Definition tmpl_of (x : option od) : option tmpl := option_map d_tmpl x.

(** the ObjectDeployment was created, deleted, or its template changed (spec.paused is C09's business) *)
Definition od_changed (a b : option od) : bool := negb (option_eqb tmpl_eqb (tmpl_of a) (tmpl_of b)).

(** condition [t] is present with status [b] *)
Definition shows (t : ctype) (b : bool) (l : list cond) : bool :=
  match find_cond t l with Some c => Bool.eqb (c_status c) b | None => false end.

Definition pull_or_deploy (e : ev) : bool := is_pull e || is_deploy e.

Definition tmpl_okb (G : list N) (x : option od) : bool :=
  match tmpl_of x with Some (Some d) => existsb (N.eqb d) G | _ => true end.

(** the clauses of C16, one boolean each *)
Record verdict := {
  m_pull : bool;   (* pull failure: no deployment change; Unpacked=False persisted, requeue *)
  m_load : bool;   (* load failure: no deployment change; Invalid=True persisted *)
  m_cons : bool;   (* unmet constraint: no deployment change; Invalid=True persisted *)
  m_cfg : bool;    (* configuration rejected by the schema: no deployment change *)
  m_valid : bool;  (* structural / object validation failure, unusable constraint or image reference: no deployment change *)
  m_unch : bool;   (* spec hash = unpackedHash: no pull, no Deploy, no deployment change *)
  m_tmpl : bool;   (* new spec, valid and admissible, error-free pass: template = fresh render of the spec *)
  m_hist : bool;   (* the stored template is empty or the render of a spec that was valid and admissible *)
  m_sync : bool;   (* status.unpackedHash only ever moves to the hash of the current spec, and when it does
                      for a valid and admissible package the stored template is the render of that spec *)
}.

Definition verdict_and (a b : verdict) : verdict :=
  {| m_pull := m_pull a && m_pull b; m_load := m_load a && m_load b; m_cons := m_cons a && m_cons b;
     m_cfg := m_cfg a && m_cfg b; m_valid := m_valid a && m_valid b; m_unch := m_unch a && m_unch b;
     m_tmpl := m_tmpl a && m_tmpl b; m_hist := m_hist a && m_hist b; m_sync := m_sync a && m_sync b |}.

Definition verdict_true : verdict :=
  {| m_pull := true; m_load := true; m_cons := true; m_cfg := true; m_valid := true; m_unch := true;
     m_tmpl := true; m_hist := true; m_sync := true |}.

Definition verdict_all (a : verdict) : bool :=
  m_pull a && m_load a && m_cons a && m_cfg a && m_valid a && m_unch a && m_tmpl a && m_hist a && m_sync a.

Definition good_after (dg : N -> N -> N -> N) (v : view) (o : oracle) : list N :=
  v_good v ++ (if all_ok o then [spec_digest dg (v_spec v)] else []).

(** [armed]: the scenario injects an API fault or a third-party write into this pass.  A condition has to be persisted by
    every error-free pass, and a pass without injected fault has to be error free as far as pull
    failures, load failures and unmet constraints are concerned. *)
Definition mon_pass (dg : N -> N -> N -> N) (v : view) (o : oracle) (armed : bool) (b : obs) : verdict :=
  let sp := v_spec v in
  let same := negb (od_changed (v_od v) (ob_od b)) in
  let reached := negb (s_paused sp) && negb (hash_eqb (v_hash v) sp) in
  let clean := negb (ob_err b) in
  let settled := clean || negb armed in
  {| m_pull := implb (negb (o_pull o))
                 (same && implb (reached && settled) (shows CUnpacked false (ob_conds b) && ob_requeue b));
     m_load := implb (negb (o_load o))
                 (same && implb (reached && settled && o_pull o) (shows CInvalid true (ob_conds b)));
     m_cons := implb (unmet o)
                 (same && implb (reached && (clean || negb armed && negb (cons_err o)) && o_pull o && o_load o)
                                (shows CInvalid true (ob_conds b)));
     m_cfg := implb (negb (config_ok o)) same;
     m_valid := implb (cons_err o || negb (o_images o) || negb (o_render o)) same;
     m_unch := implb (hash_eqb (v_hash v) sp || hash_eqb (v_done v) sp)
                     (none_of pull_or_deploy (ob_events b) && same);
     m_tmpl := implb (reached && clean && all_ok o)
                 (option_eqb tmpl_eqb (tmpl_of (ob_od b)) (Some (Some (spec_digest dg sp))));
     m_hist := tmpl_okb (good_after dg v o) (ob_od b);
     m_sync := implb (negb (option_eqb spec_eqb (ob_hash b) (v_hash v)))
                 (hash_eqb (ob_hash b) sp &&
                  implb (all_ok o) (option_eqb tmpl_eqb (tmpl_of (ob_od b)) (Some (Some (spec_digest dg sp))))) |}.

Definition done_after (v : view) (o : oracle) (b : obs) : option spec :=
  if ob_err b then None                      (* an error pass may or may not have persisted its status *)
  else if s_paused (v_spec v) then v_done v
  else if hash_eqb (v_done v) (v_spec v) then v_done v
  else if o_pull o then Some (v_spec v) else v_done v.

Definition view_after (dg : N -> N -> N -> N) (v : view) (o : oracle) (b : obs) : view :=
  {| v_spec := v_spec v; v_hash := ob_hash b; v_od := ob_od b; v_good := good_after dg v o;
     v_done := done_after v o b |}.

(** The oracle the property is judged by: stage outcomes of the scenario, uniqueness among the
    labelled (Cluster)Packages of the scope ([sem = true], i.e. [seen true]).  [sem = false] judges
    uniqueness the way the code as it is does; the driver uses it only to tell whether a verdict is
    due to nothing but that difference. *)
Fixpoint mon (dg : N -> N -> N -> N) (sem : bool) (ps : peers) (v : view) (armed : bool) (steps : list step) (obss : list obs) : verdict :=
  match steps with
  | [] => verdict_true
  | SEdit sp :: r =>
      mon dg sem ps {| v_spec := sp; v_hash := v_hash v; v_od := v_od v; v_good := v_good v; v_done := v_done v |} armed r obss
  | SFault _ _ :: r => mon dg sem ps v true r obss
  | SDisturb _ :: r => mon dg sem ps v true r obss
  | SPass o :: r =>
      match obss with
      | [] => verdict_true   (* a missing observation is a correspondence failure, not a property violation *)
      | b :: bs => verdict_and (mon_pass dg v (seen sem ps o) armed b)
                               (mon dg sem ps (view_after dg v (seen sem ps o) b) false r bs)
      end
  end.

Definition init_view (sp : spec) : view :=
  {| v_spec := sp; v_hash := None; v_od := None; v_good := []; v_done := None |}.

Definition monitor (c : case) : verdict :=
  let '(_, t, sp, ps, steps, obss) := c in mon (digest_of t) true ps (init_view sp) false steps obss.

(** the verdict if uniqueness were judged over every (Cluster)Package *)
Definition monitor_unscoped (c : case) : verdict :=
  let '(_, t, sp, ps, steps, obss) := c in mon (digest_of t) false ps (init_view sp) false steps obss.

Definition judge (c : case) : bool * (bool * bool * bool * bool * bool * bool * bool * bool * bool) * bool :=
  let m := monitor c in
  (agree c, (m_pull m, m_load m, m_cons m, m_cfg m, m_valid m, m_unch m, m_tmpl m, m_hist m, m_sync m),
   verdict_all (monitor_unscoped c)).

(** ** Soundness of the monitor for the models *)

Lemma option_tmpl_eqb_refl (x : option tmpl) : option_eqb tmpl_eqb x x = true.
Proof. destruct x as [[d|]|]; cbn; [apply N.eqb_refl|reflexivity|reflexivity]. Qed.

Lemma has_shows t b r l : has_cond t b r l = true -> shows t b l = true.
Proof. unfold has_cond, shows. destruct (find_cond t l); [|discriminate]. now rewrite andb_true_iff. Qed.

Lemma none_of_norm l : none_of pull_or_deploy (map norm_ev l) = none_of pull_or_deploy l.
Proof.
  unfold none_of. induction l as [|e l IH]; cbn; [reflexivity|]. rewrite IH. f_equal.
  destruct e as [| |k r]; try reflexivity. now destruct k.
Qed.

Lemma none_of_weaken (f g : ev -> bool) l : (forall e, g e = true -> f e = true) -> none_of f l = true -> none_of g l = true.
Proof.
  intros H. unfold none_of. rewrite !forallb_forall. intros Hf e Hin. specialize (Hf e Hin).
  destruct (g e) eqn:E; [|reflexivity]. now rewrite (H e E) in Hf.
Qed.

(** the monitor's view describes the model's stored objects *)
Definition consistent (v : view) (w : world) : Prop :=
  v_spec v = p_spec (w_pkg w) /\ v_hash v = p_hash (w_pkg w) /\ v_od v = w_od w /\
  (forall sp, v_done v = Some sp -> p_hash (w_pkg w) = Some sp).

Section Sound.
  Variable dg : N -> N -> N -> N.
  Variable fixed : bool.

  (** oracle outcomes on which the model at hand blocks what the property wants blocked *)
  Definition covered (o : oracle) : Prop := fixed = true \/ unmet o = false.

  Lemma covered_deployable o : covered o -> deployable fixed o = all_ok o.
  Proof.
    intros [->|H]; [reflexivity|]. unfold deployable, all_ok. rewrite H. destruct fixed; [reflexivity|].
    now rewrite andb_true_r.
  Qed.

  (** one pass with the oracle as the controller sees it *)
  Definition pass0 (o : oracle) (w : world) (f : list rstat) (d : list bool) : result :=
    reconcile dg fixed o {| st_w := w; st_f := f; st_d := d; st_dirty := false; st_log := [] |}.

  Lemma option_spec_eqb_refl (x : option spec) : option_eqb spec_eqb x x = true.
  Proof. destruct x; cbn; [apply spec_eqb_refl|reflexivity]. Qed.

  Lemma mon_pass_sound o w f d v armed :
    covered o -> consistent v w -> od_okb (v_good v) w = true -> (armed = false -> f = [] /\ d = []) ->
    let r := pass0 o w f d in
    verdict_all (mon_pass dg v o armed (norm_obs (obs_of r))) = true /\
    consistent (view_after dg v o (norm_obs (obs_of r))) (st_w (r_st r)) /\
    od_okb (good_after dg v o) (st_w (r_st r)) = true.
  Proof.
    intros Hcov (Hsp & Hh & Hod & Hdone) Hgood Harm r.
    set (s := {| st_w := w; st_f := f; st_d := d; st_dirty := false; st_log := [] |}).
    assert (Hnf : armed = false -> calm s) by (intros Ha; destruct (Harm Ha) as [-> ->]; repeat split).
    assert (Hr : r = pass_gen dg fixed o s) by reflexivity.
    assert (Hdep := covered_deployable o Hcov).
    (* history clause and new invariant *)
    assert (Hhist : od_okb (good_after dg v o) (st_w (r_st r)) = true).
    { apply od_okb_ok. unfold good_after. rewrite Hsp, <- Hdep.
      apply (reconcile_od_ok dg fixed (v_good v) o s). now apply od_okb_ok. }
    split; [|split; [|exact Hhist]].
    2:{ unfold consistent, view_after, norm_obs, obs_of. cbn. split; [|split; [reflexivity|split; [reflexivity|]]].
        - rewrite Hsp. unfold r, pass0.
          (* the spec is never written by a pass *)
          apply (reconcile_inv dg fixed o (fun w' => p_spec (w_pkg w) = p_spec (w_pkg w')) (w_pkg w)); auto.
          + intros b w' H. unfold eff_pause. now destruct (w_od w').
          + intros _ w' H. unfold eff_update. now destruct (w_od w').
        - (* what the scenario knows to be processed is what the status says *)
          intros x. unfold done_after. cbn.
          destruct (r_err r) eqn:Ee; [discriminate|].
          pose proof (pass_hash_ok dg fixed o s Ee) as Hph. unfold stored_pkg, pass_gen in Hph. cbn in Hph.
          unfold r, pass0. fold s. rewrite Hph. rewrite Hsp.
          destruct (s_paused (p_spec (w_pkg w))); [apply Hdone|].
          destruct (hash_eqb (v_done v) (p_spec (w_pkg w))) eqn:Ed.
          + intros Hx. specialize (Hdone x Hx). rewrite Hx in Ed. cbn in Ed. apply spec_eqb_eq in Ed. subst x.
            rewrite Hdone. cbn. now rewrite spec_eqb_refl.
          + destruct (hash_eqb (p_hash (w_pkg w)) (p_spec (w_pkg w))) eqn:Ehh.
            * destruct (o_pull o); [|apply Hdone]. intros Hx. injection Hx as <-.
              unfold hash_eqb in Ehh. destruct (p_hash (w_pkg w)) as [y|]; [|discriminate].
              apply spec_eqb_eq in Ehh. now subst y.
            * destruct (o_pull o); [tauto|apply Hdone]. }
    (* a pass over a non-deployable package changes nothing *)
    assert (Hsame : all_ok o = false -> od_changed (v_od v) (ob_od (norm_obs (obs_of r))) = false).
    { intros Hno. rewrite <- Hdep in Hno. destruct (not_deployable_no_deploy dg fixed o s Hno) as (l & _ & _ & Ht).
      unfold od_changed, norm_obs, obs_of. cbn. rewrite Hod. fold s. unfold tmpl_of.
      unfold od_tmpl, pass_gen in Ht. unfold r, pass0. fold s. rewrite Ht. now rewrite option_tmpl_eqb_refl. }
    assert (Hall : forall b, b = false -> all_ok o = true -> b = true -> False) by (intros; congruence).
    unfold verdict_all, mon_pass. cbn [m_pull m_load m_cons m_cfg m_valid m_unch m_tmpl m_hist m_sync].
    rewrite !andb_true_iff. repeat split.
    - (* pull *)
      destruct (o_pull o) eqn:Ep; [reflexivity|]. cbn [negb implb].
      rewrite Hsame by (unfold all_ok, stages_ok; now rewrite Ep). cbn [negb andb].
      destruct (negb (s_paused (v_spec v)) && negb (hash_eqb (v_hash v) (v_spec v)) && (negb (ob_err (norm_obs (obs_of r))) || negb armed)) eqn:E; [|reflexivity].
      cbn [implb]. rewrite !andb_true_iff in E. destruct E as [[E1 E2] E3].
      assert (Hreach : reach (w_pkg w) = true) by (unfold reach; rewrite <- Hsp, <- Hh; now rewrite E1, E2).
      assert (E3' : r_err (pass_gen dg fixed o s) = false).
      { apply orb_true_iff in E3. destruct E3 as [E3|E3]; apply negb_true_iff in E3; [exact E3|].
        now apply nofault_pull_failure; [apply Hnf| |]. }
      clear E3. rename E3' into E3.
      destruct (pull_failure_condition dg fixed o s Hreach Ep E3) as (_ & Hc & _ & Hrq).
      cbn. unfold stored_pkg, pass_gen in Hc, Hrq. unfold r, pass0. fold s. rewrite Hrq, andb_true_r.
      now apply has_shows in Hc.
    - (* load *)
      destruct (o_load o) eqn:El; [reflexivity|]. cbn [negb implb].
      rewrite Hsame by (unfold all_ok, stages_ok; rewrite El; now destruct (o_pull o)). cbn [negb andb].
      destruct (negb (s_paused (v_spec v)) && negb (hash_eqb (v_hash v) (v_spec v)) && (negb (ob_err (norm_obs (obs_of r))) || negb armed) && o_pull o) eqn:E; [|reflexivity].
      cbn [implb]. rewrite !andb_true_iff in E. destruct E as [[[E1 E2] E3] E4].
      assert (Hreach : reach (w_pkg w) = true) by (unfold reach; rewrite <- Hsp, <- Hh; now rewrite E1, E2).
      assert (E3' : r_err (pass_gen dg fixed o s) = false).
      { apply orb_true_iff in E3. destruct E3 as [E3|E3]; apply negb_true_iff in E3; [exact E3|].
        now apply nofault_load_failure; [apply Hnf| | |]. }
      clear E3. rename E3' into E3.
      destruct (load_failure_condition dg fixed o s Hreach E4 El E3) as (_ & Hc & _).
      cbn. unfold stored_pkg, pass_gen in Hc. unfold r, pass0. fold s. now apply has_shows in Hc.
    - (* constraints *)
      destruct (unmet o) eqn:Eu; [|reflexivity]. cbn [implb].
      rewrite Hsame by (unfold all_ok; rewrite Eu; now rewrite andb_false_r). cbn [negb andb].
      destruct (negb (s_paused (v_spec v)) && negb (hash_eqb (v_hash v) (v_spec v)) && (negb (ob_err (norm_obs (obs_of r))) || negb armed && negb (cons_err o)) && o_pull o && o_load o) eqn:E; [|reflexivity].
      cbn [implb]. rewrite !andb_true_iff in E. destruct E as [[[[E1 E2] E3] E4] E5].
      assert (Hreach : reach (w_pkg w) = true) by (unfold reach; rewrite <- Hsp, <- Hh; now rewrite E1, E2).
      destruct Hcov as [Hfx|Hfx]; [|congruence].
      assert (E3' : r_err (pass_gen dg true o s) = false).
      { apply orb_true_iff in E3. destruct E3 as [E3|E3]; [apply negb_true_iff in E3; cbn in E3; now rewrite <- Hfx|].
        apply andb_true_iff in E3. destruct E3 as [Ea Ec]. apply negb_true_iff in Ea, Ec.
        now apply nofault_unmet; [apply Hnf| | | | |]. }
      clear E3. rename E3' into E3.
      destruct (constraints_failure_condition dg o s Hreach E4 E5 Eu E3) as (_ & Hc & _).
      cbn. unfold stored_pkg, pass_gen in Hc. unfold r, pass0. fold s. rewrite Hfx. now apply has_shows in Hc.
    - (* config *)
      destruct (config_ok o) eqn:Ec; [reflexivity|]. cbn [negb implb].
      rewrite Hsame; [reflexivity|]. unfold all_ok, stages_ok. rewrite Ec.
      now destruct (o_pull o), (o_load o), (cons_err o).
    - (* validation *)
      destruct (cons_err o || negb (o_images o) || negb (o_render o)) eqn:Ev; [|reflexivity]. cbn [implb].
      rewrite Hsame; [reflexivity|]. unfold all_ok, stages_ok.
      destruct (cons_err o), (o_images o), (o_render o); cbn in Ev; try discriminate;
        now destruct (o_pull o), (o_load o), (config_ok o).
    - (* unchanged *)
      destruct (hash_eqb (v_hash v) (v_spec v) || hash_eqb (v_done v) (v_spec v)) eqn:Eh; [|reflexivity]. cbn [implb].
      assert (Hh' : hash_eqb (p_hash (w_pkg (st_w s))) (p_spec (w_pkg (st_w s))) = true).
      { cbn. apply orb_true_iff in Eh. destruct Eh as [Eh|Eh]; [now rewrite <- Hsp, <- Hh|].
        unfold hash_eqb in Eh. destruct (v_done v) as [x|] eqn:Ex; [|discriminate].
        rewrite (Hdone x eq_refl). cbn. now rewrite <- Hsp. }
      destruct (unchanged_no_pull dg fixed o s Hh') as (l & Hl & Hb & Ht).
      apply andb_true_iff. split.
      + unfold norm_obs, obs_of. cbn [ob_events]. rewrite none_of_norm. unfold new_events, pass_gen in Hl. cbn in Hl. unfold r, pass0. fold s. rewrite Hl.
        revert Hb. apply none_of_weaken. intros e He. unfold busy. unfold pull_or_deploy in He.
        apply orb_true_iff in He. destruct He as [He|He]; rewrite He; [now rewrite orb_true_r|now rewrite !orb_true_r].
      + unfold od_changed, norm_obs, obs_of. cbn. rewrite Hod. unfold tmpl_of.
        unfold od_tmpl, pass_gen in Ht. cbn in Ht. unfold r, pass0. fold s. rewrite Ht. now rewrite option_tmpl_eqb_refl.
    - (* template *)
      destruct (negb (s_paused (v_spec v)) && negb (hash_eqb (v_hash v) (v_spec v)) && negb (ob_err (norm_obs (obs_of r))) && all_ok o) eqn:E; [|reflexivity].
      cbn [implb]. rewrite !andb_true_iff in E. destruct E as [[[E1 E2] E3] E4].
      assert (Hreach : reach (w_pkg w) = true) by (unfold reach; rewrite <- Hsp, <- Hh; now rewrite E1, E2).
      apply negb_true_iff in E3. cbn in E3. rewrite <- Hdep in E4.
      destruct (changed_template dg fixed o s Hreach E4 E3) as (Ht & _).
      cbn. unfold od_tmpl, pass_gen in Ht. unfold tmpl_of, r, pass0. fold s. rewrite Ht. cbn. rewrite Hsp.
      apply N.eqb_refl.
    - (* history *)
      unfold od_okb, od_tmpl in Hhist. unfold tmpl_okb, tmpl_of. cbn. exact Hhist.
    - (* hash and template move together *)
      pose proof (hash_moves dg fixed o s) as Hm. cbn zeta in Hm. unfold stored_pkg, pass_gen in Hm. cbn [st_w s] in Hm.
      unfold norm_obs, obs_of. cbn [ob_hash ob_od]. fold s. unfold r, pass0. fold s.
      destruct Hm as [Hm|(Hm & _ & Ht)].
      + rewrite Hm, Hh. now rewrite option_spec_eqb_refl.
      + rewrite Hm. destruct (negb (option_eqb spec_eqb (Some (p_spec (w_pkg w))) (v_hash v))); [|reflexivity].
        cbn [implb hash_eqb]. rewrite Hsp, spec_eqb_refl. cbn [andb].
        destruct (all_ok o) eqn:Ea; [|reflexivity]. cbn [implb].
        unfold od_tmpl in Ht. unfold tmpl_of. rewrite (Ht Hdep). cbn. apply N.eqb_refl.
  Qed.

  Variable scoped : bool.
  Variable ps : peers.

  (** passes on which the model at hand judges the package as the property does *)
  Fixpoint all_covered (steps : list step) : Prop :=
    match steps with
    | [] => True
    | SPass o :: r => (covered (seen true ps o) /\ seen scoped ps o = seen true ps o) /\ all_covered r
    | _ :: r => all_covered r
    end.

  Lemma verdict_all_and a b : verdict_all a = true -> verdict_all b = true -> verdict_all (verdict_and a b) = true.
  Proof.
    unfold verdict_all, verdict_and. cbn. rewrite !andb_true_iff. intuition.
  Qed.

  (** no pass touches the peers *)
  Lemma pass0_peers o w f d : w_peers (st_w (r_st (pass0 o w f d))) = w_peers w.
  Proof.
    unfold pass0. symmetry.
    apply (reconcile_inv dg fixed o (fun w' => w_peers w = w_peers w') (w_pkg w)); auto.
    - intros b w' H. unfold eff_pause. now destruct (w_od w').
    - intros _ w' H. unfold eff_update. now destruct (w_od w').
  Qed.

  Lemma mon_sound steps : forall w f d v armed,
    all_covered steps -> w_peers w = ps -> consistent v w -> od_okb (v_good v) w = true ->
    (armed = false -> f = [] /\ d = []) ->
    verdict_all (mon dg true ps v armed steps (map norm_obs (run dg fixed scoped steps w f d))) = true.
  Proof.
    induction steps as [|x steps IH]; intros w f d v armed Hcov Hps Hcons Hgood Harm; cbn; [reflexivity|].
    destruct x as [sp|n k|n|o].
    - apply IH; [exact Hcov| | | |exact Harm].
      + unfold edit. now destruct (spec_eqb sp (p_spec (w_pkg w))).
      + destruct Hcons as (Hsp & Hh & Hod & Hdone). unfold consistent, edit. cbn.
        destruct (spec_eqb sp (p_spec (w_pkg w))) eqn:E; cbn; [apply spec_eqb_eq in E; subst sp|]; repeat split; assumption.
      + cbn. unfold od_okb, od_tmpl, edit in *. now destruct (spec_eqb sp (p_spec (w_pkg w))).
    - apply IH; try assumption. discriminate.
    - apply IH; try assumption. discriminate.
    - destruct Hcov as [[Hc Hal] Hcov]. cbn.
      change (do_pass dg fixed scoped o w f d) with (pass0 (seen scoped (w_peers w) o) w f d).
      rewrite Hps, Hal.
      destruct (mon_pass_sound (seen true ps o) w f d v armed Hc Hcons Hgood Harm) as (H1 & H2 & H3).
      apply verdict_all_and; [exact H1|]. apply IH; try assumption; [now rewrite pass0_peers|now split].
  Qed.
End Sound.

(** With the List restricted to the labelled (Cluster)Packages of the scope the model satisfies the
    monitor on every history: spec edits, API faults, third-party writes, passes with arbitrary stage
    outcomes, any peers. *)
Theorem monitor_sound_scoped sc t sp ps steps :
  verdict_all (monitor (sc, t, sp, ps, steps, model_obs_scoped t sp ps steps)) = true.
Proof.
  unfold monitor, model_obs_scoped, model_obs_gen. apply mon_sound.
  - induction steps as [|[| | |o] steps IH]; cbn; auto. split; [split; [now left|reflexivity]|assumption].
  - reflexivity.
  - repeat split. discriminate.
  - reflexivity.
  - now split.
Qed.

(** the Package carries the label and every other (Cluster)Package that exists carries it in the same scope *)
Definition plain (ps : peers) : bool := self_labelled ps && (n_elsewhere ps =? 0) && (n_unrelated ps =? 0).

(** no pass of the history has a uniqueInScope constraint *)
Fixpoint no_unique (steps : list step) : bool :=
  match steps with
  | [] => true
  | SPass o :: r => negb (is_some (o_unique o)) && no_unique r
  | _ :: r => no_unique r
  end.

(** The code as it is (every (Cluster)Package is listed) satisfies the monitor on every history
    without uniqueInScope constraint, and on every history among plain peers. *)
Theorem monitor_sound_partial sc t sp ps steps :
  plain ps = true \/ no_unique steps = true ->
  verdict_all (monitor (sc, t, sp, ps, steps, model_obs t sp ps steps)) = true.
Proof.
  intros Hpl. unfold monitor, model_obs, model_obs_gen. apply mon_sound.
  - induction steps as [|[| | |o] steps IH]; cbn in *; auto.
    + split; [split; [now left|]|].
      * destruct Hpl as [Hpl|Hnu].
        -- unfold plain in Hpl. rewrite !andb_true_iff, !N.eqb_eq in Hpl. destruct Hpl as [[H1 H2] H3].
           unfold seen, listed. rewrite H1, H2, H3. destruct (o_unique o); [|reflexivity]. replace (1 + n_same ps + 0 + 0) with (1 + n_same ps) by lia. reflexivity.
        -- apply andb_true_iff in Hnu. destruct Hnu as [Hn _]. unfold seen. destruct (o_unique o); [discriminate|reflexivity].
      * apply IH. destruct Hpl as [Hpl|Hnu]; [now left|right]. apply andb_true_iff in Hnu. tauto.
  - reflexivity.
  - repeat split. discriminate.
  - reflexivity.
  - now split.
Qed.

(** The witness of the defect fixed by cb58cda: the monitor rejects what the old Deploy did. *)
Definition wit_case_v0 : case :=
  (false, [(1, 0, 0, 7)], wit_spec, no_peers, [SPass wit_oracle],
   model_obs_v0 [(1, 0, 0, 7)] wit_spec no_peers [SPass wit_oracle]).

Lemma wit_case_v0_judged :
  agree wit_case_v0 = false /\ m_cons (monitor wit_case_v0) = false /\ m_hist (monitor wit_case_v0) = false.
Proof. vm_compute. repeat split. Qed.

(** The witnesses of the unscoped List (F-C16b): the monitor rejects what the code as it is does
    with a unique package next to a stranger (not rolled out), and with an unlabelled one (rolled out). *)
Definition wit_case_stranger : case :=
  (false, [(1, 0, 0, 7)], wit_spec, one_stranger, [SPass uniq_oracle],
   model_obs [(1, 0, 0, 7)] wit_spec one_stranger [SPass uniq_oracle]).
Definition wit_case_unlabelled : case :=
  (false, [(1, 0, 0, 7)], wit_spec, unlabelled, [SPass uniq_oracle],
   model_obs [(1, 0, 0, 7)] wit_spec unlabelled [SPass uniq_oracle]).

Lemma wit_case_unscoped_judged :
  agree wit_case_stranger = true /\ m_tmpl (monitor wit_case_stranger) = false /\
  agree wit_case_unlabelled = true /\ m_valid (monitor wit_case_unlabelled) = false.
Proof. vm_compute. repeat split. Qed.

(** ** Quiescence: the template fits the current spec (m_fit) *)

(** What is remembered between passes for this clause: current spec, last persisted unpackedHash,
    last stored ObjectDeployment, whether the scenario disturbs the next pass, and [f_ab]: a failed
    pass has written the ObjectDeployment without moving unpackedHash (the stored template belongs
    to an aborted spec) and the hash has not moved since. *)
Record fview := { f_spec : spec; f_hash : option spec; f_od : option od; f_armed : bool; f_ab : bool }.

(** A pass the scenario does not disturb, that ends without error, for an unpaused, valid and
    admissible package: afterwards the stored template is the render of the current spec -
    whether the pass had anything to do or not. *)
Definition fit_pass (dg : N -> N -> N -> N) (v : fview) (o : oracle) (b : obs) : bool :=
  implb (negb (f_armed v) && negb (ob_err b) && negb (s_paused (f_spec v)) && all_ok o)
        (option_eqb tmpl_eqb (tmpl_of (ob_od b)) (Some (Some (spec_digest dg (f_spec v))))).

Definition fview_after (v : fview) (b : obs) : fview :=
  {| f_spec := f_spec v; f_hash := ob_hash b; f_od := ob_od b; f_armed := false;
     f_ab := if option_eqb spec_eqb (ob_hash b) (f_hash v)
             then f_ab v || (ob_err b && od_changed (f_od v) (ob_od b))
             else false |}.

Definition fview_edit (v : fview) (sp : spec) : fview :=
  {| f_spec := sp; f_hash := f_hash v; f_od := f_od v; f_armed := f_armed v; f_ab := f_ab v |}.
Definition fview_arm (v : fview) : fview :=
  {| f_spec := f_spec v; f_hash := f_hash v; f_od := f_od v; f_armed := true; f_ab := f_ab v |}.

Fixpoint mon_fit (dg : N -> N -> N -> N) (sem : bool) (ps : peers) (v : fview) (steps : list step) (obss : list obs) : bool :=
  match steps with
  | [] => true
  | SEdit sp :: r => mon_fit dg sem ps (fview_edit v sp) r obss
  | SFault _ _ :: r | SDisturb _ :: r => mon_fit dg sem ps (fview_arm v) r obss
  | SPass o :: r =>
      match obss with
      | [] => true
      | b :: bs => fit_pass dg v (seen sem ps o) b && mon_fit dg sem ps (fview_after v b) r bs
      end
  end.

(** The pattern behind F-C16c, on the scenario and the observations: a failed pass wrote the
    ObjectDeployment (template changed) without moving status.unpackedHash, the hash has not moved
    since, and now the spec is edited to the very spec whose hash is stored - the next pass will
    take the "already unpacked" short cut over a template that belongs to the aborted spec. *)
Fixpoint revert_hit (v : fview) (steps : list step) (obss : list obs) : bool :=
  match steps with
  | [] => false
  | SEdit sp :: r => (f_ab v && hash_eqb (f_hash v) sp) || revert_hit (fview_edit v sp) r obss
  | SFault _ _ :: r | SDisturb _ :: r => revert_hit (fview_arm v) r obss
  | SPass _ :: r =>
      match obss with
      | [] => false
      | b :: bs => revert_hit (fview_after v b) r bs
      end
  end.

Definition init_fview (sp : spec) : fview :=
  {| f_spec := sp; f_hash := None; f_od := None; f_armed := false; f_ab := false |}.

Definition fit (c : case) : bool :=
  let '(_, t, sp, ps, steps, obss) := c in mon_fit (digest_of t) true ps (init_fview sp) steps obss.
(** m_fit if uniqueness were judged over every (Cluster)Package (see [monitor_unscoped]) *)
Definition fit_unscoped (c : case) : bool :=
  let '(_, t, sp, ps, steps, obss) := c in mon_fit (digest_of t) false ps (init_fview sp) steps obss.
Definition reverted (c : case) : bool :=
  let '(_, _, sp, _, steps, obss) := c in revert_hit (init_fview sp) steps obss.

(** agree, the clauses, the verdict under the implementation's notion of uniqueness, m_fit, the
    F-C16c pattern *)
Definition judge2 (c : case) :=
  (judge c, fit c, fit_unscoped c, reverted c).

(** every pass is over a valid package without uniqueInScope constraint whose constraints are met
    (the pull may fail) *)
Definition content_ok (o : oracle) : bool :=
  o_load o && o_range_ok o && is_nil (o_unmet o) && negb (is_some (o_unique o)) && config_ok o
  && o_images o && o_render o.
Fixpoint valid_only (steps : list step) : bool :=
  match steps with
  | [] => true
  | SPass o :: r => content_ok o && valid_only r
  | _ :: r => valid_only r
  end.

Lemma content_ok_seen sc ps o : content_ok o = true -> seen sc ps o = o.
Proof.
  unfold content_ok. rewrite !andb_true_iff. intros [[[[[[_ _] _] Hu] _] _] _].
  unfold seen. destruct (o_unique o); [discriminate|reflexivity].
Qed.

Lemma content_ok_all o : content_ok o = true -> all_ok o = o_pull o.
Proof.
  unfold content_ok. rewrite !andb_true_iff. intros [[[[[[Hl Hr] Hm] Hu] Hc] Hi] Hre].
  unfold all_ok, stages_ok, cons_err, unmet, unique_err, unique_unmet.
  destruct (o_unique o); [discriminate|]. rewrite Hl, Hr, Hm, Hc, Hi, Hre. cbn. now rewrite !andb_true_r.
Qed.

Section Fit.
  Variable dg : N -> N -> N -> N.

  Notation pass1 := (pass0 dg true).

  Lemma pass1_spec o w f d : p_spec (w_pkg (st_w (r_st (pass1 o w f d)))) = p_spec (w_pkg w).
  Proof.
    unfold pass0. symmetry.
    apply (reconcile_inv dg true o (fun w' => p_spec (w_pkg w) = p_spec (w_pkg w')) (w_pkg w)); auto.
    - intros b w' H. unfold eff_pause. now destruct (w_od w').
    - intros _ w' H. unfold eff_update. now destruct (w_od w').
  Qed.

  (** an error-free pass that leaves unpackedHash alone leaves the template alone *)
  Lemma clean_same_hash_same_tmpl o w f d :
    let r := pass1 o w f d in
    r_err r = false -> p_hash (w_pkg (st_w (r_st r))) = p_hash (w_pkg w) -> od_tmpl (st_w (r_st r)) = od_tmpl w.
  Proof.
    intros r He Hh. unfold r, pass0 in *.
    set (s := {| st_w := w; st_f := f; st_d := d; st_dirty := false; st_log := [] |}) in *.
    destruct (reconcile_ok dg true o s He) as [[Hw _] _]. rewrite Hw in *. cbn [st_w s] in *.
    assert (Hps : od_tmpl (pause_sync w) = od_tmpl w).
    { unfold pause_sync. destruct (Bool.eqb _ _); [reflexivity|]. apply same_od_pause. }
    unfold ok_world, ok_unpack, ok_deploy, ok_rest, deployed in *.
    destruct (s_paused (p_spec (w_pkg w))); [exact Hps|].
    destruct (hash_eqb (p_hash (w_pkg w)) (p_spec (w_pkg w))) eqn:Eh; [exact Hps|].
    destruct (o_pull o); cbn [negb] in *; [|exact Hps].
    exfalso.
    assert (Hnew : p_hash (w_pkg w) = Some (p_spec (w_pkg w))).
    { rewrite <- Hh. destruct (o_load o); cbn [negb]; [|reflexivity].
      destruct (true && negb (is_nil (msgs_of o))); cbn; unfold note_msgs; now destruct (is_nil (msgs_of o)). }
    rewrite Hnew in Eh. cbn in Eh. now rewrite spec_eqb_refl in Eh.
  Qed.

  Variable scoped : bool.
  Variable ps : peers.

  Definition fconsistent (v : fview) (w : world) (f : list rstat) (d : list bool) : Prop :=
    f_spec v = p_spec (w_pkg w) /\ f_hash v = p_hash (w_pkg w) /\ f_od v = w_od w /\
    (f_armed v = false -> f = [] /\ d = []) /\
    (* as long as no aborted write is pending the template is the render of the spec behind unpackedHash *)
    (f_ab v = false -> forall h, p_hash (w_pkg w) = Some h -> od_tmpl w = Some (Some (spec_digest dg h))) /\
    (f_ab v = true -> hash_eqb (p_hash (w_pkg w)) (p_spec (w_pkg w)) = false).

  Lemma hash_eqb_true h sp : hash_eqb h sp = true -> h = Some sp.
  Proof. unfold hash_eqb. destruct h; [|discriminate]. intros H. apply spec_eqb_eq in H. now subst. Qed.

  Lemma option_spec_eqb_eq (a b : option spec) : option_eqb spec_eqb a b = true <-> a = b.
  Proof. apply option_eqb_spec. apply spec_eqb_eq. Qed.

  Lemma fit_sound steps : forall w f d v,
    valid_only steps = true -> w_peers w = ps -> fconsistent v w f d ->
    revert_hit v steps (map norm_obs (run dg true scoped steps w f d)) = false ->
    mon_fit dg true ps v steps (map norm_obs (run dg true scoped steps w f d)) = true.
  Proof.
    induction steps as [|x steps IH]; intros w f d v Hval Hps Hc Hrv; cbn; [reflexivity|].
    destruct Hc as (Hsp & Hh & Hod & Harm & Hfit & Hab).
    destruct x as [sp|n k|n|o]; cbn in Hrv, Hval.
    - (* edit *)
      apply orb_false_iff in Hrv. destruct Hrv as [Hno Hrv]. apply IH; try assumption.
      + unfold edit. now destruct (spec_eqb sp (p_spec (w_pkg w))).
      + unfold fconsistent, fview_edit, edit. cbn.
        destruct (spec_eqb sp (p_spec (w_pkg w))) eqn:E; cbn.
        * apply spec_eqb_eq in E. subst sp. repeat split; auto; now apply Harm.
        * repeat split; auto; try (now apply Harm). intros Ha. rewrite Ha in Hno. cbn in Hno. now rewrite <- Hh.
    - apply IH; try assumption. unfold fconsistent, fview_arm. cbn. repeat split; auto; discriminate.
    - apply IH; try assumption. unfold fconsistent, fview_arm. cbn. repeat split; auto; discriminate.
    - (* pass *)
      apply andb_true_iff in Hval. destruct Hval as [Hco Hval].
      change (do_pass dg true scoped o w f d) with (pass1 (seen scoped (w_peers w) o) w f d) in *.
      rewrite (content_ok_seen scoped _ o Hco) in *. rewrite (content_ok_seen true ps o Hco).
      set (r := pass1 o w f d) in *.
      set (s := {| st_w := w; st_f := f; st_d := d; st_dirty := false; st_log := [] |}).
      assert (Hr : r = pass_gen dg true o s) by reflexivity.
      assert (Hspec := pass1_spec o w f d). fold r in Hspec.
      pose proof (hash_moves dg true o s) as Hm. cbn zeta in Hm. unfold stored_pkg in Hm. rewrite <- Hr in Hm. cbn [st_w s] in Hm.
      apply andb_true_iff. split.
      + (* the clause *)
        unfold fit_pass, norm_obs, obs_of. cbn [ob_err ob_od].
        destruct (negb (f_armed v) && negb (r_err r) && negb (s_paused (f_spec v)) && all_ok o) eqn:E; [|reflexivity].
        cbn [implb]. rewrite !andb_true_iff in E. destruct E as [[[E1 E2] E3] E4].
        apply negb_true_iff in E1, E2, E3. rewrite Hsp in E3.
        unfold tmpl_of. change (option_map d_tmpl (w_od (st_w (r_st r)))) with (od_tmpl (st_w (r_st r))).
        destruct (hash_eqb (p_hash (w_pkg w)) (p_spec (w_pkg w))) eqn:Eh.
        * (* short cut: nothing pending, so the template already fits *)
          destruct (f_ab v) eqn:Ea; [discriminate (Hab eq_refl)|].
          destruct (unchanged_no_pull dg true o s Eh) as (_ & _ & _ & Ht). rewrite <- Hr in Ht. cbn [st_w s] in Ht.
          rewrite Ht, (Hfit eq_refl _ (hash_eqb_true _ _ Eh)), Hsp. cbn. apply N.eqb_refl.
        * assert (Hreach : reach (w_pkg (st_w s)) = true) by (unfold reach; cbn; now rewrite E3, Eh).
          destruct (changed_template dg true o s Hreach E4 E2) as (Ht & _). rewrite <- Hr in Ht. cbn [st_w s] in Ht.
          rewrite Ht, Hsp. cbn. apply N.eqb_refl.
      + (* the rest of the history *)
        apply IH; try assumption.
        * unfold r. now rewrite pass0_peers.
        * unfold fconsistent, fview_after, norm_obs, obs_of. cbn.
          split; [now rewrite Hspec|]. split; [reflexivity|]. split; [reflexivity|]. split; [now split|].
          rewrite Hh, Hod.
          destruct (option_eqb spec_eqb (p_hash (w_pkg (st_w (r_st r)))) (p_hash (w_pkg w))) eqn:Eeq.
          -- (* unpackedHash did not move *)
             apply option_spec_eqb_eq in Eeq. rewrite Eeq, Hspec.
             assert (Hsame : r_err r && od_changed (w_od w) (w_od (st_w (r_st r))) = false ->
                             od_tmpl (st_w (r_st r)) = od_tmpl w).
             { intros Hf. apply andb_false_iff in Hf. destruct Hf as [Hf|Hf].
               - now apply clean_same_hash_same_tmpl.
               - unfold od_changed in Hf. apply negb_false_iff in Hf.
                 apply (option_eqb_spec tmpl_eqb tmpl_eqb_eq) in Hf. unfold tmpl_of in Hf. unfold od_tmpl. now rewrite Hf. }
             split.
             ++ intros Hf. apply orb_false_iff in Hf. destruct Hf as [Ha Hf]. rewrite (Hsame Hf). now apply Hfit.
             ++ intros Hf. apply orb_true_iff in Hf. destruct Hf as [Ha|Hf]; [now apply Hab|].
                destruct (hash_eqb (p_hash (w_pkg w)) (p_spec (w_pkg w))) eqn:Eh; [|reflexivity]. exfalso.
                destruct (unchanged_no_pull dg true o s Eh) as (_ & _ & _ & Ht). rewrite <- Hr in Ht. cbn [st_w s] in Ht.
                apply andb_true_iff in Hf. destruct Hf as [_ Hf]. unfold od_changed in Hf. apply negb_true_iff in Hf.
                unfold od_tmpl in Ht. unfold tmpl_of in Hf. rewrite Ht in Hf. now rewrite option_tmpl_eqb_refl in Hf.
          -- (* unpackedHash moved: to the current spec, together with the template *)
             split; [|discriminate]. intros _ h Hhh.
             destruct Hm as [Hm|(Hm & Hpull & Ht)].
             ++ rewrite Hm in Eeq. now rewrite option_spec_eqb_refl in Eeq.
             ++ rewrite Hm in Hhh. injection Hhh as <-. apply Ht. unfold deployable. rewrite (content_ok_all o Hco). exact Hpull.
  Qed.
End Fit.

(** m_fit holds on every history of valid packages (pull failures, API faults, third-party writes,
    pausing and edits included) in which the F-C16c pattern does not occur - for either List. *)
Theorem fit_partial sc scoped t sp ps steps :
  valid_only steps = true ->
  reverted (sc, t, sp, ps, steps, model_obs_gen true scoped t sp ps steps) = false ->
  fit (sc, t, sp, ps, steps, model_obs_gen true scoped t sp ps steps) = true.
Proof.
  intros Hv Hr. unfold fit, reverted, model_obs_gen in *. apply fit_sound; try assumption.
  - reflexivity.
  - unfold fconsistent, init_fview, init_world. cbn. repeat split; try discriminate.
Qed.

(** ... and fails with it: the witness of F-C16c ([revert_steps] of PackageProofs.v). *)
Definition wit_case_revert : case :=
  (false, [(1, 0, 0, 2); (2, 0, 0, 3)], wit_spec, no_peers, revert_steps,
   model_obs [(1, 0, 0, 2); (2, 0, 0, 3)] wit_spec no_peers revert_steps).

Lemma wit_case_revert_judged :
  agree wit_case_revert = true /\ verdict_all (monitor wit_case_revert) = true /\
  fit wit_case_revert = false /\ reverted wit_case_revert = true.
Proof. vm_compute. repeat split. Qed.
