(** Soundness of the C02 monitor for the model. *)
From Coq Require Import List NArith ZArith Bool Lia.
From PKO Require Import Util Base BaseProofs Owner OwnerProofs Api ApiProofs Phase PhaseProofs AdoptionProofs AdoptProofs RevisionProofs.
From PKOCorr Require Import PhaseCorr C02Corr C05Sound C01Sound.
Import ListNotations.
Local Open Scope N_scope.

Section Sound.
  Variable c : pcase.
  Let s := flavor_strat (pc_flavor c).
  Let ow := pc_owner c.

  (** What every successful apply of the phase reconciler leaves, for any third party. *)
  Lemma apply_result_ok between w k rd p refs w' evs o :
    do_apply between w k rd (applied_for (pc_cfg c) ow p refs) = (w', evs, ROk o) ->
    refs_valid (o_owners o) = true /\ o_rev o = RevNum (ow_rev ow) /\
    (s = Annot -> o_aowners o = [ctrl_ref (ow_id ow)]).
  Proof.
    intros H. destruct (do_apply_events _ _ _ _ _ _ _ _ H) as (post & _ & Hp).
    destruct post as [x| |]; [|contradiction|destruct Hp; discriminate]. destruct Hp as [Hr Ha]. injection Hr as <-.
    destruct (api_apply_spec _ _ _ _ _ _ Ha) as (_ & Hv & Hc). split; [assumption|].
    destruct (lookup k (w_store (between w))).
    - destruct Hc as (_ & rv & ->). split; [reflexivity|]. intros Hs. cbn. unfold applied_for. cbn [pc_cfg c_flavor]. fold s. now rewrite Hs.
    - destruct Hc as (_ & ->). split; [reflexivity|]. intros Hs. cbn. unfold applied_for. cbn [pc_cfg c_flavor]. fold s. now rewrite Hs.
  Qed.

  Lemma one_controller o : refs_valid (o_owners o) = true -> (s = Annot -> o_aowners o = [ctrl_ref (ow_id ow)]) ->
    Nat.leb (length (filter r_ctrl (refs s o))) 1 = true.
  Proof. intros Hv Ha. destruct s eqn:Es; cbn [refs]; [exact Hv|]. now rewrite (Ha eq_refl). Qed.

  Lemma revann_eqb_refl r : revann_eqb r r = true.
  Proof. now apply revann_eqb_spec. Qed.

  Lemma rec_obj_c02 between w p w' evs r (quiet : bool) :
    (quiet = true -> between = idw) -> is_nil (pc_between c) = quiet ->
    reconcile_object (pc_cfg c) between w ow (pc_prev c) p = (w', evs, r) ->
    forallb (C02Corr.ev_okb c) evs = true.
  Proof.
    intros Hquiet Hnil. unfold reconcile_object. cbn [pc_cfg c_flavor c_force]. fold s. fold ow. fold (key_of ow p).
    destruct (set_controller_l s (ow_id ow) (k_ns (key_of ow p)) []) as [dref|]; [|intros H; injection H as _ <- _; reflexivity].
    destruct (ow_paused ow).
    { destruct (cache_get w (key_of ow p)); intros H; injection H as _ <- _; reflexivity. }
    rewrite cur_lookup.
    assert (Hbase : forall rd refs, do_apply between w (key_of ow p) rd (applied_for (pc_cfg c) ow p refs) = (w', evs, r) ->
              (match rd with Some r0 => is_controller s (ow_id ow) r0 = true | None => quiet = true -> api_get w (key_of ow p) = None end) ->
              forallb (C02Corr.ev_okb c) evs = true).
    { intros rd refs H Hrd. destruct (do_apply_events _ _ _ _ _ _ _ _ H) as (post & -> & Hp). cbn [forallb]. rewrite andb_true_r.
      unfold C02Corr.ev_okb. destruct post as [x| |]; [|reflexivity|reflexivity].
      destruct Hp as [-> _]. destruct (apply_result_ok _ _ _ _ _ _ _ _ _ H) as (Hv & Hrev & Ha).
      fold s. fold ow. rewrite Hv, (one_controller x Hv Ha), Hrev, revann_eqb_refl. cbn [andb].
      destruct rd as [r0|]; [now rewrite Hrd|].
      rewrite Hnil. destruct quiet; [|reflexivity]. cbn [negb orb].
      rewrite (Hquiet eq_refl). unfold idw. now rewrite (Hrd eq_refl). }
    destruct (lookup (key_of ow p) (w_store w)) as [cu|] eqn:El.
    2:{ intros H. apply (Hbase None _ H). intros _. exact El. }
    destruct (check_adoption s (pc_force c) ow cu (pc_prev c) (po_cp p)) eqn:Ec; try (intros H; injection H as _ <- _; reflexivity).
    - intros H. apply (Hbase (Some cu) _ H). now apply check_already_iff in Ec.
    - (* adoption *)
      destruct (adopt_rev_le _ _ _ _ _ _ Ec) as (r0 & Hr0 & Hle).
      assert (Hnc : is_controller s (ow_id ow) cu = false).
      { destruct (is_controller s (ow_id ow) cu) eqn:E; [|reflexivity]. apply (check_already_iff s (pc_force c) ow cu (pc_prev c) (po_cp p)) in E. congruence. }
      destruct (set_controller_l s (ow_id ow) (k_ns (key_of ow p)) (release_l (refs s cu))) as [l|] eqn:Esc; [|intros H; injection H as _ <- _; reflexivity].
      intros H. destruct (do_apply_events _ _ _ _ _ _ _ _ H) as (post & Hev & Hp). rewrite Hev. cbn [forallb]. rewrite andb_true_r.
      unfold C02Corr.ev_okb. destruct post as [x| |]; [|reflexivity|reflexivity].
      destruct Hp as [Hr _]. subst r. destruct (apply_result_ok _ _ _ _ _ _ _ _ _ H) as (Hv & Hrev & Ha).
      fold s. fold ow. rewrite Hv, (one_controller x Hv Ha), Hrev, revann_eqb_refl, Hnc. cbn [andb].
      unfold rev_le. rewrite Hr0. assert ((r0 <=? ow_rev ow)%Z = true) as -> by now apply Z.leb_le. cbn [andb].
      rewrite Hnil. destruct quiet; [|reflexivity]. cbn [negb orb].
      destruct (AdoptProofs.obj_wfb s (ow_id ow) cu) eqn:Hwf; [|reflexivity]. cbn [negb orb].
      apply AdoptProofs.obj_wfb_spec in Hwf. destruct Hwf as (Hnd & Hvalid & Hwf).
      rewrite (Hquiet eq_refl) in H. unfold do_apply, idw, api_get in H. rewrite El in H.
      destruct s eqn:Es.
      + (* native: the stored list is exactly what adoption computed *)
        unfold set_controller_l in Esc. destruct (negb (validate_owner (ow_id ow) (k_ns (key_of ow p)))); [discriminate|].
        cbn [refs] in Esc. rewrite find_ctrl_release in Esc. injection Esc as <-.
        destruct (adopt_controllers (ow_id ow) (o_owners cu) Hwf) as (Hone & Hdem & _).
        pose proof (merge_adopt_eq (ow_id ow) (o_owners cu) Hwf) as Hm. cbn zeta in Hm.
        assert (Hx : o_owners x = upsert_ref (fun y => same_gkn y (ow_id ow)) (ctrl_ref (ow_id ow)) (release_l (o_owners cu))).
        { unfold api_apply in H. rewrite El in H.
          match type of H with context [apply_to ?ap cu] => set (ap0 := ap) in * end.
          assert (Hoo : o_owners (apply_to ap0 cu) = upsert_ref (fun y => same_gkn y (ow_id ow)) (ctrl_ref (ow_id ow)) (release_l (o_owners cu))) by (cbn; exact Hm).
          destruct (negb (refs_valid (o_owners (apply_to ap0 cu)))); [discriminate|].
          destruct (obj_eqb (apply_to ap0 cu) cu) eqn:Eq.
          - apply obj_eqb_spec in Eq. injection H as _ _ <-. rewrite <- Eq at 1. exact Hoo.
          - injection H as _ _ <-. exact Hoo. }
        cbn [refs]. rewrite Hx, Hone.
        assert (list_eqb oref_eqb [ctrl_ref (ow_id ow)] [ctrl_ref (ow_id ow)] = true) as -> by (apply (list_eqb_spec oref_eqb oref_eqb_spec); reflexivity).
        cbn [andb]. apply forallb_forall. intros y Hy. destruct (same_gkn y (ow_id ow)) eqn:Eg; [reflexivity|]. cbn [orb].
        apply existsb_exists. exists (demote y). split; [now apply Hdem|now apply oref_eqb_spec].
      + cbn [refs]. rewrite (Ha eq_refl). cbn.
        assert (oref_eqb (ctrl_ref (ow_id ow)) (ctrl_ref (ow_id ow)) = true) as -> by now apply oref_eqb_spec. reflexivity.
  Qed.

  Lemma rec_objs_c02 between (quiet : bool) ps : forall w acc failed w' evs r,
    (quiet = true -> between = idw) -> is_nil (pc_between c) = quiet ->
    reconcile_objects (pc_cfg c) between w ow (pc_prev c) ps acc failed = (w', evs, r) ->
    forallb (C02Corr.ev_okb c) evs = true.
  Proof.
    induction ps as [|p ps IH]; intros w acc failed w' evs r Hq Hn H; cbn in H.
    - injection H as _ <- _. reflexivity.
    - destruct (reconcile_object (pc_cfg c) between w ow (pc_prev c) p) as [[w1 e1] r1] eqn:E1.
      pose proof (rec_obj_c02 _ _ _ _ _ _ _ Hq Hn E1) as H1.
      destruct r1 as [o| |x].
      + destruct (reconcile_objects _ between w1 ow (pc_prev c) ps _ _) as [[w2 e2] r2] eqn:E2. injection H as _ <- _.
        rewrite forallb_app, H1. cbn. eapply IH; eauto.
      + destruct (reconcile_objects _ between w1 ow (pc_prev c) ps _ _) as [[w2 e2] r2] eqn:E2. injection H as _ <- _.
        rewrite forallb_app, H1. cbn. eapply IH; eauto.
      + injection H as _ <- _. exact H1.
  Qed.
End Sound.

Theorem monitor_sound (c : pcase) : C02Corr.monitor (set_obs c (model_run c)) = true.
Proof.
  unfold C02Corr.monitor. destruct (model_run c) as [[w e] r] eqn:E.
  cbn [set_obs pc_teardown pc_events]. destruct (pc_teardown c) eqn:Ht; [reflexivity|]. cbn [orb].
  unfold model_run in E. rewrite Ht in E.
  destruct (reconcile_phase (pc_cfg c) (apply_envops (pc_between c)) (pc_world c) (pc_owner c) (pc_prev c) false (pc_objects c)) as [[w0 e0] r0] eqn:Er.
  assert (He : e = e0) by (destruct r0; injection E as _ <- _; reflexivity). subst e0.
  assert (Hgoal : forallb (C02Corr.ev_okb c) e = true).
  { unfold reconcile_phase in Er. destruct (flat_map _ (pc_objects c)); [|injection Er as _ <- _; reflexivity].
    eapply (rec_objs_c02 c _ (is_nil (pc_between c))); [|reflexivity|exact Er].
    intros Hq. now apply quiet_between. }
  (* the monitor only reads the scenario fields and the events *)
  assert (Hsame : forall x, C02Corr.ev_okb (set_obs c (w, e, r)) x = C02Corr.ev_okb c x)
    by (intros x; unfold C02Corr.ev_okb; destruct r; reflexivity).
  apply forallb_forall. intros x Hx. rewrite forallb_forall in Hgoal. specialize (Hgoal x Hx). rewrite <- Hsame in Hgoal. exact Hgoal.
Qed.
