(** Phase-level monitors for C09 and C11 (harness mode "phase"). *)
From Coq Require Import List NArith ZArith Bool.
From PKO Require Import Util Base Owner Api Phase.
From PKOCorr Require Import PhaseCorr.
Import ListNotations.
Local Open Scope N_scope.

Section Mon.
  Variable c : pcase.
  Let ow := pc_owner c.
  Let key (p : pobj) := desired_key ow p.

  (** C09: a paused phase owner sends no write; the members are unchanged (no third party). *)
  Definition m09p : bool :=
    pc_teardown c || negb (ow_paused ow) ||
    (is_nil (pc_events c) && (negb (is_nil (pc_between c)) || store_eqb (pc_store c) (pc_post c))).

  Definition violates (p : pobj) : bool := negb (is_nil (preflight_obj (pc_flavor c) ow false p)).

  Definition ns_bound : bool :=
    match pc_flavor c with FObjectSet | FSamePhase => negb (oi_ns (ow_id ow) =? 0) | _ => false end.

  (** C11: any violating object in the phase => no write at all during rollout; teardown never touches a
      violating object; namespaced owners stay in their namespace and on namespaced kinds. *)
  Definition m11p : bool :=
    (pc_teardown c || negb (existsb violates (pc_objects c)) ||
     (is_nil (pc_events c) && match pc_res c with OPreflight (_ :: _) => true | _ => false end)) &&
    (negb (pc_teardown c) ||
     forallb (fun e => negb (existsb (fun p => okey_eqb (key p) (ev_key e) && violates p) (pc_objects c)) ||
                       existsb (fun p => okey_eqb (key p) (ev_key e) && negb (violates p)) (pc_objects c)) (pc_events c)) &&
    (negb ns_bound ||
     forallb (fun e => (k_ns (ev_key e) =? oi_ns (ow_id ow)) &&
                       match gk_scope (k_gk (ev_key e)) with Some true => true | _ => false end) (pc_events c)).

  (** C11 under API faults: a rollout pass in which the dry run of some object was not accepted (the harness
      marks the object whose dry-run request failed as [po_dryreject]) sends no write at all. *)
  Definition m11f : bool :=
    pc_teardown c || negb (existsb violates (pc_objects c)) || is_nil (pc_events c).

  (** C04 at the phase level: TeardownPhase reports a phase as cleaned up only if, in the store after the
      call, every listed object is absent or no longer controlled by the owner (or excluded by the teardown
      preflight) - whatever third parties did between the read and the delete. *)
  Definition m04p : bool :=
    negb (pc_teardown c) ||
    match pc_res c with
    | OTd true =>
        forallb (fun p =>
          violates p ||
          match lookup (key p) (pc_post c) with
          | None => true
          | Some o => negb (is_controller (flavor_strat (pc_flavor c)) (ow_id ow) o)
          end) (pc_objects c)
    | _ => true
    end.
End Mon.

(** C09 "yet keeps probing them and reporting Available": where no third party acts and nothing is injected, a paused
    pass of the model ends with the objects the cache holds as actual objects and the missing ones as failed
    (props/C09.v C09_paused_still_probes, per object); the implementation's pass must then end the same way: same keys
    among the actual objects (what becomes status.controllerOf), same failed keys, and not in an error instead.
    Consults the (fault-free) model. *)
Definition m09r (c : pcase) : bool :=
  pc_teardown c || negb (ow_paused (pc_owner c)) || negb (is_nil (pc_between c)) ||
  match snd (model_run c), pc_res c with
  | OOk a f, OOk a' f' => list_eqb okey_eqb (map fst a) (map fst a') && list_eqb okey_eqb f f'
  | OOk _ _, _ => false
  | _, _ => true
  end.
Definition judge09p (c : pcase) : bool * bool := (agree c, m09p c && m09r c).
Definition judge11p (c : pcase) : bool * bool := (agree c, m11p c).
Definition judge11f (c : pcase) : bool * bool := (agree c, m11f c).
Definition judge04p (c : pcase) : bool * bool := (agree c, m04p c).
