(** Phase-level monitors for C09 and C11 (harness mode "phase"). *)
From Coq Require Import List NArith ZArith Bool.
From PKO Require Import Util Base Owner Api Phase.
From PKOCorr Require Import PhaseCorr.
Import ListNotations.
Local Open Scope N_scope.

Section Mon.
  Variable c : pcase.
  Let ow := pc_owner c.
  Let key (p : pobj) := desired_key ow p.

  (** C09: a paused phase owner sends no write; the members are unchanged (no third party). *)
  Definition m09p : bool :=
    pc_teardown c || negb (ow_paused ow) ||
    (is_nil (pc_events c) && (negb (is_nil (pc_between c)) || store_eqb (pc_store c) (pc_post c))).

  Definition violates (p : pobj) : bool := negb (is_nil (preflight_obj (pc_flavor c) ow false p)).

  Definition ns_bound : bool :=
    match pc_flavor c with FObjectSet | FSamePhase => negb (oi_ns (ow_id ow) =? 0) | _ => false end.

  (** C11: any violating object in the phase => no write at all during rollout; teardown never touches a
      violating object; namespaced owners stay in their namespace and on namespaced kinds. *)
  Definition m11p : bool :=
    (pc_teardown c || negb (existsb violates (pc_objects c)) ||
     (is_nil (pc_events c) && match pc_res c with OPreflight (_ :: _) => true | _ => false end)) &&
    (negb (pc_teardown c) ||
     forallb (fun e => negb (existsb (fun p => okey_eqb (key p) (ev_key e) && violates p) (pc_objects c)) ||
                       existsb (fun p => okey_eqb (key p) (ev_key e) && negb (violates p)) (pc_objects c)) (pc_events c)) &&
    (negb ns_bound ||
     forallb (fun e => (k_ns (ev_key e) =? oi_ns (ow_id ow)) &&
                       match gk_scope (k_gk (ev_key e)) with Some true => true | _ => false end) (pc_events c)).

  (** C04 at the phase level: TeardownPhase reports a phase as cleaned up only if, in the store after the
      call, every listed object is absent or no longer controlled by the owner (or excluded by the teardown
      preflight) - whatever third parties did between the read and the delete. *)
  Definition m04p : bool :=
    negb (pc_teardown c) ||
    match pc_res c with
    | OTd true =>
        forallb (fun p =>
          violates p ||
          match lookup (key p) (pc_post c) with
          | None => true
          | Some o => negb (is_controller (flavor_strat (pc_flavor c)) (ow_id ow) o)
          end) (pc_objects c)
    | _ => true
    end.
End Mon.

Definition judge09p (c : pcase) : bool * bool := (agree c, m09p c).
Definition judge11p (c : pcase) : bool * bool := (agree c, m11p c).
Definition judge04p (c : pcase) : bool * bool := (agree c, m04p c).
