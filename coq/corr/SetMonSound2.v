(** The controller-level monitors of coq/corr/SetMonitors.v accept every pass of the model
    ([m (set_obs_s c (model_run c)) = true]: no false alarm on an implementation that agrees with the model),
    continuing SetMonSound.v (m09). Where a monitor does NOT accept every pass of the model the refuting case
    is given ([..._refuted]) and the theorem carries the hypothesis that excludes it ([..._partial]). *)
From Coq Require Import List NArith ZArith Bool Lia.
From PKO Require Import Util Base BaseProofs Owner Api ApiProofs Phase PhaseProofs TeardownProofs PreflightProofs
     ObjectSet ObjectSetProofs SetMonLemmas.
From PKOCorr Require Import PhaseCorr SetCorr SetMonitors C05Sound C01Sound PhaseMonSound SetMonSound.
Import ListNotations.
Local Open Scope N_scope.

(** ** The observation fields of [set_obs_s] *)
Lemma target_model c res : target (set_obs_s c res) = find_set (sc_sets c) (sc_kind c) (sc_ns c) (sc_name c).
Proof. destruct res as [[sw e] r]. reflexivity. Qed.

Lemma is_activeb_false_going m : is_activeb m = true -> is_goingb m = false.
Proof.
  unfold is_activeb, is_goingb. rewrite !andb_true_iff, !negb_true_iff. intros [[H1 H2] H3]. now rewrite H1, H2, H3.
Qed.

(** ** m11r *)
Theorem m11r_sound (c : scase) : m11r (set_obs_s c (SetCorr.model_run c)) = true.
Proof.
  unfold m11r. rewrite target_model. destruct (SetCorr.model_run c) as [[sw e] r] eqn:E.
  destruct (find_set (sc_sets c) (sc_kind c) (sc_ns c) (sc_name c)) as [m|] eqn:Ef; [|reflexivity].
  destruct (is_activeb m) eqn:Ha; [|reflexivity]. cbn [negb orb].
  destruct (Z.eqb (os_revision m) 0) eqn:Hr; [reflexivity|]. cbn [orb].
  match goal with |- negb ?v || _ = true => destruct v eqn:Hv; [|reflexivity] end. cbn [negb orb].
  change (sc_res (set_obs_s c (sw, e, r))) with r.
  apply Z.eqb_neq in Hr. unfold SetCorr.model_run in E.
  exact (objectset_pass_violation (sc_force c) (sc_world c) _ _ _ m sw e r Ef (is_activeb_spec m Ha) Hr Hv E).
Qed.

(** ** Quantifying over the status requests / member requests of the observation *)
Lemma statuses_forall c (P : list cond * list okey * option N * bool -> bool) :
  (forall rv cs co rm fph ok, In (SMeta (MStatus rv cs co rm fph ok)) (sc_events c) -> P (cs, co, fph, ok) = true) ->
  forallb P (statuses c) = true.
Proof.
  intros H. apply forallb_forall. intros s Hs. unfold statuses in Hs. apply in_flat_map in Hs.
  destruct Hs as (e & He & Hin). destruct e as [x|[a o|rv cs co rm fph ok]|p]; try contradiction.
  destruct Hin as [<-|[]]. eapply H; eauto.
Qed.

Lemma members_in c x : In x (members c) <-> In (SMember x) (sc_events c).
Proof.
  unfold members. rewrite in_flat_map. split.
  - intros (e & He & Hin). destruct e as [y|m|p]; try contradiction. destruct Hin as [<-|[]]. exact He.
  - intros H. exists (SMember x). split; [exact H|now left].
Qed.

Lemma events_model c sw e r : sc_events (set_obs_s c (sw, e, r)) = e.
Proof. reflexivity. Qed.

(** ** m01 *)
Theorem m01_sound (c : scase) : m01 (set_obs_s c (SetCorr.model_run c)) = true.
Proof.
  unfold m01. rewrite target_model. destruct (SetCorr.model_run c) as [[sw e] r] eqn:E.
  destruct (find_set (sc_sets c) (sc_kind c) (sc_ns c) (sc_name c)) as [m|] eqn:Ef; [|reflexivity].
  apply statuses_forall. intros rv cs co rm fph ok Hin. rewrite events_model in Hin.
  destruct (find_cond cs CAvailable) as [cd|] eqn:Hcd; [|reflexivity].
  destruct (creason_eqb (cd_reason cd) RCollisionDetected) eqn:Hre; [|reflexivity]. cbn [negb orb].
  apply creason_eqb_spec in Hre. unfold SetCorr.model_run in E.
  destruct (collision_reported (sc_force c) (sc_world c) _ _ _ m sw e r rv cs co rm fph ok cd Ef E Hin Hcd Hre) as [Hs|[Hs Hg]].
  - rewrite Hs. cbn. now rewrite cond_eqb_refl'.
  - rewrite Hs, Hg, Z.eqb_refl. cbn. apply orb_true_r.
Qed.

(** ** Keys and phase indices as the monitors compute them *)
Lemma all_keys_eq m : all_keys m = flat_map (phase_keys (as_owner m)) (local_phases m).
Proof. reflexivity. Qed.

Lemma keys_nodup_iff m : SetMonitors.keys_nodup m = true <-> desired_keys_nodup m.
Proof.
  unfold SetMonitors.keys_nodup, desired_keys_nodup. rewrite all_keys_eq. split.
  - apply (nodupb_spec okey_eqb okey_eqb_spec).
  - apply (nodupb_complete okey_eqb okey_eqb_spec).
Qed.

Lemma existsb_okey k l : existsb (okey_eqb k) l = true <-> In k l.
Proof.
  rewrite existsb_exists. split.
  - intros (y & Hy & E). apply okey_eqb_spec in E. now subst y.
  - intros H. exists k. split; [exact H|apply okey_eqb_refl].
Qed.

(** with pairwise distinct keys, the first local phase naming a key is the only one *)
Lemma phase_index_found m phs k ph : forall i,
  NoDup (flat_map (pkeys m) phs) -> In ph phs -> In k (pkeys m ph) ->
  exists j, phase_index m phs k i = Some (i + j)%nat /\ nth_error phs j = Some ph.
Proof.
  induction phs as [|ph0 rest IH]; intros i Hnd Hin Hk; [contradiction|]. cbn [phase_index].
  cbn in Hnd. destruct (existsb (okey_eqb k) (pkeys m ph0)) eqn:E.
  - apply existsb_okey in E. destruct Hin as [<-|Hin]; [exists O; split; [f_equal; lia|reflexivity]|].
    exfalso. eapply NoDup_app_disj; [exact Hnd|exact E|]. apply in_flat_map. eauto.
  - destruct Hin as [<-|Hin]; [apply existsb_okey in Hk; congruence|].
    destruct (IH (S i) (NoDup_app_r _ _ Hnd) Hin Hk) as (j & Hj & Hn). exists (S j). split; [rewrite Hj; f_equal; lia|exact Hn].
Qed.

Lemma written_by_local m e : written_by (as_owner m) (os_phases m) e ->
  exists ph, In ph (locals m) /\ In (ev_key e) (pkeys m ph) /\
             (forall p, In p (ph_objects ph) -> preflight_obj FObjectSet (as_owner m) false p = []).
Proof.
  intros (ph & Hin & Hc & Hk & Hp). exists ph. split; [|split; [exact Hk|exact Hp]].
  unfold locals. apply filter_In. split; [exact Hin|]. now rewrite Hc.
Qed.

(** ** The three kinds of pass *)
Lemma target_kind m :
  (cond_true (os_conds m) CArchived = true /\ is_activeb m = false /\ is_goingb m = false) \/
  (is_goingb m = true /\ is_activeb m = false /\ is_going m) \/
  (is_activeb m = true /\ is_goingb m = false /\ is_active m).
Proof.
  unfold is_activeb, is_goingb, is_going, is_active.
  destruct (cond_true (os_conds m) CArchived); [left; auto|right]. cbn [negb andb].
  destruct (os_deleting m); [left; cbn; auto|]. cbn [negb andb orb].
  destruct (lifecycle_eqb (os_life m) LArchived) eqn:E; [left|right]; cbn.
  - apply lifecycle_eqb_spec in E. auto.
  - repeat split; auto. intros El. rewrite El in E. discriminate.
Qed.

Lemma model_archived c m sw e r :
  find_set (sc_sets c) (sc_kind c) (sc_ns c) (sc_name c) = Some m -> cond_true (os_conds m) CArchived = true ->
  SetCorr.model_run c = (sw, e, r) -> sw = sc_world c /\ e = [] /\ r = SNothing.
Proof.
  intros Hf Ha E. unfold SetCorr.model_run in E.
  rewrite (C06_archived_not_reconciled (sc_force c) (sc_world c) _ _ _ _ Hf Ha) in E. injection E as <- <- <-. auto.
Qed.

(** ** m11 *)
Theorem m11_sound (c : scase) : m11 (set_obs_s c (SetCorr.model_run c)) = true.
Proof.
  unfold m11. rewrite target_model. destruct (SetCorr.model_run c) as [[sw e] r] eqn:E.
  destruct (find_set (sc_sets c) (sc_kind c) (sc_ns c) (sc_name c)) as [m|] eqn:Ef; [|reflexivity].
  rewrite members_model. unfold SetCorr.model_run in E.
  apply andb_true_iff. split; [apply andb_true_iff; split|].
  - (* the same object twice: no member request *)
    destruct (is_activeb m) eqn:Ha; [|reflexivity]. cbn [negb orb].
    destruct (SetMonitors.keys_nodup m) eqn:Hk; [reflexivity|]. cbn [orb].
    destruct (active_members_written (sc_force c) (sc_world c) _ _ _ m sw e r Ef (is_activeb_spec m Ha) E) as [->|[Hnd _]]; [reflexivity|].
    apply keys_nodup_iff in Hnd. congruence.
  - (* namespace bound, every kind of pass *)
    destruct (oi_ns (os_id m) =? 0) eqn:Hns; [reflexivity|]. cbn [orb]. apply N.eqb_neq in Hns.
    pose proof (pass_members_ns (sc_force c) (sc_world c) _ _ _ m sw e r Ef E) as Hb.
    apply forallb_forall. intros x Hx. rewrite Forall_forall in Hb. destruct (Hb x Hx Hns) as [-> ->].
    cbn. now rewrite N.eqb_refl.
  - (* preflight gate *)
    destruct (is_activeb m) eqn:Ha; [|reflexivity]. cbn [negb orb].
    destruct (active_members_written (sc_force c) (sc_world c) _ _ _ m sw e r Ef (is_activeb_spec m Ha) E) as [->|[Hnd Hw]]; [reflexivity|].
    apply forallb_forall. intros x Hx. rewrite Forall_forall in Hw.
    destruct (written_by_local m x (Hw x Hx)) as (ph & Hin & Hk & Hp).
    destruct (phase_index_found m (locals m) (ev_key x) ph O Hnd Hin Hk) as (j & Hj1 & Hj2). cbn [plus] in Hj1. rewrite Hj1, Hj2.
    apply forallb_forall. intros p Hpi. now rewrite (Hp p Hpi).
Qed.

(** ** m04 *)
Lemma td_doneb_spec m w p : td_obj_done w (as_owner m) p -> td_doneb m (w_store w) p = true.
Proof.
  unfold td_obj_done, td_doneb. intros [Hp|Hl].
  - destruct (preflight_obj FObjectSet (as_owner m) false p); [contradiction|reflexivity].
  - apply orb_true_iff. right. unfold spec_key. fold (key_of (as_owner m) p).
    destruct (lookup (key_of (as_owner m) p) (w_store w)); [|reflexivity]. cbn [ow_id as_owner] in Hl. now rewrite Hl.
Qed.

Lemma nth_error_split {A} (l : list A) : forall j x, nth_error l j = Some x -> l = firstn j l ++ x :: skipn (S j) l.
Proof.
  induction l as [|a l IH]; intros [|j] x H; cbn in H; try discriminate.
  - injection H as ->. reflexivity.
  - cbn [firstn skipn app]. f_equal. now apply IH.
Qed.

Lemma local_keys_rev_in m k : In k (local_keys (as_owner m) (rev (os_phases m))) ->
  exists ph, In ph (locals m) /\ In k (pkeys m ph).
Proof.
  unfold local_keys. intros H. apply in_flat_map in H. destruct H as (ph & Hph & Hk).
  apply filter_In in Hph. destruct Hph as [Hph Hl]. apply in_rev in Hph.
  exists ph. split; [|exact Hk]. unfold locals. apply filter_In. split; [exact Hph|exact Hl].
Qed.

Lemma going_members_keys force sw k ns n m sw' evs r :
  find_set (sw_sets sw) k ns n = Some m -> is_going m ->
  objectset_pass force sw k ns n = (sw', evs, r) ->
  Forall (fun e => In (ev_key e) (local_keys (as_owner m) (rev (os_phases m)))) (member_evs evs).
Proof.
  intros Hf Hg H. pose proof (objectset_pass_going force _ _ _ _ _ _ _ _ Hf Hg H) as Hd.
  destruct (deletion_pass_inv force _ _ _ _ _ Hd) as (swd & tevs & td & Htd & Hm & _). rewrite Hm.
  unfold teardown_of in Htd. destruct (os_fin m); [|injection Htd as _ <- _; constructor].
  destruct (os_orphan m); [injection Htd as _ <- _; constructor|].
  now destruct (tpm_inv force _ _ _ _ _ _ _ Htd) as (_ & _ & Hk & _).
Qed.

Lemma target'_model c sw e r : target' (set_obs_s c (sw, e, r)) = find_set (sw_sets sw) (sc_kind c) (sc_ns c) (sc_name c).
Proof. reflexivity. Qed.

Lemma post_model c sw e r : sc_post (set_obs_s c (sw, e, r)) = w_store (sw_w sw).
Proof. reflexivity. Qed.

Lemma cstatus_eqb_refl x : cstatus_eqb x x = true.
Proof. now apply cstatus_eqb_spec. Qed.

Theorem m04_sound (c : scase) : m04 (set_obs_s c (SetCorr.model_run c)) = true.
Proof.
  unfold m04. rewrite target_model. destruct (SetCorr.model_run c) as [[sw e] r] eqn:E.
  destruct (find_set (sc_sets c) (sc_kind c) (sc_ns c) (sc_name c)) as [m|] eqn:Ef; [|reflexivity].
  destruct (target_kind m) as [(_ & _ & ->)|[(Hgb & _ & Hg)|(_ & -> & _)]]; [reflexivity| |reflexivity].
  rewrite Hgb. cbn [negb orb].
  destruct (SetMonitors.keys_nodup m) eqn:Hk; [|reflexivity]. cbn [negb orb].
  apply keys_nodup_iff in Hk. rewrite members_model, post_model, target'_model, events_model.
  unfold SetCorr.model_run in E.
  destruct (find_set_id _ _ _ _ _ Ef) as (Hkd & Hns & Hn).
  assert (Hf0 : find_set (sw_sets (sc_world c)) (oi_kind (os_id m)) (oi_ns (os_id m)) (oi_name (os_id m)) = Some m) by (rewrite Hkd, Hns, Hn; exact Ef).
  assert (Ef' : find_set (sw_sets (sc_world c)) (sc_kind c) (sc_ns c) (sc_name c) = Some m) by exact Ef.
  pose proof (objectset_pass_going (sc_force c) _ _ _ _ _ _ _ _ Ef' Hg E) as Hd.
  (* all local phases are done whenever the teardown completed *)
  assert (Hall : ((exists ok, In (SMeta (MFinalizer false ok)) e) \/
                  (exists rev0 conds ctrlof rem fph ok, In (SMeta (MStatus rev0 conds ctrlof rem fph ok)) e /\ cond_true conds CArchived = true)) ->
                 os_fin m = true -> os_orphan m = false ->
                 forallb (phase_doneb m (w_store (sw_w sw))) (locals m) = true).
  { intros Hev Hfin Horph. apply forallb_forall. intros q Hq. apply forallb_forall. intros p Hp. apply td_doneb_spec.
    exact (C04_finalizer_held_until_done (sc_force c) (sc_world c) _ _ _ m sw e r Ef Hg Hk Hfin Horph E Hev q p Hq Hp). }
  apply andb_true_iff. split; [apply andb_true_iff; split; [apply andb_true_iff; split|]|].
  - (* reverse order *)
    pose proof (going_members_keys _ _ _ _ _ _ _ _ _ Ef' Hg E) as Hkeys. rewrite Forall_forall in Hkeys.
    apply forallb_forall. intros x Hx.
    destruct (local_keys_rev_in m _ (Hkeys x Hx)) as (ph & Hph & Hkx).
    destruct (phase_index_found m (locals m) (ev_key x) ph O Hk Hph Hkx) as (j & Hj1 & Hj2). cbn [plus] in Hj1. rewrite Hj1.
    apply forallb_forall. intros q Hq. apply forallb_forall. intros p Hp. apply td_doneb_spec.
    apply (C04_reverse_order (sc_force c) (sc_world c) _ _ _ m sw e r Ef Hg Hk E (firstn j (locals m)) ph (skipn (S j) (locals m)) (nth_error_split _ _ _ Hj2)) with (q := q); [|exact Hq|exact Hp].
    apply Exists_exists. exists x. split; [exact Hx|exact Hkx].
  - (* the finalizer goes / Archived=True only when everything is done *)
    destruct (os_fin m) eqn:Hfin; [|reflexivity]. cbn [negb orb]. destruct (os_orphan m) eqn:Horph; [reflexivity|]. cbn [orb].
    match goal with |- negb ?b || _ = true => destruct b eqn:Hb; [|reflexivity] end. cbn [negb orb].
    apply Hall; auto. apply orb_true_iff in Hb. destruct Hb as [Hb|Hb].
    + left. apply existsb_exists in Hb. destruct Hb as (x & Hx & Hm). destruct x as [y|[[|] ok|]|y]; try discriminate. eauto.
    + right. apply existsb_exists in Hb. destruct Hb as ([[[cs co] fph] ok] & Hx & Hm).
      unfold statuses in Hx. apply in_flat_map in Hx. destruct Hx as (x & Hx & Hs). rewrite events_model in Hx.
      destruct x as [y|[a o|rv cs' co' rm fph' ok']|y]; try contradiction. destruct Hs as [Hs|[]]. injection Hs as <- <- <- <-.
      exists rv, cs', co', rm, fph', ok'. auto.
  - (* until then the finalizer stays and Archived=False is reported *)
    destruct (os_fin m) eqn:Hfin; [|reflexivity]. cbn [negb orb]. destruct (os_orphan m) eqn:Horph; [reflexivity|]. cbn [orb].
    destruct (deletion_pass_held (sc_force c) (sc_world c) m sw e r Hf0 Hfin Hd) as [Hev|[(m' & Hm' & Hfin') Hst]].
    + rewrite Hall; auto.
    + apply orb_true_iff. right. rewrite Hkd, Hns, Hn in Hm'. rewrite Hm', Hfin'. cbn [andb].
      apply orb_true_iff. right. apply statuses_forall. intros rv cs co rm fph ok Hi. rewrite events_model in Hi.
      rewrite (Hst _ _ _ _ _ _ Hi). reflexivity.
  - (* orphan: nothing is deleted *)
    destruct (os_orphan m) eqn:Horph; [|reflexivity]. cbn [negb orb].
    destruct (C05_orphan_deletes_nothing (sc_force c) (sc_world c) _ _ _ m sw e r Ef Hg Horph E) as [-> _]. reflexivity.
Qed.

(** ** Traces: what the pass last saw of a phase object is what the world holds *)
From PKOCorr Require C15Corr.

Lemma last_seen_app nm a : forall b acc,
  C15Corr.last_seen nm (a ++ b) acc = C15Corr.last_seen nm b (C15Corr.last_seen nm a acc).
Proof.
  induction a as [|e a IH]; intros b acc; [reflexivity|]. cbn [app].
  destruct e as [x|ms|p]; cbn [C15Corr.last_seen]; try apply IH.
  destruct p as [n r|n [p|]|n pa [p|]|n r|n ok|n ad ok|n cs co ok]; apply IH.
Qed.

Lemma last_seen_members nm l acc : C15Corr.last_seen nm (map SMember l) acc = acc.
Proof. induction l as [|x l IH]; [reflexivity|]. exact IH. Qed.

Lemma last_seen_keeps2 mem0 nm l : Forall (keeps2 mem0) l -> forall acc, C15Corr.last_seen nm l acc = acc.
Proof.
  induction l as [|e l IH]; intros H acc; [reflexivity|]. inversion H; subst.
  destruct e as [x|ms|p]; try contradiction. cbn. now apply IH.
Qed.

Lemma last_seen_some nm l : forall acc, acc <> None -> C15Corr.last_seen nm l acc <> None.
Proof.
  induction l as [|e l IH]; intros acc Ha; [exact Ha|].
  destruct e as [x|ms|p]; cbn [C15Corr.last_seen]; try now apply IH.
  destruct p as [n r|n [p|]|n pa [p|]|n r|n ok|n ad ok|n cs co ok]; try now apply IH.
  all: apply IH; destruct (n =? nm); [discriminate|exact Ha].
Qed.

Lemma last_seen_read nm l : read_in l nm -> forall acc, C15Corr.last_seen nm l acc <> None.
Proof.
  intros Hr. induction l as [|e l IH]; intros acc.
  - destruct Hr as [(r & [])|(pa & p & [])].
  - assert (Hcase : e = SPhase (PGet nm (match e with SPhase (PGet _ r) => r | _ => None end)) \/
                    (exists pa p, e = SPhase (PPause nm pa (Some p))) \/ read_in l nm).
    { destruct Hr as [(r & [->|Hin])|(pa & p & [->|Hin])].
      - now left.
      - right. right. left. eauto.
      - right. left. eauto.
      - right. right. right. eauto. }
    destruct Hcase as [->|[(pa & p & ->)|Hl]].
    + cbn. rewrite N.eqb_refl. apply last_seen_some. discriminate.
    + cbn. rewrite N.eqb_refl. apply last_seen_some. discriminate.
    + destruct e as [x|ms|p]; cbn [C15Corr.last_seen]; try now apply IH.
      destruct p as [n r|n [p|]|n pa [p|]|n r|n ok|n ad ok|n cs co ok]; now apply IH.
Qed.

(** the reads for the Paused condition return what is stored *)
Lemma last_seen_reads phs kind ns nm refs : forall acc,
  C15Corr.last_seen nm (paused_reads_l phs kind ns refs) acc = acc \/
  C15Corr.last_seen nm (paused_reads_l phs kind ns refs) acc = Some (find_phase phs kind ns nm).
Proof.
  induction refs as [|x l IH]; intros acc; [now left|]. cbn [paused_reads_l].
  destruct (find_phase phs kind ns (fst x)) as [p|] eqn:Ef.
  - cbn [C15Corr.last_seen]. destruct (fst x =? nm) eqn:En.
    + apply N.eqb_eq in En. subst nm. destruct (IH (Some (Some p))) as [-> | ->]; right; now rewrite Ef.
    + apply IH.
  - cbn. destruct (fst x =? nm) eqn:En; [|now left]. apply N.eqb_eq in En. subst nm. right. now rewrite Ef.
Qed.

(** one step of the remote phase reconciler: its own name is last seen as stored, the others are untouched *)
Lemma remote_reconcile_last_seen sw s ph rem sw1 e1 rem1 r :
  remote_reconcile sw s ph rem = (sw1, e1, rem1, r) ->
  forall nm acc, C15Corr.last_seen nm e1 acc =
                 if pobj_name s ph =? nm then Some (find_phase (sw_phases sw1) (phase_kind s) (oi_ns (os_id s)) nm) else acc.
Proof.
  unfold remote_reconcile, pobj_name. cbn [desired_phase op_id oi_kind oi_ns oi_name op_paused].
  set (name := join_name (oi_name (os_id s)) (ph_name ph)).
  destruct (find_phase (sw_phases sw) (phase_kind s) (oi_ns (os_id s)) name) as [cur|] eqn:Ef.
  - destruct (find_phase_key _ _ _ _ _ Ef) as (Hk & Hns & Hn).
    destruct (negb (controlled_by_uid (op_owners cur) (oi_uid (os_id s)))).
    { intros H nm acc. injection H as <- <- _ _. cbn. destruct (name =? nm) eqn:En; [|reflexivity].
      apply N.eqb_eq in En. subst nm. now rewrite Ef. }
    destruct (Bool.eqb (op_paused cur) _).
    + intros H nm acc. injection H as <- <- _ _. cbn. destruct (name =? nm) eqn:En; [|reflexivity].
      apply N.eqb_eq in En. subst nm. now rewrite Ef.
    + intros H nm acc. injection H as <- <- _ _. cbn [C15Corr.last_seen sw_phases with_phases].
      destruct (name =? nm) eqn:En; [|reflexivity]. apply N.eqb_eq in En. subst nm.
      set (cur' := phase_with cur _ _ _ _ _ _).
      pose proof (find_put_phase_same (sw_phases sw) cur') as Hx. change (op_id cur') with (op_id cur) in Hx.
      rewrite Hk, Hns, Hn in Hx. now rewrite Hx.
  - intros H nm acc. injection H as <- <- _ _. cbn [C15Corr.last_seen sw_phases with_phases].
    destruct (name =? nm) eqn:En; [|reflexivity]. apply N.eqb_eq in En. subst nm.
    match goal with |- _ = Some (find_phase (put_phase _ ?st) _ _ _) => pose proof (find_put_phase_same (sw_phases sw) st) as Hx end.
    cbn [op_id stamp_phase desired_phase oi_kind oi_ns oi_name] in Hx. fold name in Hx. now rewrite Hx.
Qed.

Definition coh (s : oset) (phs : list osphase) (evs : list sev) : Prop :=
  forall nm, match C15Corr.last_seen nm evs None with
             | None => True
             | Some x => x = find_phase phs (phase_kind s) (oi_ns (os_id s)) nm end.

Lemma coh_keeps2 mem0 s phs l : Forall (keeps2 mem0) l -> coh s phs l.
Proof. intros H nm. now rewrite (last_seen_keeps2 _ _ _ H). Qed.

Lemma coh_app_keeps2 mem0 s phs a l : coh s phs a -> Forall (keeps2 mem0) l -> coh s phs (a ++ l).
Proof. intros Hc H nm. rewrite last_seen_app, (last_seen_keeps2 _ _ _ H). apply Hc. Qed.

Lemma coh_app_meta s phs a ms : coh s phs a -> coh s phs (a ++ [SMeta ms]).
Proof. intros Hc nm. rewrite last_seen_app. cbn. apply Hc. Qed.

Lemma coh_app_reads s phs a refs : coh s phs a -> coh s phs (a ++ paused_reads_l phs (phase_kind s) (oi_ns (os_id s)) refs).
Proof.
  intros Hc nm. rewrite last_seen_app.
  destruct (last_seen_reads phs (phase_kind s) (oi_ns (os_id s)) nm refs (C15Corr.last_seen nm a None)) as [-> | ->]; [apply Hc|reflexivity].
Qed.

Lemma coh_rpm force s ow prev phs : forall sw acc rem sw' evs rem' r a,
  reconcile_phases_m force sw s ow prev phs acc rem = (sw', evs, rem', r) ->
  coh s (sw_phases sw) a -> coh s (sw_phases sw') (a ++ evs).
Proof.
  induction phs as [|ph rest IH]; intros sw acc rem sw' evs rem' r a H Hc.
  - cbn in H. injection H as <- <- _ _. now rewrite app_nil_r.
  - rewrite rpm_cons in H. destruct (ph_class ph).
    + destruct (remote_reconcile sw s ph rem) as [[[sw1 e1] rem1] r1] eqn:E1.
      assert (Hc1 : coh s (sw_phases sw1) (a ++ e1)).
      { intros nm. rewrite last_seen_app, (remote_reconcile_last_seen _ _ _ _ _ _ _ _ E1).
        destruct (pobj_name s ph =? nm) eqn:En; [reflexivity|].
        destruct (remote_reconcile_inv _ _ _ _ _ _ _ _ E1) as (_ & _ & _ & _ & Hfr & _).
        rewrite Hfr by (now rewrite !N.eqb_refl, En). apply Hc. }
      destruct r1 as [|active failed]; [injection H as <- <- _ _; exact Hc1|].
      destruct failed; [injection H as <- <- _ _; exact Hc1|].
      destruct (reconcile_phases_m force sw1 s ow prev rest (acc ++ active) rem1) as [[[sw2 e2] rem2] r2] eqn:E2.
      injection H as <- <- _ _. rewrite app_assoc. eapply IH; eauto.
    + destruct (reconcile_phase _ idw (sw_w sw) ow prev false (ph_objects ph)) as [[w1 e1] r1] eqn:E1.
      assert (Hc1 : coh s (sw_phases (with_w sw w1)) (a ++ map SMember e1)).
      { intros nm. rewrite last_seen_app, last_seen_members. apply Hc. }
      destruct r1 as [e|vs|actual failed]; try (injection H as <- <- _ _; exact Hc1).
      destruct failed as [|f fs]; [|injection H as <- <- _ _; exact Hc1].
      cbv zeta in H.
      match type of H with context [reconcile_phases_m force ?x s ow prev rest ?b ?d] =>
        destruct (reconcile_phases_m force x s ow prev rest b d) as [[[sw2 e2] rem2] r2] eqn:E2 end.
      injection H as <- <- _ _. rewrite app_assoc. eapply IH; eauto.
Qed.

(** the whole observation of a pass that reached the loop is coherent with the phase objects it leaves *)
Lemma after_loop2_coh force mem0 mem1 sw1 sw2 prev pre pevs rem pr evs r :
  reconcile_phases_m force sw1 mem1 (as_owner mem1) prev (os_phases mem1) [] (os_remotes mem1) = (sw2, pevs, rem, pr) ->
  Forall (keeps2 mem0) pre -> after_loop2 mem1 sw2 pre pevs rem pr evs r ->
  coh mem1 (sw_phases sw2) evs.
Proof.
  intros Hrp Hpre Hal.
  assert (Hc : coh mem1 (sw_phases sw2) (pre ++ pevs)).
  { eapply coh_rpm; [exact Hrp|]. eapply coh_keeps2; eauto. }
  unfold after_loop2 in Hal. destruct pr as [e| | |ctrlof failed].
  - destruct (is_collision e).
    + destruct Hal as (ok & -> & _). rewrite !app_assoc. now apply coh_app_meta.
    + destruct Hal as [-> _]. exact Hc.
  - destruct Hal as [-> _]. exact Hc.
  - destruct Hal as (ok & -> & _). rewrite !app_assoc. now apply coh_app_meta.
  - destruct Hal as (ok & -> & _). rewrite !app_assoc. apply coh_app_meta. rewrite <- app_assoc.
    unfold paused_reads. change (phase_kind (set_remotes mem1 rem)) with (phase_kind mem1).
    change (oi_ns (os_id (set_remotes mem1 rem))) with (oi_ns (os_id mem1)). rewrite app_assoc. now apply coh_app_reads.
Qed.

(** ** m03 *)
Lemma phase_index_exact m k ph l2 : forall l1 i,
  NoDup (flat_map (pkeys m) (l1 ++ ph :: l2)) -> In k (pkeys m ph) ->
  phase_index m (l1 ++ ph :: l2) k i = Some (i + length l1)%nat.
Proof.
  induction l1 as [|q l1 IH]; intros i Hnd Hk; cbn [app phase_index].
  - assert (existsb (okey_eqb k) (pkeys m ph) = true) as -> by now apply existsb_okey. cbn. f_equal. lia.
  - cbn in Hnd. destruct (existsb (okey_eqb k) (pkeys m q)) eqn:E.
    + exfalso. apply existsb_okey in E. eapply NoDup_app_disj; [exact Hnd|exact E|].
      apply in_flat_map. exists ph. split; [apply in_or_app; right; now left|exact Hk].
    + rewrite (IH (S i) (NoDup_app_r _ _ Hnd) Hk). cbn. f_equal. lia.
Qed.

Lemma phase_index_bound m k q : forall l1 l2 i,
  In q l1 -> In k (pkeys m q) -> exists j, phase_index m (l1 ++ l2) k i = Some (i + j)%nat /\ (j < length l1)%nat.
Proof.
  induction l1 as [|q0 l1 IH]; intros l2 i Hq Hk; [contradiction|]. cbn [app phase_index].
  destruct (existsb (okey_eqb k) (pkeys m q0)) eqn:E.
  - exists O. split; [f_equal; lia|cbn; lia].
  - destruct Hq as [->|Hq]; [apply existsb_okey in Hk; congruence|].
    destruct (IH l2 (S i) Hq Hk) as (j & Hj & Hlt). exists (S j). split; [rewrite Hj; f_equal; lia|cbn; lia].
Qed.

Lemma ow_paused_as_owner m : ow_paused (as_owner m) = lifecycle_eqb (os_life m) LPaused.
Proof. reflexivity. Qed.

Lemma phase_ok2_okb m w q : phase_ok2 w (as_owner m) q -> phase_okb m (w_store w) q = true.
Proof.
  intros H. unfold phase_okb, pkeys. apply forallb_forall. intros k Hk. apply in_map_iff in Hk. destruct Hk as (p & <- & Hp).
  destruct (H p Hp) as (o & Ho & Hpr & Hc). unfold obj_okb, spec_key. fold (key_of (as_owner m) p). rewrite Ho, Hpr. cbn [andb].
  rewrite ow_paused_as_owner in Hc. destruct (lifecycle_eqb (os_life m) LPaused); [now rewrite Hc|reflexivity].
Qed.

Lemma phase_ok_okb m w q : lifecycle_eqb (os_life m) LPaused = false -> phase_ok w (as_owner m) q -> phase_okb m (w_store w) q = true.
Proof.
  intros Hl H. apply phase_ok2_okb. intros p Hp. destruct (H p Hp) as (o & Ho & Hpr). exists o. split; [exact Ho|]. split; [exact Hpr|].
  rewrite ow_paused_as_owner, Hl. discriminate.
Qed.

Lemma obj_fails_okb m w q p : In p (ph_objects q) -> obj_fails w (as_owner m) p -> phase_okb m (w_store w) q = false.
Proof.
  intros Hp Hf. unfold phase_okb. apply Bool.not_true_is_false. intros Hall. rewrite forallb_forall in Hall.
  assert (Hk : In (spec_key m p) (pkeys m q)) by (unfold pkeys; now apply in_map). specialize (Hall _ Hk).
  unfold obj_okb, spec_key in Hall. unfold obj_fails in Hf. fold (key_of (as_owner m) p) in Hall.
  destruct (lookup (key_of (as_owner m) p) (w_store w)) as [o|]; [|discriminate].
  apply andb_true_iff in Hall. destruct Hall as [H1 H2]. destruct Hf as [Hf|[Hpa Hc]]; [congruence|].
  rewrite ow_paused_as_owner in Hpa. rewrite Hpa, Hc in H2. discriminate.
Qed.

Lemma phase_ok2_same m1 m0 w q : same_spec m1 m0 -> phase_ok2 w (as_owner m1) q -> phase_ok2 w (as_owner m0) q.
Proof.
  intros Hs H p Hp. destruct (as_owner_keys _ _ Hs) as (_ & Hk & Hpa & _). destruct (H p Hp) as (o & Ho & Hpr & Hc).
  exists o. rewrite <- Hk, <- Hpa. auto.
Qed.

Lemma obj_fails_same m1 m0 w p : same_spec m1 m0 -> obj_fails w (as_owner m1) p -> obj_fails w (as_owner m0) p.
Proof.
  intros Hs. destruct (as_owner_keys _ _ Hs) as (_ & Hk & Hpa & _). unfold obj_fails. now rewrite Hk, Hpa.
Qed.

Lemma find_by_name (phs : list phase) ph n :
  NoDup (map ph_name phs) -> In ph phs -> ph_name ph = n -> find (fun q => ph_name q =? n) phs = Some ph.
Proof.
  induction phs as [|q phs IH]; intros Hnd Hin Hn; [contradiction|]. cbn in *. inversion Hnd as [|? ? Hnotin Hnd']; subst.
  destruct Hin as [->|Hin]; [now rewrite N.eqb_refl|].
  destruct (ph_name q =? ph_name ph) eqn:E; [|now apply IH].
  exfalso. apply N.eqb_eq in E. apply Hnotin. rewrite E. now apply in_map.
Qed.

Lemma relay_failed_not_avail cur active : relay cur = RROk active true -> C15Corr.avail_currentb cur = false.
Proof.
  unfold relay, C15Corr.avail_currentb. destruct (find_cond (op_conds cur) CAvailable) as [cd|]; [|reflexivity].
  destruct (Z.eqb (cd_gen cd) (op_gen cur)); cbn [negb]; [|now rewrite andb_false_r].
  destruct (cstatus_eqb (cd_status cd) STrue); [discriminate|reflexivity].
Qed.

Lemma avail_current_b cur : avail_current cur -> C15Corr.avail_currentb cur = true.
Proof.
  intros (cd & Hf & Hs & Hg). unfold C15Corr.avail_currentb. rewrite Hf, Hs, Hg, Z.eqb_refl. reflexivity.
Qed.

Lemma filter_app' {A} (f : A -> bool) l1 l2 : filter f (l1 ++ l2) = filter f l1 ++ filter f l2.
Proof. apply filter_app. Qed.

Lemma firstn_app_exact {A} (l1 l2 : list A) : firstn (length l1) (l1 ++ l2) = l1.
Proof. rewrite firstn_app, Nat.sub_diag, firstn_all. cbn. apply app_nil_r. Qed.

(** the phase names of the ObjectSet under reconciliation are pairwise distinct *)
Definition phase_names_unique (c : scase) : bool :=
  match find_set (sc_sets c) (sc_kind c) (sc_ns c) (sc_name c) with
  | Some m => negb (is_activeb m) || negb (SetMonitors.keys_nodup m) || nodupb N.eqb (map ph_name (os_phases m))
  | None => true
  end.

Theorem m03_sound_partial (c : scase) :
  phase_names_unique c = true -> m03 (set_obs_s c (SetCorr.model_run c)) = true.
Proof.
  intros Hnames. unfold m03. rewrite target_model. destruct (SetCorr.model_run c) as [[sw e] r] eqn:E.
  unfold phase_names_unique in Hnames.
  destruct (find_set (sc_sets c) (sc_kind c) (sc_ns c) (sc_name c)) as [m|] eqn:Ef; [|reflexivity].
  destruct (is_activeb m) eqn:Ha; [|reflexivity]. cbn [negb orb].
  destruct (SetMonitors.keys_nodup m) eqn:Hk; [|reflexivity]. cbn [negb orb] in *.
  apply keys_nodup_iff in Hk. pose proof (is_activeb_spec m Ha) as Hact.
  apply (nodupb_spec N.eqb N.eqb_eq) in Hnames.
  rewrite members_model, post_model. unfold SetCorr.model_run in E.
  assert (Ef' : find_set (sw_sets (sc_world c)) (sc_kind c) (sc_ns c) (sc_name c) = Some m) by exact Ef.
  apply andb_true_iff. split.
  - (* a member request on phase j: the earlier local phases are complete *)
    destruct (lifecycle_eqb (os_life m) LPaused) eqn:Hp.
    + apply lifecycle_eqb_spec in Hp.
      destruct (C09_paused_hands_off (sc_force c) (sc_world c) _ _ _ m sw e r Ef' Hact Hp E) as [-> _]. reflexivity.
    + destruct (active_members_written (sc_force c) (sc_world c) _ _ _ m sw e r Ef' Hact E) as [->|[_ Hw]]; [reflexivity|].
      apply forallb_forall. intros x Hx. rewrite Forall_forall in Hw.
      destruct (written_by_local m x (Hw x Hx)) as (ph & Hin & Hkx & _).
      destruct (phase_index_found m (locals m) (ev_key x) ph O Hk Hin Hkx) as (j & Hj1 & Hj2). cbn [plus] in Hj1. rewrite Hj1.
      apply forallb_forall. intros q Hq. apply phase_ok_okb; [exact Hp|].
      apply (C03_rollout_gated_all (sc_force c) (sc_world c) _ _ _ m sw e r Ef' Hact E (firstn j (locals m)) ph (skipn (S j) (locals m)) (nth_error_split _ _ _ Hj2)); [|exact Hq].
      apply Exists_exists. exists x. split; [exact Hx|exact Hkx].
  - (* the phase named as failing *)
    apply statuses_forall. intros rv cs co rm fph ok Hin. rewrite events_model in Hin.
    destruct fph as [n|]; [|reflexivity].
    destruct (objectset_pass_active2 (sc_force c) (sc_world c) _ _ _ m sw e r Ef' Hact E) as [Hs|Hr].
    { pose proof (stopped2_meta _ _ _ _ _ Hs Hin) as Hk2. cbn in Hk2. destruct Hk2 as [Hx _]. discriminate. }
    destruct Hr as (mem1 & sw1 & sw2 & pevs & rem & pr & pre & Hs & _ & _ & _ & _ & _ & Hdup & Hrp & Hst & Hph & _ & Hpre & Hal).
    pose proof (after_loop2_coh _ _ _ _ _ _ _ _ _ _ _ _ Hrp Hpre Hal) as Hcoh.
    destruct (after_loop2_meta _ _ _ _ _ _ _ _ _ _ _ _ _ Hrp Hpre Hal Hin) as [Hk2|(f & ok' & Hf & He)].
    { cbn in Hk2. destruct Hk2 as [Hx _]. discriminate. }
    unfold tail_status in Hf. destruct pr as [e0| | |ctrlof failed].
    { destruct (is_collision e0); [|discriminate]. injection Hf as <-. discriminate He. }
    { discriminate Hf. }
    { injection Hf as <-. discriminate He. }
    injection Hf as <-. unfold status_ev_f in He.
    assert (Hfl : failed = Some n) by (injection He; intros; congruence). subst failed.
    pose proof (dup_zero_nodup _ Hdup) as Hnd1.
    destruct (rpm_passed (sc_force c) mem1 _ _ _ _ _ _ _ _ _ _ _ Hrp Hnd1) as (ppre & ppost & Hsplit & Hpassed & (ph & post' & -> & Hname & Hfails) & Hmem & Hread).
    pose proof Hs as (Hid & Hphs & Hlife & _). rewrite Hphs in Hsplit.
    assert (Hin_ph : In ph (os_phases m)) by (rewrite Hsplit; apply in_or_app; right; now left).
    rewrite (find_by_name _ ph n Hnames Hin_ph Hname).
    unfold fails in Hfails. destruct (ph_class ph) eqn:Ecl.
    + (* delegated: its phase object, as last seen, is not Available for its generation *)
      destruct Hfails as (cur & active & Hcur & Hrel & _).
      apply negb_true_iff. unfold C15Corr.seen_available. rewrite events_model.
      specialize (Hcoh (C15Corr.join m ph)).
      destruct (C15Corr.last_seen (C15Corr.join m ph) e None) as [x|]; [|reflexivity]. subst x.
      unfold phase_obj_of, pobj_name in Hcur. unfold C15Corr.join. rewrite <- Hid, Hcur.
      eapply relay_failed_not_avail; eauto.
    + destruct Hfails as (p & Hp & Hpf).
      assert (Hloc : locals m = filter (fun q => negb (ph_class q)) ppre ++ ph :: filter (fun q => negb (ph_class q)) post').
      { unfold locals. rewrite Hsplit, filter_app. cbn [filter]. now rewrite Ecl. }
      set (l1 := filter (fun q => negb (ph_class q)) ppre) in *. set (l2 := filter (fun q => negb (ph_class q)) post') in *.
      assert (Hk' : NoDup (flat_map (pkeys m) (l1 ++ ph :: l2))) by (rewrite <- Hloc; exact Hk).
      apply andb_true_iff. split.
      * apply negb_true_iff. rewrite Hst. eapply obj_fails_okb; [exact Hp|]. eapply obj_fails_same; eauto.
      * assert (Hk0 : In (match pkeys m ph with k :: _ => k | [] => Build_okey 0 0 0 end) (pkeys m ph)).
        { unfold pkeys. destruct (ph_objects ph) as [|p0 ps]; [contradiction|]. now left. }
        rewrite Hloc, (phase_index_exact m _ ph l2 l1 O Hk' Hk0). cbn [plus]. rewrite firstn_app_exact.
        apply andb_true_iff. split.
        -- apply forallb_forall. intros q Hq. subst l1. apply filter_In in Hq. destruct Hq as [Hq Hcq]. apply negb_true_iff in Hcq.
           pose proof (Hpassed q Hq) as Hpq. unfold passed in Hpq. rewrite Hcq in Hpq. rewrite Hst.
           apply phase_ok2_okb. eapply phase_ok2_same; eauto.
        -- rewrite (after_loop2_members _ _ _ _ _ _ _ _ _ Hpre Hal). apply forallb_forall. intros x Hx.
           rewrite Forall_forall in Hmem. specialize (Hmem x Hx). cbn [firstn] in Hmem.
           unfold local_keys in Hmem. apply in_flat_map in Hmem. destruct Hmem as (q & Hq & Hkq).
           rewrite (phase_keys_same _ _ Hs) in Hkq. rewrite filter_app in Hq. cbn [filter] in Hq. unfold is_local in Hq. rewrite Ecl in Hq. cbn [negb] in Hq.
           destruct (phase_index_bound m (ev_key x) q (l1 ++ [ph]) l2 O Hq Hkq) as (j & Hj & Hlt).
           rewrite <- app_assoc in Hj. cbn [app plus] in Hj. rewrite Hj. apply Nat.leb_le. rewrite app_length in Hlt. cbn in Hlt. lia.
Qed.

(** *** Cases for the refutations and the non-vacuity examples *)
Definition case_of (force : bool) (sw : sworld) (k ns n : N) : scase :=
  {| sc_force := force; sc_store := w_store (sw_w sw); sc_rv := w_rv (sw_w sw); sc_uid := w_uid (sw_w sw);
     sc_sets := sw_sets sw; sc_phases := sw_phases sw; sc_nss := sw_nss sw; sc_kind := k; sc_ns := ns; sc_name := n;
     sc_res := SNothing; sc_events := []; sc_post := []; sc_sets' := []; sc_phases' := []; sc_rv' := 0; sc_uid' := 0 |}.

Definition x_id : oid := {| oi_kind := KObjectSet; oi_ns := 1; oi_name := 10; oi_uid := 100 |}.
Definition x_po (gk name : N) : pobj :=
  {| po_gk := gk; po_ns := 0; po_name := name; po_body := 1; po_cp := CPPrevent; po_ownerrefs := false; po_dryreject := false |}.
Definition x_set (phs : list phase) (life : lifecycle) (conds : list cond) (remotes : list (N * N)) (revision : Z) (prev : list N) : oset :=
  {| os_id := x_id; os_rv := 5; os_gen := 1; os_deleting := false; os_fin := true; os_orphan := false; os_pkg := 0;
     os_life := life; os_phases := phs; os_prev := prev; os_revision := revision; os_conds := conds; os_ctrlof := [];
     os_remotes := remotes |}.
Definition x_ref : oref := {| r_kind := KObjectSet; r_name := 10; r_uid := 100; r_ctrl := true |}.
Definition x_obj (uid : N) (avail : N) : obj :=
  {| o_uid := uid; o_rv := uid; o_gen := 1; o_owners := [x_ref]; o_aowners := []; o_rev := RevNum 1; o_cache := true;
     o_pkg := 0; o_body := 1; o_avail := avail; o_obsgen := Some 1%Z; o_deleting := false; o_fin := false |}.
Definition x_key (gk name : N) : okey := {| k_gk := gk; k_ns := 1; k_name := name |}.
Definition x_world (store : store) (sets : list oset) (phases : list osphase) : sworld :=
  {| sw_w := {| w_store := store; w_rv := 50; w_uid := 60 |}; sw_sets := sets; sw_phases := phases; sw_nss := [(1, false)] |}.

(** Two phases named 1: the first (a ConfigMap) completes, the second (a Widget whose probe fails) is reported as
    failing "phase 1"; the monitor looks the name up, finds the first phase, which is complete, and raises an alarm. *)
Definition x_dupname_set : oset :=
  x_set [ {| ph_name := 1; ph_class := false; ph_objects := [x_po 1 1] |};
          {| ph_name := 1; ph_class := false; ph_objects := [x_po 2 2] |} ] LActive [] [] 1 [].
Definition x_dupname_case : scase :=
  case_of false (x_world [(x_key 1 1, x_obj 21 0); (x_key 2 2, x_obj 22 2)] [x_dupname_set] []) KObjectSet 1 10.

Theorem m03_refuted :
  exists c, phase_names_unique c = false /\ m03 (set_obs_s c (SetCorr.model_run c)) = false.
Proof. exists x_dupname_case. vm_compute. split; reflexivity. Qed.

(** The hypothesis of [m03_sound_partial] holds on the same world with distinct phase names, where the pass names
    phase 2 as failing. *)
Definition x_names_set : oset :=
  x_set [ {| ph_name := 1; ph_class := false; ph_objects := [x_po 1 1] |};
          {| ph_name := 2; ph_class := false; ph_objects := [x_po 2 2] |} ] LActive [] [] 1 [].
Definition x_names_case : scase :=
  case_of false (x_world [(x_key 1 1, x_obj 21 0); (x_key 2 2, x_obj 22 2)] [x_names_set] []) KObjectSet 1 10.
Example m03_hypothesis_satisfiable :
  phase_names_unique x_names_case = true /\
  map (fun s => let '(_, _, fph, _) := s in fph) (statuses (set_obs_s x_names_case (SetCorr.model_run x_names_case))) = [Some 2].
Proof. vm_compute. split; reflexivity. Qed.

(** ** m06 *)
(** A namespace-less key (a cluster-scoped object as the ObjectSetPhase API reports it, or a listed object of a
    cluster-scoped ObjectSet) shares group/kind and name with no OTHER listed object. *)
Definition nsless_literal (m : oset) (c : okey) : bool :=
  negb (k_ns c =? 0) ||
  forallb (fun k => negb ((k_gk k =? k_gk c) && (k_name k =? k_name c)) || okey_eqb k c) (map (spec_key m) (all_objects m)).

Definition nsless_refs_literal (c : scase) : bool :=
  match find_set (sc_sets c) (sc_kind c) (sc_ns c) (sc_name c) with
  | None => true
  | Some m =>
      negb (is_activeb m) || negb (SetMonitors.keys_nodup m) ||
      match find_cond (os_conds m) CInTransition with
      | None => true
      | Some _ =>
          forallb (fun ph => match find_phase (sc_phases c) (phase_kind m) (oi_ns (os_id m)) (C15Corr.join m ph) with
                             | Some p => forallb (nsless_literal m) (op_ctrlof p)
                             | None => true end) (C15Corr.delegated m)
      end
  end.

Lemma nsless_literal_good m x : nsless_literal m x = true -> k_ns x = 0 ->
  good_ref (dedup_keys (map (spec_key m) (all_objects m))) x.
Proof.
  intros H Hns k Hk Hg Hn. unfold nsless_literal in H. rewrite Hns in H. cbn in H. rewrite forallb_forall in H.
  specialize (H k (dedup_keys_incl _ _ Hk)). rewrite Hg, Hn, !N.eqb_refl in H. cbn in H. now apply okey_eqb_spec in H.
Qed.

Lemma covers_literal m ctrlof k :
  In k (map (spec_key m) (all_objects m)) -> (forall c, In c ctrlof -> nsless_literal m c = true) ->
  covers ctrlof k -> In k ctrlof.
Proof.
  intros Hk Hall [Hin|(c & Hc & Hns & Hg & Hn)]; [exact Hin|].
  specialize (Hall c Hc). unfold nsless_literal in Hall. rewrite Hns in Hall. cbn in Hall.
  rewrite forallb_forall in Hall. specialize (Hall k Hk). rewrite Hg, Hn, !N.eqb_refl in Hall. cbn in Hall.
  apply okey_eqb_spec in Hall. now subst k.
Qed.

(** a status request that re-sends or lowers Available and keeps Succeeded / InTransition passes the per-request
    clauses of an active pass *)
Definition keepish (m : oset) (cs : list cond) (fph : option N) : Prop :=
  fph = None /\
  (find_cond cs CAvailable = find_cond (os_conds m) CAvailable \/
   exists cd, find_cond cs CAvailable = Some cd /\ cd_status cd = SFalse) /\
  find_cond cs CSucceeded = find_cond (os_conds m) CSucceeded /\
  find_cond cs CInTransition = find_cond (os_conds m) CInTransition.

Lemma keeps2_keepish m rv cs co rm fph ok : keeps2 m (SMeta (MStatus rv cs co rm fph ok)) -> keepish m cs fph.
Proof.
  cbn. intros (Hf & Ha & Hs & Hi). split; [exact Hf|]. split; [|split; assumption].
  destruct Ha as [Ha|Ha]; [now left|right]. eexists. split; [exact Ha|reflexivity].
Qed.

Lemma fail_mem_keepish m mem2 rs : os_conds mem2 = os_conds m -> keepish m (os_conds (fail_mem mem2 rs)) None.
Proof.
  intros Hc. split; [reflexivity|]. split; [right; eexists; split; [apply fail_mem_available|reflexivity]|].
  rewrite !fail_mem_other by discriminate. now rewrite Hc.
Qed.

Theorem m06_sound_partial (c : scase) :
  nsless_refs_literal c = true -> m06 (set_obs_s c (SetCorr.model_run c)) = true.
Proof.
  intros Hlit. unfold m06. rewrite target_model. destruct (SetCorr.model_run c) as [[sw e] r] eqn:E.
  unfold nsless_refs_literal in Hlit.
  destruct (find_set (sc_sets c) (sc_kind c) (sc_ns c) (sc_name c)) as [m|] eqn:Ef; [|reflexivity].
  rewrite events_model, target'_model, post_model.
  assert (Ef' : find_set (sw_sets (sc_world c)) (sc_kind c) (sc_ns c) (sc_name c) = Some m) by exact Ef.
  apply andb_true_iff. split; [apply andb_true_iff; split|].
  - (* archived short-circuit *)
    destruct (cond_true (os_conds m) CArchived) eqn:Ha; [|reflexivity].
    destruct (model_archived c m sw e r Ef Ha E) as (_ & -> & _). reflexivity.
  - (* Succeeded is not withdrawn *)
    destruct (cond_true (os_conds m) CSucceeded) eqn:Hsu; [|reflexivity]. cbn [negb orb].
    unfold SetCorr.model_run in E.
    pose proof (pass_keeps_succeeded (sc_force c) _ _ _ (sc_world c) m sw e r Ef' Hsu E) as Hw.
    destruct (find_set (sw_sets sw) (sc_kind c) (sc_ns c) (sc_name c)) as [m'|] eqn:Ef2; [|reflexivity]. exact (Hw _ Ef2).
  - apply statuses_forall. intros rv cs co rm fph ok Hin. rewrite events_model in Hin.
    unfold SetCorr.model_run in E.
    destruct (target_kind m) as [(Harch & _ & _)|[(Hgb & Hab & Hg)|(Hab & Hgb & Hact)]].
    { destruct (model_archived c m sw e r Ef Harch E) as (_ & -> & _). contradiction. }
    { (* deleting / archiving *)
      rewrite Hgb, Hab. cbn [negb orb andb]. rewrite andb_true_r.
      destruct (C06_archival_status (sc_force c) (sc_world c) _ _ _ m sw e r rv cs co rm fph ok Ef' Hg E Hin) as [Ha Hco].
      rewrite Ha. cbn [andb]. destruct (cond_true cs CArchived); [|reflexivity]. now rewrite (Hco eq_refl). }
    rewrite Hgb, Hab. cbn [negb orb andb].
    destruct (SetMonitors.keys_nodup m) eqn:Hk; [|reflexivity]. cbn [negb orb].
    assert (Hkeep : keepish m cs fph ->
      match find_cond cs CAvailable with
      | Some cd => negb (cstatus_eqb (cd_status cd) STrue) || option_eqb cond_eqb (find_cond (os_conds m) CAvailable) (Some cd) || false
      | None => true end = true /\
      negb (cond_true cs CSucceeded) || cond_true (os_conds m) CSucceeded = true /\
      match find_cond cs CInTransition with
      | Some _ => true
      | None => match find_cond (os_conds m) CInTransition with None => true | Some _ => false end end = true).
    { intros (_ & Ha & Hs & Hi). split; [|split].
      - destruct (find_cond cs CAvailable) as [cd|] eqn:Hcd; [|reflexivity]. destruct Ha as [Ha|(cd' & Ha & Hf)].
        + rewrite <- Ha. cbn. rewrite cond_eqb_refl'. now rewrite orb_true_r.
        + injection Ha as <-. now rewrite Hf.
      - unfold cond_true. rewrite Hs. destruct (match find_cond (os_conds m) CSucceeded with Some c0 => _ | None => false end); reflexivity.
      - rewrite Hi. destruct (find_cond (os_conds m) CInTransition); reflexivity. }
    assert (Hkeep' : keepish m cs fph ->
      match find_cond cs CAvailable with
      | Some cd => negb (cstatus_eqb (cd_status cd) STrue) || option_eqb cond_eqb (find_cond (os_conds m) CAvailable) (Some cd) ||
                   (Z.eqb (cd_gen cd) (os_gen m) && match fph with None => true | Some _ => false end &&
                    forallb (phase_okb m (w_store (sw_w sw))) (locals m) &&
                    forallb (fun k => match lookup k (w_store (sw_w sw)) with Some o => is_controller Native (os_id m) o | None => false end ||
                                      existsb (fun ph => match C15Corr.last_seen (C15Corr.join m ph) e None with
                                                         | Some (Some cur) => controlled_by_uid (op_owners cur) (oi_uid (os_id m)) && existsb (okey_eqb k) (op_ctrlof cur)
                                                         | _ => false end) (C15Corr.delegated m)) co &&
                    forallb (fun k => match lookup k (w_store (sw_w sw)) with
                                      | Some o => negb (is_controller Native (os_id m) o) || existsb (okey_eqb k) co
                                      | None => true end) (all_keys m))
      | None => true end &&
      (negb (cond_true cs CSucceeded) || cond_true (os_conds m) CSucceeded ||
       (cond_true cs CAvailable && match find_cond cs CInTransition with None => true | Some _ => false end)) &&
      match find_cond cs CInTransition with
      | Some _ => true
      | None => match find_cond (os_conds m) CInTransition with
                | None => true
                | Some _ => forallb (fun k => existsb (okey_eqb k) co) (map (spec_key m) (all_objects m)) || false
                end
      end = true).
    { intros Hkp. destruct (Hkeep Hkp) as (H1 & H2 & H3). apply andb_true_iff. split; [apply andb_true_iff; split|].
      - destruct (find_cond cs CAvailable) as [cd|]; [|reflexivity]. rewrite orb_false_r in H1. now rewrite H1.
      - now rewrite H2.
      - destruct (find_cond cs CInTransition); [reflexivity|]. destruct (find_cond (os_conds m) CInTransition); [discriminate|reflexivity]. }
    destruct (objectset_pass_active2 (sc_force c) (sc_world c) _ _ _ m sw e r Ef' Hact E) as [Hs|Hr].
    { apply Hkeep'. eapply keeps2_keepish. eapply stopped2_meta; eauto. }
    destruct Hr as (mem1 & sw1 & sw2 & pevs & rem & pr & pre & Hs & Hst1 & Hph1 & _ & _ & _ & Hdup & Hrp & Hst & Hph & _ & Hpre & Hal).
    pose proof (after_loop2_coh _ _ _ _ _ _ _ _ _ _ _ _ Hrp Hpre Hal) as Hcoh.
    pose proof Hs as (Hid & Hphs & Hlife & Hgen & _ & Hconds & _).
    destruct (after_loop2_meta _ _ _ _ _ _ _ _ _ _ _ _ _ Hrp Hpre Hal Hin) as [Hk2|(f & ok' & Hf & He)].
    { apply Hkeep'. eapply keeps2_keepish; eauto. }
    unfold tail_status in Hf. destruct pr as [e0| | |ctrlof failed].
    { destruct (is_collision e0); [|discriminate]. injection Hf as <-. unfold status_ev, status_ev_f in He.
      remember (fail_mem _ _) as fm eqn:Efm in He. injection He as _ -> _ _ -> _. subst fm. apply Hkeep'. now apply fail_mem_keepish. }
    { discriminate Hf. }
    { injection Hf as <-. unfold status_ev, status_ev_f in He.
      remember (fail_mem _ _) as fm eqn:Efm in He. injection He as _ -> _ _ -> _. subst fm. apply Hkeep'. now apply fail_mem_keepish. }
    (* the status computed after the loop *)
    injection Hf as <-. unfold status_ev_f in He. set (mem2 := set_remotes mem1 rem) in *.
    remember (final_status (sw_phases sw2) mem2 ctrlof failed) as fs eqn:Efs in He. injection He as _ -> -> _ -> _. subst fs.
    assert (Hco : os_ctrlof (final_status (sw_phases sw2) mem2 ctrlof failed) = ctrlof) by now destruct (final_status_available (sw_phases sw2) mem2 ctrlof failed) as (? & _ & _ & _ & ?).
    rewrite Hco.
    pose proof (dup_zero_nodup _ Hdup) as Hnd1.
    destruct (rpm_passed (sc_force c) mem1 _ _ _ _ _ _ _ _ _ _ _ Hrp Hnd1) as (ppre & ppost & Hsplit & Hpassed & Hfailed & _ & _).
    destruct (rpm_ctrlof_state (sc_force c) mem1 _ _ _ _ _ _ _ _ _ _ _ Hrp Hnd1) as (new & Hnew & Hsound). cbn [app] in Hnew. subst new.
    assert (Hconds2 : os_conds mem2 = os_conds m) by exact Hconds.
    assert (Hread_e : forall nm, read_in pevs nm -> read_in e nm).
    { intros nm Hr. unfold after_loop2 in Hal. destruct Hal as (ok2 & -> & _). apply read_in_app_r. now apply read_in_app_l. }
    assert (Hseen : forall q cur, phase_obj_of sw2 mem1 q = Some cur -> read_in pevs (pobj_name mem1 q) ->
                      C15Corr.last_seen (C15Corr.join m q) e None = Some (Some cur)).
    { intros q cur Hq Hr. unfold pobj_name in Hr. rewrite Hid in Hr. fold (C15Corr.join m q) in Hr.
      specialize (Hcoh (C15Corr.join m q)). pose proof (last_seen_read _ _ (Hread_e _ Hr) None) as Hne.
      destruct (C15Corr.last_seen (C15Corr.join m q) e None) as [x|]; [|contradiction]. subst x.
      unfold phase_obj_of, pobj_name in Hq. unfold C15Corr.join. now rewrite <- Hid, Hq. }
    apply andb_true_iff. split; [apply andb_true_iff; split|].
    + (* Available *)
      rewrite final_status_available_eq. destruct failed as [nf|]; [reflexivity|]. cbn [cd_status mk_cond cstatus_eqb negb orb cd_gen].
      apply orb_true_iff. right. subst ppost. rewrite app_nil_r in Hsplit. subst ppre.
      assert (os_gen mem2 = os_gen m) as -> by exact Hgen. rewrite Z.eqb_refl. cbn [andb].
      apply andb_true_iff. split; [apply andb_true_iff; split|].
      * apply forallb_forall. intros q Hq. unfold locals in Hq. apply filter_In in Hq. destruct Hq as [Hq Hcq]. apply negb_true_iff in Hcq.
        rewrite <- Hphs in Hq. pose proof (Hpassed q Hq) as Hpq. unfold passed in Hpq. rewrite Hcq in Hpq. rewrite Hst.
        apply phase_ok2_okb. eapply phase_ok2_same; eauto.
      * apply forallb_forall. intros k Hkc. rewrite Forall_forall in Hsound. apply orb_true_iff.
        destruct (Hsound k Hkc) as [[_ (o & Ho & Hc)]|(q & cur & Hq & Hcq & Hcur & Hown & Hkq & Hrd)].
        -- left. rewrite Hst, Ho. cbn [ow_id as_owner] in Hc. now rewrite <- Hid.
        -- right. apply existsb_exists. exists q. split; [unfold C15Corr.delegated; apply filter_In; rewrite <- Hphs; auto|].
           rewrite (Hseen q cur Hcur Hrd). rewrite <- Hid, Hown. cbn [andb]. now apply existsb_okey.
      * apply forallb_forall. intros k Hkk. rewrite Hst.
        destruct (lookup k (w_store (sw_w sw2))) as [o|] eqn:Ho; [|reflexivity].
        destruct (is_controller Native (os_id m) o) eqn:Hc; [|reflexivity]. cbn [negb orb]. apply existsb_okey.
        eapply (rpm_ctrlof_complete (sc_force c) mem1 _ _ _ _ _ _ _ _ _ _ Hrp Hnd1).
        -- rewrite all_keys_eq in Hkk. unfold local_keys. fold (local_phases mem1).
           destruct (as_owner_keys _ _ Hs) as (Hl & _). rewrite Hl.
           erewrite flat_map_ext; [exact Hkk|]. intros ph. now apply phase_keys_same.
        -- exists o. split; [exact Ho|]. cbn [ow_id as_owner]. now rewrite Hid.
    + (* Succeeded *)
      destruct (cond_true (os_conds (final_status (sw_phases sw2) mem2 ctrlof failed)) CSucceeded) eqn:Hs1; [|reflexivity].
      destruct (cond_true (os_conds m) CSucceeded) eqn:Hs0; [reflexivity|]. cbn [negb orb].
      rewrite <- Hconds2 in Hs0.
      destruct (proj2 (final_status_succeeded (sw_phases sw2) mem2 ctrlof failed) Hs0 Hs1) as [-> Hintr].
      unfold cond_true at 1. rewrite final_status_available_eq, final_status_in_transition_eq, Hintr. reflexivity.
    + (* InTransition *)
      rewrite final_status_in_transition_eq. destruct (in_transition (set_ctrlof mem2 ctrlof) ctrlof) eqn:Hintr; [reflexivity|].
      rewrite ?Hab, ?Hk in Hlit. cbn [negb orb] in Hlit.
      destruct (find_cond (os_conds m) CInTransition) as [ci|]; [|reflexivity]. rewrite orb_false_r.
      rewrite forallb_forall in Hlit.
      set (all := dedup_keys (map (spec_key m) (all_objects m))).
      assert (Hspec : map (spec_key (set_ctrlof mem2 ctrlof)) (all_objects (set_ctrlof mem2 ctrlof)) = map (spec_key m) (all_objects m)).
      { unfold all_objects. cbn [os_phases set_ctrlof set_remotes mem2]. rewrite Hphs. apply map_ext. intros p0.
        unfold spec_key, desired_key, as_owner. cbn [ow_id os_id set_ctrlof set_remotes mem2]. now rewrite Hid. }
      assert (Hfold : fold_left remove_ctrl ctrlof all = []).
      { unfold in_transition in Hintr. cbn [os_life set_ctrlof set_remotes mem2] in Hintr. rewrite Hlife in Hintr.
        destruct Hact as (_ & _ & Hna). destruct (lifecycle_eqb (os_life m) LArchived) eqn:El; [apply lifecycle_eqb_spec in El; contradiction|].
        rewrite Hspec in Hintr. apply negb_false_iff in Hintr. fold all in Hintr. destruct (fold_left remove_ctrl ctrlof all); [reflexivity|discriminate]. }
      destruct (rpm_ctrlof_once (sc_force c) mem1 _ _ _ _ _ _ _ _ _ _ _ Hrp Hnd1) as (new & Hnew & Honce). cbn [app] in Hnew. subst new.
      assert (Hent : forall x, In x ctrlof -> k_ns x = 0 -> good_ref all x \/ (In x all /\ count_occ okey_dec ([] ++ ctrlof) x = 1%nat)).
      { intros x Hx Hns. rewrite Forall_forall in Honce.
        destruct (Honce x Hx) as [(q & cur & Hq & Hcq & Hcur & _ & Hkq & _)|[Hloc Hcnt]].
        - left. apply nsless_literal_good; [|exact Hns]. unfold phase_obj_of in Hcur.
          destruct (rpm_back (sc_force c) mem1 _ _ _ _ _ _ _ _ _ _ _ _ _ _ Hrp Hcur) as [Hnil|(p0 & Hp0 & Hc0')]; [rewrite Hnil in Hkq; contradiction|].
          assert (Hq' : In q (C15Corr.delegated m)) by (unfold C15Corr.delegated; apply filter_In; rewrite <- Hphs; auto).
          specialize (Hlit q Hq'). rewrite Hph1 in Hp0. unfold pobj_name in Hp0. unfold phase_kind in Hp0, Hlit. rewrite Hid in Hp0.
          change (sw_phases (sc_world c)) with (sc_phases c) in Hp0. unfold C15Corr.join in Hlit. rewrite Hp0 in Hlit.
          rewrite forallb_forall in Hlit. apply Hlit. now rewrite Hc0'.
        - right. split; [|exact Hcnt]. apply dedup_keys_in.
          unfold local_keys in Hloc. apply in_flat_map in Hloc. destruct Hloc as (ph & Hph' & Hkp).
          apply filter_In in Hph'. destruct Hph' as [Hph' _]. rewrite (phase_keys_same _ _ Hs) in Hkp.
          unfold phase_keys in Hkp. apply in_map_iff in Hkp. destruct Hkp as (p0 & <- & Hp0).
          apply in_map. unfold all_objects. apply in_flat_map. exists ph. split; [now rewrite <- Hphs|exact Hp0]. }
      apply forallb_forall. intros k Hkk. apply existsb_okey.
      apply (fold_remove_literal all ctrlof [] all (incl_refl _)); [intros k0 Hk0 Hn0; contradiction|exact Hent|exact Hfold|now apply dedup_keys_in].
Qed.

(** *** The refuting case: a delegated phase whose phase object reports its (namespaced) object without a namespace.
    The model - like isObjectSetInTransition - lets that reference stand for the listed object and clears
    InTransition; the monitor demands the listed key literally in controllerOf and raises a false alarm. *)
Definition x_avail (g : Z) : cond := {| cd_type := CAvailable; cd_status := STrue; cd_reason := RAvailable; cd_gen := g |}.
Definition x_intr : cond := {| cd_type := CInTransition; cd_status := STrue; cd_reason := RInTransition; cd_gen := 1 |}.
Definition x_pobj (nm : N) (paused : bool) (ctrlof : list okey) (conds : list cond) : osphase :=
  {| op_id := {| oi_kind := KObjectSetPhase; oi_ns := 1; oi_name := nm; oi_uid := 300 |}; op_rv := 7; op_gen := 1;
     op_owners := [x_ref]; op_deleting := false; op_fin := true; op_orphan := false; op_pkg := 0; op_class := 1;
     op_paused := paused; op_revision := 1; op_prev := []; op_objects := [x_po 1 1]; op_conds := conds; op_ctrlof := ctrlof |}.
Definition x_remote_set (life : lifecycle) (conds : list cond) (remotes : list (N * N)) (revision : Z) (prev : list N) : oset :=
  x_set [ {| ph_name := 1; ph_class := true; ph_objects := [x_po 1 1] |} ] life conds remotes revision prev.
Definition x_nsless_case : scase :=
  case_of false (x_world [] [x_remote_set LActive [x_intr] [] 1 []]
                   [x_pobj 10001 false [{| k_gk := 1; k_ns := 0; k_name := 1 |}] [x_avail 1]]) KObjectSet 1 10.

Theorem m06_refuted :
  exists c, nsless_refs_literal c = false /\ m06 (set_obs_s c (SetCorr.model_run c)) = false.
Proof. exists x_nsless_case. vm_compute. split; reflexivity. Qed.

(** the hypothesis holds (non-trivially: InTransition is stored, the phase object reports a reference) when the
    reference carries the namespace; the same pass then clears InTransition and the monitor accepts it *)
Definition x_nsfull_case : scase :=
  case_of false (x_world [] [x_remote_set LActive [x_intr] [] 1 []]
                   [x_pobj 10001 false [x_key 1 1] [x_avail 1]]) KObjectSet 1 10.
Example m06_hypothesis_satisfiable :
  nsless_refs_literal x_nsfull_case = true /\
  map (fun s => let '(cs, co, _, _) := s in (find_cond cs CInTransition, co)) (statuses (set_obs_s x_nsfull_case (SetCorr.model_run x_nsfull_case)))
  = [(None, [x_key 1 1])].
Proof. vm_compute. split; reflexivity. Qed.

(** ** m09d: the pause state reaches the phase objects the pass obtained *)
Lemma last_seen_untouched nm l : untouched l nm -> forall acc, C15Corr.last_seen nm l acc = acc.
Proof.
  induction l as [|e l IH]; intros H acc; [reflexivity|]. inversion H as [|? ? He Hl]; subst.
  destruct e as [x|ms|p]; cbn [C15Corr.last_seen]; try now apply IH.
  destruct p as [n r|n [p|]|n pa [p|]|n r|n ok|n ad ok|n cs co ok]; cbn [pev_name] in He; try now apply IH.
  all: apply N.eqb_neq in He; rewrite He; now apply IH.
Qed.

Lemma upto_failing_incl phs n q : In q (C15Corr.upto_failing phs n) -> In q phs.
Proof.
  induction phs as [|ph phs IH]; cbn; [auto|]. destruct (ph_name ph =? n); cbn.
  - intros [<-|[]]. now left.
  - intros [<-|H]; [now left|right; now apply IH].
Qed.

Lemma upto_failing_split l2 ph n q : forall l1,
  ph_name ph = n -> In q (C15Corr.upto_failing (l1 ++ ph :: l2) n) -> In q (l1 ++ [ph]).
Proof.
  induction l1 as [|h l1 IH]; intros Hn Hq; cbn in *.
  - rewrite Hn, N.eqb_refl in Hq. exact Hq.
  - destruct (ph_name h =? n); cbn in Hq.
    + destruct Hq as [<-|[]]. now left.
    + destruct Hq as [<-|Hq]; [now left|right; now apply IH].
Qed.

Lemma names_nodup_spec m : C15Corr.names_nodup m = true -> NoDup (delegated_names m (os_phases m)).
Proof. apply (nodupb_spec N.eqb N.eqb_eq). Qed.

(** an active ObjectSet that has not been given a revision yet records no remote phase under the name of one of its
    delegated phases *)
Definition rev_before_remotes (c : scase) : bool :=
  match find_set (sc_sets c) (sc_kind c) (sc_ns c) (sc_name c) with
  | Some m => negb (is_activeb m) || negb (Z.eqb (os_revision m) 0) ||
              forallb (fun ph => negb (existsb (fun r => fst r =? C15Corr.join m ph) (os_remotes m))) (C15Corr.delegated m)
  | None => true
  end.

Lemma last_seen_reads_other phs kind ns nm refs : existsb (fun r => fst r =? nm) refs = false ->
  forall acc, C15Corr.last_seen nm (paused_reads_l phs kind ns refs) acc = acc.
Proof.
  induction refs as [|x l IH]; intros H acc; [reflexivity|]. cbn in H. apply orb_false_iff in H. destruct H as [Hx Hl].
  cbn [paused_reads_l]. destruct (find_phase phs kind ns (fst x)); cbn [C15Corr.last_seen]; rewrite Hx; [now apply IH|reflexivity].
Qed.

Lemma stopped2_no_reads sw m sw' e q :
  negb (Z.eqb (os_revision m) 0) ||
  forallb (fun ph => negb (existsb (fun r => fst r =? C15Corr.join m ph) (os_remotes m))) (C15Corr.delegated m) = true ->
  In q (C15Corr.delegated m) -> stopped2 sw m sw' e ->
  forall acc, C15Corr.last_seen (C15Corr.join m q) e acc = acc.
Proof.
  intros Hh Hq (_ & _ & _ & pre & reads & post & -> & Hpre & Hpost & Hreads) acc.
  rewrite !last_seen_app, (last_seen_keeps2 _ _ _ Hpre), (last_seen_keeps2 _ _ _ Hpost).
  destruct Hreads as [->|[Hz ->]]; [reflexivity|]. rewrite Hz in Hh. cbn in Hh. rewrite forallb_forall in Hh.
  apply last_seen_reads_other. apply negb_true_iff. now apply Hh.
Qed.

Theorem m09d_sound_partial (c : scase) :
  rev_before_remotes c = true -> m09d (set_obs_s c (SetCorr.model_run c)) = true.
Proof.
  intros Hrb. unfold m09d, C15Corr.m_pause, rev_before_remotes in *. destruct (SetCorr.model_run c) as [[sw e] r] eqn:E.
  cbn [as_dobs C15Corr.ds_step C15Corr.ds_pre_set set_obs_s sc_sets sc_kind sc_ns sc_name].
  destruct (find_set (sc_sets c) (sc_kind c) (sc_ns c) (sc_name c)) as [m|] eqn:Ef; [|reflexivity].
  change (C15Corr.is_activeb m) with (is_activeb m).
  destruct (is_activeb m) eqn:Ha; [|reflexivity]. cbn [negb orb] in *.
  destruct (C15Corr.names_nodup m) eqn:Hn; [|reflexivity]. cbn [negb orb].
  pose proof (is_activeb_spec m Ha) as Hact. apply names_nodup_spec in Hn.
  assert (Ef' : find_set (sw_sets (sc_world c)) (sc_kind c) (sc_ns c) (sc_name c) = Some m) by exact Ef.
  unfold SetCorr.model_run in E.
  apply forallb_forall. intros q Hq. apply filter_In in Hq. destruct Hq as [Hq Hcq].
  unfold C15Corr.pause_synced, C15Corr.evs. cbn [as_dobs C15Corr.ds_events set_obs_s sc_events].
  destruct (C15Corr.last_seen (C15Corr.join m q) e None) as [[cur|]|] eqn:Hls; try reflexivity.
  assert (Hgoal : synced_or_foreign m cur ->
    negb (controlled_by_uid (op_owners cur) (oi_uid (os_id m))) || op_deleting cur ||
    Bool.eqb (op_paused cur) (lifecycle_eqb (os_life m) LPaused) ||
    existsb (fun e0 => match e0 with SPhase (PPause m0 pa _) => (m0 =? C15Corr.join m q) && Bool.eqb pa (lifecycle_eqb (os_life m) LPaused) | _ => false end) e = true).
  { intros [Hp|Hf]; [|now rewrite Hf]. unfold desired_paused in Hp. rewrite Hp, Bool.eqb_reflx. now rewrite !orb_true_r. }
  apply Hgoal. clear Hgoal.
  destruct (objectset_pass_active2 (sc_force c) (sc_world c) _ _ _ m sw e r Ef' Hact E) as [Hs|Hr].
  { assert (Hqd : In q (C15Corr.delegated m)).
    { unfold C15Corr.delegated. apply filter_In. split; [|exact Hcq].
      match type of Hq with In q (match ?fp with _ => _ end) => destruct fp end; [eapply upto_failing_incl; eauto|exact Hq]. }
    rewrite (stopped2_no_reads _ _ _ _ _ Hrb Hqd Hs) in Hls. discriminate. }
  destruct Hr as (mem1 & sw1 & sw2 & pevs & rem & pr & pre & Hs & _ & _ & _ & _ & _ & Hdup & Hrp & _ & _ & _ & Hpre & Hal).
  pose proof (after_loop2_coh _ _ _ _ _ _ _ _ _ _ _ _ Hrp Hpre Hal) as Hcoh.
  pose proof Hs as (Hid & Hphs & Hlife & _).
  assert (Hstored : find_phase (sw_phases sw2) (phase_kind mem1) (oi_ns (os_id mem1)) (pobj_name mem1 q) = Some cur).
  { specialize (Hcoh (C15Corr.join m q)). rewrite Hls in Hcoh. unfold pobj_name. rewrite Hid in Hcoh |- *. symmetry. exact Hcoh. }
  assert (Hsync_same : forall p, synced_or_foreign mem1 p -> synced_or_foreign m p).
  { intros p. unfold synced_or_foreign, desired_paused. now rewrite Hid, Hlife. }
  assert (Hother : forall tail, e = pre ++ pevs ++ tail -> (forall nm acc, C15Corr.last_seen nm tail acc = acc) -> In q (os_phases m) -> synced_or_foreign m cur).
  { intros tail He Htail Hqin. apply Hsync_same. rewrite <- Hphs in Hqin.
    assert (Hnd : NoDup (delegated_names mem1 (os_phases mem1))) by (rewrite (names_same _ _ Hs); exact Hn).
    destruct (rpm_touched_synced (sc_force c) mem1 _ _ _ _ _ _ _ _ _ _ Hrp Hnd q Hqin Hcq) as [Hu|(p & Hp & Hsy)].
    - exfalso. rewrite He, !last_seen_app, (last_seen_keeps2 _ _ _ Hpre), Htail in Hls.
      unfold pobj_name in Hu. rewrite Hid in Hu. fold (C15Corr.join m q) in Hu. rewrite (last_seen_untouched _ _ Hu) in Hls. discriminate.
    - unfold phase_obj_of in Hp. rewrite Hp in Hstored. now injection Hstored as <-. }
  assert (Hq_all : forall fp, In q (match fp with Some n0 => C15Corr.upto_failing (os_phases m) n0 | None => os_phases m end) -> In q (os_phases m)).
  { intros [n0|] H; [eapply upto_failing_incl; eauto|exact H]. }
  unfold after_loop2 in Hal. destruct pr as [e0| | |ctrlof failed].
  - destruct (is_collision e0).
    + destruct Hal as (ok & He & _). apply (Hother [status_ev (fail_mem (set_remotes mem1 rem) RCollisionDetected) ok] He); [reflexivity|eapply Hq_all; eauto].
    + destruct Hal as [He _]. rewrite <- (app_nil_r pevs) in He. apply (Hother [] He); [reflexivity|eapply Hq_all; eauto].
  - destruct Hal as [He _]. rewrite <- (app_nil_r pevs) in He. apply (Hother [] He); [reflexivity|eapply Hq_all; eauto].
  - destruct Hal as (ok & He & _). apply (Hother [status_ev (fail_mem (set_remotes mem1 rem) RPreflightError) ok] He); [reflexivity|eapply Hq_all; eauto].
  - destruct Hal as (ok & He & _).
    match type of Hq with context [C15Corr.failing_phase ?o] => assert (Hfp : C15Corr.failing_phase o = failed) end.
    { unfold C15Corr.failing_phase, C15Corr.evs. cbn [as_dobs C15Corr.ds_events set_obs_s sc_events]. rewrite He.
      rewrite !app_assoc, flat_map_app. cbn [flat_map status_ev_f app]. apply last_last. }
    rewrite Hfp in Hq.
    pose proof (dup_zero_nodup _ Hdup) as Hnd1.
    destruct (rpm_passed (sc_force c) mem1 _ _ _ _ _ _ _ _ _ _ _ Hrp Hnd1) as (ppre & ppost & Hsplit & Hpassed & Hfailed & _ & _).
    rewrite Hphs in Hsplit. apply Hsync_same.
    assert (Hcase : In q ppre \/ exists ph post', ppost = ph :: post' /\ q = ph /\ fails sw2 mem1 (as_owner mem1) ph).
    { destruct failed as [nf|].
      - destruct Hfailed as (ph & post' & -> & Hname & Hf). rewrite Hsplit in Hq.
        apply (upto_failing_split post' ph nf q ppre Hname) in Hq. apply in_app_or in Hq. destruct Hq as [Hq|[<-|[]]]; [now left|right; eauto].
      - subst ppost. rewrite app_nil_r in Hsplit. left. now rewrite <- Hsplit. }
    destruct Hcase as [Hqp|(ph & post' & _ & -> & Hf)].
    + pose proof (Hpassed q Hqp) as Hpq. unfold passed in Hpq. rewrite Hcq in Hpq. destruct Hpq as (p & Hp & _ & _ & Hsy).
      unfold phase_obj_of in Hp. rewrite Hp in Hstored. injection Hstored as <-. now left.
    + unfold fails in Hf. rewrite Hcq in Hf. destruct Hf as (p & active & Hp & _ & _ & Hsy).
      unfold phase_obj_of in Hp. rewrite Hp in Hstored. injection Hstored as <-. now left.
Qed.

(** *** The refuting case: an ObjectSet that waits for its previous revision (status.revision still 0) but - which no
    run of the controller produces - already has the phase object of its delegated phase recorded in
    status.remotePhases reads that phase object for the Paused condition and does not pause-patch it: the monitor
    expects every phase object the pass obtained to be synced. *)
Definition x_prev_set : oset :=
  {| os_id := {| oi_kind := KObjectSet; oi_ns := 1; oi_name := 9; oi_uid := 99 |}; os_rv := 4; os_gen := 1; os_deleting := false;
     os_fin := true; os_orphan := false; os_pkg := 0; os_life := LActive; os_phases := []; os_prev := []; os_revision := 0;
     os_conds := []; os_ctrlof := []; os_remotes := [] |}.
Definition x_requeue_case : scase :=
  case_of false (x_world [] [x_remote_set LPaused [] [(10001, 300)] 0 [9]; x_prev_set] [x_pobj 10001 false [] [x_avail 1]]) KObjectSet 1 10.

Theorem m09d_refuted :
  exists c, rev_before_remotes c = false /\ m09d (set_obs_s c (SetCorr.model_run c)) = false.
Proof. exists x_requeue_case. vm_compute. split; reflexivity. Qed.

(** the hypothesis holds on a paused ObjectSet with a revision whose phase object is not paused yet: the pass sends
    the pause patch *)
Definition x_pause_case : scase :=
  case_of false (x_world [] [x_remote_set LPaused [] [(10001, 300)] 1 []] [x_pobj 10001 false [] [x_avail 1]]) KObjectSet 1 10.
Example m09d_hypothesis_satisfiable :
  rev_before_remotes x_pause_case = true /\
  existsb (fun e => match e with SPhase (PPause 10001 true _) => true | _ => false end)
          (sc_events (set_obs_s x_pause_case (SetCorr.model_run x_pause_case))) = true.
Proof. vm_compute. split; reflexivity. Qed.

(** ** Prefix-indexed monitors (C15Corr): helper lemmas *)
Lemma with_prefix_app {A} (a : list A) : forall p b,
  C15Corr.with_prefix p (a ++ b) = C15Corr.with_prefix p a ++ C15Corr.with_prefix (p ++ a) b.
Proof.
  induction a as [|x a IH]; intros p b; cbn [app C15Corr.with_prefix]; [now rewrite app_nil_r|].
  rewrite IH. now rewrite <- app_assoc.
Qed.

Lemma forallb_with_prefix {A} (F : list A * A -> bool) (l : list A) : forall p,
  (forall l1 x l2, l = l1 ++ x :: l2 -> F (p ++ l1, x) = true) -> forallb F (C15Corr.with_prefix p l) = true.
Proof.
  induction l as [|a l IH]; intros p H; [reflexivity|]. cbn [C15Corr.with_prefix forallb].
  apply andb_true_iff. split.
  - specialize (H [] a l eq_refl). now rewrite app_nil_r in H.
  - apply IH. intros l1 x l2 ->. specialize (H (a :: l1) x l2 eq_refl). now rewrite <- app_assoc.
Qed.

(** which phase an event writes to, as [C15Corr.phase_idx] decides it *)
Definition hitb (s : oset) (ph : phase) (e : sev) : bool :=
  match e with
  | SMember x => negb (ph_class ph) && existsb (okey_eqb (ev_key x)) (map (spec_key s) (ph_objects ph))
  | SPhase (PCreate m _) | SPhase (PPause m _ _) | SPhase (PDelete m _) | SPhase (PStrip m _) => ph_class ph && (m =? C15Corr.join s ph)
  | _ => false
  end.

Lemma phase_idx_cons s ph r e i :
  C15Corr.phase_idx s (ph :: r) e i = if hitb s ph e then Some i else C15Corr.phase_idx s r e (S i).
Proof. destruct e as [x|ms|p]; [reflexivity|reflexivity|destruct p; reflexivity]. Qed.

Lemma phase_idx_exact' s ph back e : forall front i,
  (forall q, In q front -> hitb s q e = false) -> hitb s ph e = true ->
  C15Corr.phase_idx s (front ++ ph :: back) e i = Some (i + length front)%nat.
Proof.
  induction front as [|q front IH]; intros i Hno Hhit; cbn [app].
  - rewrite phase_idx_cons, Hhit. cbn. f_equal. lia.
  - rewrite phase_idx_cons, (Hno q (or_introl eq_refl)), IH; [cbn; f_equal; lia| |exact Hhit].
    intros q' Hq'. apply Hno. now right.
Qed.

Lemma phase_idx_le s ph back e : forall front i,
  hitb s ph e = true ->
  exists j, C15Corr.phase_idx s (front ++ ph :: back) e i = Some (i + j)%nat /\ (j <= length front)%nat.
Proof.
  induction front as [|q front IH]; intros i Hhit; cbn [app].
  - exists O. rewrite phase_idx_cons, Hhit. split; [f_equal; lia|cbn; lia].
  - rewrite phase_idx_cons. destruct (hitb s q e).
    + exists O. split; [f_equal; lia|cbn; lia].
    + destruct (IH (S i) Hhit) as (j & Hj & Hle). exists (S j). split; [rewrite Hj; f_equal; lia|cbn; lia].
Qed.

Lemma phase_idx_none s e : forall phs i, (forall q, In q phs -> hitb s q e = false) -> C15Corr.phase_idx s phs e i = None.
Proof.
  induction phs as [|q phs IH]; intros i H; [reflexivity|]. rewrite phase_idx_cons, (H q (or_introl eq_refl)).
  apply IH. intros q' Hq'. apply H. now right.
Qed.

Lemma skipn_app_exact {A} (l1 : list A) x l2 : skipn (S (length l1)) (l1 ++ x :: l2) = l2.
Proof. induction l1 as [|a l1 IH]; [reflexivity|exact IH]. Qed.

Lemma seen_gone_untouched uid nm b l : untouched l nm -> C15Corr.seen_gone uid nm (b ++ l) = C15Corr.seen_gone uid nm b.
Proof. intros H. unfold C15Corr.seen_gone. now rewrite last_seen_app, (last_seen_untouched _ _ H). Qed.

Lemma seen_available_untouched nm b l : untouched l nm -> C15Corr.seen_available nm (b ++ l) = C15Corr.seen_available nm b.
Proof. intros H. unfold C15Corr.seen_available. now rewrite last_seen_app, (last_seen_untouched _ _ H). Qed.

Lemma meta_untouched ms nm : untouched [SMeta ms] nm.
Proof. constructor; [exact I|constructor]. Qed.

Lemma keeps2_untouched mem0 l nm : Forall (keeps2 mem0) l -> untouched l nm.
Proof. intros H. eapply Forall_impl; [|exact H]. intros e He. destruct e as [x|ms|p]; try contradiction. exact I. Qed.

(** ** m04d: teardown order over delegated phases *)
Definition td_check (s : oset) (pe : list sev * sev) : bool :=
  let '(before, e) := pe in
  (negb (os_orphan s) || match e with SMember _ | SPhase (PDelete _ _) | SPhase (PStrip _ _) => false | _ => true end) &&
  match e with
  | SPhase (PDelete nm _) | SPhase (PStrip nm _) =>
      match C15Corr.last_seen nm before None with Some (Some cur) => controlled_by_uid (op_owners cur) (oi_uid (os_id s)) | _ => false end
  | _ => true end &&
  match C15Corr.phase_idx s (os_phases s) e O with
  | Some j => forallb (fun ph => negb (ph_class ph) || C15Corr.seen_gone (oi_uid (os_id s)) (C15Corr.join s ph) before) (skipn (S j) (os_phases s))
  | None => match e with SMember _ => false | SPhase (PCreate _ _) | SPhase (PPause _ _ _) | SPhase (PDelete _ _) | SPhase (PStrip _ _) => false | _ => true end
  end &&
  match e with
  | SMeta (MFinalizer false _) => negb (os_fin s) || os_orphan s || forallb (fun ph => C15Corr.seen_gone (oi_uid (os_id s)) (C15Corr.join s ph) before) (C15Corr.delegated s)
  | SMeta (MStatus _ cs _ _ _ _) => negb (cond_true cs CArchived) || negb (os_fin s) || os_orphan s ||
                                     forallb (fun ph => C15Corr.seen_gone (oi_uid (os_id s)) (C15Corr.join s ph) before) (C15Corr.delegated s)
  | _ => true end.

Lemma td_check_get s b n r : td_check s (b, SPhase (PGet n r)) = true.
Proof. unfold td_check. rewrite phase_idx_none by (intros; reflexivity). now rewrite orb_true_r. Qed.

Definition later_gone (s : oset) (b : list sev) (back : list phase) : Prop :=
  forall q, In q back -> ph_class q = true -> C15Corr.seen_gone (oi_uid (os_id s)) (C15Corr.join s q) b = true.

Lemma later_gone_forallb s b back : later_gone s b back ->
  forallb (fun ph => negb (ph_class ph) || C15Corr.seen_gone (oi_uid (os_id s)) (C15Corr.join s ph) b) back = true.
Proof. intros H. apply forallb_forall. intros q Hq. destruct (ph_class q) eqn:E; [|reflexivity]. cbn. now apply H. Qed.

Lemma td_check_write s b e front ph back :
  os_orphan s = false -> os_phases s = front ++ ph :: back ->
  (forall q, In q front -> hitb s q e = false) -> hitb s ph e = true -> later_gone s b back ->
  match e with
  | SPhase (PDelete nm _) | SPhase (PStrip nm _) =>
      match C15Corr.last_seen nm b None with Some (Some cur) => controlled_by_uid (op_owners cur) (oi_uid (os_id s)) | _ => false end
  | _ => true end = true ->
  match e with SMeta _ => False | _ => True end ->
  td_check s (b, e) = true.
Proof.
  intros Ho Hsplit Hno Hhit Hlg Hrd Hnm. unfold td_check. rewrite Ho, Hrd, Hsplit, (phase_idx_exact' s ph back e front O Hno Hhit).
  cbn [negb orb plus andb]. rewrite skipn_app_exact, (later_gone_forallb _ _ _ Hlg). cbn [andb].
  destruct e as [x|ms|p]; [reflexivity|contradiction|destruct p; reflexivity].
Qed.

Lemma remote_teardown_trace sw s ph sw1 e1 r :
  remote_teardown sw s ph = (sw1, e1, r) ->
  (e1 = [SPhase (PGet (pobj_name s ph) None)] /\ r = TdOk true) \/
  (exists cur, controlled_by_uid (op_owners cur) (oi_uid (os_id s)) = false /\ e1 = [SPhase (PGet (pobj_name s ph) (Some cur))] /\ r = TdOk true) \/
  (exists cur, controlled_by_uid (op_owners cur) (oi_uid (os_id s)) = true /\ r <> TdOk true /\
     (e1 = [SPhase (PGet (pobj_name s ph) (Some cur))] \/
      (exists w, e1 = [SPhase (PGet (pobj_name s ph) (Some cur)); w] /\
                 (w = SPhase (PDelete (pobj_name s ph) DOk) \/ w = SPhase (PStrip (pobj_name s ph) true))))).
Proof.
  unfold remote_teardown, pobj_name. cbn [desired_phase op_id oi_kind oi_ns oi_name].
  set (name := join_name (oi_name (os_id s)) (ph_name ph)).
  destruct (find_phase (sw_phases sw) (phase_kind s) (oi_ns (os_id s)) name) as [cur|]; [|intros H; injection H as _ <- <-; now left].
  destruct (controlled_by_uid (op_owners cur) (oi_uid (os_id s))) eqn:Ec; cbn [negb];
    [|intros H; injection H as _ <- <-; right; left; eauto].
  intros H. right. right. exists cur. split; [exact Ec|].
  destruct (oi_ns (os_id s) =? 0).
  { injection H as _ <- <-. split; [discriminate|right; eexists; split; [reflexivity|now left]]. }
  destruct (ns_state (sw_nss sw) (oi_ns (os_id s))) as [[|]|].
  - destruct (negb (op_fin cur || op_orphan cur)); injection H as _ <- <-; (split; [discriminate|right; eexists; split; [reflexivity|now right]]).
  - injection H as _ <- <-. split; [discriminate|right; eexists; split; [reflexivity|now left]].
  - injection H as _ <- <-. split; [discriminate|now left].
Qed.

Lemma local_keys_app ow l1 l2 : local_keys ow (l1 ++ l2) = local_keys ow l1 ++ local_keys ow l2.
Proof. unfold local_keys. now rewrite filter_app, flat_map_app. Qed.

Lemma delegated_names_app s l1 l2 : delegated_names s (l1 ++ l2) = delegated_names s l1 ++ delegated_names s l2.
Proof. unfold delegated_names. now rewrite filter_app, map_app. Qed.

Lemma nodup_keys_front ow front ph back k q :
  NoDup (local_keys ow (front ++ ph :: back)) -> ph_class ph = false -> In k (phase_keys ow ph) ->
  In q front -> ph_class q = false -> ~ In k (phase_keys ow q).
Proof.
  intros Hnd Hc Hk Hq Hcq Hkq. rewrite local_keys_app in Hnd.
  eapply NoDup_app_disj; [exact Hnd|eapply in_local_keys; eauto|].
  rewrite (local_keys_cons_local _ _ _ Hc). apply in_or_app. now left.
Qed.

Lemma nodup_names_front s front ph back q :
  NoDup (delegated_names s (front ++ ph :: back)) -> ph_class ph = true ->
  In q front -> ph_class q = true -> pobj_name s q <> pobj_name s ph.
Proof.
  intros Hnd Hc Hq Hcq Heq. rewrite delegated_names_app in Hnd.
  eapply NoDup_app_disj; [exact Hnd|eapply in_delegated_names; eauto|].
  rewrite (delegated_names_cons_remote _ _ _ Hc), Heq. now left.
Qed.

Lemma nodup_names_back s front ph back q :
  NoDup (delegated_names s (front ++ ph :: back)) -> ph_class ph = true ->
  In q back -> ph_class q = true -> pobj_name s ph <> pobj_name s q.
Proof.
  intros Hnd Hc Hq Hcq Heq. rewrite delegated_names_app in Hnd. apply NoDup_app_r in Hnd.
  rewrite (delegated_names_cons_remote _ _ _ Hc) in Hnd. inversion Hnd as [|? ? Hnotin _]; subst.
  apply Hnotin. rewrite Heq. now apply in_delegated_names.
Qed.

(** no object identity is listed by two different local phases *)
Definition cross_ok (s : oset) : Prop :=
  forall front ph back, os_phases s = front ++ ph :: back -> ph_class ph = false ->
    forall k, In k (phase_keys (as_owner s) ph) -> forall q, In q front -> ph_class q = false -> ~ In k (phase_keys (as_owner s) q).

Fixpoint cross_distinctb (m : oset) (phs : list phase) : bool :=
  match phs with
  | [] => true
  | q :: r => forallb (fun ph => ph_class q || ph_class ph ||
                                forallb (fun k => negb (existsb (okey_eqb k) (pkeys m q))) (pkeys m ph)) r &&
              cross_distinctb m r
  end.

Lemma cross_distinctb_spec m : forall phs, cross_distinctb m phs = true ->
  forall front ph back, phs = front ++ ph :: back -> ph_class ph = false ->
    forall k, In k (pkeys m ph) -> forall q, In q front -> ph_class q = false -> ~ In k (pkeys m q).
Proof.
  induction phs as [|q0 r IH]; intros H front ph back Hsplit Hc k Hk q Hq Hcq Hkq; [destruct front; discriminate|].
  cbn in H. apply andb_true_iff in H. destruct H as [H0 Hr].
  destruct front as [|f front]; [contradiction|]. cbn in Hsplit. injection Hsplit as <- ->.
  destruct Hq as [<-|Hq].
  - rewrite forallb_forall in H0. assert (Hin : In ph (front ++ ph :: back)) by (apply in_or_app; right; now left).
    specialize (H0 ph Hin). rewrite Hcq, Hc in H0. cbn in H0. rewrite forallb_forall in H0. specialize (H0 k Hk).
    apply negb_true_iff in H0. apply existsb_okey in Hkq. congruence.
  - exact (IH Hr front ph back eq_refl Hc k Hk q Hq Hcq Hkq).
Qed.

Lemma tpm_trace force s : forall rphs sw sw' evs r back before,
  teardown_phases_m force sw s (as_owner s) rphs = (sw', evs, r) ->
  os_phases s = rev rphs ++ back ->
  NoDup (delegated_names s (os_phases s)) -> cross_ok s ->
  os_orphan s = false -> later_gone s before back ->
  forallb (td_check s) (C15Corr.with_prefix before evs) = true /\
  (r = TdOk true -> later_gone s (before ++ evs) (os_phases s)).
Proof.
  induction rphs as [|ph rest IH]; intros sw sw' evs r back before H Hsplit Hndn Hndk Horph Hlg.
  - cbn in H. injection H as _ <- _. cbn in Hsplit. rewrite Hsplit, app_nil_r. auto.
  - cbn [rev] in Hsplit. rewrite <- app_assoc in Hsplit. cbn [app] in Hsplit.
    rewrite tpm_cons in H. destruct (td_step force sw s (as_owner s) ph) as [[sw1 e1] r1] eqn:E1.
    assert (Hstep : forallb (td_check s) (C15Corr.with_prefix before e1) = true /\
                    (r1 = TdOk true -> later_gone s (before ++ e1) (ph :: back))).
    { unfold td_step in E1. destruct (ph_class ph) eqn:Ecl.
      - (* delegated *)
        assert (Hback : forall l, only_phase_evs (pobj_name s ph) l -> later_gone s (before ++ l) back).
        { intros l Hl q Hq Hcq. rewrite seen_gone_untouched; [now apply Hlg|].
          apply (only_phase_untouched _ _ _ Hl). rewrite Hsplit in Hndn. exact (nodup_names_back _ _ _ _ _ Hndn Ecl Hq Hcq). }
        assert (Hget : forall rr, only_phase_evs (pobj_name s ph) [SPhase (PGet (pobj_name s ph) rr)]) by (intros; constructor; [reflexivity|constructor]).
        assert (Hhit_no : forall e0, (exists d, e0 = SPhase (PDelete (pobj_name s ph) d)) \/ (exists o, e0 = SPhase (PStrip (pobj_name s ph) o)) ->
                   (forall q, In q (rev rest) -> hitb s q e0 = false) /\ hitb s ph e0 = true).
        { intros e0 He0. split.
          - intros q Hq. destruct (ph_class q) eqn:Ecq; [|destruct He0 as [(d & ->)|(o & ->)]; cbn; now rewrite Ecq].
            rewrite Hsplit in Hndn. pose proof (nodup_names_front _ _ _ _ _ Hndn Ecl Hq Ecq) as Hne.
            assert ((pobj_name s ph =? C15Corr.join s q) = false) by (apply N.eqb_neq; intros Hx; apply Hne; now rewrite Hx).
            destruct He0 as [(d & ->)|(o & ->)]; cbn; now rewrite Ecq, H0.
          - destruct He0 as [(d & ->)|(o & ->)]; cbn; rewrite Ecl; cbn; apply N.eqb_refl. }
        destruct (remote_teardown_trace _ _ _ _ _ _ E1) as [[-> ->]|[(cur & Hc & -> & ->)|(cur & Hc & Hr & He1)]].
        + cbn [C15Corr.with_prefix forallb]. rewrite td_check_get. split; [reflexivity|]. intros _ q [<-|Hq] Hcq; [|now apply (Hback _ (Hget None))].
          unfold C15Corr.seen_gone. rewrite last_seen_app. cbn. unfold C15Corr.join, pobj_name. now rewrite N.eqb_refl.
        + cbn [C15Corr.with_prefix forallb]. rewrite td_check_get. split; [reflexivity|]. intros _ q [<-|Hq] Hcq; [|now apply (Hback _ (Hget (Some cur)))].
          unfold C15Corr.seen_gone. rewrite last_seen_app. cbn. unfold C15Corr.join, pobj_name. now rewrite N.eqb_refl, Hc.
        + split; [|intros Hx; contradiction].
          destruct He1 as [->|(w & -> & Hw)]; cbn [C15Corr.with_prefix forallb app]; rewrite td_check_get; [reflexivity|]. cbn [andb].
          rewrite andb_true_r.
          assert (Hw' : (exists d, w = SPhase (PDelete (pobj_name s ph) d)) \/ (exists o, w = SPhase (PStrip (pobj_name s ph) o))) by (destruct Hw as [->| ->]; eauto).
          destruct (Hhit_no w Hw') as [Hno Hhit].
          apply (td_check_write s _ w (rev rest) ph back Horph Hsplit Hno Hhit (Hback _ (Hget (Some cur)))).
          * destruct Hw as [-> | ->]; rewrite last_seen_app; cbn; now rewrite N.eqb_refl, Hc.
          * destruct Hw as [-> | ->]; exact I.
      - (* local *)
        destruct (teardown_phase _ idw (sw_w sw) (as_owner s) (ph_objects ph)) as [[w1 e'] r'] eqn:Et. injection E1 as _ <- <-.
        pose proof (td_phase_events_in force _ _ _ _ _ _ Et) as Hin.
        assert (Hback : forall l, later_gone s (before ++ map SMember l) (ph :: back)).
        { intros l q [<-|Hq] Hcq; [congruence|]. rewrite seen_gone_untouched; [now apply Hlg|apply members_untouched]. }
        split; [|intros _; apply Hback].
        apply forallb_with_prefix. intros l1 x l2 Hl.
        assert (Hx : exists y, x = SMember y /\ In y e' /\ exists l1', l1 = map SMember l1').
        { clear -Hl. revert l1 Hl. induction e' as [|a e' IH]; intros l1 Hl; [destruct l1; discriminate|].
          destruct l1 as [|b l1]; cbn in Hl; injection Hl as <- Hl.
          - exists a. split; [reflexivity|]. split; [now left|exists []; reflexivity].
          - destruct (IH _ Hl) as (y & -> & Hy & l1' & ->). exists y. split; [reflexivity|]. split; [now right|exists (a :: l1'); reflexivity]. }
        destruct Hx as (y & -> & Hy & l1' & ->). rewrite Forall_forall in Hin. specialize (Hin y Hy).
        apply (td_check_write s _ (SMember y) (rev rest) ph back Horph Hsplit); [| |intros q Hq Hcq; apply (Hback l1' q (or_intror Hq) Hcq)|reflexivity|exact I].
        + intros q Hq. cbn. destruct (ph_class q) eqn:Ecq; [reflexivity|]. cbn. apply Bool.not_true_is_false. intros Hex. apply existsb_okey in Hex.
          exact (Hndk _ _ _ Hsplit Ecl _ Hin q Hq Ecq Hex).
        + cbn. rewrite Ecl. cbn. now apply existsb_okey. }
    destruct Hstep as [Hf1 Hlg1].
    destruct r1 as [|[|]]; try (injection H as _ <- <-; split; [exact Hf1|discriminate]).
    destruct (teardown_phases_m force sw1 s (as_owner s) rest) as [[sw2 e2] r2] eqn:E2. injection H as _ <- <-.
    destruct (IH _ _ _ _ (ph :: back) (before ++ e1) E2 Hsplit Hndn Hndk Horph (Hlg1 eq_refl)) as [Hf2 Hlg2].
    rewrite with_prefix_app, forallb_app, Hf1, Hf2. split; [reflexivity|]. now rewrite app_assoc.
Qed.

(** in an ObjectSet that is being deleted / archived no object identity is listed by two different local phases *)
Definition going_keys_nodup (c : scase) : bool :=
  match find_set (sc_sets c) (sc_kind c) (sc_ns c) (sc_name c) with
  | Some m => negb (is_goingb m) || negb (C15Corr.names_nodup m) || cross_distinctb m (os_phases m)
  | None => true
  end.

Lemma del_tail_untouched mem td l nm : Forall (del_tail_ok mem td) l -> untouched l nm.
Proof. intros H. eapply Forall_impl; [|exact H]. intros e He. destruct e as [x|ms|p]; try contradiction. exact I. Qed.

Theorem m04d_sound_partial (c : scase) :
  going_keys_nodup c = true -> m04d (set_obs_s c (SetCorr.model_run c)) = true.
Proof.
  intros Hkn. unfold m04d, C15Corr.m_teardown, going_keys_nodup in *. destruct (SetCorr.model_run c) as [[sw e] r] eqn:E.
  cbn [as_dobs C15Corr.ds_step C15Corr.ds_pre_set set_obs_s sc_sets sc_kind sc_ns sc_name].
  destruct (find_set (sc_sets c) (sc_kind c) (sc_ns c) (sc_name c)) as [m|] eqn:Ef; [|reflexivity].
  change (C15Corr.is_goingb m) with (is_goingb m).
  destruct (target_kind m) as [(_ & _ & ->)|[(Hgb & _ & Hg)|(_ & -> & _)]]; [reflexivity| |reflexivity].
  rewrite Hgb in *. cbn [negb orb] in *.
  destruct (C15Corr.names_nodup m) eqn:Hn; [|reflexivity]. cbn [negb orb] in *.
  apply names_nodup_spec in Hn.
  assert (Hcross : cross_ok m) by (intros front ph back Hsp; exact (cross_distinctb_spec m _ Hkn front ph back Hsp)).
  assert (Ef' : find_set (sw_sets (sc_world c)) (sc_kind c) (sc_ns c) (sc_name c) = Some m) by exact Ef.
  unfold SetCorr.model_run in E.
  pose proof (objectset_pass_going (sc_force c) _ _ _ _ _ _ _ _ Ef' Hg E) as Hd.
  destruct (deletion_pass_shape (sc_force c) _ _ _ _ _ Hd) as (sw1 & tevs & td & tail & Htd & He & Htail & _ & _).
  unfold C15Corr.evs. cbn [as_dobs C15Corr.ds_events set_obs_s sc_events].
  change (forallb (td_check m) (C15Corr.with_prefix [] e) = true).
  rewrite He, with_prefix_app, forallb_app. cbn [app].
  (* the teardown requests *)
  assert (Htev : forallb (td_check m) (C15Corr.with_prefix [] tevs) = true /\
                 (os_fin m = true -> os_orphan m = false -> td = TdOk true -> later_gone m tevs (os_phases m))).
  { unfold teardown_of in Htd. destruct (os_fin m); [|injection Htd as _ <- _; split; [reflexivity|discriminate]].
    destruct (os_orphan m) eqn:Horph; [injection Htd as _ <- _; split; [reflexivity|discriminate]|].
    assert (Hsplit : os_phases m = rev (rev (os_phases m)) ++ []) by now rewrite rev_involutive, app_nil_r.
    destruct (tpm_trace (sc_force c) m _ _ _ _ _ [] [] Htd Hsplit Hn Hcross Horph) as [H1 H2]; [intros q []|].
    split; [exact H1|]. intros _ _ Ht. exact (H2 Ht). }
  destruct Htev as [-> Hlg]. cbn [andb].
  apply forallb_with_prefix. intros l1 x l2 Hl.
  assert (Hl1 : forall nm, untouched l1 nm).
  { intros nm. apply (del_tail_untouched m td). rewrite Hl in Htail. now apply Forall_app in Htail. }
  assert (Hx : del_tail_ok m td x).
  { rewrite Hl in Htail. apply Forall_app in Htail. destruct Htail as [_ Ht]. now inversion Ht. }
  assert (Hgone : os_fin m = true -> os_orphan m = false -> td = TdOk true ->
                  forallb (fun ph => C15Corr.seen_gone (oi_uid (os_id m)) (C15Corr.join m ph) (tevs ++ l1)) (C15Corr.delegated m) = true).
  { intros Hf Ho Ht. apply forallb_forall. intros q Hq. unfold C15Corr.delegated in Hq. apply filter_In in Hq. destruct Hq as [Hq Hcq].
    rewrite seen_gone_untouched by apply Hl1. exact (Hlg Hf Ho Ht q Hq Hcq). }
  destruct x as [y|[added ok|rv cs co rm fph ok]|y]; try contradiction.
  - destruct Hx as (-> & Ht & Hf). unfold td_check. rewrite phase_idx_none by (intros; reflexivity).
    rewrite orb_true_r. cbn [andb]. rewrite Hf. cbn [negb orb]. destruct (os_orphan m) eqn:Ho; [reflexivity|]. cbn [orb]. now apply Hgone.
  - destruct Hx as (_ & _ & _ & Harch). unfold td_check. rewrite phase_idx_none by (intros; reflexivity).
    rewrite orb_true_r. cbn [andb].
    destruct (cond_true cs CArchived) eqn:Hca; [|reflexivity]. cbn [negb orb].
    destruct (os_fin m) eqn:Hf; [|reflexivity]. cbn [negb orb]. destruct (os_orphan m) eqn:Ho; [reflexivity|]. cbn [orb].
    destruct (Harch eq_refl) as [Ht _]. now apply Hgone.
Qed.

(** *** The refuting case: a deleting ObjectSet that lists the same ConfigMap in its first and in its third phase, with a
    delegated phase in between. The teardown deletes the ConfigMap as part of the LAST phase; the monitor attributes
    the request to the FIRST phase naming the key and demands the delegated phase behind it gone. *)
Definition x_dupkey_del_set : oset :=
  {| os_id := x_id; os_rv := 5; os_gen := 1; os_deleting := true; os_fin := true; os_orphan := false; os_pkg := 0;
     os_life := LActive;
     os_phases := [ {| ph_name := 1; ph_class := false; ph_objects := [x_po 1 1] |};
                    {| ph_name := 2; ph_class := true; ph_objects := [x_po 1 2] |};
                    {| ph_name := 3; ph_class := false; ph_objects := [x_po 1 1] |} ];
     os_prev := []; os_revision := 1; os_conds := []; os_ctrlof := []; os_remotes := [] |}.
Definition x_dupkey_del_case : scase :=
  case_of false (x_world [(x_key 1 1, x_obj 21 0)] [x_dupkey_del_set] [x_pobj 10002 false [] []]) KObjectSet 1 10.

Theorem m04d_refuted :
  exists c, going_keys_nodup c = false /\ m04d (set_obs_s c (SetCorr.model_run c)) = false.
Proof. exists x_dupkey_del_case. vm_compute. split; reflexivity. Qed.

(** the hypothesis holds on the same world with distinct objects: the pass deletes the object of the last phase *)
Definition x_del_set : oset :=
  {| os_id := x_id; os_rv := 5; os_gen := 1; os_deleting := true; os_fin := true; os_orphan := false; os_pkg := 0;
     os_life := LActive;
     os_phases := [ {| ph_name := 1; ph_class := false; ph_objects := [x_po 1 3] |};
                    {| ph_name := 2; ph_class := true; ph_objects := [x_po 1 2] |};
                    {| ph_name := 3; ph_class := false; ph_objects := [x_po 1 1] |} ];
     os_prev := []; os_revision := 1; os_conds := []; os_ctrlof := []; os_remotes := [] |}.
Definition x_del_case : scase :=
  case_of false (x_world [(x_key 1 1, x_obj 21 0)] [x_del_set] [x_pobj 10002 false [] []]) KObjectSet 1 10.
Example m04d_hypothesis_satisfiable :
  going_keys_nodup x_del_case = true /\
  map ev_key (members (set_obs_s x_del_case (SetCorr.model_run x_del_case))) = [x_key 1 1].
Proof. vm_compute. split; reflexivity. Qed.

(** ** m03d / m06d: gate, relay, ownership over delegated phases *)
Lemma split_app_cases {A} (a b : list A) : forall l1 x l2, a ++ b = l1 ++ x :: l2 ->
  (exists l1', a = l1 ++ x :: l1' /\ l2 = l1' ++ b) \/ (exists l2', l1 = a ++ l2' /\ b = l2' ++ x :: l2).
Proof.
  induction a as [|y a IH]; intros l1 x l2 H; cbn in H.
  - right. exists l1. auto.
  - destruct l1 as [|z l1]; cbn in H; injection H as -> H.
    + left. exists a. split; [reflexivity|now symmetry].
    + destruct (IH _ _ _ H) as [(l1' & -> & ->)|(l2' & -> & ->)]; [left; exists l1'; auto|right; exists l2'; auto].
Qed.

Lemma single_split {A} (a x : A) l l2 : [a] = l ++ x :: l2 -> l = [] /\ x = a /\ l2 = [].
Proof. destruct l as [|b l]; cbn; intros H; injection H as -> H; [auto|destruct l; discriminate]. Qed.

(** the requests before the status request that ends a pass which reached the loop *)
Definition loop_prefix (mem1 : oset) (sw2 : sworld) (pre pevs : list sev) (rem : list (N * N)) (pr : mres) : list sev :=
  match pr with
  | MOk _ _ => pre ++ pevs ++ paused_reads (sw_phases sw2) (set_remotes mem1 rem)
  | _ => pre ++ pevs
  end.

Lemma after_loop2_meta_pos force mem0 mem1 sw1 sw2 prev pre pevs rem pr evs r l1 ms l2 :
  reconcile_phases_m force sw1 mem1 (as_owner mem1) prev (os_phases mem1) [] (os_remotes mem1) = (sw2, pevs, rem, pr) ->
  Forall (keeps2 mem0) pre -> after_loop2 mem1 sw2 pre pevs rem pr evs r ->
  evs = l1 ++ SMeta ms :: l2 ->
  keeps2 mem0 (SMeta ms) \/
  exists f ok, tail_status mem1 sw2 rem pr = Some f /\ SMeta ms = f ok /\ l2 = [] /\ l1 = loop_prefix mem1 sw2 pre pevs rem pr.
Proof.
  intros Hrp Hpre Hal He. rewrite Forall_forall in Hpre.
  assert (Hcase : forall tail, evs = pre ++ pevs ++ tail ->
            keeps2 mem0 (SMeta ms) \/ exists t1, tail = t1 ++ SMeta ms :: l2 /\ l1 = pre ++ pevs ++ t1).
  { intros tail Hev. rewrite Hev in He. destruct (split_app_cases _ _ _ _ _ He) as [(l1' & Hp & _)|(l2' & -> & Hb)].
    - left. apply Hpre. rewrite Hp. apply in_or_app. right. now left.
    - destruct (split_app_cases _ _ _ _ _ Hb) as [(l1' & Hp & _)|(t1 & -> & Ht)].
      + exfalso. eapply (rpm_no_meta force); [exact Hrp|]. rewrite Hp. apply in_or_app. right. now left.
      + right. exists t1. split; [exact Ht|reflexivity]. }
  unfold after_loop2 in Hal. unfold tail_status, loop_prefix. destruct pr as [e| | |ctrlof failed].
  - destruct (is_collision e).
    + destruct Hal as (ok & Hev & _). destruct (Hcase _ Hev) as [Hk|(t1 & Ht & ->)]; [now left|right].
      destruct (single_split _ _ _ _ Ht) as (-> & Hx & ->). rewrite app_nil_r. eauto 6.
    + destruct Hal as [Hev _]. rewrite <- (app_nil_r pevs) in Hev. destruct (Hcase _ Hev) as [Hk|(t1 & Ht & _)]; [now left|destruct t1; discriminate].
  - destruct Hal as [Hev _]. rewrite <- (app_nil_r pevs) in Hev. destruct (Hcase _ Hev) as [Hk|(t1 & Ht & _)]; [now left|destruct t1; discriminate].
  - destruct Hal as (ok & Hev & _). destruct (Hcase _ Hev) as [Hk|(t1 & Ht & ->)]; [now left|right].
    destruct (single_split _ _ _ _ Ht) as (-> & Hx & ->). rewrite app_nil_r. eauto 6.
  - destruct Hal as (ok & Hev & _). destruct (Hcase _ Hev) as [Hk|(t1 & Ht & ->)]; [now left|right].
    destruct (split_app_cases _ _ _ _ _ Ht) as [(l1' & Hp & _)|(t2 & -> & Hs)].
    + exfalso. eapply gets_no_meta; [apply paused_reads_gets|]. rewrite Hp. apply in_or_app. right. now left.
    + destruct (single_split _ _ _ _ Hs) as (-> & Hx & ->). rewrite app_nil_r. eauto 6.
Qed.

Lemma stopped2_meta_pos sw mem0 sw' evs l1 ms l2 : stopped2 sw mem0 sw' evs -> evs = l1 ++ SMeta ms :: l2 -> keeps2 mem0 (SMeta ms).
Proof. intros Hs He. eapply stopped2_meta; [exact Hs|]. rewrite He. apply in_or_app. right. now left. Qed.

Lemma in_with_prefix {A} (l : list A) : forall p b x, In (b, x) (C15Corr.with_prefix p l) -> exists l1 l2, l = l1 ++ x :: l2 /\ b = p ++ l1.
Proof.
  induction l as [|a l IH]; intros p b x H; [contradiction|]. cbn in H. destruct H as [H|H].
  - injection H as <- <-. exists [], l. now rewrite app_nil_r.
  - destruct (IH _ _ _ H) as (l1 & l2 & -> & ->). exists (a :: l1), l2. split; [reflexivity|now rewrite <- app_assoc].
Qed.

Lemma c15_statuses_forall (o : C15Corr.dobs) (P : list sev * (list cond * list okey) -> bool) :
  (forall l1 rv cs co rm fph ok l2, C15Corr.ds_events o = l1 ++ SMeta (MStatus rv cs co rm fph ok) :: l2 -> P (l1, (cs, co)) = true) ->
  forallb P (C15Corr.statuses o) = true.
Proof.
  intros H. apply forallb_forall. intros st Hst. unfold C15Corr.statuses in Hst. apply in_flat_map in Hst.
  destruct Hst as ([b x] & Hin & Hx). cbn [fst snd] in Hx. destruct x as [y|[a o0|rv cs co rm fph ok]|y]; try contradiction.
  destruct Hx as [<-|[]]. destruct (in_with_prefix _ _ _ _ Hin) as (l1 & l2 & He & ->). eapply H. exact He.
Qed.

(** What the final status request of a completed loop can rely on: every delegated phase's phase object, as last seen
    before the request, is the stored one - Available for its generation, controlled by the ObjectSet. *)
Lemma completed_loop_seen force m sw1 sw2 mem1 pevs rem ctrlof pre :
  same_spec mem1 m -> Forall (keeps2 m) pre ->
  reconcile_phases_m force sw1 mem1 (as_owner mem1) (lookup_prev (sw_sets sw1) mem1) (os_phases mem1) [] (os_remotes mem1) = (sw2, pevs, rem, MOk ctrlof None) ->
  dup_count [] (map (spec_key mem1) (all_objects mem1)) = O ->
  forall q, In q (C15Corr.delegated m) ->
    exists cur, C15Corr.last_seen (C15Corr.join m q) (loop_prefix mem1 sw2 pre pevs rem (MOk ctrlof None)) None = Some (Some cur) /\
                find_phase (sw_phases sw2) (phase_kind mem1) (oi_ns (os_id mem1)) (pobj_name mem1 q) = Some cur /\
                avail_current cur /\ controlled_by_uid (op_owners cur) (oi_uid (os_id m)) = true.
Proof.
  intros Hs Hpre Hrp Hdup q Hq. pose proof Hs as (Hid & Hphs & _).
  unfold C15Corr.delegated in Hq. apply filter_In in Hq. destruct Hq as [Hq Hcq]. rewrite <- Hphs in Hq.
  pose proof (dup_zero_nodup _ Hdup) as Hnd1.
  destruct (rpm_passed force mem1 _ _ _ _ _ _ _ _ _ _ _ Hrp Hnd1) as (ppre & ppost & Hsplit & Hpassed & -> & _ & Hread).
  rewrite app_nil_r in Hsplit, Hread. subst ppre.
  pose proof (Hpassed q Hq) as Hpq. unfold passed in Hpq. rewrite Hcq in Hpq. destruct Hpq as (cur & Hcur & Hav & Hown & _).
  exists cur. unfold phase_obj_of in Hcur. split; [|split; [exact Hcur|split; [exact Hav|now rewrite <- Hid]]].
  unfold loop_prefix.
  assert (Hc : coh mem1 (sw_phases sw2) (pre ++ pevs ++ paused_reads (sw_phases sw2) (set_remotes mem1 rem))).
  { rewrite app_assoc. unfold paused_reads. change (phase_kind (set_remotes mem1 rem)) with (phase_kind mem1).
    change (oi_ns (os_id (set_remotes mem1 rem))) with (oi_ns (os_id mem1)). apply coh_app_reads.
    eapply coh_rpm; [exact Hrp|]. eapply coh_keeps2; eauto. }
  specialize (Hc (C15Corr.join m q)).
  assert (Hr : read_in (pre ++ pevs ++ paused_reads (sw_phases sw2) (set_remotes mem1 rem)) (C15Corr.join m q)).
  { apply read_in_app_r. apply read_in_app_l. specialize (Hread q Hq Hcq). unfold pobj_name in Hread. now rewrite Hid in Hread. }
  pose proof (last_seen_read _ _ Hr None) as Hne.
  destruct (C15Corr.last_seen (C15Corr.join m q) _ None) as [x|]; [|contradiction]. subst x.
  unfold pobj_name in Hcur. unfold C15Corr.join. now rewrite <- Hid, Hcur.
Qed.

Lemma keepish_relay m cs fph cd (X : bool) : keepish m cs fph -> find_cond cs CAvailable = Some cd ->
  negb (cstatus_eqb (cd_status cd) STrue) || option_eqb cond_eqb (find_cond (os_conds m) CAvailable) (Some cd) || X = true.
Proof.
  intros (_ & Ha & _) Hcd. destruct Ha as [Ha|(cd' & Ha & Hf)].
  - rewrite <- Ha, Hcd. cbn. rewrite cond_eqb_refl'. now rewrite orb_true_r.
  - rewrite Hcd in Ha. injection Ha as <-. now rewrite Hf.
Qed.

(** the common shape of [m_relay] and [m_own] *)
Lemma relay_clause_sound (c : scase) (Q : phase -> list sev -> bool) m sw e r :
  find_set (sc_sets c) (sc_kind c) (sc_ns c) (sc_name c) = Some m -> is_active m ->
  (forall mem1 sw1 sw2 pevs rem ctrlof pre,
     same_spec mem1 m -> sw_phases sw1 = sc_phases c -> Forall (keeps2 m) pre ->
     reconcile_phases_m (sc_force c) sw1 mem1 (as_owner mem1) (lookup_prev (sw_sets sw1) mem1) (os_phases mem1) [] (os_remotes mem1) = (sw2, pevs, rem, MOk ctrlof None) ->
     dup_count [] (map (spec_key mem1) (all_objects mem1)) = O ->
     forall q, In q (C15Corr.delegated m) -> Q q (loop_prefix mem1 sw2 pre pevs rem (MOk ctrlof None)) = true) ->
  SetCorr.model_run c = (sw, e, r) ->
  forallb (fun st : list sev * (list cond * list okey) => let '(before, (cs, _)) := st in
     match find_cond cs CAvailable with
     | Some cd => negb (cstatus_eqb (cd_status cd) STrue) || option_eqb cond_eqb (find_cond (os_conds m) CAvailable) (Some cd) ||
                  forallb (fun ph => Q ph before) (C15Corr.delegated m)
     | None => true end) (C15Corr.statuses (as_dobs (set_obs_s c (sw, e, r)))) = true.
Proof.
  intros Ef Hact HQ E. apply c15_statuses_forall. cbn [as_dobs C15Corr.ds_events set_obs_s sc_events].
  intros l1 rv cs co rm fph ok l2 He. destruct (find_cond cs CAvailable) as [cd|] eqn:Hcd; [|reflexivity].
  assert (Ef' : find_set (sw_sets (sc_world c)) (sc_kind c) (sc_ns c) (sc_name c) = Some m) by exact Ef.
  unfold SetCorr.model_run in E.
  destruct (objectset_pass_active2 (sc_force c) (sc_world c) _ _ _ m sw e r Ef' Hact E) as [Hs|Hr].
  { eapply keepish_relay; [|exact Hcd]. eapply keeps2_keepish. eapply stopped2_meta_pos; eauto. }
  destruct Hr as (mem1 & sw1 & sw2 & pevs & rem & pr & pre & Hs & _ & Hph1 & _ & _ & _ & Hdup & Hrp & _ & _ & _ & Hpre & Hal).
  pose proof Hs as (_ & _ & _ & _ & _ & Hconds & _).
  destruct (after_loop2_meta_pos _ _ _ _ _ _ _ _ _ _ _ _ _ _ _ Hrp Hpre Hal He) as [Hk2|(f & ok' & Hf & Hx & _ & Hl1)].
  { eapply keepish_relay; [|exact Hcd]. eapply keeps2_keepish; eauto. }
  unfold tail_status in Hf. destruct pr as [e0| | |ctrlof failed].
  - destruct (is_collision e0); [|discriminate]. injection Hf as <-. unfold status_ev, status_ev_f in Hx.
    remember (fail_mem _ _) as fm eqn:Efm in Hx. injection Hx as _ -> _ _ -> _. subst fm.
    eapply keepish_relay; [|exact Hcd]. now apply fail_mem_keepish.
  - discriminate.
  - injection Hf as <-. unfold status_ev, status_ev_f in Hx.
    remember (fail_mem _ _) as fm eqn:Efm in Hx. injection Hx as _ -> _ _ -> _. subst fm.
    eapply keepish_relay; [|exact Hcd]. now apply fail_mem_keepish.
  - injection Hf as <-. unfold status_ev_f in Hx.
    remember (final_status _ _ _ _) as fs eqn:Efs in Hx. injection Hx as _ -> _ _ _ _. subst fs.
    rewrite final_status_available_eq in Hcd. injection Hcd as <-. destruct failed as [nf|]; [reflexivity|].
    cbn [cd_status mk_cond cstatus_eqb negb orb]. apply orb_true_iff. right.
    apply forallb_forall. intros q Hq. rewrite Hl1. eapply HQ; eauto.
Qed.

Theorem m_relay_sound (c : scase) : C15Corr.m_relay (as_dobs (set_obs_s c (SetCorr.model_run c))) = true.
Proof.
  unfold C15Corr.m_relay. destruct (SetCorr.model_run c) as [[sw e] r] eqn:E.
  cbn [as_dobs C15Corr.ds_step C15Corr.ds_pre_set set_obs_s sc_sets sc_kind sc_ns sc_name].
  destruct (find_set (sc_sets c) (sc_kind c) (sc_ns c) (sc_name c)) as [m|] eqn:Ef; [|reflexivity].
  change (C15Corr.is_activeb m) with (is_activeb m).
  destruct (is_activeb m) eqn:Ha; [|reflexivity]. cbn [negb orb].
  apply (relay_clause_sound c (fun ph b => C15Corr.seen_available (C15Corr.join m ph) b) m sw e r Ef (is_activeb_spec m Ha)); [|exact E].
  intros mem1 sw1 sw2 pevs rem ctrlof pre Hs _ Hpre Hrp Hdup q Hq.
  destruct (completed_loop_seen _ _ _ _ _ _ _ _ _ Hs Hpre Hrp Hdup q Hq) as (cur & Hls & _ & Hav & _).
  unfold C15Corr.seen_available. rewrite Hls. now apply avail_current_b.
Qed.

(** *** The gate *)
Definition gate_check (s : oset) (pe : list sev * sev) : bool :=
  let '(before, e) := pe in
  match C15Corr.phase_idx s (os_phases s) e O with
  | Some j => forallb (fun ph => negb (ph_class ph) || C15Corr.seen_available (C15Corr.join s ph) before) (firstn j (os_phases s))
  | None => match e with SMember _ => false | SPhase (PCreate _ _) | SPhase (PPause _ _ _) => false | _ => true end
  end.

Definition earlier_avail (s : oset) (b : list sev) (done : list phase) : Prop :=
  forall q, In q done -> ph_class q = true -> C15Corr.seen_available (C15Corr.join s q) b = true.

Lemma gate_check_quiet s b e : (forall q, hitb s q e = false) ->
  match e with SMember _ => False | SPhase (PCreate _ _) | SPhase (PPause _ _ _) => False | _ => True end -> gate_check s (b, e) = true.
Proof.
  intros Hno He. unfold gate_check. rewrite phase_idx_none by (intros; apply Hno).
  destruct e as [x|ms|p]; [contradiction|reflexivity|destruct p; try reflexivity; contradiction].
Qed.

Lemma gate_check_get s b n r : gate_check s (b, SPhase (PGet n r)) = true.
Proof. apply gate_check_quiet; [reflexivity|exact I]. Qed.
Lemma gate_check_meta s b ms : gate_check s (b, SMeta ms) = true.
Proof. apply gate_check_quiet; [reflexivity|exact I]. Qed.

Lemma firstn_le_app {A} (l1 l2 : list A) j x : (j <= length l1)%nat -> In x (firstn j (l1 ++ l2)) -> In x l1.
Proof.
  intros Hle Hin. rewrite firstn_app in Hin. replace (j - length l1)%nat with O in Hin by lia. cbn in Hin. rewrite app_nil_r in Hin.
  rewrite <- (firstn_skipn j l1). apply in_or_app. now left.
Qed.

Lemma gate_check_hit s b e done ph rest :
  os_phases s = done ++ ph :: rest -> hitb s ph e = true -> earlier_avail s b done -> gate_check s (b, e) = true.
Proof.
  intros Hsplit Hhit Hea. unfold gate_check. rewrite Hsplit.
  destruct (phase_idx_le s ph rest e done O Hhit) as (j & -> & Hle). cbn [plus].
  apply forallb_forall. intros q Hq. apply (firstn_le_app _ _ _ _ Hle) in Hq.
  destruct (ph_class q) eqn:Ecq; [|reflexivity]. cbn. now apply Hea.
Qed.

Lemma map_member_split (e' : list ev) : forall l1 x l2, map SMember e' = l1 ++ x :: l2 ->
  exists y l1', x = SMember y /\ In y e' /\ l1 = map SMember l1'.
Proof.
  induction e' as [|a e' IH]; intros l1 x l2 Hl; [destruct l1; discriminate|].
  destruct l1 as [|b l1]; cbn in Hl; injection Hl as <- Hl.
  - exists a, []. split; [reflexivity|]. split; [now left|reflexivity].
  - destruct (IH _ _ _ Hl) as (y & l1' & -> & Hy & ->). exists y, (a :: l1'). split; [reflexivity|]. split; [now right|reflexivity].
Qed.

Lemma remote_reconcile_trace sw s ph rem sw1 e1 rem1 r :
  remote_reconcile sw s ph rem = (sw1, e1, rem1, r) ->
  (exists st, e1 = [SPhase (PGet (pobj_name s ph) None); SPhase (PCreate (pobj_name s ph) (Some st))]) \/
  (exists cur, e1 = [SPhase (PGet (pobj_name s ph) (Some cur))]) \/
  (exists cur pd cur', e1 = [SPhase (PGet (pobj_name s ph) (Some cur)); SPhase (PPause (pobj_name s ph) pd (Some cur'))]).
Proof.
  unfold remote_reconcile, pobj_name. cbn [desired_phase op_id oi_kind oi_ns oi_name op_paused].
  destruct (find_phase _ _ _ _) as [cur|]; [|intros H; injection H as _ <- _ _; left; eauto].
  destruct (negb _); [intros H; injection H as _ <- _ _; right; left; eauto|].
  destruct (Bool.eqb _ _); intros H; injection H as _ <- _ _; right; [left|right]; eauto.
Qed.

Lemma rpm_gate_trace force s prev : forall phs sw acc rem sw' evs rem' r done before,
  reconcile_phases_m force sw s (as_owner s) prev phs acc rem = (sw', evs, rem', r) ->
  os_phases s = done ++ phs -> NoDup (delegated_names s (os_phases s)) ->
  earlier_avail s before done ->
  forallb (gate_check s) (C15Corr.with_prefix before evs) = true.
Proof.
  induction phs as [|ph rest IH]; intros sw acc rem sw' evs rem' r done before H Hsplit Hndn Hea.
  - cbn in H. injection H as _ <- _ _. reflexivity.
  - rewrite rpm_cons in H. destruct (ph_class ph) eqn:Ecl.
    + destruct (remote_reconcile sw s ph rem) as [[[sw1 e1] rem1] r1] eqn:E1.
      destruct (remote_reconcile_inv _ _ _ _ _ _ _ _ E1) as (_ & _ & _ & Hev & _).
      assert (Hstable : forall l, only_phase_evs (pobj_name s ph) l -> earlier_avail s (before ++ l) done).
      { intros l Hl q Hq Hcq. rewrite seen_available_untouched; [now apply Hea|].
        apply (only_phase_untouched _ _ _ Hl). rewrite Hsplit in Hndn. intros Heq. exact (nodup_names_front _ _ _ _ _ Hndn Ecl Hq Hcq (eq_sym Heq)). }
      assert (Hget : forall rr, only_phase_evs (pobj_name s ph) [SPhase (PGet (pobj_name s ph) rr)]) by (intros; constructor; [reflexivity|constructor]).
      assert (Hf1 : forallb (gate_check s) (C15Corr.with_prefix before e1) = true).
      { assert (Hw : forall rr w, hitb s ph w = true -> forallb (gate_check s) (C15Corr.with_prefix before [SPhase (PGet (pobj_name s ph) rr); w]) = true).
        { intros rr w Hhit. cbn [C15Corr.with_prefix forallb app]. rewrite gate_check_get. cbn [andb]. rewrite andb_true_r.
          apply (gate_check_hit s _ w done ph rest Hsplit Hhit). apply (Hstable _ (Hget rr)). }
        destruct (remote_reconcile_trace _ _ _ _ _ _ _ _ E1) as [(st & ->)|[(cur & ->)|(cur & pd & cur' & ->)]].
        - apply Hw. cbn. rewrite Ecl. cbn. apply N.eqb_refl.
        - cbn [C15Corr.with_prefix forallb]. now rewrite gate_check_get.
        - apply Hw. cbn. rewrite Ecl. cbn. apply N.eqb_refl. }
      destruct r1 as [|active failed]; [injection H as _ <- _ _; exact Hf1|].
      destruct failed; [injection H as _ <- _ _; exact Hf1|].
      destruct (reconcile_phases_m force sw1 s (as_owner s) prev rest (acc ++ active) rem1) as [[[sw2 e2] rem2] r2] eqn:E2.
      injection H as _ <- _ _. rewrite with_prefix_app, forallb_app, Hf1. cbn [andb].
      apply (IH _ _ _ _ _ _ _ (done ++ [ph]) (before ++ e1) E2); [now rewrite <- app_assoc|exact Hndn|].
      intros q Hq Hcq. apply in_app_or in Hq. destruct Hq as [Hq|[<-|[]]]; [now apply (Hstable _ Hev)|].
      destruct (remote_step_ok _ _ _ _ _ _ _ _ _ E1) as (cur & Hcur & Hrel & _).
      unfold C15Corr.seen_available. rewrite last_seen_app, (remote_reconcile_last_seen _ _ _ _ _ _ _ _ E1).
      change (C15Corr.join s ph) with (pobj_name s ph). rewrite N.eqb_refl. unfold phase_obj_of in Hcur. rewrite Hcur.
      apply avail_current_b. now destruct (relay_ok _ _ Hrel).
    + destruct (reconcile_phase _ idw (sw_w sw) (as_owner s) prev false (ph_objects ph)) as [[w1 e'] r1] eqn:E1.
      pose proof (rec_phase_events_in force _ _ _ _ _ _ _ _ E1) as Hin.
      assert (Hstable : forall l, earlier_avail s (before ++ map SMember l) done).
      { intros l q Hq Hcq. rewrite seen_available_untouched; [now apply Hea|apply members_untouched]. }
      assert (Hf1 : forallb (gate_check s) (C15Corr.with_prefix before (map SMember e')) = true).
      { apply forallb_with_prefix. intros l1 x l2 Hl. destruct (map_member_split _ _ _ _ Hl) as (y & l1' & -> & Hy & ->).
        rewrite Forall_forall in Hin. specialize (Hin y Hy).
        apply (gate_check_hit s _ (SMember y) done ph rest Hsplit); [|apply Hstable].
        cbn. rewrite Ecl. cbn. now apply existsb_okey. }
      destruct r1 as [e0|vs|actual failed]; try (injection H as _ <- _ _; exact Hf1).
      destruct failed as [|f fs]; [|injection H as _ <- _ _; exact Hf1].
      cbv zeta in H.
      match type of H with context [reconcile_phases_m force ?x s ?o prev rest ?b ?d] =>
        destruct (reconcile_phases_m force x s o prev rest b d) as [[[sw2 e2] rem2] r2] eqn:E2 end.
      injection H as _ <- _ _. rewrite with_prefix_app, forallb_app, Hf1. cbn [andb].
      apply (IH _ _ _ _ _ _ _ (done ++ [ph]) (before ++ map SMember e') E2); [now rewrite <- app_assoc|exact Hndn|].
      intros q Hq Hcq. apply in_app_or in Hq. destruct Hq as [Hq|[<-|[]]]; [now apply Hstable|congruence].
Qed.

Lemma forallb_ext' {A} (f g : A -> bool) l : (forall x, f x = g x) -> forallb f l = forallb g l.
Proof. intros H. induction l as [|a l IH]; [reflexivity|]. cbn. now rewrite H, IH. Qed.

Lemma hitb_same m1 m0 ph e : os_id m1 = os_id m0 -> hitb m1 ph e = hitb m0 ph e.
Proof.
  intros H. unfold hitb, C15Corr.join. destruct e as [x|ms|p].
  - f_equal. f_equal. apply map_ext. intros q. unfold spec_key, desired_key, as_owner. cbn. now rewrite H.
  - reflexivity.
  - destruct p; try reflexivity; now rewrite H.
Qed.

Lemma phase_idx_same m1 m0 e : os_id m1 = os_id m0 -> forall phs i, C15Corr.phase_idx m1 phs e i = C15Corr.phase_idx m0 phs e i.
Proof.
  intros H. induction phs as [|ph phs IH]; intros i; [reflexivity|]. rewrite !phase_idx_cons, (hitb_same _ _ _ _ H). now rewrite IH.
Qed.

Lemma gate_check_same m1 m0 pe : os_id m1 = os_id m0 -> os_phases m1 = os_phases m0 -> gate_check m1 pe = gate_check m0 pe.
Proof.
  intros Hid Hph. destruct pe as [b e]. unfold gate_check. rewrite Hph, (phase_idx_same _ _ _ Hid).
  destruct (C15Corr.phase_idx m0 (os_phases m0) e 0); [|reflexivity].
  apply forallb_ext'. intros q. unfold C15Corr.join. now rewrite Hid.
Qed.

Definition quiet (e : sev) : Prop := match e with SMeta _ => True | SPhase (PGet _ _) => True | _ => False end.

Lemma quiet_gate s l : Forall quiet l -> forall p, forallb (gate_check s) (C15Corr.with_prefix p l) = true.
Proof.
  intros H p. apply forallb_with_prefix. intros l1 x l2 ->. apply Forall_app in H. destruct H as [_ H]. inversion H as [|? ? Hx _]; subst.
  destruct x as [y|ms|[n r0| | | | | | ]]; try contradiction; [apply gate_check_meta|apply gate_check_get].
Qed.

Lemma keeps2_quiet mem0 l : Forall (keeps2 mem0) l -> Forall quiet l.
Proof. intros H. eapply Forall_impl; [|exact H]. intros e He. destruct e as [x|ms|p]; try contradiction. exact I. Qed.
Lemma gets_quiet l : Forall is_get l -> Forall quiet l.
Proof. intros H. eapply Forall_impl; [|exact H]. intros e He. destruct e as [x|ms|[n r0| | | | | | ]]; try contradiction. exact I. Qed.

Theorem m_gate_sound (c : scase) : C15Corr.m_gate (as_dobs (set_obs_s c (SetCorr.model_run c))) = true.
Proof.
  unfold C15Corr.m_gate. destruct (SetCorr.model_run c) as [[sw e] r] eqn:E.
  cbn [as_dobs C15Corr.ds_step C15Corr.ds_pre_set set_obs_s sc_sets sc_kind sc_ns sc_name].
  destruct (find_set (sc_sets c) (sc_kind c) (sc_ns c) (sc_name c)) as [m|] eqn:Ef; [|reflexivity].
  change (C15Corr.is_activeb m) with (is_activeb m).
  destruct (is_activeb m) eqn:Ha; [|reflexivity]. cbn [negb orb].
  destruct (C15Corr.names_nodup m) eqn:Hn; [|reflexivity]. cbn [negb orb]. apply names_nodup_spec in Hn.
  unfold C15Corr.evs. cbn [as_dobs C15Corr.ds_events set_obs_s sc_events].
  change (forallb (gate_check m) (C15Corr.with_prefix [] e) = true).
  assert (Ef' : find_set (sw_sets (sc_world c)) (sc_kind c) (sc_ns c) (sc_name c) = Some m) by exact Ef.
  unfold SetCorr.model_run in E.
  destruct (objectset_pass_active2 (sc_force c) (sc_world c) _ _ _ m sw e r Ef' (is_activeb_spec m Ha) E) as [Hs|Hr].
  { destruct Hs as (_ & _ & _ & pre & reads & post & -> & Hpre & Hpost & Hreads). apply quiet_gate.
    apply Forall_app. split; [eapply keeps2_quiet; eauto|]. apply Forall_app. split; [|eapply keeps2_quiet; eauto].
    destruct Hreads as [->|[_ ->]]; [constructor|apply gets_quiet, paused_reads_l_gets]. }
  destruct Hr as (mem1 & sw1 & sw2 & pevs & rem & pr & pre & Hs & _ & _ & _ & _ & _ & _ & Hrp & _ & _ & _ & Hpre & Hal).
  pose proof Hs as (Hid & Hphs & _).
  assert (Hloop : forallb (gate_check m) (C15Corr.with_prefix pre pevs) = true).
  { rewrite (forallb_ext' (gate_check m) (gate_check mem1)) by (intros pe; symmetry; apply (gate_check_same mem1 m pe Hid Hphs)).
    apply (rpm_gate_trace (sc_force c) mem1 _ _ _ _ _ _ _ _ _ [] pre Hrp eq_refl); [now rewrite (names_same _ _ Hs)|intros q []]. }
  assert (Hgoal : forall tail, Forall quiet tail -> forallb (gate_check m) (C15Corr.with_prefix [] (pre ++ pevs ++ tail)) = true).
  { intros tail Ht. rewrite !with_prefix_app, !forallb_app. cbn [app]. rewrite (quiet_gate m pre (keeps2_quiet _ _ Hpre)), Hloop. now apply quiet_gate. }
  unfold after_loop2 in Hal. destruct pr as [e0| | |ctrlof failed].
  - destruct (is_collision e0).
    + destruct Hal as (ok & -> & _). apply Hgoal. constructor; [exact I|constructor].
    + destruct Hal as [-> _]. rewrite <- (app_nil_r pevs). apply Hgoal. constructor.
  - destruct Hal as [-> _]. rewrite <- (app_nil_r pevs). apply Hgoal. constructor.
  - destruct Hal as (ok & -> & _). apply Hgoal. constructor; [exact I|constructor].
  - destruct Hal as (ok & -> & _). apply Hgoal. apply Forall_app. split; [apply gets_quiet, paused_reads_gets|constructor; [exact I|constructor]].
Qed.

Theorem m03d_sound (c : scase) : m03d (set_obs_s c (SetCorr.model_run c)) = true.
Proof. unfold m03d. now rewrite m_gate_sound, m_relay_sound. Qed.

(** *** Ownership (m_own) *)
(** every stored phase object of a delegated phase of the ObjectSet under reconciliation that is controlled by it
    carries that phase's objects *)
Definition phase_objects_carried (c : scase) : bool :=
  match find_set (sc_sets c) (sc_kind c) (sc_ns c) (sc_name c) with
  | None => true
  | Some m =>
      negb (is_activeb m) ||
      forallb (fun ph => match find_phase (sc_phases c) (phase_kind m) (oi_ns (os_id m)) (C15Corr.join m ph) with
                         | Some p => negb (controlled_by_uid (op_owners p) (oi_uid (os_id m))) || list_eqb pobj_eqb (op_objects p) (ph_objects ph)
                         | None => true end) (C15Corr.delegated m)
  end.

Theorem m_own_sound_partial (c : scase) :
  phase_objects_carried c = true -> C15Corr.m_own (as_dobs (set_obs_s c (SetCorr.model_run c))) = true.
Proof.
  intros Hcar. unfold C15Corr.m_own, phase_objects_carried in *. destruct (SetCorr.model_run c) as [[sw e] r] eqn:E.
  cbn [as_dobs C15Corr.ds_step C15Corr.ds_pre_set set_obs_s sc_sets sc_kind sc_ns sc_name].
  destruct (find_set (sc_sets c) (sc_kind c) (sc_ns c) (sc_name c)) as [m|] eqn:Ef; [|reflexivity].
  change (C15Corr.is_activeb m) with (is_activeb m).
  destruct (is_activeb m) eqn:Ha; [|reflexivity]. cbn [negb orb] in *.
  apply (relay_clause_sound c (fun ph b => match C15Corr.last_seen (C15Corr.join m ph) b None with
                                           | Some (Some cur) => controlled_by_uid (op_owners cur) (oi_uid (os_id m)) && list_eqb pobj_eqb (op_objects cur) (ph_objects ph)
                                           | _ => false end) m sw e r Ef (is_activeb_spec m Ha)); [|exact E].
  intros mem1 sw1 sw2 pevs rem ctrlof pre Hs Hph1 Hpre Hrp Hdup q Hq.
  destruct (completed_loop_seen _ _ _ _ _ _ _ _ _ Hs Hpre Hrp Hdup q Hq) as (cur & Hls & Hcur & _ & Hown).
  rewrite Hls, Hown. cbn [andb].
  destruct (rpm_back_ok (sc_force c) mem1 _ _ _ _ _ _ _ _ _ _ _ _ _ _ _ Hrp Hcur) as (p & Hp & Hobj & Hown').
  rewrite forallb_forall in Hcar. specialize (Hcar q Hq). pose proof Hs as (Hid & _).
  rewrite Hph1 in Hp. unfold pobj_name, phase_kind in Hp. rewrite Hid in Hp. unfold C15Corr.join, phase_kind in Hcar. rewrite Hp in Hcar.
  rewrite Hown', Hown, Hobj in Hcar. exact Hcar.
Qed.

Theorem m06d_sound_partial (c : scase) :
  phase_objects_carried c = true -> m06d (set_obs_s c (SetCorr.model_run c)) = true.
Proof. intros H. unfold m06d. now rewrite m_relay_sound, (m_own_sound_partial c H). Qed.

(** *** The refuting case: the stored phase object of the delegated phase is controlled by the ObjectSet and reports
    Available for its generation, but carries another object than the phase lists (the model, like
    remotePhase.Reconcile, does not compare the spec of an existing phase object): Available=True is relayed, and the
    ownership clause of the monitor raises an alarm. *)
Definition x_pobj_other : osphase :=
  {| op_id := {| oi_kind := KObjectSetPhase; oi_ns := 1; oi_name := 10001; oi_uid := 300 |}; op_rv := 7; op_gen := 1;
     op_owners := [x_ref]; op_deleting := false; op_fin := true; op_orphan := false; op_pkg := 0; op_class := 1;
     op_paused := false; op_revision := 1; op_prev := []; op_objects := [x_po 1 7]; op_conds := [x_avail 1]; op_ctrlof := [] |}.
Definition x_other_objects_case : scase :=
  case_of false (x_world [] [x_remote_set LActive [] [] 1 []] [x_pobj_other]) KObjectSet 1 10.

Theorem m06d_refuted :
  exists c, phase_objects_carried c = false /\ m06d (set_obs_s c (SetCorr.model_run c)) = false.
Proof. exists x_other_objects_case. vm_compute. split; reflexivity. Qed.

(** the hypothesis holds when the phase object carries the phase's objects; the same pass then reports Available=True *)
Definition x_carried_case : scase :=
  case_of false (x_world [] [x_remote_set LActive [] [] 1 []] [x_pobj 10001 false [x_key 1 1] [x_avail 1]]) KObjectSet 1 10.
Example m06d_hypothesis_satisfiable :
  phase_objects_carried x_carried_case = true /\
  map (fun s => let '(cs, _, _, _) := s in cond_true cs CAvailable) (statuses (set_obs_s x_carried_case (SetCorr.model_run x_carried_case))) = [true].
Proof. vm_compute. split; reflexivity. Qed.

(** ** m01c, m01s, m02s: the phase-level C01 / C02 monitors on the member requests of an active pass *)
From PKO Require Import AdoptionProofs.
From PKOCorr Require Import C01Corr C02Corr C02Sound.

Lemma judged_active_spec c m : judged_active c m = true ->
  is_active m /\ desired_keys_nodup m /\ os_revision m <> 0%Z.
Proof.
  unfold judged_active. rewrite !andb_true_iff, negb_true_iff. intros [[Ha Hk] Hr].
  split; [now apply is_activeb_spec|]. split; [now apply keys_nodup_iff|]. now apply Z.eqb_neq.
Qed.

(** the pass of an ObjectSet with a revision, as the phase-level lemmas see it *)
Lemma judged_pass c m sw e r :
  find_set (sc_sets c) (sc_kind c) (sc_ns c) (sc_name c) = Some m -> is_active m -> os_revision m <> 0%Z ->
  SetCorr.model_run c = (sw, e, r) ->
  (member_evs e = [] /\ w_store (sw_w sw) = sc_store c /\ (forall ms, In (SMeta ms) e -> keeps2 m (SMeta ms))) \/
  exists mem1 sw1 sw2 pevs rem pr pre,
    same_spec mem1 m /\ as_owner mem1 = as_owner m /\ w_store (sw_w sw1) = sc_store c /\
    reconcile_phases_m (sc_force c) sw1 mem1 (as_owner m) (lookup_prev (sc_sets c) m) (os_phases m) [] (os_remotes mem1) = (sw2, pevs, rem, pr) /\
    w_store (sw_w sw) = w_store (sw_w sw2) /\ member_evs e = member_evs pevs /\
    Forall (keeps2 m) pre /\ after_loop2 mem1 sw2 pre pevs rem pr e r.
Proof.
  intros Ef Hact Hrev E.
  assert (Ef' : find_set (sw_sets (sc_world c)) (sc_kind c) (sc_ns c) (sc_name c) = Some m) by exact Ef.
  unfold SetCorr.model_run in E.
  destruct (objectset_pass_active2 (sc_force c) (sc_world c) _ _ _ m sw e r Ef' Hact E) as [Hs|Hr].
  - left. split; [eapply stopped2_members; eauto|]. split; [now destruct Hs|]. intros ms. eapply stopped2_meta; eauto.
  - right. destruct Hr as (mem1 & sw1 & sw2 & pevs & rem & pr & pre & Hs & Hst1 & _ & _ & Hprev & Hrv & _ & Hrp & Hst & _ & _ & Hpre & Hal).
    pose proof (as_owner_same _ _ Hs (Hrv Hrev)) as How. pose proof Hs as (_ & Hphs & _).
    exists mem1, sw1, sw2, pevs, rem, pr, pre. rewrite How, Hprev, Hphs in Hrp.
    split; [exact Hs|]. split; [exact How|]. split; [exact Hst1|]. split; [exact Hrp|]. split; [exact Hst|].
    split; [eapply after_loop2_members; eauto|]. auto.
Qed.

Theorem m01c_sound (c : scase) : m01c (set_obs_s c (SetCorr.model_run c)) = true.
Proof.
  unfold m01c. rewrite target_model. destruct (SetCorr.model_run c) as [[sw e] r] eqn:E.
  destruct (find_set (sc_sets c) (sc_kind c) (sc_ns c) (sc_name c)) as [m|] eqn:Ef; [|reflexivity].
  change (judged_active (set_obs_s c (sw, e, r)) m) with (judged_active c m).
  destruct (judged_active c m) eqn:Hj; [|reflexivity]. cbn [negb orb].
  destruct (lifecycle_eqb (os_life m) LPaused) eqn:Hpa; [reflexivity|]. cbn [orb].
  destruct (judged_active_spec c m Hj) as (Hact & Hnd & Hrev).
  apply statuses_forall. intros rv cs co rm fph ok Hin. rewrite events_model in Hin.
  destruct (find_cond cs CAvailable) as [cd|] eqn:Hcd; [|reflexivity].
  destruct (creason_eqb (cd_reason cd) RCollisionDetected) eqn:Hre; [|reflexivity]. cbn [negb orb].
  apply creason_eqb_spec in Hre.
  assert (Hkeep : keeps2 m (SMeta (MStatus rv cs co rm fph ok)) ->
                  option_eqb cond_eqb (find_cond (os_conds m) CAvailable) (Some cd) = true).
  { cbn. intros (_ & [Ha|Ha] & _).
    - rewrite <- Ha, Hcd. cbn. apply cond_eqb_refl'.
    - rewrite Hcd in Ha. injection Ha as ->. discriminate. }
  destruct (judged_pass c m sw e r Ef Hact Hrev E) as [(_ & _ & Hk)|(mem1 & sw1 & sw2 & pevs & rem & pr & pre & Hs & How & Hst1 & Hrp & _ & _ & Hpre & Hal)].
  { now rewrite (Hkeep (Hk _ Hin)). }
  assert (Hrp' : reconcile_phases_m (sc_force c) sw1 mem1 (as_owner mem1) (lookup_prev (sc_sets c) m) (os_phases mem1) [] (os_remotes mem1) = (sw2, pevs, rem, pr)).
  { pose proof Hs as (_ & Hphs & _). now rewrite How, Hphs. }
  destruct (after_loop2_meta _ _ _ _ _ _ _ _ _ _ _ _ _ Hrp' Hpre Hal Hin) as [Hk2|(f & ok' & Hf & He)].
  { now rewrite (Hkeep Hk2). }
  unfold tail_status in Hf. destruct pr as [e0| | |ctrlof failed].
  - destruct (is_collision e0) eqn:Hcol; [|discriminate]. apply orb_true_iff. right.
    destruct (rpm_collision (sc_force c) mem1 _ _ _ _ _ _ _ _ _ _ Hrp Hcol Hnd) as (ph & p & o & Hph & Hcl & Hp & Hl & Hm).
    apply existsb_exists. exists p. split.
    + apply in_flat_map. exists ph. split; [|exact Hp]. unfold locals. apply filter_In. split; [exact Hph|now rewrite Hcl].
    + change (sc_store (set_obs_s c (sw, e, r))) with (sc_store c). rewrite <- Hst1. unfold spec_key. fold (key_of (as_owner m) p). rewrite Hl.
      destruct Hm as (Hc & Hpm & Hn & Hu). unfold must_refuse_s. cbn [c_flavor c_force flavor_strat ow_id as_owner] in *.
      change (sc_force (set_obs_s c (sw, e, r))) with (sc_force c). change (sc_sets (set_obs_s c (sw, e, r))) with (sc_sets c).
      now rewrite Hc, Hpm, Hn, Hu.
  - discriminate.
  - injection Hf as <-. unfold status_ev, status_ev_f in He.
    remember (fail_mem _ _) as fm eqn:Efm in He. injection He as _ -> _ _ _ _. subst fm.
    rewrite fail_mem_available in Hcd. injection Hcd as <-. discriminate.
  - injection Hf as <-. unfold status_ev_f in He.
    remember (final_status _ _ _ _) as fs eqn:Efs in He. injection He as _ -> _ _ _ _. subst fs.
    rewrite final_status_available_eq in Hcd. injection Hcd as <-. destruct failed; discriminate.
Qed.

Lemma obj_eqb_refl o : obj_eqb o o = true.
Proof. now apply obj_eqb_spec. Qed.

Lemma local_objects_in m ph p : In ph (os_phases m) -> ph_class ph = false -> In p (ph_objects ph) -> In p (flat_map ph_objects (locals m)).
Proof. intros Hph Hc Hp. apply in_flat_map. exists ph. split; [|exact Hp]. unfold locals. apply filter_In. split; [exact Hph|now rewrite Hc]. Qed.

(** C01 m1 on the member requests: every write is justified by the version read *)
Lemma m1_set_sound (c : scase) m sw e r :
  find_set (sc_sets c) (sc_kind c) (sc_ns c) (sc_name c) = Some m -> judged_active c m = true ->
  SetCorr.model_run c = (sw, e, r) -> C01Corr.m1 (as_pcase (set_obs_s c (sw, e, r)) m) = true.
Proof.
  intros Ef Hj E. destruct (judged_active_spec c m Hj) as (Hact & Hnd & Hrev).
  unfold C01Corr.m1. cbn [pc_events as_pcase]. rewrite members_model.
  set (pc := as_pcase (set_obs_s c (sw, e, r)) m).
  destruct (judged_pass c m sw e r Ef Hact Hrev E) as [(-> & _)|(mem1 & sw1 & sw2 & pevs & rem & pr & pre & Hs & How & Hst1 & Hrp & _ & -> & _)]; [reflexivity|].
  apply forallb_forall. apply Forall_forall.
  eapply (rpm_local_forall (sc_force c) (fun x => C01Corr.ev_okb pc x = true)); [|exact Hrp].
  intros ph Hph Hcl w w' e1 r1 H1. unfold reconcile_phase in H1. destruct (flat_map _ (ph_objects ph)); [|injection H1 as _ <- _; constructor].
  pose proof (rec_objs_justified _ _ _ _ _ _ _ _ _ _ _ H1) as HJ.
  eapply Forall_impl; [|exact HJ]. intros x (p & rd & pre0 & post & Hin & Hx & Hp & Hm).
  apply (ev_justified_okb pc x eq_refl). exists p, rd, pre0, post. split; [|auto].
  cbn [pc pc_objects as_pcase]. eapply local_objects_in; eauto.
Qed.

(** C01 m2: an existing object that is not controlled and may not be adopted is untouched *)
Lemma m2_set_sound (c : scase) m sw e r :
  find_set (sc_sets c) (sc_kind c) (sc_ns c) (sc_name c) = Some m -> judged_active c m = true ->
  SetCorr.model_run c = (sw, e, r) -> C01Corr.m2 (as_pcase (set_obs_s c (sw, e, r)) m) = true.
Proof.
  intros Ef Hj E. destruct (judged_active_spec c m Hj) as (Hact & Hnd & Hrev).
  unfold C01Corr.m2. cbn [pc_between pc_teardown pc_objects pc_store pc_post pc_events pc_owner pc_flavor pc_force pc_prev as_pcase is_nil negb orb flavor_strat].
  rewrite members_model, post_model.
  change (sc_store (set_obs_s c (sw, e, r))) with (sc_store c). change (sc_force (set_obs_s c (sw, e, r))) with (sc_force c).
  change (sc_sets (set_obs_s c (sw, e, r))) with (sc_sets c).
  apply forallb_forall. intros p Hp.
  destruct (lookup (desired_key (as_owner m) p) (sc_store c)) as [o|] eqn:El; [|reflexivity].
  destruct (is_controller Native (ow_id (as_owner m)) o) eqn:Hc; [reflexivity|]. cbn [orb].
  destruct (existsb _ (flat_map ph_objects (locals m))) eqn:Hex; [reflexivity|]. cbn [orb].
  assert (Hgoal : lookup (desired_key (as_owner m) p) (w_store (sw_w sw)) = Some o /\
                  Forall (fun x => ev_key x <> desired_key (as_owner m) p) (member_evs e)).
  { destruct (judged_pass c m sw e r Ef Hact Hrev E) as [(-> & -> & _)|(mem1 & sw1 & sw2 & pevs & rem & pr & pre & Hs & How & Hst1 & Hrp & -> & -> & _)];
      [split; [exact El|constructor]|].
    eapply (rpm_untouched (sc_force c)); [exact Hrp|now rewrite Hst1|exact Hc|].
    intros ph Hph Hcl q Hq Hk. destruct (permitted _ _ _ _ _ _) eqn:Ep; [|reflexivity]. exfalso.
    assert (existsb (fun q0 => okey_eqb (desired_key (as_owner m) q0) (desired_key (as_owner m) p) &&
                               permitted Native (sc_force c) (as_owner m) o (lookup_prev (sc_sets c) m) (po_cp q0)) (flat_map ph_objects (locals m)) = true).
    { apply existsb_exists. exists q. split; [eapply local_objects_in; eauto|]. unfold key_of in Hk. rewrite Hk, okey_eqb_refl. exact Ep. }
    congruence. }
  destruct Hgoal as [-> Hev]. cbn. rewrite obj_eqb_refl. cbn.
  apply forallb_forall. intros x Hx. rewrite Forall_forall in Hev. apply negb_true_iff. apply okey_eqb_neq. now apply Hev.
Qed.

Theorem m01s_sound (c : scase) : m01s (set_obs_s c (SetCorr.model_run c)) = true.
Proof.
  unfold m01s. rewrite m01_sound, m01c_sound. cbn [andb]. rewrite target_model.
  destruct (SetCorr.model_run c) as [[sw e] r] eqn:E.
  destruct (find_set (sc_sets c) (sc_kind c) (sc_ns c) (sc_name c)) as [m|] eqn:Ef; [|reflexivity].
  change (judged_active (set_obs_s c (sw, e, r)) m) with (judged_active c m).
  destruct (judged_active c m) eqn:Hj; [|reflexivity]. cbn [negb orb].
  now rewrite (m1_set_sound c m sw e r Ef Hj E), (m2_set_sound c m sw e r Ef Hj E).
Qed.

Theorem m02s_sound (c : scase) : m02s (set_obs_s c (SetCorr.model_run c)) = true.
Proof.
  unfold m02s. rewrite target_model. destruct (SetCorr.model_run c) as [[sw e] r] eqn:E.
  destruct (find_set (sc_sets c) (sc_kind c) (sc_ns c) (sc_name c)) as [m|] eqn:Ef; [|reflexivity].
  change (judged_active (set_obs_s c (sw, e, r)) m) with (judged_active c m).
  destruct (judged_active c m) eqn:Hj; [|reflexivity]. cbn [negb orb].
  destruct (judged_active_spec c m Hj) as (Hact & Hnd & Hrev).
  unfold C02Corr.monitor. cbn [pc_teardown pc_events as_pcase orb]. rewrite members_model.
  set (pc := as_pcase (set_obs_s c (sw, e, r)) m).
  destruct (judged_pass c m sw e r Ef Hact Hrev E) as [(-> & _)|(mem1 & sw1 & sw2 & pevs & rem & pr & pre & Hs & How & Hst1 & Hrp & _ & -> & _)]; [reflexivity|].
  apply forallb_forall. apply Forall_forall.
  eapply (rpm_local_forall (sc_force c) (fun x => C02Corr.ev_okb pc x = true)); [|exact Hrp].
  intros ph Hph Hcl w w' e1 r1 H1. unfold reconcile_phase in H1. destruct (flat_map _ (ph_objects ph)); [|injection H1 as _ <- _; constructor].
  apply Forall_forall. apply forallb_forall.
  exact (rec_objs_c02 pc idw true (ph_objects ph) w [] [] w' e1 r1 (fun _ => eq_refl) eq_refl H1).
Qed.
