(** The controller-level monitors of coq/corr/SetMonitors.v accept every pass of the model
    ([m (set_obs_s c (model_run c)) = true]: no false alarm on an implementation that agrees with the model),
    continuing SetMonSound.v (m09). Where a monitor does NOT accept every pass of the model the refuting case
    is given ([..._refuted]) and the theorem carries the hypothesis that excludes it ([..._partial]). *)
From Coq Require Import List NArith ZArith Bool Lia.
From PKO Require Import Util Base BaseProofs Owner Api ApiProofs Phase PhaseProofs TeardownProofs PreflightProofs
     ObjectSet ObjectSetProofs SetMonLemmas.
From PKOCorr Require Import PhaseCorr SetCorr SetMonitors C05Sound C01Sound PhaseMonSound SetMonSound.
Import ListNotations.
Local Open Scope N_scope.

(** ** The observation fields of [set_obs_s] *)
Lemma target_model c res : target (set_obs_s c res) = find_set (sc_sets c) (sc_kind c) (sc_ns c) (sc_name c).
Proof. destruct res as [[sw e] r]. reflexivity. Qed.

Lemma is_activeb_false_going m : is_activeb m = true -> is_goingb m = false.
Proof.
  unfold is_activeb, is_goingb. rewrite !andb_true_iff, !negb_true_iff. intros [[H1 H2] H3]. now rewrite H1, H2, H3.
Qed.

(** ** m11r *)
Theorem m11r_sound (c : scase) : m11r (set_obs_s c (SetCorr.model_run c)) = true.
Proof.
  unfold m11r. rewrite target_model. destruct (SetCorr.model_run c) as [[sw e] r] eqn:E.
  destruct (find_set (sc_sets c) (sc_kind c) (sc_ns c) (sc_name c)) as [m|] eqn:Ef; [|reflexivity].
  destruct (is_activeb m) eqn:Ha; [|reflexivity]. cbn [negb orb].
  destruct (Z.eqb (os_revision m) 0) eqn:Hr; [reflexivity|]. cbn [orb].
  match goal with |- negb ?v || _ = true => destruct v eqn:Hv; [|reflexivity] end. cbn [negb orb].
  change (sc_res (set_obs_s c (sw, e, r))) with r.
  apply Z.eqb_neq in Hr. unfold SetCorr.model_run in E.
  exact (objectset_pass_violation (sc_force c) (sc_world c) _ _ _ m sw e r Ef (is_activeb_spec m Ha) Hr Hv E).
Qed.

(** ** Quantifying over the status requests / member requests of the observation *)
Lemma statuses_forall c (P : list cond * list okey * option N * bool -> bool) :
  (forall rv cs co rm fph ok, In (SMeta (MStatus rv cs co rm fph ok)) (sc_events c) -> P (cs, co, fph, ok) = true) ->
  forallb P (statuses c) = true.
Proof.
  intros H. apply forallb_forall. intros s Hs. unfold statuses in Hs. apply in_flat_map in Hs.
  destruct Hs as (e & He & Hin). destruct e as [x|[a o|rv cs co rm fph ok]|p]; try contradiction.
  destruct Hin as [<-|[]]. eapply H; eauto.
Qed.

Lemma members_in c x : In x (members c) <-> In (SMember x) (sc_events c).
Proof.
  unfold members. rewrite in_flat_map. split.
  - intros (e & He & Hin). destruct e as [y|m|p]; try contradiction. destruct Hin as [<-|[]]. exact He.
  - intros H. exists (SMember x). split; [exact H|now left].
Qed.

Lemma events_model c sw e r : sc_events (set_obs_s c (sw, e, r)) = e.
Proof. reflexivity. Qed.

(** ** m01 *)
Theorem m01_sound (c : scase) : m01 (set_obs_s c (SetCorr.model_run c)) = true.
Proof.
  unfold m01. rewrite target_model. destruct (SetCorr.model_run c) as [[sw e] r] eqn:E.
  destruct (find_set (sc_sets c) (sc_kind c) (sc_ns c) (sc_name c)) as [m|] eqn:Ef; [|reflexivity].
  apply statuses_forall. intros rv cs co rm fph ok Hin. rewrite events_model in Hin.
  destruct (find_cond cs CAvailable) as [cd|] eqn:Hcd; [|reflexivity].
  destruct (creason_eqb (cd_reason cd) RCollisionDetected) eqn:Hre; [|reflexivity]. cbn [negb orb].
  apply creason_eqb_spec in Hre. unfold SetCorr.model_run in E.
  destruct (collision_reported (sc_force c) (sc_world c) _ _ _ m sw e r rv cs co rm fph ok cd Ef E Hin Hcd Hre) as [Hs|[Hs Hg]].
  - rewrite Hs. cbn. now rewrite cond_eqb_refl'.
  - rewrite Hs, Hg, Z.eqb_refl. cbn. apply orb_true_r.
Qed.
