(** The controller-level monitors of coq/corr/SetMonitors.v accept every pass of the model
    ([m (set_obs_s c (model_run c)) = true]: no false alarm on an implementation that agrees with the model),
    continuing SetMonSound.v (m09). Where a monitor does NOT accept every pass of the model the refuting case
    is given ([..._refuted]) and the theorem carries the hypothesis that excludes it ([..._partial]). *)
From Coq Require Import List NArith ZArith Bool Lia.
From PKO Require Import Util Base BaseProofs Owner Api ApiProofs Phase PhaseProofs TeardownProofs PreflightProofs
     ObjectSet ObjectSetProofs SetMonLemmas.
From PKOCorr Require Import PhaseCorr SetCorr SetMonitors C05Sound C01Sound PhaseMonSound SetMonSound.
Import ListNotations.
Local Open Scope N_scope.

(** ** The observation fields of [set_obs_s] *)
Lemma target_model c res : target (set_obs_s c res) = find_set (sc_sets c) (sc_kind c) (sc_ns c) (sc_name c).
Proof. destruct res as [[sw e] r]. reflexivity. Qed.

Lemma is_activeb_false_going m : is_activeb m = true -> is_goingb m = false.
Proof.
  unfold is_activeb, is_goingb. rewrite !andb_true_iff, !negb_true_iff. intros [[H1 H2] H3]. now rewrite H1, H2, H3.
Qed.

(** ** m11r *)
Theorem m11r_sound (c : scase) : m11r (set_obs_s c (SetCorr.model_run c)) = true.
Proof.
  unfold m11r. rewrite target_model. destruct (SetCorr.model_run c) as [[sw e] r] eqn:E.
  destruct (find_set (sc_sets c) (sc_kind c) (sc_ns c) (sc_name c)) as [m|] eqn:Ef; [|reflexivity].
  destruct (is_activeb m) eqn:Ha; [|reflexivity]. cbn [negb orb].
  destruct (Z.eqb (os_revision m) 0) eqn:Hr; [reflexivity|]. cbn [orb].
  match goal with |- negb ?v || _ = true => destruct v eqn:Hv; [|reflexivity] end. cbn [negb orb].
  change (sc_res (set_obs_s c (sw, e, r))) with r.
  apply Z.eqb_neq in Hr. unfold SetCorr.model_run in E.
  exact (objectset_pass_violation (sc_force c) (sc_world c) _ _ _ m sw e r Ef (is_activeb_spec m Ha) Hr Hv E).
Qed.

(** ** Quantifying over the status requests / member requests of the observation *)
Lemma statuses_forall c (P : list cond * list okey * option N * bool -> bool) :
  (forall rv cs co rm fph ok, In (SMeta (MStatus rv cs co rm fph ok)) (sc_events c) -> P (cs, co, fph, ok) = true) ->
  forallb P (statuses c) = true.
Proof.
  intros H. apply forallb_forall. intros s Hs. unfold statuses in Hs. apply in_flat_map in Hs.
  destruct Hs as (e & He & Hin). destruct e as [x|[a o|rv cs co rm fph ok]|p]; try contradiction.
  destruct Hin as [<-|[]]. eapply H; eauto.
Qed.

Lemma members_in c x : In x (members c) <-> In (SMember x) (sc_events c).
Proof.
  unfold members. rewrite in_flat_map. split.
  - intros (e & He & Hin). destruct e as [y|m|p]; try contradiction. destruct Hin as [<-|[]]. exact He.
  - intros H. exists (SMember x). split; [exact H|now left].
Qed.

Lemma events_model c sw e r : sc_events (set_obs_s c (sw, e, r)) = e.
Proof. reflexivity. Qed.

(** ** m01 *)
Theorem m01_sound (c : scase) : m01 (set_obs_s c (SetCorr.model_run c)) = true.
Proof.
  unfold m01. rewrite target_model. destruct (SetCorr.model_run c) as [[sw e] r] eqn:E.
  destruct (find_set (sc_sets c) (sc_kind c) (sc_ns c) (sc_name c)) as [m|] eqn:Ef; [|reflexivity].
  apply statuses_forall. intros rv cs co rm fph ok Hin. rewrite events_model in Hin.
  destruct (find_cond cs CAvailable) as [cd|] eqn:Hcd; [|reflexivity].
  destruct (creason_eqb (cd_reason cd) RCollisionDetected) eqn:Hre; [|reflexivity]. cbn [negb orb].
  apply creason_eqb_spec in Hre. unfold SetCorr.model_run in E.
  destruct (collision_reported (sc_force c) (sc_world c) _ _ _ m sw e r rv cs co rm fph ok cd Ef E Hin Hcd Hre) as [Hs|[Hs Hg]].
  - rewrite Hs. cbn. now rewrite cond_eqb_refl'.
  - rewrite Hs, Hg, Z.eqb_refl. cbn. apply orb_true_r.
Qed.

(** ** Keys and phase indices as the monitors compute them *)
Lemma all_keys_eq m : all_keys m = flat_map (phase_keys (as_owner m)) (local_phases m).
Proof. reflexivity. Qed.

Lemma keys_nodup_iff m : SetMonitors.keys_nodup m = true <-> desired_keys_nodup m.
Proof.
  unfold SetMonitors.keys_nodup, desired_keys_nodup. rewrite all_keys_eq. split.
  - apply (nodupb_spec okey_eqb okey_eqb_spec).
  - apply (nodupb_complete okey_eqb okey_eqb_spec).
Qed.

Lemma existsb_okey k l : existsb (okey_eqb k) l = true <-> In k l.
Proof.
  rewrite existsb_exists. split.
  - intros (y & Hy & E). apply okey_eqb_spec in E. now subst y.
  - intros H. exists k. split; [exact H|apply okey_eqb_refl].
Qed.

(** with pairwise distinct keys, the first local phase naming a key is the only one *)
Lemma phase_index_found m phs k ph : forall i,
  NoDup (flat_map (pkeys m) phs) -> In ph phs -> In k (pkeys m ph) ->
  exists j, phase_index m phs k i = Some (i + j)%nat /\ nth_error phs j = Some ph.
Proof.
  induction phs as [|ph0 rest IH]; intros i Hnd Hin Hk; [contradiction|]. cbn [phase_index].
  cbn in Hnd. destruct (existsb (okey_eqb k) (pkeys m ph0)) eqn:E.
  - apply existsb_okey in E. destruct Hin as [<-|Hin]; [exists O; split; [f_equal; lia|reflexivity]|].
    exfalso. eapply NoDup_app_disj; [exact Hnd|exact E|]. apply in_flat_map. eauto.
  - destruct Hin as [<-|Hin]; [apply existsb_okey in Hk; congruence|].
    destruct (IH (S i) (NoDup_app_r _ _ Hnd) Hin Hk) as (j & Hj & Hn). exists (S j). split; [rewrite Hj; f_equal; lia|exact Hn].
Qed.

Lemma written_by_local m e : written_by (as_owner m) (os_phases m) e ->
  exists ph, In ph (locals m) /\ In (ev_key e) (pkeys m ph) /\
             (forall p, In p (ph_objects ph) -> preflight_obj FObjectSet (as_owner m) false p = []).
Proof.
  intros (ph & Hin & Hc & Hk & Hp). exists ph. split; [|split; [exact Hk|exact Hp]].
  unfold locals. apply filter_In. split; [exact Hin|]. now rewrite Hc.
Qed.

(** ** The three kinds of pass *)
Lemma target_kind m :
  (cond_true (os_conds m) CArchived = true /\ is_activeb m = false /\ is_goingb m = false) \/
  (is_goingb m = true /\ is_activeb m = false /\ is_going m) \/
  (is_activeb m = true /\ is_goingb m = false /\ is_active m).
Proof.
  unfold is_activeb, is_goingb, is_going, is_active.
  destruct (cond_true (os_conds m) CArchived); [left; auto|right]. cbn [negb andb].
  destruct (os_deleting m); [left; cbn; auto|]. cbn [negb andb orb].
  destruct (lifecycle_eqb (os_life m) LArchived) eqn:E; [left|right]; cbn.
  - apply lifecycle_eqb_spec in E. auto.
  - repeat split; auto. intros El. rewrite El in E. discriminate.
Qed.

Lemma model_archived c m sw e r :
  find_set (sc_sets c) (sc_kind c) (sc_ns c) (sc_name c) = Some m -> cond_true (os_conds m) CArchived = true ->
  SetCorr.model_run c = (sw, e, r) -> sw = sc_world c /\ e = [] /\ r = SNothing.
Proof.
  intros Hf Ha E. unfold SetCorr.model_run in E.
  rewrite (C06_archived_not_reconciled (sc_force c) (sc_world c) _ _ _ _ Hf Ha) in E. injection E as <- <- <-. auto.
Qed.

(** ** m11 *)
Theorem m11_sound (c : scase) : m11 (set_obs_s c (SetCorr.model_run c)) = true.
Proof.
  unfold m11. rewrite target_model. destruct (SetCorr.model_run c) as [[sw e] r] eqn:E.
  destruct (find_set (sc_sets c) (sc_kind c) (sc_ns c) (sc_name c)) as [m|] eqn:Ef; [|reflexivity].
  rewrite members_model. unfold SetCorr.model_run in E.
  apply andb_true_iff. split; [apply andb_true_iff; split|].
  - (* the same object twice: no member request *)
    destruct (is_activeb m) eqn:Ha; [|reflexivity]. cbn [negb orb].
    destruct (SetMonitors.keys_nodup m) eqn:Hk; [reflexivity|]. cbn [orb].
    destruct (active_members_written (sc_force c) (sc_world c) _ _ _ m sw e r Ef (is_activeb_spec m Ha) E) as [->|[Hnd _]]; [reflexivity|].
    apply keys_nodup_iff in Hnd. congruence.
  - (* namespace bound, every kind of pass *)
    destruct (oi_ns (os_id m) =? 0) eqn:Hns; [reflexivity|]. cbn [orb]. apply N.eqb_neq in Hns.
    pose proof (pass_members_ns (sc_force c) (sc_world c) _ _ _ m sw e r Ef E) as Hb.
    apply forallb_forall. intros x Hx. rewrite Forall_forall in Hb. destruct (Hb x Hx Hns) as [-> ->].
    cbn. now rewrite N.eqb_refl.
  - (* preflight gate *)
    destruct (is_activeb m) eqn:Ha; [|reflexivity]. cbn [negb orb].
    destruct (active_members_written (sc_force c) (sc_world c) _ _ _ m sw e r Ef (is_activeb_spec m Ha) E) as [->|[Hnd Hw]]; [reflexivity|].
    apply forallb_forall. intros x Hx. rewrite Forall_forall in Hw.
    destruct (written_by_local m x (Hw x Hx)) as (ph & Hin & Hk & Hp).
    destruct (phase_index_found m (locals m) (ev_key x) ph O Hnd Hin Hk) as (j & Hj1 & Hj2). cbn [plus] in Hj1. rewrite Hj1, Hj2.
    apply forallb_forall. intros p Hpi. now rewrite (Hp p Hpi).
Qed.
