(** The controller-level monitors of coq/corr/SetMonitors.v accept every pass of the model
    ([m (set_obs_s c (model_run c)) = true]: no false alarm on an implementation that agrees with the model),
    continuing SetMonSound.v (m09). Where a monitor does NOT accept every pass of the model the refuting case
    is given ([..._refuted]) and the theorem carries the hypothesis that excludes it ([..._partial]). *)
From Coq Require Import List NArith ZArith Bool Lia.
From PKO Require Import Util Base BaseProofs Owner Api ApiProofs Phase PhaseProofs TeardownProofs PreflightProofs
     ObjectSet ObjectSetProofs SetMonLemmas.
From PKOCorr Require Import PhaseCorr SetCorr SetMonitors C05Sound C01Sound PhaseMonSound SetMonSound.
Import ListNotations.
Local Open Scope N_scope.

(** ** The observation fields of [set_obs_s] *)
Lemma target_model c res : target (set_obs_s c res) = find_set (sc_sets c) (sc_kind c) (sc_ns c) (sc_name c).
Proof. destruct res as [[sw e] r]. reflexivity. Qed.

Lemma is_activeb_false_going m : is_activeb m = true -> is_goingb m = false.
Proof.
  unfold is_activeb, is_goingb. rewrite !andb_true_iff, !negb_true_iff. intros [[H1 H2] H3]. now rewrite H1, H2, H3.
Qed.

(** ** m11r *)
Theorem m11r_sound (c : scase) : m11r (set_obs_s c (SetCorr.model_run c)) = true.
Proof.
  unfold m11r. rewrite target_model. destruct (SetCorr.model_run c) as [[sw e] r] eqn:E.
  destruct (find_set (sc_sets c) (sc_kind c) (sc_ns c) (sc_name c)) as [m|] eqn:Ef; [|reflexivity].
  destruct (is_activeb m) eqn:Ha; [|reflexivity]. cbn [negb orb].
  destruct (Z.eqb (os_revision m) 0) eqn:Hr; [reflexivity|]. cbn [orb].
  match goal with |- negb ?v || _ = true => destruct v eqn:Hv; [|reflexivity] end. cbn [negb orb].
  change (sc_res (set_obs_s c (sw, e, r))) with r.
  apply Z.eqb_neq in Hr. unfold SetCorr.model_run in E.
  exact (objectset_pass_violation (sc_force c) (sc_world c) _ _ _ m sw e r Ef (is_activeb_spec m Ha) Hr Hv E).
Qed.

(** ** Quantifying over the status requests / member requests of the observation *)
Lemma statuses_forall c (P : list cond * list okey * option N * bool -> bool) :
  (forall rv cs co rm fph ok, In (SMeta (MStatus rv cs co rm fph ok)) (sc_events c) -> P (cs, co, fph, ok) = true) ->
  forallb P (statuses c) = true.
Proof.
  intros H. apply forallb_forall. intros s Hs. unfold statuses in Hs. apply in_flat_map in Hs.
  destruct Hs as (e & He & Hin). destruct e as [x|[a o|rv cs co rm fph ok]|p]; try contradiction.
  destruct Hin as [<-|[]]. eapply H; eauto.
Qed.

Lemma members_in c x : In x (members c) <-> In (SMember x) (sc_events c).
Proof.
  unfold members. rewrite in_flat_map. split.
  - intros (e & He & Hin). destruct e as [y|m|p]; try contradiction. destruct Hin as [<-|[]]. exact He.
  - intros H. exists (SMember x). split; [exact H|now left].
Qed.

Lemma events_model c sw e r : sc_events (set_obs_s c (sw, e, r)) = e.
Proof. reflexivity. Qed.

(** ** m01 *)
Theorem m01_sound (c : scase) : m01 (set_obs_s c (SetCorr.model_run c)) = true.
Proof.
  unfold m01. rewrite target_model. destruct (SetCorr.model_run c) as [[sw e] r] eqn:E.
  destruct (find_set (sc_sets c) (sc_kind c) (sc_ns c) (sc_name c)) as [m|] eqn:Ef; [|reflexivity].
  apply statuses_forall. intros rv cs co rm fph ok Hin. rewrite events_model in Hin.
  destruct (find_cond cs CAvailable) as [cd|] eqn:Hcd; [|reflexivity].
  destruct (creason_eqb (cd_reason cd) RCollisionDetected) eqn:Hre; [|reflexivity]. cbn [negb orb].
  apply creason_eqb_spec in Hre. unfold SetCorr.model_run in E.
  destruct (collision_reported (sc_force c) (sc_world c) _ _ _ m sw e r rv cs co rm fph ok cd Ef E Hin Hcd Hre) as [Hs|[Hs Hg]].
  - rewrite Hs. cbn. now rewrite cond_eqb_refl'.
  - rewrite Hs, Hg, Z.eqb_refl. cbn. apply orb_true_r.
Qed.

(** ** Keys and phase indices as the monitors compute them *)
Lemma all_keys_eq m : all_keys m = flat_map (phase_keys (as_owner m)) (local_phases m).
Proof. reflexivity. Qed.

Lemma keys_nodup_iff m : SetMonitors.keys_nodup m = true <-> desired_keys_nodup m.
Proof.
  unfold SetMonitors.keys_nodup, desired_keys_nodup. rewrite all_keys_eq. split.
  - apply (nodupb_spec okey_eqb okey_eqb_spec).
  - apply (nodupb_complete okey_eqb okey_eqb_spec).
Qed.

Lemma existsb_okey k l : existsb (okey_eqb k) l = true <-> In k l.
Proof.
  rewrite existsb_exists. split.
  - intros (y & Hy & E). apply okey_eqb_spec in E. now subst y.
  - intros H. exists k. split; [exact H|apply okey_eqb_refl].
Qed.

(** with pairwise distinct keys, the first local phase naming a key is the only one *)
Lemma phase_index_found m phs k ph : forall i,
  NoDup (flat_map (pkeys m) phs) -> In ph phs -> In k (pkeys m ph) ->
  exists j, phase_index m phs k i = Some (i + j)%nat /\ nth_error phs j = Some ph.
Proof.
  induction phs as [|ph0 rest IH]; intros i Hnd Hin Hk; [contradiction|]. cbn [phase_index].
  cbn in Hnd. destruct (existsb (okey_eqb k) (pkeys m ph0)) eqn:E.
  - apply existsb_okey in E. destruct Hin as [<-|Hin]; [exists O; split; [f_equal; lia|reflexivity]|].
    exfalso. eapply NoDup_app_disj; [exact Hnd|exact E|]. apply in_flat_map. eauto.
  - destruct Hin as [<-|Hin]; [apply existsb_okey in Hk; congruence|].
    destruct (IH (S i) (NoDup_app_r _ _ Hnd) Hin Hk) as (j & Hj & Hn). exists (S j). split; [rewrite Hj; f_equal; lia|exact Hn].
Qed.

Lemma written_by_local m e : written_by (as_owner m) (os_phases m) e ->
  exists ph, In ph (locals m) /\ In (ev_key e) (pkeys m ph) /\
             (forall p, In p (ph_objects ph) -> preflight_obj FObjectSet (as_owner m) false p = []).
Proof.
  intros (ph & Hin & Hc & Hk & Hp). exists ph. split; [|split; [exact Hk|exact Hp]].
  unfold locals. apply filter_In. split; [exact Hin|]. now rewrite Hc.
Qed.

(** ** The three kinds of pass *)
Lemma target_kind m :
  (cond_true (os_conds m) CArchived = true /\ is_activeb m = false /\ is_goingb m = false) \/
  (is_goingb m = true /\ is_activeb m = false /\ is_going m) \/
  (is_activeb m = true /\ is_goingb m = false /\ is_active m).
Proof.
  unfold is_activeb, is_goingb, is_going, is_active.
  destruct (cond_true (os_conds m) CArchived); [left; auto|right]. cbn [negb andb].
  destruct (os_deleting m); [left; cbn; auto|]. cbn [negb andb orb].
  destruct (lifecycle_eqb (os_life m) LArchived) eqn:E; [left|right]; cbn.
  - apply lifecycle_eqb_spec in E. auto.
  - repeat split; auto. intros El. rewrite El in E. discriminate.
Qed.

Lemma model_archived c m sw e r :
  find_set (sc_sets c) (sc_kind c) (sc_ns c) (sc_name c) = Some m -> cond_true (os_conds m) CArchived = true ->
  SetCorr.model_run c = (sw, e, r) -> sw = sc_world c /\ e = [] /\ r = SNothing.
Proof.
  intros Hf Ha E. unfold SetCorr.model_run in E.
  rewrite (C06_archived_not_reconciled (sc_force c) (sc_world c) _ _ _ _ Hf Ha) in E. injection E as <- <- <-. auto.
Qed.

(** ** m11 *)
Theorem m11_sound (c : scase) : m11 (set_obs_s c (SetCorr.model_run c)) = true.
Proof.
  unfold m11. rewrite target_model. destruct (SetCorr.model_run c) as [[sw e] r] eqn:E.
  destruct (find_set (sc_sets c) (sc_kind c) (sc_ns c) (sc_name c)) as [m|] eqn:Ef; [|reflexivity].
  rewrite members_model. unfold SetCorr.model_run in E.
  apply andb_true_iff. split; [apply andb_true_iff; split|].
  - (* the same object twice: no member request *)
    destruct (is_activeb m) eqn:Ha; [|reflexivity]. cbn [negb orb].
    destruct (SetMonitors.keys_nodup m) eqn:Hk; [reflexivity|]. cbn [orb].
    destruct (active_members_written (sc_force c) (sc_world c) _ _ _ m sw e r Ef (is_activeb_spec m Ha) E) as [->|[Hnd _]]; [reflexivity|].
    apply keys_nodup_iff in Hnd. congruence.
  - (* namespace bound, every kind of pass *)
    destruct (oi_ns (os_id m) =? 0) eqn:Hns; [reflexivity|]. cbn [orb]. apply N.eqb_neq in Hns.
    pose proof (pass_members_ns (sc_force c) (sc_world c) _ _ _ m sw e r Ef E) as Hb.
    apply forallb_forall. intros x Hx. rewrite Forall_forall in Hb. destruct (Hb x Hx Hns) as [-> ->].
    cbn. now rewrite N.eqb_refl.
  - (* preflight gate *)
    destruct (is_activeb m) eqn:Ha; [|reflexivity]. cbn [negb orb].
    destruct (active_members_written (sc_force c) (sc_world c) _ _ _ m sw e r Ef (is_activeb_spec m Ha) E) as [->|[Hnd Hw]]; [reflexivity|].
    apply forallb_forall. intros x Hx. rewrite Forall_forall in Hw.
    destruct (written_by_local m x (Hw x Hx)) as (ph & Hin & Hk & Hp).
    destruct (phase_index_found m (locals m) (ev_key x) ph O Hnd Hin Hk) as (j & Hj1 & Hj2). cbn [plus] in Hj1. rewrite Hj1, Hj2.
    apply forallb_forall. intros p Hpi. now rewrite (Hp p Hpi).
Qed.

(** ** m04 *)
Lemma td_doneb_spec m w p : td_obj_done w (as_owner m) p -> td_doneb m (w_store w) p = true.
Proof.
  unfold td_obj_done, td_doneb. intros [Hp|Hl].
  - destruct (preflight_obj FObjectSet (as_owner m) false p); [contradiction|reflexivity].
  - apply orb_true_iff. right. unfold spec_key. fold (key_of (as_owner m) p).
    destruct (lookup (key_of (as_owner m) p) (w_store w)); [|reflexivity]. cbn [ow_id as_owner] in Hl. now rewrite Hl.
Qed.

Lemma nth_error_split {A} (l : list A) : forall j x, nth_error l j = Some x -> l = firstn j l ++ x :: skipn (S j) l.
Proof.
  induction l as [|a l IH]; intros [|j] x H; cbn in H; try discriminate.
  - injection H as ->. reflexivity.
  - cbn [firstn skipn app]. f_equal. now apply IH.
Qed.

Lemma local_keys_rev_in m k : In k (local_keys (as_owner m) (rev (os_phases m))) ->
  exists ph, In ph (locals m) /\ In k (pkeys m ph).
Proof.
  unfold local_keys. intros H. apply in_flat_map in H. destruct H as (ph & Hph & Hk).
  apply filter_In in Hph. destruct Hph as [Hph Hl]. apply in_rev in Hph.
  exists ph. split; [|exact Hk]. unfold locals. apply filter_In. split; [exact Hph|exact Hl].
Qed.

Lemma going_members_keys force sw k ns n m sw' evs r :
  find_set (sw_sets sw) k ns n = Some m -> is_going m ->
  objectset_pass force sw k ns n = (sw', evs, r) ->
  Forall (fun e => In (ev_key e) (local_keys (as_owner m) (rev (os_phases m)))) (member_evs evs).
Proof.
  intros Hf Hg H. pose proof (objectset_pass_going force _ _ _ _ _ _ _ _ Hf Hg H) as Hd.
  destruct (deletion_pass_inv force _ _ _ _ _ Hd) as (swd & tevs & td & Htd & Hm & _). rewrite Hm.
  unfold teardown_of in Htd. destruct (os_fin m); [|injection Htd as _ <- _; constructor].
  destruct (os_orphan m); [injection Htd as _ <- _; constructor|].
  now destruct (tpm_inv force _ _ _ _ _ _ _ Htd) as (_ & _ & Hk & _).
Qed.

Lemma target'_model c sw e r : target' (set_obs_s c (sw, e, r)) = find_set (sw_sets sw) (sc_kind c) (sc_ns c) (sc_name c).
Proof. reflexivity. Qed.

Lemma post_model c sw e r : sc_post (set_obs_s c (sw, e, r)) = w_store (sw_w sw).
Proof. reflexivity. Qed.

Lemma cstatus_eqb_refl x : cstatus_eqb x x = true.
Proof. now apply cstatus_eqb_spec. Qed.

Theorem m04_sound (c : scase) : m04 (set_obs_s c (SetCorr.model_run c)) = true.
Proof.
  unfold m04. rewrite target_model. destruct (SetCorr.model_run c) as [[sw e] r] eqn:E.
  destruct (find_set (sc_sets c) (sc_kind c) (sc_ns c) (sc_name c)) as [m|] eqn:Ef; [|reflexivity].
  destruct (target_kind m) as [(_ & _ & ->)|[(Hgb & _ & Hg)|(_ & -> & _)]]; [reflexivity| |reflexivity].
  rewrite Hgb. cbn [negb orb].
  destruct (SetMonitors.keys_nodup m) eqn:Hk; [|reflexivity]. cbn [negb orb].
  apply keys_nodup_iff in Hk. rewrite members_model, post_model, target'_model, events_model.
  unfold SetCorr.model_run in E.
  destruct (find_set_id _ _ _ _ _ Ef) as (Hkd & Hns & Hn).
  assert (Hf0 : find_set (sw_sets (sc_world c)) (oi_kind (os_id m)) (oi_ns (os_id m)) (oi_name (os_id m)) = Some m) by (rewrite Hkd, Hns, Hn; exact Ef).
  assert (Ef' : find_set (sw_sets (sc_world c)) (sc_kind c) (sc_ns c) (sc_name c) = Some m) by exact Ef.
  pose proof (objectset_pass_going (sc_force c) _ _ _ _ _ _ _ _ Ef' Hg E) as Hd.
  (* all local phases are done whenever the teardown completed *)
  assert (Hall : ((exists ok, In (SMeta (MFinalizer false ok)) e) \/
                  (exists rev0 conds ctrlof rem fph ok, In (SMeta (MStatus rev0 conds ctrlof rem fph ok)) e /\ cond_true conds CArchived = true)) ->
                 os_fin m = true -> os_orphan m = false ->
                 forallb (phase_doneb m (w_store (sw_w sw))) (locals m) = true).
  { intros Hev Hfin Horph. apply forallb_forall. intros q Hq. apply forallb_forall. intros p Hp. apply td_doneb_spec.
    exact (C04_finalizer_held_until_done (sc_force c) (sc_world c) _ _ _ m sw e r Ef Hg Hk Hfin Horph E Hev q p Hq Hp). }
  apply andb_true_iff. split; [apply andb_true_iff; split; [apply andb_true_iff; split|]|].
  - (* reverse order *)
    pose proof (going_members_keys _ _ _ _ _ _ _ _ _ Ef' Hg E) as Hkeys. rewrite Forall_forall in Hkeys.
    apply forallb_forall. intros x Hx.
    destruct (local_keys_rev_in m _ (Hkeys x Hx)) as (ph & Hph & Hkx).
    destruct (phase_index_found m (locals m) (ev_key x) ph O Hk Hph Hkx) as (j & Hj1 & Hj2). cbn [plus] in Hj1. rewrite Hj1.
    apply forallb_forall. intros q Hq. apply forallb_forall. intros p Hp. apply td_doneb_spec.
    apply (C04_reverse_order (sc_force c) (sc_world c) _ _ _ m sw e r Ef Hg Hk E (firstn j (locals m)) ph (skipn (S j) (locals m)) (nth_error_split _ _ _ Hj2)) with (q := q); [|exact Hq|exact Hp].
    apply Exists_exists. exists x. split; [exact Hx|exact Hkx].
  - (* the finalizer goes / Archived=True only when everything is done *)
    destruct (os_fin m) eqn:Hfin; [|reflexivity]. cbn [negb orb]. destruct (os_orphan m) eqn:Horph; [reflexivity|]. cbn [orb].
    match goal with |- negb ?b || _ = true => destruct b eqn:Hb; [|reflexivity] end. cbn [negb orb].
    apply Hall; auto. apply orb_true_iff in Hb. destruct Hb as [Hb|Hb].
    + left. apply existsb_exists in Hb. destruct Hb as (x & Hx & Hm). destruct x as [y|[[|] ok|]|y]; try discriminate. eauto.
    + right. apply existsb_exists in Hb. destruct Hb as ([[[cs co] fph] ok] & Hx & Hm).
      unfold statuses in Hx. apply in_flat_map in Hx. destruct Hx as (x & Hx & Hs). rewrite events_model in Hx.
      destruct x as [y|[a o|rv cs' co' rm fph' ok']|y]; try contradiction. destruct Hs as [Hs|[]]. injection Hs as <- <- <- <-.
      exists rv, cs', co', rm, fph', ok'. auto.
  - (* until then the finalizer stays and Archived=False is reported *)
    destruct (os_fin m) eqn:Hfin; [|reflexivity]. cbn [negb orb]. destruct (os_orphan m) eqn:Horph; [reflexivity|]. cbn [orb].
    destruct (deletion_pass_held (sc_force c) (sc_world c) m sw e r Hf0 Hfin Hd) as [Hev|[(m' & Hm' & Hfin') Hst]].
    + rewrite Hall; auto.
    + apply orb_true_iff. right. rewrite Hkd, Hns, Hn in Hm'. rewrite Hm', Hfin'. cbn [andb].
      apply orb_true_iff. right. apply statuses_forall. intros rv cs co rm fph ok Hi. rewrite events_model in Hi.
      rewrite (Hst _ _ _ _ _ _ Hi). reflexivity.
  - (* orphan: nothing is deleted *)
    destruct (os_orphan m) eqn:Horph; [|reflexivity]. cbn [negb orb].
    destruct (C05_orphan_deletes_nothing (sc_force c) (sc_world c) _ _ _ m sw e r Ef Hg Horph E) as [-> _]. reflexivity.
Qed.
