(** Correspondence between the real (Cluster)ObjectSet controller (harness mode "objectset") and
    ObjectSet.v. Shared by C03, C04, C06, C09, C11. *)
From Coq Require Import List NArith ZArith Bool.
From PKO Require Import Util Base Owner Api Phase ObjectSet.
From PKOCorr Require Import PhaseCorr.
Import ListNotations.
Local Open Scope N_scope.

Record scase := {
  sc_force : bool; sc_store : store; sc_rv : N; sc_uid : N; sc_sets : list oset;
  sc_phases : list osphase; sc_nss : list (N * bool);     (* ObjectSetPhases and environment Namespaces of the world *)
  sc_kind : N; sc_ns : N; sc_name : N;
  (* observation *)
  sc_res : sres; sc_events : list sev; sc_post : store; sc_sets' : list oset; sc_phases' : list osphase;
  sc_rv' : N; sc_uid' : N
}.

Definition sc_world (c : scase) : sworld :=
  {| sw_w := {| w_store := sc_store c; w_rv := sc_rv c; w_uid := sc_uid c |}; sw_sets := sc_sets c;
     sw_phases := sc_phases c; sw_nss := sc_nss c |}.

Definition model_run (c : scase) : sworld * list sev * sres :=
  objectset_pass (sc_force c) (sc_world c) (sc_kind c) (sc_ns c) (sc_name c).

Definition pobj_eqb (a b : pobj) : bool :=
  (po_gk a =? po_gk b) && (po_ns a =? po_ns b) && (po_name a =? po_name b) && (po_body a =? po_body b) &&
  match po_cp a, po_cp b with CPPrevent, CPPrevent | CPIfNoController, CPIfNoController | CPNone, CPNone => true | _, _ => false end &&
  Bool.eqb (po_ownerrefs a) (po_ownerrefs b) && Bool.eqb (po_dryreject a) (po_dryreject b).

Definition phase_eqb (a b : phase) : bool :=
  (ph_name a =? ph_name b) && Bool.eqb (ph_class a) (ph_class b) && list_eqb pobj_eqb (ph_objects a) (ph_objects b).

Definition nn_eqb (x y : N * N) : bool := (fst x =? fst y) && (snd x =? snd y).

Definition oset_eqb (a b : oset) : bool :=
  oid_eqb (os_id a) (os_id b) && (oi_uid (os_id a) =? oi_uid (os_id b)) && (os_rv a =? os_rv b) && Z.eqb (os_gen a) (os_gen b) &&
  Bool.eqb (os_deleting a) (os_deleting b) && Bool.eqb (os_fin a) (os_fin b) && Bool.eqb (os_orphan a) (os_orphan b) &&
  (os_pkg a =? os_pkg b) && lifecycle_eqb (os_life a) (os_life b) && list_eqb phase_eqb (os_phases a) (os_phases b) &&
  list_eqb N.eqb (os_prev a) (os_prev b) && Z.eqb (os_revision a) (os_revision b) &&
  list_eqb cond_eqb (os_conds a) (os_conds b) && list_eqb okey_eqb (os_ctrlof a) (os_ctrlof b) &&
  list_eqb nn_eqb (os_remotes a) (os_remotes b).

Definition osphase_eqb (a b : osphase) : bool :=
  oid_eqb (op_id a) (op_id b) && (oi_uid (op_id a) =? oi_uid (op_id b)) && (op_rv a =? op_rv b) && Z.eqb (op_gen a) (op_gen b) &&
  list_eqb oref_eqb (op_owners a) (op_owners b) && Bool.eqb (op_deleting a) (op_deleting b) && Bool.eqb (op_fin a) (op_fin b) &&
  Bool.eqb (op_orphan a) (op_orphan b) && (op_pkg a =? op_pkg b) && (op_class a =? op_class b) &&
  Bool.eqb (op_paused a) (op_paused b) && Z.eqb (op_revision a) (op_revision b) && list_eqb N.eqb (op_prev a) (op_prev b) &&
  list_eqb pobj_eqb (op_objects a) (op_objects b) && list_eqb cond_eqb (op_conds a) (op_conds b) &&
  list_eqb okey_eqb (op_ctrlof a) (op_ctrlof b).

(** Phase objects are compared as a finite map keyed by kind, namespace and name. *)
Definition phases_sub (a b : list osphase) : bool :=
  forallb (fun p => match find_phase b (oi_kind (op_id p)) (oi_ns (op_id p)) (oi_name (op_id p)) with
                    | Some q => osphase_eqb p q | None => false end) a.
Definition phases_eqb (a b : list osphase) : bool := phases_sub a b && phases_sub b a && Nat.eqb (length a) (length b).

Definition pev_eqb (a b : pev) : bool :=
  match a, b with
  | PGet n1 r1, PGet n2 r2 => (n1 =? n2) && option_eqb osphase_eqb r1 r2
  | PCreate n1 r1, PCreate n2 r2 => (n1 =? n2) && option_eqb osphase_eqb r1 r2
  | PPause n1 p1 r1, PPause n2 p2 r2 => (n1 =? n2) && Bool.eqb p1 p2 && option_eqb osphase_eqb r1 r2
  | PDelete n1 r1, PDelete n2 r2 => (n1 =? n2) && dres_eqb r1 r2
  | PStrip n1 o1, PStrip n2 o2 => (n1 =? n2) && Bool.eqb o1 o2
  | PFinalizer n1 a1 o1, PFinalizer n2 a2 o2 => (n1 =? n2) && Bool.eqb a1 a2 && Bool.eqb o1 o2
  | PStatus n1 c1 k1 o1, PStatus n2 c2 k2 o2 =>
      (n1 =? n2) && list_eqb cond_eqb c1 c2 && list_eqb okey_eqb k1 k2 && Bool.eqb o1 o2
  | _, _ => false
  end.

Definition mev_eqb (a b : mev) : bool :=
  match a, b with
  | MFinalizer x1 y1, MFinalizer x2 y2 => Bool.eqb x1 x2 && Bool.eqb y1 y2
  | MStatus r1 c1 k1 m1 f1 o1, MStatus r2 c2 k2 m2 f2 o2 =>
      Z.eqb r1 r2 && list_eqb cond_eqb c1 c2 && list_eqb okey_eqb k1 k2 && list_eqb nn_eqb m1 m2 &&
      option_eqb N.eqb f1 f2 && Bool.eqb o1 o2
  | _, _ => false
  end.

Definition sev_eqb (a b : sev) : bool :=
  match a, b with
  | SMember x, SMember y => ev_eqb x y
  | SMeta x, SMeta y => mev_eqb x y
  | SPhase x, SPhase y => pev_eqb x y
  | _, _ => false
  end.

(** "nothing happened" and "done without requeue" are the same observable outcome of Reconcile. *)
Definition sres_eqb (a b : sres) : bool :=
  match a, b with
  | SNothing, SNothing | SNothing, SDone false | SDone false, SNothing => true
  | SDone x, SDone y => Bool.eqb x y
  | SError, SError => true
  | _, _ => false
  end.

Definition agree_parts (c : scase) : bool * bool * bool * bool * bool :=
  let '(sw, e, r) := model_run c in
  (sres_eqb r (sc_res c), list_eqb sev_eqb e (sc_events c), store_eqb (w_store (sw_w sw)) (sc_post c),
   list_eqb oset_eqb (sw_sets sw) (sc_sets' c) && phases_eqb (sw_phases sw) (sc_phases' c),
   (w_rv (sw_w sw) =? sc_rv' c) && (w_uid (sw_w sw) =? sc_uid' c)).

Definition agree (c : scase) : bool :=
  let '(a, b, d, e, f) := agree_parts c in a && b && d && e && f.
