(** C07: monitors evaluated on the implementation's observation only (harness mode "deployment"). *)
From Coq Require Import List NArith ZArith Bool.
From PKO Require Import Util Base Owner Api Phase ObjectSet Deployment.
From PKOCorr Require Import PhaseCorr SetCorr DeployCorr C08Corr.
Import ListNotations.
Local Open Scope N_scope.

Section Step.
  Variable tbl : htable.
  Variable pre : ostate.
  Variable s : step.
  Variable o : sobs.

  Definition mine (x : dset) : bool := ds_sel x.
  Definition my_sets (st : ostate) : list dset := filter mine (st_sets st).

  (** the ObjectSets created by this step (request answered, or lost after it took effect) *)
  Definition creates : list (N * list phase * list N * N) :=
    flat_map (fun e => match e with
                       | DCreate n phs prev h CrOk | DCreate n phs prev h CrLost => [(n, phs, prev, h)]
                       | _ => [] end) (so_events o).

  (** "none is created ... while the template has no phases", nor while the deployment is paused;
      "whose spec equals the template" *)
  Definition m07_spec : bool :=
    forallb (fun c => let '(n, phs, prev, h) := c in
               negb (d_paused (st_dep pre)) && negb (is_nil phs) && list_eqb phase_eqb phs (d_phases (st_dep pre))) creates.

  (** "none is created while an existing one has not reported its revision";
      "whose previous list names every existing ObjectSet of the deployment" *)
  Definition m07_prev : bool :=
    forallb (fun c => let '(n, phs, prev, h) := c in
               forallb (fun x => negb (Z.eqb (srev x) 0) && existsb (N.eqb (sname x)) prev) (my_sets pre)) creates.

  (** the newest ObjectSet of the deployment: the one without a revision yet, else the one with the greatest revision *)
  Definition newest (l : list dset) : option dset :=
    match filter (fun x => Z.eqb (srev x) 0) l with
    | x :: _ => Some x
    | [] => match rev (isort rev_lt (isort name_lt l)) with x :: _ => Some x | [] => None end
    end.
  Definition created_b : bool := negb (is_nil creates).
  Definition changed_b : bool :=
    match s with SEdit dg phs => negb (dg =? d_digest (st_dep pre)) || negb (list_eqb phase_eqb phs (d_phases (st_dep pre))) | _ => false end.

  (** "unique, increasing revision numbers": after every step no two ObjectSets of the deployment share a non-zero
      revision, and a revision that has just been reported exceeds those of all other ObjectSets of the deployment. *)
  Fixpoint distinct_revs (l : list dset) : bool :=
    match l with
    | [] => true
    | x :: r => (Z.eqb (srev x) 0 || negb (existsb (fun y => Z.eqb (srev y) (srev x)) r)) && distinct_revs r
    end.
  Definition m07_unique : bool := distinct_revs (filter mine (so_sets o)).
  Definition m07_monotone : bool :=
    forallb (fun x' =>
      match find_dset (st_sets pre) (sname x') with
      | Some x => negb (Z.eqb (srev x) 0) || Z.eqb (srev x') 0 ||
                  forallb (fun y => (sname y =? sname x) || (srev y <? srev x')%Z) (my_sets pre)
      | None => true
      end) (filter mine (so_sets o)).
  (** a reported revision never changes *)
  Definition m07_stable : bool :=
    forallb (fun x' =>
      match find_dset (st_sets pre) (sname x') with
      | Some x => Z.eqb (srev x) 0 || negb (oi_uid (os_id (ds_set x)) =? oi_uid (os_id (ds_set x'))) || Z.eqb (srev x') (srev x)
      | None => true
      end) (so_sets o).

  (** "A name clash with an ObjectSet that is archived or has a different spec is never resolved by reusing it: the
      collision counter is bumped": the holder keeps annotation, spec, previous list and controller, and a status
      written by the same pass carries the bumped counter. *)
  Definition clashes : list N :=
    flat_map (fun e => match e with DCreate n _ _ _ CrExists => [n] | _ => [] end) (so_events o).
  Definition same_identity (a b : dset) : bool :=
    option_eqb N.eqb (ds_hash a) (ds_hash b) && list_eqb phase_eqb (os_phases (ds_set a)) (os_phases (ds_set b)) &&
    list_eqb N.eqb (os_prev (ds_set a)) (os_prev (ds_set b)) && (ds_ctrl a =? ds_ctrl b) && Z.eqb (srev a) (srev b) &&
    Bool.eqb (is_archived a) (is_archived b).
  (** the holder of the wanted name may not be reused: archived, a different spec, or an older revision (rollback) *)
  Definition max_rev (l : list dset) : Z := fold_left (fun m x => Z.max m (srev x)) l 0%Z.
  Definition not_reusable (c : dset) : bool :=
    is_archived c || negb (list_eqb phase_eqb (os_phases (ds_set c)) (d_phases (st_dep pre))) ||
    (negb (Z.eqb (srev c) 0) && (srev c <? max_rev (my_sets pre))%Z).
  Definition clean_pass : bool :=
    match s with SDep false None => match so_res o with OrDone => true | _ => false end | _ => false end.
  Definition m07_noreuse : bool :=
    forallb (fun n =>
      match find_dset (st_sets pre) n with
      | Some c =>
          negb (not_reusable c) ||
          (match find_dset (so_sets o) n with Some c' => same_identity c c' | None => false end &&
           forallb (fun e => match e with
                             | DStatus _ cc _ _ _ _ => option_eqb N.eqb cc (bump_cc (d_cc (st_dep pre)))
                             | _ => true end) (so_events o) &&
           (* ... and the bumped counter is STORED by the same pass (C07_no_reuse), not only computed *)
           (negb clean_pass || option_eqb N.eqb (d_cc (so_dep o)) (bump_cc (d_cc (st_dep pre)))))
      | None => false
      end) clashes.
  (** the clash of this pass, if its holder may not be reused: (name, stored collision count before the pass) *)
  Definition hard_clash : option (N * option N) :=
    if clean_pass then
      match filter (fun n => match find_dset (st_sets pre) n with Some c => not_reusable c | None => false end) clashes with
      | n :: _ => Some (n, d_cc (st_dep pre))
      | [] => None
      end
    else None.

  (** "Whenever an unpaused ObjectDeployment's template is not matched by its newest ObjectSet, exactly one new ObjectSet is
      created" (existence; this is also "rolling back to an earlier template yields a new revision"): a complete, fault-free
      pass with a fresh List of an unpaused deployment with phases, all revisions reported, whose newest ObjectSet neither
      has the template's spec nor carries the template's hash, sends a Create (answered Created, or AlreadyExists ->
      slow cache / collision bump). *)
  Definition m07_progress : bool :=
    match s with
    | SDep false None =>
        negb (match so_res o with OrDone => true | _ => false end) || d_paused (st_dep pre) || is_nil (d_phases (st_dep pre)) ||
        existsb (fun x => Z.eqb (srev x) 0) (my_sets pre) ||
        match rev (isort rev_lt (isort name_lt (my_sets pre))) with
        | x :: _ => list_eqb phase_eqb (os_phases (ds_set x)) (d_phases (st_dep pre)) ||
                    option_eqb N.eqb (ds_hash x) (Some (table_hash tbl (d_digest (st_dep pre)) (d_cc (st_dep pre))))
        | [] => false
        end ||
        existsb (fun e => match e with DCreate _ _ _ _ _ => true | _ => false end) (so_events o)
    | _ => true
    end.

  (** "A pass in which a request of the controller failed ends with an error": nothing else wakes the controller again (the
      work queue retries only passes that return an error or ask for a requeue), so a swallowed failure leaves the template
      without its ObjectSet for the rest of the history. *)
  Definition ev_failed (e : dev) : bool :=
    match e with
    | DCreate _ _ _ _ (CrErr | CrLost) => true
    | DUpdate _ _ _ (WErr | WLost | WConflict | WNotFound) => true
    | DDelete _ (DlErr | DlLost) => true
    | DStatus _ _ _ _ _ (WErr | WLost | WConflict | WNotFound) => true
    | _ => false
    end.
  Definition m07_wake : bool :=
    match s with
    | SDep _ _ => negb (existsb ev_failed (so_events o)) || match so_res o with OrError => true | _ => false end
    | _ => true
    end.

  Definition step_monitors07 : list bool :=
    match s with
    | SDep _ _ => [m07_spec; m07_prev; m07_unique; m07_monotone; m07_stable; m07_noreuse; m07_progress; m07_wake]
    | _ => [true; true; m07_unique; m07_monotone; m07_stable; true; true; true]
    end.
End Step.

Fixpoint run_monitors07 (tbl : htable) (pre : ostate) (steps : list step) (obs : list sobs) : list (list bool) :=
  match steps, obs with
  | s :: steps', o :: obs' => step_monitors07 tbl pre s o :: run_monitors07 tbl (obs_state o) steps' obs'
  | _, _ => []
  end.

Definition monitors07 (c : dcase) : list (list bool) := run_monitors07 (dc_table c) (init_state c) (dc_steps c) (dc_obs c).

(** "Whenever the template is not matched by its newest ObjectSet, exactly one new ObjectSet is created": along the
    history, at most one ObjectSet is created per template change (and none before the first change if the newest
    ObjectSet is a live ObjectSet of the deployment carrying the hash of the template). This is C07_exactly_one_fresh_cache
    read as a monitor. *)
Definition matched0 (c : dcase) : bool :=
  let st := init_state c in
  match newest (filter ds_sel (st_sets st)) with
  | Some x => negb (os_deleting (ds_set x)) &&
              option_eqb N.eqb (ds_hash x) (Some (table_hash (dc_table c) (d_digest (st_dep st)) (d_cc (st_dep st))))
  | None => false
  end.
Fixpoint one_per_change (budget : bool) (pre : ostate) (steps : list step) (obs : list sobs) : bool :=
  match steps, obs with
  | s :: steps', o :: obs' =>
      if created_b o then budget && one_per_change false (obs_state o) steps' obs'
      else one_per_change (budget || changed_b pre s) (obs_state o) steps' obs'
  | _, _ => true
  end.
Definition m07_one (c : dcase) : bool := one_per_change (negb (matched0 c)) (init_state c) (dc_steps c) (dc_obs c).

(** Bounded progress after a clash (C07_no_reuse + C07_create_justified on the next pass): the next complete pass does not
    meet the same clash with the same stored collision count again: it asks for the name of the bumped counter. *)
Fixpoint clash_progress (last : option (N * option N)) (pre : ostate) (steps : list step) (obs : list sobs) : bool :=
  match steps, obs with
  | s :: steps', o :: obs' =>
      match s with
      | SDep _ _ =>
          let cur := hard_clash pre s o in
          match last, cur with
          | Some (n, cc), Some (n', cc') => negb ((n =? n') && option_eqb N.eqb cc cc')
          | _, _ => true
          end && clash_progress (if clean_pass s o then cur else None) (obs_state o) steps' obs'
      | SEdit _ _ => clash_progress None (obs_state o) steps' obs'
      | _ => clash_progress last (obs_state o) steps' obs'
      end
  | _, _ => true
  end.
Definition m07_clash_progress (c : dcase) : bool := clash_progress None (init_state c) (dc_steps c) (dc_obs c).

(** agree; spec = template & not while paused/empty; previous complete & no unreported sibling; exactly one;
    revisions unique; increasing; stable; no reuse on a clash (counter stored); unmatched template => Create;
    no repeated clash; a failed request ends the pass with an error *)
Definition judge07 (c : dcase) : list bool :=
  let m := monitors07 c in
  [agree c; column 0 m; column 1 m; m07_one c; column 2 m; column 3 m; column 4 m; column 5 m; column 6 m; m07_clash_progress c; column 7 m].

(** * Soundness of the per-pass creation monitors on the model (any hash function, any fault, any variant; fresh List). *)
From PKO Require Import BaseProofs DeploymentProofs.

Lemma pobj_eqb_refl p : SetCorr.pobj_eqb p p = true.
Proof. unfold SetCorr.pobj_eqb. rewrite !N.eqb_refl, !eqb_reflx. destruct (po_cp p); reflexivity. Qed.

Lemma phase_eqb_refl p : phase_eqb p p = true.
Proof. unfold phase_eqb. rewrite N.eqb_refl, eqb_reflx. cbn. apply list_eqb_refl. apply pobj_eqb_refl. Qed.

Lemma creates_in o n phs prev h : In (n, phs, prev, h) (creates o) -> exists cr, In (DCreate n phs prev h cr) (so_events o).
Proof.
  unfold creates. intros H. apply in_flat_map in H. destruct H as (e & He & H).
  destruct e as [n0 p0 v0 h0 cr| | |]; try contradiction. destruct cr; try contradiction; destruct H as [H|[]]; injection H as <- <- <- <-; eauto.
Qed.

Theorem monitor_sound_create hash fault slices w w' evs r :
  NoDup (map sname (dw_sets w)) -> dep_pass hash fault slices false w = (w', evs, r) ->
  m07_spec (state_of w) (obs_of w' evs r) = true /\ m07_prev (state_of w) (obs_of w' evs r) = true.
Proof.
  intros Hnd Hp. split; apply forallb_forall; intros [[[n phs] prev] h] Hc; destruct (creates_in _ _ _ _ _ Hc) as (cr & Hi); cbn [so_events obs_of] in Hi;
    destruct (create_justified hash fault slices true true false w w' evs r n phs prev h cr Hnd Hp Hi) as (Hpa & Hph & Hn0 & _ & _ & _ & -> & ->).
  - cbn [st_dep state_of]. rewrite Hpa. cbn [negb andb]. rewrite (list_eqb_refl _ phase_eqb_refl).
    destruct (d_phases (dw_dep w)); [now elim Hph|reflexivity].
  - apply forallb_forall. intros x Hx. unfold my_sets, mine in Hx. apply filter_In in Hx. cbn [st_sets state_of] in Hx.
    assert (HxL : In x (listed false w)) by (apply listed_fresh_iff; exact Hx).
    apply andb_true_iff. split; [apply negb_true_iff, Z.eqb_neq; now apply Hn0|].
    apply existsb_exists. exists (sname x). split; [now apply in_map|apply N.eqb_refl].
Qed.


(** * Acceptance of [m07_wake] by the model: a pass with a failed request returns the error (any hash, fault, shape, stale or not). *)
Section Wake.
  Variable fault : option (nat * bool).

  Definition failed_dead (st : pst) : Prop := existsb ev_failed (p_evs st) = true -> p_dead st = true.

  Lemma failed_dead_emit st w e dead :
    failed_dead st -> p_dead st = false -> (existsb ev_failed e = true -> dead = true) -> failed_dead (emit st w e dead).
  Proof.
    intros H Hd He. unfold failed_dead, emit. cbn. rewrite existsb_app. intros Hx. apply orb_true_iff in Hx.
    destruct Hx as [Hx|Hx]; [specialize (H Hx); congruence|now apply He].
  Qed.

  Lemma reach_failed_dead st0 st : reach fault st0 st -> failed_dead st0 -> failed_dead st.
  Proof.
    induction 1 as [|st H IH|st b H IH|st s life pbp H IH|st n H IH|st d prev H IH|st d H IH]; intros H0; try specialize (IH H0).
    - exact H0.
    - unfold read_req. destruct (p_dead st) eqn:Ed; [exact IH|]. destruct (fault_now fault st); apply failed_dead_emit; auto; discriminate.
    - unfold get_req. destruct (p_dead st) eqn:Ed; [exact IH|]. destruct (fault_now fault st); apply failed_dead_emit; auto; discriminate.
    - unfold upd_req. destruct (p_dead st) eqn:Ed; [exact IH|].
      destruct (fault_now fault st); cbn [fst].
      + destruct (find_dset _ _); [destruct (negb _)|]; cbn [fst]; apply failed_dead_emit; auto; cbn; discriminate.
      + apply failed_dead_emit; auto.
      + destruct (find_dset _ _); [destruct (negb _)|]; cbn [fst]; apply failed_dead_emit; auto.
    - unfold del_req. destruct (p_dead st) eqn:Ed; [exact IH|].
      destruct (fault_now fault st).
      + destruct (find_dset _ _); apply failed_dead_emit; auto; cbn; discriminate.
      + apply failed_dead_emit; auto.
      + destruct (find_dset _ _); apply failed_dead_emit; auto; cbn; discriminate.
    - unfold create_req. destruct (p_dead st) eqn:Ed; [exact IH|].
      destruct (fault_now fault st); cbn [fst].
      + destruct (find_dset _ _); cbn [fst]; apply failed_dead_emit; auto; cbn; discriminate.
      + apply failed_dead_emit; auto.
      + destruct (find_dset _ _); cbn [fst]; apply failed_dead_emit; auto; cbn; discriminate.
    - unfold status_req. destruct (p_dead st) eqn:Ed; [exact IH|].
      destruct (fault_now fault st); apply failed_dead_emit; auto; cbn; discriminate.
  Qed.
End Wake.

Theorem monitor_sound_wake hash fault slices sliceaware rev0ok stale w w' evs r :
  dep_pass_sh hash fault slices sliceaware rev0ok stale w = (w', evs, r) -> existsb ev_failed evs = true -> r = DpError.
Proof.
  intros Hp Hf. destruct (dep_pass_unfold _ _ _ _ _ _ _ _ _ _ Hp) as (st3 & d2 & -> & _ & -> & Hc).
  assert (Hr : reach fault (st_init w) (status_req fault st3 d2)).
  { constructor. assert (H0 : reach fault (st_init w) (st_listed fault w)) by (unfold st_listed; repeat constructor).
    destruct Hc as [(_ & -> & _)|(_ & stp & mem & Epl & Hc)]; [assumption|].
    pose proof (pause_loop_reach _ _ _ _ _ _ _ H0 Epl) as H1.
    destruct Hc as [(_ & -> & _)|(_ & sta & d3 & mem' & Enr & Ear & _)]; [assumption|].
    eapply archive_reach; [|exact Ear]. eapply new_revision_reach; eauto. }
  rewrite (reach_failed_dead fault _ _ Hr); [reflexivity|discriminate|exact Hf].
Qed.
