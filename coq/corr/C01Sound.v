(** Soundness of the request-level clause (m1) of the C01 monitor for the model, for every world, phase,
    owner, strategy, forced adoption on/off and any third-party activity between read and write. *)
From Coq Require Import List NArith ZArith Bool Lia.
From PKO Require Import Util Base BaseProofs Owner Api ApiProofs Phase PhaseProofs TeardownProofs AdoptionProofs.
From PKOCorr Require Import PhaseCorr C01Corr C05Sound.
Import ListNotations.
Local Open Scope N_scope.

Lemma ev_justified_okb (c : pcase) (e : ev) :
  pc_teardown c = false ->
  ev_justified (pc_cfg c) (pc_owner c) (pc_prev c) (pc_objects c) e -> C01Corr.ev_okb c e = true.
Proof.
  intros Ht (p & rd & pre & post & Hin & -> & Hp & Hm). unfold C01Corr.ev_okb. rewrite Ht.
  rewrite Hp. cbn [negb andb]. apply existsb_exists. exists p. split; [assumption|].
  unfold key_of. rewrite okey_eqb_refl. cbn [andb].
  destruct rd as [o|]; [|reflexivity]. cbn in Hm. destruct Hm as [-> | ->]; [reflexivity|apply orb_true_r].
Qed.

Lemma td_ev_local_okb01 (c : pcase) (e : ev) :
  pc_teardown c = true ->
  td_ev_local (pc_cfg c) (pc_owner c) (pc_objects c) e -> C01Corr.ev_okb c e = true.
Proof.
  intros Ht [_ He]. unfold C01Corr.ev_okb. rewrite Ht.
  destruct e as [| |k rd puid prv pre r]; [contradiction|reflexivity|]. now destruct He as (Hc & _).
Qed.

Theorem m1_sound (c : pcase) : m1 (set_obs c (model_run c)) = true.
Proof.
  unfold m1, model_run. destruct (pc_teardown c) eqn:Ht.
  - destruct (teardown_phase (pc_cfg c) (apply_envops (pc_between c)) (pc_world c) (pc_owner c) (pc_objects c)) as [[w e] r] eqn:E.
    unfold teardown_phase in E. pose proof (td_objs_events _ _ _ _ _ _ _ _ _ E) as Hev.
    assert (Hgoal : forall res, forallb (C01Corr.ev_okb (set_obs c (w, e, res))) e = true).
    { intros res. apply forallb_forall. intros x Hx. rewrite Forall_forall in Hev.
      apply (td_ev_local_okb01 (set_obs c (w, e, res)) x Ht). exact (Hev x Hx). }
    destruct r; cbn [set_obs pc_events]; apply Hgoal.
  - destruct (reconcile_phase (pc_cfg c) (apply_envops (pc_between c)) (pc_world c) (pc_owner c) (pc_prev c) false (pc_objects c)) as [[w e] r] eqn:E.
    assert (Hev : Forall (ev_justified (pc_cfg c) (pc_owner c) (pc_prev c) (pc_objects c)) e).
    { unfold reconcile_phase in E. destruct (flat_map _ (pc_objects c)).
      - eapply rec_objs_justified; eauto.
      - injection E as _ <- _. constructor. }
    assert (Hgoal : forall res, forallb (C01Corr.ev_okb (set_obs c (w, e, res))) e = true).
    { intros res. apply forallb_forall. intros x Hx. rewrite Forall_forall in Hev.
      apply (ev_justified_okb (set_obs c (w, e, res)) x Ht). exact (Hev x Hx). }
    destruct r; cbn [set_obs pc_events]; apply Hgoal.
Qed.

(** The remaining clauses, which speak about the store before and after the pass, hold when no third
    party acts between read and write. *)
Lemma quiet_between (c : pcase) : is_nil (pc_between c) = true -> apply_envops (pc_between c) = idw.
Proof. destruct (pc_between c); [reflexivity|discriminate]. Qed.

Lemma model_run_reconcile (c : pcase) w e r :
  pc_teardown c = false -> is_nil (pc_between c) = true -> model_run c = (w, e, r) ->
  exists r0, reconcile_phase (pc_cfg c) idw (pc_world c) (pc_owner c) (pc_prev c) false (pc_objects c) = (w, e, r0) /\
             r = match r0 with PhErr x => OErr (Some x) | PhPreflight vs => OPreflight vs | PhOk a f => OOk a f end.
Proof.
  intros Ht Hq. unfold model_run. rewrite Ht, (quiet_between c Hq).
  destruct (reconcile_phase _ idw _ _ _ false _) as [[w0 e0] r0]. intros H. exists r0.
  destruct r0; injection H as <- <- <-; auto.
Qed.

Theorem m2_sound (c : pcase) : m2 (set_obs c (model_run c)) = true.
Proof.
  unfold m2. destruct (model_run c) as [[w e] r] eqn:E. cbn [set_obs pc_between pc_teardown pc_objects pc_store pc_post pc_events pc_owner pc_flavor pc_force pc_prev].
  destruct (is_nil (pc_between c)) eqn:Hq; [|reflexivity]. destruct (pc_teardown c) eqn:Ht; [reflexivity|]. cbn [negb orb].
  destruct (model_run_reconcile c w e r Ht Hq E) as (r0 & Hr & _).
  apply forallb_forall. intros p Hp.
  destruct (lookup (desired_key (pc_owner c) p) (pc_store c)) as [o|] eqn:El; [|reflexivity].
  destruct (is_controller (flavor_strat (pc_flavor c)) (ow_id (pc_owner c)) o) eqn:Hc; [reflexivity|]. cbn [orb].
  destruct (existsb _ (pc_objects c)) eqn:Hex; [reflexivity|]. cbn [orb].
  assert (Hnp : not_permitted_any (pc_cfg c) (pc_owner c) (pc_prev c) (pc_objects c) (desired_key (pc_owner c) p) o).
  { intros q Hq0 Hk. destruct (permitted _ _ _ _ _ _) eqn:Ep; [|reflexivity].
    assert (existsb (fun q0 => okey_eqb (desired_key (pc_owner c) q0) (desired_key (pc_owner c) p) &&
                               permitted (flavor_strat (pc_flavor c)) (pc_force c) (pc_owner c) o (pc_prev c) (po_cp q0)) (pc_objects c) = true).
    { apply existsb_exists. exists q. split; [assumption|]. unfold key_of in Hk. rewrite Hk, okey_eqb_refl. exact Ep. }
    congruence. }
  unfold reconcile_phase in Hr. destruct (flat_map _ (pc_objects c)).
  - destruct (rec_objs_untouched (pc_cfg c) (pc_owner c) (pc_prev c) _ o _ _ _ _ _ _ _ Hr El Hc Hnp) as [Hl Hev].
    rewrite Hl. assert (obj_eqb o o = true) as Ho by now apply obj_eqb_spec. cbn. rewrite Ho. cbn.
    apply forallb_forall. intros x Hx. rewrite Forall_forall in Hev. apply negb_true_iff. apply okey_eqb_neq. now apply Hev.
  - injection Hr as <- <- _. cbn. unfold pc_world. cbn. rewrite El.
    assert (obj_eqb o o = true) as Ho by now apply obj_eqb_spec. cbn. now rewrite Ho.
Qed.

Lemma must_refuseb_spec (c : pcase) p o :
  must_refuseb c p o = true <-> must_refuse (pc_cfg c) (pc_owner c) (pc_prev c) p o.
Proof.
  unfold must_refuseb, must_refuse. cbn [pc_cfg c_flavor c_force].
  rewrite !andb_true_iff, !negb_true_iff. tauto.
Qed.

Lemma keys_nodup (c : pcase) :
  nodupb okey_eqb (map (fun p => desired_key (pc_owner c) p) (pc_objects c)) = true ->
  NoDup (map (key_of (pc_owner c)) (pc_objects c)).
Proof. apply (nodupb_spec okey_eqb okey_eqb_spec). Qed.

Theorem m3_sound (c : pcase) : m3 (set_obs c (model_run c)) = true.
Proof.
  unfold m3. destruct (model_run c) as [[w e] r] eqn:E.
  cbn [set_obs pc_between pc_teardown pc_objects pc_store pc_post pc_events pc_owner pc_flavor pc_force pc_prev pc_res].
  destruct (is_nil (pc_between c)) eqn:Hq; [|reflexivity]. destruct (pc_teardown c) eqn:Ht; [reflexivity|].
  destruct (ow_paused (pc_owner c)) eqn:Hpa; [reflexivity|].
  destruct (nodupb okey_eqb (map (fun p => desired_key (pc_owner c) p) (pc_objects c))) eqn:Hnd; [|reflexivity]. cbn [negb orb].
  apply keys_nodup in Hnd.
  destruct (model_run_reconcile c w e r Ht Hq E) as (r0 & Hr & ->).
  unfold reconcile_phase in Hr. destruct (flat_map _ (pc_objects c)); [|injection Hr as _ _ <-; reflexivity].
  destruct r0 as [x|vs|a f].
  - destruct x; try reflexivity.
    + destruct (rec_objs_collision_sound (pc_cfg c) _ _ _ _ _ _ _ _ _ Hr (or_introl eq_refl) Hnd) as (p & o & Hin & Hl & Hm).
      apply existsb_exists. exists p. split; [assumption|]. unfold key_of in Hl. unfold pc_world in Hl. cbn in Hl. rewrite Hl.
      apply (proj2 (must_refuseb_spec _ p o)). exact Hm.
    + destruct (rec_objs_collision_sound (pc_cfg c) _ _ _ _ _ _ _ _ _ Hr (or_intror eq_refl) Hnd) as (p & o & Hin & Hl & Hm).
      apply existsb_exists. exists p. split; [assumption|]. unfold key_of in Hl. unfold pc_world in Hl. cbn in Hl. rewrite Hl.
      apply (proj2 (must_refuseb_spec _ p o)). exact Hm.
  - reflexivity.
  - apply forallb_forall. intros p Hin.
    destruct (lookup (desired_key (pc_owner c) p) (pc_store c)) as [o|] eqn:El; [|reflexivity].
    apply negb_true_iff. apply Bool.not_true_is_false. intros Em.
    apply (proj1 (must_refuseb_spec _ p o)) in Em.
    eapply (rec_objs_ok_no_refusal (pc_cfg c) _ _ _ _ _ _ _ _ _ _ Hr Hpa Hnd p o Hin); [|exact Em]. exact El.
Qed.

Theorem m4_sound (c : pcase) : m4 (set_obs c (model_run c)) = true.
Proof.
  unfold m4. destruct (model_run c) as [[w e] r] eqn:E.
  cbn [set_obs pc_between pc_teardown pc_objects pc_store pc_post pc_events pc_owner pc_flavor pc_force pc_prev pc_res].
  destruct (is_nil (pc_between c)) eqn:Hq; [|reflexivity]. destruct (pc_teardown c) eqn:Ht; [reflexivity|].
  destruct (ow_paused (pc_owner c)) eqn:Hpa; [reflexivity|].
  destruct (nodupb okey_eqb (map (fun p => desired_key (pc_owner c) p) (pc_objects c))) eqn:Hnd; [|reflexivity]. cbn [negb orb].
  apply keys_nodup in Hnd.
  destruct (model_run_reconcile c w e r Ht Hq E) as (r0 & Hr & ->).
  unfold reconcile_phase in Hr. destruct (flat_map _ (pc_objects c)); [|injection Hr as _ _ <-; reflexivity].
  destruct r0 as [x|vs|a f]; try reflexivity.
  apply forallb_forall. intros p Hin.
  destruct (lookup (desired_key (pc_owner c) p) (pc_store c)) as [o|] eqn:El; [|reflexivity].
  destruct (is_controller (flavor_strat (pc_flavor c)) (ow_id (pc_owner c)) o) eqn:Hc; [reflexivity|]. cbn [orb].
  destruct (permitted (flavor_strat (pc_flavor c)) (pc_force c) (pc_owner c) o (pc_prev c) (po_cp p)) eqn:Hp; [|reflexivity]. cbn [negb orb].
  destruct (AdoptProofs.obj_wfb (flavor_strat (pc_flavor c)) (ow_id (pc_owner c)) o) eqn:Hwf; [|reflexivity]. cbn [negb orb].
  apply AdoptProofs.obj_wfb_spec in Hwf.
  destruct (match flavor_strat (pc_flavor c) with Native => validate_owner (ow_id (pc_owner c)) (k_ns (desired_key (pc_owner c) p)) | Annot => true end) eqn:Hv; [|reflexivity].
  cbn [negb orb].
  assert (Hval : match flavor_strat (c_flavor (pc_cfg c)) with Native => validate_owner (ow_id (pc_owner c)) (k_ns (key_of (pc_owner c) p)) = true | Annot => True end).
  { cbn [pc_cfg c_flavor]. unfold key_of. destruct (flavor_strat (pc_flavor c)); [exact Hv|exact I]. }
  destruct (AdoptProofs.rec_objs_adopt (pc_cfg c) _ _ _ _ _ _ _ _ _ _ Hr Hpa Hnd p o Hin Hval El Hc Hp Hwf) as (o' & Hl' & Had).
  unfold key_of in Hl'. rewrite Hl'. now destruct Had as (Hic & _).
Qed.

(** The whole C01 monitor accepts every pass of the model. *)
Theorem monitor_sound (c : pcase) : C01Corr.monitor (set_obs c (model_run c)) = true.
Proof. unfold C01Corr.monitor. now rewrite m1_sound, m2_sound, m3_sound, m4_sound. Qed.

(** m3r (a refusal the pass reaches is reported as a collision error) accepts every pass of the model. *)
Theorem m3r_sound (c : pcase) : m3r (set_obs c (model_run c)) = true.
Proof.
  unfold m3r. destruct (model_run c) as [[w e] r] eqn:E.
  change (model_run (set_obs c (w, e, r))) with (model_run c). rewrite E.
  cbn [set_obs pc_res pc_between pc_teardown snd].
  destruct (is_nil (pc_between c)), (pc_teardown c), (ores_collision r); reflexivity.
Qed.
