(** Correspondence and monitor for C19 (no input can crash Package Operator).

    A case is a scenario of one of the harness sub-targets (mode `nopanic`) together with what the
    real code did. Where the generator knows the abstract input of a modelled stage, the scenario
    carries it and [agree] compares the model's outcome (class, count, panic site's function) with
    the implementation's; otherwise the scenario is opaque and only the monitor applies. The models are
    the present (repaired) ones; a tree that falls back to a historical shape disagrees with them and
    its panic site is not in the table. *)
From Coq Require Import List Bool Arith NArith ZArith String Ascii Lia.
From PKO Require Import NoPanic NoPanicProofs.
Import ListNotations.
Local Open Scope string_scope.

(** what the harness reports: ok with the count the sub-target defines, an error / Invalid condition,
    or a panic with the first function of package-operator (or boxcutter) on the stack *)
Inductive obs := ObsOk (n : N) | ObsErr | ObsPanic (f : string) | ObsRunaway.

Inductive scen :=
| ScCollector (phases : list string) (objs : list pobj)
| ScMapConditions (mappings : list (string * string)) (obj : list (string * json))
| ScTemplateConditions (gen : Z) (obj : list (string * json))
| ScTemplateSource (destination : string)
| ScOCI (evs : list tar_event)
| ScOwnerAnno (teardown : bool) (desired : anno_state) (actual : option anno_state)
| ScInclude (names : N) (deepest : N)   (* a template over [names] helpers; [deepest]: the deepest nesting of helper
                                           bodies the harness counted during the render (part of the observation) *)
| ScOpaque.

Definition case := (scen * obs)%type.

Definition count {A} (x : outcome (list A)) : outcome N :=
  match x with Ok l => Ok (N.of_nat (List.length l)) | Err => Err | Panic s => Panic s end.

(** helpers for the terms the driver prints *)
Definition sb (l : list N) : string := string_of_list_ascii (map ascii_of_N l).
Definition bb (l : list N) : bytes := map ascii_of_N l.
Definition bs (s : string) : bytes := list_ascii_of_string s.

(** the key of a template-source scenario is always ".data.k" on an object that has data.k = "v":
    the regular expression matches, jsonpath finds one string, the destination map is empty *)
Definition source_item (destination : string) : outcome unit :=
  copy_source_item false (Some ["{.data.k}"; ".data.k"; ""]) (Some (JArr [JStr "v"])) destination true.

Definition model (sc : scen) : option (outcome N) :=
  match sc with
  | ScCollector phases objs => Some (render_and_collect phases objs)
  | ScMapConditions mappings obj => Some (count (map_conditions mappings obj))
  | ScTemplateConditions gen obj => Some (count (template_conditions gen obj))
  | ScTemplateSource d => Some (bind (source_item d) (fun _ => Ok 1%N))
  | ScOCI evs => Some (from_oci evs 0)
  | ScOwnerAnno teardown desired actual => Some (bind (phase_owner_reads teardown desired actual) (fun _ => Ok 0%N))
  | ScInclude _ _ => None
  | ScOpaque => None
  end.

(** the function a panic at a modelled site shows first on the stack *)
Definition stack_name (s : site_id) : string :=
  match s with
  | S_col_panic | S_v0_col_panic => "packagerender.phaseCollector.AddObjects"
  | S_v0_ot_cond_type | S_v0_ot_cond_status | S_v0_ot_cond_reason | S_v0_ot_cond_message =>
      "objecttemplate.updateStatusConditionsFromOwnedObject"
  | S_ot_destination0 | S_v0_ot_destination0 => "objecttemplate.copySourceItem"
  | S_v0_imp_hdr => "packageimport.FromOCI"
  | S_bx_a_getOwnerReferences_panic => "ownerhandling.(*OwnerStrategyAnnotation).getOwnerReferences"
  | _ => "(site not expected to be reached)"
  end.

Definition obs_of (x : outcome N) : obs :=
  match x with Ok n => ObsOk n | Err => ObsErr | Panic s => ObsPanic (stack_name s) end.

Definition obs_eqb (a b : obs) : bool :=
  match a, b with
  | ObsOk n, ObsOk m => N.eqb n m
  | ObsErr, ObsErr => true
  | ObsPanic f, ObsPanic g => String.eqb f g
  | _, _ => false
  end.

(** for the owner-strategy scenarios the model only says whether (and where) the pass panics; whether it
    then succeeds or returns an error depends on the rest of the PhaseReconciler (C01/C02) *)
Definition obs_panic_eqb (a b : obs) : bool :=
  match a, b with
  | ObsPanic f, ObsPanic g => String.eqb f g
  | ObsPanic _, _ | _, ObsPanic _ => false
  | _, _ => true
  end.

Definition agree (c : case) : bool :=
  match model (fst c) with
  | None => true
  | Some x => match fst c with
              | ScOwnerAnno _ _ _ => obs_panic_eqb (obs_of x) (snd c)
              | _ => obs_eqb (obs_of x) (snd c)
              end
  end.

(** the nesting bound of the include guard (theorem include_depth_bounded) on an observed depth *)
Definition include_bound_ok (names deepest : N) : bool := (deepest <=? N.of_nat (S include_limit) * names)%N.

(** the property, on the implementation's observation only: it did not panic, and a render did not nest
    includes beyond the guard's bound (nor run away past the harness' depth tick) *)
Definition monitor (c : case) : bool :=
  match snd c with
  | ObsPanic _ | ObsRunaway => false
  | _ => match fst c with ScInclude names deepest => include_bound_ok names deepest | _ => true end
  end.

Definition judge (c : case) : bool * bool := (agree c, monitor c).

(** the only stage of the model that can still panic is the annotation owner strategy (boxcutter, open
    finding): its inputs are well-formed if every owners annotation read is absent or a JSON list of references *)
Definition wellformed (sc : scen) : bool :=
  match sc with
  | ScOwnerAnno teardown desired actual =>
      (teardown || anno_wellformed desired) && match actual with Some a => anno_wellformed a | None => true end
  | _ => true
  end.

Lemma monitor_obs_of x sc : (forall n d, sc <> ScInclude n d) -> is_panic x = false -> monitor (sc, obs_of x) = true.
Proof. intros Hsc. destruct x; cbn; try discriminate; intros _; destruct sc; try reflexivity; exfalso; eapply Hsc; reflexivity. Qed.

Lemma not_panic_is_panic {A} (x : outcome A) : (forall s, x <> Panic s) -> is_panic x = false.
Proof. destruct x as [a| |s]; intros H; try reflexivity. exfalso. now apply (H s). Qed.

Lemma bind_ok_panic {A} (x : outcome A) (n : N) s : bind x (fun _ => Ok n) = Panic s -> x = Panic s.
Proof. destruct x; cbn; intros H; try discriminate. now injection H as ->. Qed.

Lemma count_panic {A} (x : outcome (list A)) s : count x = Panic s -> x = Panic s.
Proof. destruct x; cbn; intros H; try discriminate. now injection H as ->. Qed.

(** Soundness of the monitor for the model: the model's own outcome satisfies the monitor - for every
    scenario of the package pipeline, mapConditions, the ObjectTemplate controller and the OCI import
    without any hypothesis, for the owner strategy on well-formed annotations. *)
Theorem monitor_sound : forall sc x, wellformed sc = true -> model sc = Some x -> monitor (sc, obs_of x) = true.
Proof.
  intros sc x Hw Hm. apply monitor_obs_of; [intros n d ->; discriminate|]. apply not_panic_is_panic. intros s H.
  destruct sc as [phases objs|mappings obj|gen obj|d|evs|teardown desired actual|names deepest|];
    cbn in Hm; try discriminate; injection Hm as <-.
  - now apply collector_total in H.
  - apply count_panic in H. now apply map_conditions_total in H.
  - apply count_panic in H. now apply template_conditions_total in H.
  - apply bind_ok_panic in H. destruct d as [|c d']; cbn in H; [discriminate|].
    destruct (negb (Ascii.eqb c ".")); discriminate.
  - now apply oci_total in H.
  - apply bind_ok_panic in H. cbn in Hw.
    apply owner_annotation_partial in H as [_ [[-> Hd]|(a & -> & Ha)]]; cbn in Hw.
    + rewrite Hd in Hw. discriminate.
    + rewrite Ha in Hw. now rewrite andb_false_r in Hw.
Qed.

(** the monitor's nesting bound is the one the guard model guarantees: for every sequence of includes and
    returns over a duplicate-free list of helper names, the depth of the model's run satisfies it *)
Theorem include_monitor_sound : forall names ops,
  NoDup names -> (forall n, In (Enter n) ops -> In n names) ->
  forall o, o <> ObsRunaway -> (forall f, o <> ObsPanic f) ->
  monitor (ScInclude (N.of_nat (List.length names)) (N.of_nat (depth (grun Decrement include_limit ops g_init))), o) = true.
Proof.
  intros names ops Hnd Hops o Hr Hp. unfold monitor. cbn [fst snd].
  pose proof (include_depth_bounded include_limit names ops Hnd Hops) as B.
  assert (E : include_bound_ok (N.of_nat (List.length names)) (N.of_nat (depth (grun Decrement include_limit ops g_init))) = true).
  { unfold include_bound_ok. apply N.leb_le. rewrite <- Nat2N.inj_mul. lia. }
  destruct o; try exact E; [exfalso; eapply Hp; reflexivity|congruence].
Qed.
