(** Correspondence and monitor for C19 (no input can crash Package Operator).

    A case is a scenario of one of the harness sub-targets (mode `nopanic`) together with what the
    real code did. Where the generator knows the abstract input of a modelled stage, the scenario
    carries it and [agree] compares the model's outcome (class, count, panic site's function) with
    the implementation's; otherwise the scenario is opaque and only the monitor applies.
    The [fixed] flag of a scenario says which shape of the stage the inventory found in the tree
    (the panic site of the finding present, or repaired); it is computed from the source by the
    translator, never from the implementation's behaviour. *)
From Coq Require Import List Bool Arith NArith ZArith String Ascii Lia.
From PKO Require Import NoPanic NoPanicProofs.
Import ListNotations.
Local Open Scope string_scope.

(** what the harness reports: ok with the count the sub-target defines, an error / Invalid condition,
    or a panic with the first function of package-operator (or boxcutter) on the stack *)
Inductive obs := ObsOk (n : N) | ObsErr | ObsPanic (f : string).

Inductive scen :=
| ScCollector (fixed : bool) (phases : list string) (objs : list pobj)
| ScMapConditions (mappings : list (string * string)) (obj : list (string * json))
| ScTemplateConditions (fixed : bool) (gen : Z) (obj : list (string * json))
| ScTemplateSource (fixed : bool) (destination : string)
| ScOCI (fixed : bool) (evs : list tar_event)
| ScOwnerAnno (teardown : bool) (desired : anno_state) (actual : option anno_state)
| ScOpaque.

Definition case := (scen * obs)%type.

(** a repaired stage returns an error where the present one panics *)
Definition repaired {A} (x : outcome A) : outcome A := match x with Panic _ => Err | o => o end.
Definition shape {A} (fixed : bool) (x : outcome A) : outcome A := if fixed then repaired x else x.

Definition count {A} (x : outcome (list A)) : outcome N :=
  match x with Ok l => Ok (N.of_nat (List.length l)) | Err => Err | Panic s => Panic s end.

(** helpers for the terms the driver prints *)
Definition sb (l : list N) : string := string_of_list_ascii (map ascii_of_N l).
Definition bb (l : list N) : bytes := map ascii_of_N l.
Definition bs (s : string) : bytes := list_ascii_of_string s.

(** the key of a template-source scenario is always ".data.k" on an object that has data.k = "v":
    the regular expression matches, jsonpath finds one string, the destination map is empty *)
Definition source_item (destination : string) : outcome unit :=
  copy_source_item false (Some ["{.data.k}"; ".data.k"; ""]) (Some (JArr [JStr "v"])) destination true.

Definition model (sc : scen) : option (outcome N) :=
  match sc with
  | ScCollector fixed phases objs => Some (shape fixed (render_and_collect phases objs))
  | ScMapConditions mappings obj => Some (count (map_conditions mappings obj))
  | ScTemplateConditions fixed gen obj => Some (shape fixed (count (template_conditions gen obj)))
  | ScTemplateSource fixed d => Some (shape fixed (bind (source_item d) (fun _ => Ok 1%N)))
  | ScOCI fixed evs => Some (shape fixed (from_oci evs 0))
  | ScOwnerAnno teardown desired actual => Some (bind (phase_owner_reads teardown desired actual) (fun _ => Ok 0%N))
  | ScOpaque => None
  end.

(** the function a panic at a modelled site shows first on the stack *)
Definition stack_name (s : site_id) : string :=
  match s with
  | S_col_panic => "packagerender.phaseCollector.AddObjects"
  | S_ot_cond_type | S_ot_cond_status | S_ot_cond_reason | S_ot_cond_message =>
      "objecttemplate.updateStatusConditionsFromOwnedObject"
  | S_ot_destination0 => "objecttemplate.copySourceItem"
  | S_imp_hdr => "packageimport.FromOCI"
  | S_bx_a_getOwnerReferences_panic => "ownerhandling.(*OwnerStrategyAnnotation).getOwnerReferences"
  | _ => "(site not expected to be reached)"
  end.

Definition obs_of (x : outcome N) : obs :=
  match x with Ok n => ObsOk n | Err => ObsErr | Panic s => ObsPanic (stack_name s) end.

Definition obs_eqb (a b : obs) : bool :=
  match a, b with
  | ObsOk n, ObsOk m => N.eqb n m
  | ObsErr, ObsErr => true
  | ObsPanic f, ObsPanic g => String.eqb f g
  | _, _ => false
  end.

(** for the owner-strategy scenarios the model only says whether (and where) the pass panics; whether it
    then succeeds or returns an error depends on the rest of the PhaseReconciler (C01/C02) *)
Definition obs_panic_eqb (a b : obs) : bool :=
  match a, b with
  | ObsPanic f, ObsPanic g => String.eqb f g
  | ObsPanic _, _ | _, ObsPanic _ => false
  | _, _ => true
  end.

Definition agree (c : case) : bool :=
  match model (fst c) with
  | None => true
  | Some x => match fst c with
              | ScOwnerAnno _ _ _ => obs_panic_eqb (obs_of x) (snd c)
              | _ => obs_eqb (obs_of x) (snd c)
              end
  end.

(** the property, on the implementation's observation only: it did not panic *)
Definition monitor (c : case) : bool := match snd c with ObsPanic _ => false | _ => true end.

Definition judge (c : case) : bool * bool := (agree c, monitor c).

(** inputs a validator (present or to be added) lets through *)
Definition wellformed (sc : scen) : bool :=
  match sc with
  | ScCollector fixed _ objs => fixed || forallb (fun o => condmap_ok (o_condmap o)) objs
  | ScMapConditions _ _ => true
  | ScTemplateConditions fixed _ obj => fixed || conditions_wellformed obj
  | ScTemplateSource fixed d => fixed || negb (String.eqb d "")
  | ScOCI fixed evs => fixed || no_tar_error evs
  | ScOwnerAnno teardown desired actual =>
      (teardown || anno_wellformed desired) && match actual with Some a => anno_wellformed a | None => true end
  | ScOpaque => true
  end.

Lemma repaired_no_panic {A} (x : outcome A) : is_panic (repaired x) = false.
Proof. destruct x; reflexivity. Qed.

Lemma monitor_obs_of x sc : is_panic x = false -> monitor (sc, obs_of x) = true.
Proof. destruct x; cbn; [reflexivity|reflexivity|discriminate]. Qed.

Lemma not_panic_is_panic {A} (x : outcome A) : (forall s, x <> Panic s) -> is_panic x = false.
Proof. destruct x as [a| |s]; intros H; try reflexivity. exfalso. now apply (H s). Qed.

Lemma bind_ok_panic {A} (x : outcome A) (n : N) s : bind x (fun _ => Ok n) = Panic s -> x = Panic s.
Proof. destruct x; cbn; intros H; try discriminate. now injection H as ->. Qed.

(** Soundness of the monitor for the model: on well-formed scenarios the model's own outcome
    satisfies the monitor, i.e. the modelled stages do not panic. *)
Theorem monitor_sound : forall sc x, wellformed sc = true -> model sc = Some x -> monitor (sc, obs_of x) = true.
Proof.
  intros sc x Hw Hm. apply monitor_obs_of.
  destruct sc as [fixed phases objs|mappings obj|fixed gen obj|fixed d|fixed evs|teardown desired actual|];
    cbn in Hm; try discriminate; injection Hm as <-; cbn in Hw.
  - destruct fixed; cbn [shape]; [apply repaired_no_panic|]; cbn [orb] in Hw.
    apply not_panic_is_panic. intros s H. apply collector_partial in H as [_ H].
    apply existsb_exists in H as (o & Ho & Hb). rewrite forallb_forall in Hw. rewrite (Hw o Ho) in Hb. discriminate.
  - apply not_panic_is_panic. intros s H. unfold count in H.
    destruct (map_conditions mappings obj) eqn:E; try discriminate. injection H as ->. now apply map_conditions_total in E.
  - destruct fixed; cbn [shape]; [apply repaired_no_panic|]; cbn [orb] in Hw.
    apply not_panic_is_panic. intros s H. unfold count in H.
    destruct (template_conditions gen obj) eqn:E; try discriminate. injection H as ->.
    now apply (template_conditions_total_if_wellformed gen obj Hw) in E.
  - destruct fixed; cbn [shape]; [apply repaired_no_panic|]; cbn [orb] in Hw.
    apply not_panic_is_panic. intros s H. apply bind_ok_panic in H. unfold source_item in H.
    destruct d as [|c d']; [discriminate Hw|]. destruct (negb (Ascii.eqb c ".")); discriminate.
  - destruct fixed; cbn [shape]; [apply repaired_no_panic|]; cbn [orb] in Hw.
    apply not_panic_is_panic. intros s. now apply oci_total_without_read_error.
  - apply not_panic_is_panic. intros s H.
    apply bind_ok_panic in H. rename H into E.
    apply owner_annotation_partial in E as [_ [[-> Hd]|(a & -> & Ha)]]; cbn in Hw.
    + rewrite Hd in Hw. discriminate.
    + rewrite Ha in Hw. now rewrite andb_false_r in Hw.
Qed.

(** the explicit repaired models of NoPanic.v are the present ones with the panic turned into an error *)
Theorem fixed_models_are_repairs :
  (forall phases objs, render_and_collect_fixed phases objs = repaired (render_and_collect phases objs))
  /\ (forall evs files, from_oci_fixed evs files = repaired (from_oci evs files))
  /\ (forall k sm ex d ok, copy_source_item_fixed k sm ex d ok = repaired (copy_source_item k sm ex d ok)).
Proof.
  repeat split.
  - intros phases objs. unfold render_and_collect_fixed, render_and_collect.
    destruct (validators_accept phases objs); cbn; [|reflexivity].
    destruct (forallb (fun o => condmap_ok (o_condmap o)) objs) eqn:E.
    + destruct (collector_total_if_validated phases objs E) as [n ->]. reflexivity.
    + destruct (collect phases objs) as [n| |s] eqn:C; cbn; try reflexivity.
      exfalso. unfold collect, add_objects in C.
      destruct (add_objects_from objs (seq 0 (List.length objs)) []) as [l| |s] eqn:A; cbn in C; try discriminate.
      clear C n. assert (G : forall idxs acc l, add_objects_from objs idxs acc = Ok l ->
                              forall i, In i idxs -> forall o, nth_error objs i = Some o -> condmap_ok (o_condmap o) = true).
      { induction idxs as [|j rest IH]; intros acc l' H i Hi o Ho; [contradiction|]. cbn in H.
        unfold index_or in H. destruct (nth_error objs j) as [oj|] eqn:Ej; cbn in H; [|discriminate].
        destruct (parse_condmap (o_condmap oj)) as [m| |] eqn:P; try discriminate.
        destruct Hi as [->|Hi]; [|now apply (IH _ _ H i Hi o Ho)].
        assert (oj = o) by congruence. subst. apply parse_condmap_ok_iff. eauto. }
      assert (T : forallb (fun o => condmap_ok (o_condmap o)) objs = true).
      { apply forallb_forall. intros o Ho. apply In_nth_error in Ho as [i Hi].
        apply (G _ _ _ A i); [|assumption]. apply in_seq. assert (i < List.length objs) by (apply nth_error_Some; congruence). lia. }
      congruence.
  - induction evs as [|e rest IH]; intros files; cbn.
    + destruct (N.eqb files 0); reflexivity.
    + destruct e as [p body_ok|]; [|reflexivity].
      destruct p as [[|]| |]; destruct body_ok; try reflexivity; apply IH.
  - intros k sm ex d ok. unfold copy_source_item_fixed. destruct d as [|c d'].
    + unfold copy_source_item. destruct (relaxed_jsonpath k sm) as [r| |s] eqn:E; cbn; try reflexivity.
      * destruct ex as [value|]; [|reflexivity].
        destruct value; cbn; try reflexivity. destruct l as [|x [|y t]]; reflexivity.
      * now apply relaxed_jsonpath_no_panic in E.
    + destruct (copy_source_item k sm ex (String c d') ok) as [u| |s] eqn:E; cbn; try reflexivity.
      apply template_source_partial in E as [_ E]. discriminate.
Qed.
