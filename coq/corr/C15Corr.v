(** C15 — correspondence between runs of the real (Cluster)ObjectSet and (Cluster)ObjectSetPhase controllers
    against one recording server (harness mode "delegation") and ObjectSet.v / PhaseController.v, and the
    monitors of the delegation property evaluated on the implementation's observation. *)
From Coq Require Import List NArith ZArith Bool.
From PKO Require Import Util Base BaseProofs Owner Api Phase ObjectSet ObjectSetProofs PhaseController DelegationProofs.
From PKOCorr Require Import PhaseCorr SetCorr.
From PKOCorr Require C02Corr.
Import ListNotations.
Local Open Scope N_scope.

(** Clusters: with the multi-cluster constructors the harness runs a management cluster (ObjectSets, phase objects,
    members of in-process phases) and a target cluster (members of delegated phases) as two recording servers that
    share one resourceVersion / uid counter and one request log, each controller built through its real constructor
    with the clients the managers pass. The model needs nothing new: management objects and delegated members are
    disjoint keys, so the two stores are read as the one logical world of ObjectSet.v ([dr_store] / [dr_post] are
    the union). A controller that reads or writes the wrong cluster shows up as a disagreement and in the monitors
    below ([m_handover], [m_phase_teardown]).

    One step of a schedule: a pass of the ObjectSet controller, a pass of the ObjectSetPhase controller, or
    the environment (kubelet-style status writes on members, third-party edits of ObjectSets), given by its
    result. *)
Inductive dstep :=
| DSet (kind ns name : N)
| DPhase (kind ns name : N)
| DEnv (objs : list (okey * obj)) (sets : list oset) (gone : list oid) (pgone : list oid) (kgone : list okey).
  (* objects written, ObjectSets edited, ObjectSets removed, phase objects removed, member objects removed *)

Record dobs := {
  ds_step : dstep; ds_res : sres; ds_events : list sev; ds_rv : N; ds_uid : N;
  ds_pre_set : option oset;        (* DSet: the ObjectSet as stored right before the pass *)
  ds_pre_phase : option osphase    (* DPhase: the phase object as stored right before the pass *)
}.

Record drun := {
  dr_force : bool; dr_annot : bool;      (* annot: the multi-cluster constructors (owner annotation) *)
  dr_store : store; dr_rv : N; dr_uid : N; dr_sets : list oset; dr_phases : list osphase; dr_nss : list (N * bool);
  dr_steps : list dobs;
  dr_post : store; dr_sets' : list oset; dr_phases' : list osphase; dr_rv' : N; dr_uid' : N;
  dr_quiet : bool                        (* every stage ended with a full round of passes that changed nothing *)
}.

Definition dr_world (c : drun) : sworld :=
  {| sw_w := {| w_store := dr_store c; w_rv := dr_rv c; w_uid := dr_uid c |}; sw_sets := dr_sets c;
     sw_phases := dr_phases c; sw_nss := dr_nss c |}.

Definition flavor_of (annot : bool) (kind : N) : flavor :=
  if kind =? KClusterObjectSetPhase then (if annot then FMultiClusterPhase else FSameClusterPhase)
  else (if annot then FMultiPhase else FSamePhase).

Definition env_apply (sw : sworld) (objs : list (okey * obj)) (sets : list oset) (gone pgone : list oid) (kgone : list okey)
           (rv uid : N) : sworld :=
  {| sw_w := {| w_store := fold_left (fun s k => remove_key k s) kgone
                             (fold_left (fun s ko => upsert (fst ko) (snd ko) s) objs (w_store (sw_w sw)));
                w_rv := rv; w_uid := uid |};
     sw_sets := fold_left del_set gone (fold_left put_set sets (sw_sets sw));
     sw_phases := fold_left del_phase pgone (sw_phases sw); sw_nss := sw_nss sw |}.

(** The class the harness starts the phase controllers for: "default". *)
Definition DefaultClass : N := 1.

Definition step_model (force annot : bool) (sw : sworld) (o : dobs) : sworld * list sev * sres :=
  match ds_step o with
  | DSet k ns n => objectset_pass force sw k ns n
  | DPhase k ns n => objectsetphase_pass (flavor_of annot k) force DefaultClass sw k ns n
  | DEnv objs sets gone pgone kgone => (env_apply sw objs sets gone pgone kgone (ds_rv o) (ds_uid o), [], SDone false)
  end.

Definition pre_agrees (sw : sworld) (o : dobs) : bool :=
  match ds_step o with
  | DSet k ns n => option_eqb oset_eqb (find_set (sw_sets sw) k ns n) (ds_pre_set o)
  | DPhase k ns n => option_eqb osphase_eqb (find_phase (sw_phases sw) k ns n) (ds_pre_phase o)
  | DEnv _ _ _ _ _ => true
  end.

Definition step_agrees (sw sw' : sworld) (e : list sev) (r : sres) (o : dobs) : bool :=
  pre_agrees sw o && sres_eqb r (ds_res o) && list_eqb sev_eqb e (ds_events o) &&
  (w_rv (sw_w sw') =? ds_rv o) && (w_uid (sw_w sw') =? ds_uid o).

(** Replays the schedule on the model; returns the final world and the index of the first step whose
    pre-state, result, requests or counters differ (None: all steps agree). *)
Fixpoint replay (force annot : bool) (sw : sworld) (steps : list dobs) (i : nat) : sworld * option nat :=
  match steps with
  | [] => (sw, None)
  | o :: rest =>
      let '(sw', e, r) := step_model force annot sw o in
      if step_agrees sw sw' e r o then replay force annot sw' rest (S i) else (sw', Some i)
  end.

Definition model_final (c : drun) : sworld * option nat := replay (dr_force c) (dr_annot c) (dr_world c) (dr_steps c) O.

Definition agree_parts (c : drun) : option nat * bool * bool * bool :=
  let '(sw, bad) := model_final c in
  (bad, store_eqb (w_store (sw_w sw)) (dr_post c),
   list_eqb oset_eqb (sw_sets sw) (dr_sets' c) && phases_eqb (sw_phases sw) (dr_phases' c),
   (w_rv (sw_w sw) =? dr_rv' c) && (w_uid (sw_w sw) =? dr_uid' c)).

Definition agree (c : drun) : bool :=
  let '(bad, a, b, d) := agree_parts c in
  match bad with None => a && b && d | Some _ => false end.

(** A delegated run and, for the built-in same-cluster flavour, its twin: the same scenario with every phase
    local (no class), run through the same controllers. *)
Record tcase := { tc_d : drun; tc_l : option drun }.

Definition agree_t (c : tcase) : bool :=
  agree (tc_d c) && match tc_l c with Some l => agree l | None => true end.

(** * Monitors (on the implementation's observation only) *)

Definition join (s : oset) (ph : phase) : N := join_name (oi_name (os_id s)) (ph_name ph).
Definition delegated (s : oset) : list phase := filter ph_class (os_phases s).

Definition is_activeb (m : oset) : bool :=
  negb (cond_true (os_conds m) CArchived) && negb (os_deleting m) && negb (lifecycle_eqb (os_life m) LArchived).
Definition is_goingb (m : oset) : bool :=
  negb (cond_true (os_conds m) CArchived) && (os_deleting m || lifecycle_eqb (os_life m) LArchived).

Definition avail_currentb (cur : osphase) : bool :=
  match find_cond (op_conds cur) CAvailable with
  | Some cd => cstatus_eqb (cd_status cd) STrue && Z.eqb (cd_gen cd) (op_gen cur)
  | None => false
  end.

(** The phase object under name [nm] as the pass last obtained it from the server before position [evs]:
    a Get, the response of the pause patch, or the created object. Some None = read as absent. *)
Fixpoint last_seen (nm : N) (evs : list sev) (acc : option (option osphase)) : option (option osphase) :=
  match evs with
  | [] => acc
  | SPhase (PGet m r) :: rest => last_seen nm rest (if m =? nm then Some r else acc)
  | SPhase (PPause m _ (Some p)) :: rest => last_seen nm rest (if m =? nm then Some (Some p) else acc)
  | SPhase (PCreate m (Some p)) :: rest => last_seen nm rest (if m =? nm then Some (Some p) else acc)
  | _ :: rest => last_seen nm rest acc
  end.

Definition seen_available (nm : N) (before : list sev) : bool :=
  match last_seen nm before None with Some (Some cur) => avail_currentb cur | _ => false end.

(** gone for the ObjectSet: read as absent, or read and not controlled by it *)
Definition seen_gone (uid nm : N) (before : list sev) : bool :=
  match last_seen nm before None with
  | Some None => true
  | Some (Some cur) => negb (controlled_by_uid (op_owners cur) uid)
  | None => false
  end.

Definition pobj_eqb' := pobj_eqb.

(** desired_phase_carries, as a check of a created object against the ObjectSet as stored before the pass.
    [rev]: the revision the pass works with, if the observation determines it (the stored one; else the one a
    status request of this pass persisted before; else 1 for an ObjectSet without previous revisions). *)
Definition carriesb (s : oset) (rev : option Z) (ph : phase) (p : osphase) : bool :=
  (oi_kind (op_id p) =? phase_kind s) && (oi_ns (op_id p) =? oi_ns (os_id s)) && (oi_name (op_id p) =? join s ph) &&
  list_eqb pobj_eqb (op_objects p) (ph_objects ph) &&
  match rev with Some r => Z.eqb (op_revision p) r | None => true end &&
  list_eqb N.eqb (op_prev p) (os_prev s) &&
  Bool.eqb (op_paused p) (lifecycle_eqb (os_life s) LPaused) &&
  (op_pkg p =? os_pkg s) && (op_class p =? 1) &&
  list_eqb oref_eqb (op_owners p) [ctrl_ref (os_id s)] &&
  negb (op_deleting p) && is_nil (op_conds p).

Definition pass_revision (s : oset) (before : list sev) : option Z :=
  if negb (Z.eqb (os_revision s) 0) then Some (os_revision s) else
  match flat_map (fun e => match e with SMeta (MStatus r _ _ _ _ true) => if Z.eqb r 0 then [] else [r] | _ => [] end) before with
  | r :: _ => Some r
  | [] => if is_nil (os_prev s) then Some 1%Z else None
  end.

(** prefixes: [(before, e)] for every event e of the list *)
Fixpoint with_prefix {A} (pre : list A) (l : list A) : list (list A * A) :=
  match l with
  | [] => []
  | x :: r => (pre, x) :: with_prefix (pre ++ [x]) r
  end.

(** index of the phase an event writes to: a member of local phase i (first local phase naming the key), or
    the phase object of delegated phase i (create / pause / delete / strip) *)
Fixpoint phase_idx (s : oset) (phs : list phase) (e : sev) (i : nat) : option nat :=
  match phs with
  | [] => None
  | ph :: r =>
      let hit :=
        match e with
        | SMember x => negb (ph_class ph) && existsb (okey_eqb (ev_key x)) (map (spec_key s) (ph_objects ph))
        | SPhase (PCreate m _) | SPhase (PPause m _ _) | SPhase (PDelete m _) | SPhase (PStrip m _) => ph_class ph && (m =? join s ph)
        | _ => false
        end in
      if hit then Some i else phase_idx s r e (S i)
  end.

Definition names_nodup (s : oset) : bool := nodupb N.eqb (map (join s) (delegated s)).

Section StepMonitors.
  Variable o : dobs.

  Definition evs := ds_events o.
  Definition statuses : list (list sev * (list cond * list okey)) :=
    flat_map (fun pe => match snd pe with SMeta (MStatus _ cs co _ _ _) => [(fst pe, (cs, co))] | _ => [] end) (with_prefix [] evs).

  (** one_phase_object / desired_phase_carries: what an ObjectSet pass creates is the phase object of one of
      its delegated phases and carries that phase; an active pass neither deletes a phase object nor strips its
      finalizers; nothing is created for an ObjectSet that is being deleted or archived. *)
  Definition m_carries : bool :=
    match ds_step o, ds_pre_set o with
    | DSet _ _ _, Some s =>
        let desired_paused := lifecycle_eqb (os_life s) LPaused in
        forallb (fun pe => let '(before, e) := pe in
                 match e with
                 | SPhase (PCreate nm (Some p)) =>
                     is_activeb s && existsb (fun ph => (nm =? join s ph) && carriesb s (pass_revision s before) ph p) (delegated s)
                 | SPhase (PCreate _ None) => true
                 | SPhase (PDelete _ _) | SPhase (PStrip _ _) => is_goingb s
                 | SPhase (PPause nm pa _) => is_activeb s && Bool.eqb pa desired_paused && existsb (fun ph => nm =? join s ph) (delegated s)
                 | _ => true end) (with_prefix [] evs) &&
        (* at most one creation per name in a pass *)
        nodupb N.eqb (flat_map (fun e => match e with SPhase (PCreate nm _) => [nm] | _ => [] end) evs)
    | DSet _ _ _, None => is_nil evs
    | _, _ => true
    end.

  (** relay_generation: Available=True is (newly) reported only if, for every delegated phase, the phase object
      as last obtained in this pass carries Available=True for its own generation. *)
  Definition m_relay : bool :=
    match ds_step o, ds_pre_set o with
    | DSet _ _ _, Some s =>
        negb (is_activeb s) ||
        forallb (fun st => let '(before, (cs, _)) := st in
          match find_cond cs CAvailable with
          | Some cd => negb (cstatus_eqb (cd_status cd) STrue) ||
                       option_eqb cond_eqb (find_cond (os_conds s) CAvailable) (Some cd) ||
                       forallb (fun ph => seen_available (join s ph) before) (delegated s)
          | None => true end) statuses
    | _, _ => true
    end.

  (** ... and that phase object is the ObjectSet's own: controlled by it and carrying the phase's objects
      ("realised through exactly one ObjectSetPhase that carries the phase's objects"). *)
  Definition m_own : bool :=
    match ds_step o, ds_pre_set o with
    | DSet _ _ _, Some s =>
        negb (is_activeb s) ||
        forallb (fun st => let '(before, (cs, _)) := st in
          match find_cond cs CAvailable with
          | Some cd => negb (cstatus_eqb (cd_status cd) STrue) ||
                       option_eqb cond_eqb (find_cond (os_conds s) CAvailable) (Some cd) ||
                       forallb (fun ph => match last_seen (join s ph) before None with
                                          | Some (Some cur) => controlled_by_uid (op_owners cur) (oi_uid (os_id s)) &&
                                                               list_eqb pobj_eqb (op_objects cur) (ph_objects ph)
                                          | _ => false end) (delegated s)
          | None => true end) statuses
    | _, _ => true
    end.

  (** status.remotePhases and the relay of controllerOf. Every entry of the remotePhases a status request carries
      is one the ObjectSet already had stored, or names (with its uid) a phase object obtained earlier in this pass
      and controlled by the ObjectSet: nobody else's phase is ever recorded as this ObjectSet's remote phase.
      And the controllerOf a status request of an active pass carries contains what each delegated phase up to the
      phase the pass stopped at reports in the phase object as last obtained (controlled by the ObjectSet):
      "always gather all objects we are controller of", also while a phase has not reported Available yet. *)
  Definition failing_phase : option N :=
    last (flat_map (fun e => match e with SMeta (MStatus _ _ _ _ f _) => [f] | _ => [] end) evs) None.
  Fixpoint upto_failing (phs : list phase) (n : N) : list phase :=
    match phs with
    | [] => []
    | ph :: r => if ph_name ph =? n then [ph] else ph :: upto_failing r n
    end.
  Definition status_reqs : list (list sev * (list cond * list okey * list (N * N))) :=
    flat_map (fun pe => match snd pe with SMeta (MStatus _ cs co rem _ _) => [(fst pe, (cs, co, rem))] | _ => [] end) (with_prefix [] evs).
  Definition m_remotes : bool :=
    match ds_step o, ds_pre_set o with
    | DSet _ _ _, Some s =>
        forallb (fun st => let '(before, (_, _, rem)) := st in
          forallb (fun nu =>
            existsb (fun x => (fst x =? fst nu) && (snd x =? snd nu)) (os_remotes s) ||
            match last_seen (fst nu) before None with
            | Some (Some cur) => controlled_by_uid (op_owners cur) (oi_uid (os_id s)) && (oi_uid (op_id cur) =? snd nu)
            | _ => false end) rem) status_reqs
    | _, _ => true
    end.
  Definition m_relay_ctrlof : bool :=
    match ds_step o, ds_pre_set o with
    | DSet _ _ _, Some s =>
        negb (is_activeb s) || negb (names_nodup s) ||
        forallb (fun st => let '(before, (cs, co, _)) := st in
          match find_cond cs CAvailable with
          | Some cd =>
              option_eqb cond_eqb (find_cond (os_conds s) CAvailable) (Some cd) ||
              negb (creason_eqb (cd_reason cd) RAvailable || creason_eqb (cd_reason cd) RProbeFailure) ||
              forallb (fun ph => match last_seen (join s ph) before None with
                                 | Some (Some cur) =>
                                     negb (controlled_by_uid (op_owners cur) (oi_uid (os_id s))) ||
                                     forallb (fun k => existsb (okey_eqb k) co) (op_ctrlof cur)
                                 | _ => true end)
                      (filter ph_class (match failing_phase with Some n => upto_failing (os_phases s) n | None => os_phases s end))
          | None => true end) status_reqs
    | _, _ => true
    end.

  (** The gate: a write to phase j (member of a local phase, create / pause of a phase object) happens only after
      every earlier delegated phase was seen Available for its current generation in this pass. *)
  Definition m_gate : bool :=
    match ds_step o, ds_pre_set o with
    | DSet _ _ _, Some s =>
        negb (is_activeb s) || negb (names_nodup s) ||
        forallb (fun pe => let '(before, e) := pe in
          match phase_idx s (os_phases s) e O with
          | Some j => forallb (fun ph => negb (ph_class ph) || seen_available (join s ph) before) (firstn j (os_phases s))
          | None => match e with SMember _ => false | SPhase (PCreate _ _) | SPhase (PPause _ _ _) => false | _ => true end
          end) (with_prefix [] evs)
    | _, _ => true
    end.

  (** Teardown: an ObjectSet deleted with orphan propagation deletes nothing; a phase object is deleted only after
      it was read and found controlled by the ObjectSet; a write
      to phase j happens only after every later delegated phase was seen gone in this pass; the finalizer goes /
      Archived=True is reported only after every delegated phase was seen gone (orphan deletion excepted). *)
  Definition m_teardown : bool :=
    match ds_step o, ds_pre_set o with
    | DSet _ _ _, Some s =>
        negb (is_goingb s) || negb (names_nodup s) ||
        let uid := oi_uid (os_id s) in
        forallb (fun pe => let '(before, e) := pe in
          (* deleted with orphan propagation: nothing is deleted, neither members nor phase objects (C05) *)
          (negb (os_orphan s) || match e with SMember _ | SPhase (PDelete _ _) | SPhase (PStrip _ _) => false | _ => true end) &&
          match e with
          | SPhase (PDelete nm _) | SPhase (PStrip nm _) =>
              match last_seen nm before None with Some (Some cur) => controlled_by_uid (op_owners cur) uid | _ => false end
          | _ => true end &&
          match phase_idx s (os_phases s) e O with
          | Some j => forallb (fun ph => negb (ph_class ph) || seen_gone uid (join s ph) before) (skipn (S j) (os_phases s))
          | None => match e with SMember _ => false | SPhase (PCreate _ _) | SPhase (PPause _ _ _) | SPhase (PDelete _ _) | SPhase (PStrip _ _) => false | _ => true end
          end &&
          match e with
          | SMeta (MFinalizer false _) => negb (os_fin s) || os_orphan s || forallb (fun ph => seen_gone uid (join s ph) before) (delegated s)
          | SMeta (MStatus _ cs _ _ _ _) => negb (cond_true cs CArchived) || negb (os_fin s) || os_orphan s ||
                                             forallb (fun ph => seen_gone uid (join s ph) before) (delegated s)
          | _ => true end) (with_prefix [] evs)
    | _, _ => true
    end.

  (** C09 with delegated phases: whenever an active ObjectSet pass obtained the phase object of one of its delegated
      phases (controlled by it, not being deleted), the phase object's spec.paused equals the ObjectSet's paused
      state at the end of the pass or the pass sent the pause / unpause patch - whatever the phase object's status
      says (a paused ObjectSet pauses a phase that has not reported yet).
      [m_pause_all]: for every delegated phase; [m_pause]: for the phases the phase loop reached, i.e. up to and
      including the phase the pass named as failing. *)
  Definition pause_synced (s : oset) (ph : phase) : bool :=
    let desired := lifecycle_eqb (os_life s) LPaused in
    match last_seen (join s ph) evs None with
    | Some (Some cur) =>
        negb (controlled_by_uid (op_owners cur) (oi_uid (os_id s))) || op_deleting cur ||
        Bool.eqb (op_paused cur) desired ||
        existsb (fun e => match e with SPhase (PPause m pa _) => (m =? join s ph) && Bool.eqb pa desired | _ => false end) evs
    | _ => true end.
  Definition m_pause_all : bool :=
    match ds_step o, ds_pre_set o with
    | DSet _ _ _, Some s => negb (is_activeb s) || negb (names_nodup s) || forallb (pause_synced s) (delegated s)
    | _, _ => true
    end.
  Definition m_pause : bool :=
    match ds_step o, ds_pre_set o with
    | DSet _ _ _, Some s =>
        negb (is_activeb s) || negb (names_nodup s) ||
        forallb (pause_synced s)
                (filter ph_class (match failing_phase with Some n => upto_failing (os_phases s) n | None => os_phases s end))
    | _, _ => true
    end.

  (** The ObjectSetPhase controller: nothing at all for a phase object of another class (or none); otherwise only
      requests on its own object and on the objects its spec lists (at their defaulted keys). *)
  Definition m_class : bool :=
    match ds_step o, ds_pre_phase o with
    | DPhase _ _ nm, Some p =>
        if negb (op_class p =? DefaultClass) then is_nil evs else
        forallb (fun e => match e with
                          | SMember x => existsb (okey_eqb (ev_key x)) (map (desired_key (phase_owner p)) (op_objects p))
                          | SPhase (PFinalizer m _ _) | SPhase (PStatus m _ _ _) => m =? nm
                          | _ => false end) evs
    | DPhase _ _ _, None => is_nil evs
    | _, _ => true
    end.
  (** C11 for the same-cluster ObjectSetPhase controller: a namespaced ObjectSetPhase never has a member request
      outside its namespace or on a cluster-scoped kind. *)
  Definition m_nsbound : bool :=
    match ds_step o, ds_pre_phase o with
    | DPhase _ _ _, Some p =>
        negb (oi_kind (op_id p) =? KObjectSetPhase) ||
        forallb (fun e => match e with
                          | SMember x => (k_ns (ev_key x) =? oi_ns (op_id p)) &&
                                         match gk_scope (k_gk (ev_key x)) with Some true => true | _ => false end
                          | _ => true end) evs
    | _, _ => true
    end.
  (** C11 "violations surface as Available=False/PreflightError": a pass of the same-cluster ObjectSetPhase
      controller on a live, unpaused phase object of its class, carrying the finalizer, that lists an object
      violating preflight sends no member request and reports Available=False / PreflightError. *)
  Definition m_preflight_reported : bool :=
    match ds_step o, ds_pre_phase o with
    | DPhase k _ _, Some p =>
        let f := if k =? KClusterObjectSetPhase then FSameClusterPhase else FSamePhase in
        negb (op_class p =? DefaultClass) || op_deleting p || negb (op_fin p) ||
        negb (existsb (fun x => negb (is_nil (preflight_obj f (phase_owner p) false x))) (op_objects p)) ||
        (forallb (fun e => match e with SMember _ => false | _ => true end) evs &&
         existsb (fun e => match e with
                           | SPhase (PStatus _ cs _ _) =>
                               match find_cond cs CAvailable with
                               | Some cd => cstatus_eqb (cd_status cd) SFalse && creason_eqb (cd_reason cd) RPreflightError
                               | None => false end
                           | _ => false end) evs)
    | _, _ => true
    end.
  (** The handover clauses of C02 on every pass of the ObjectSetPhase controller (its flavour's owner strategy, the
      phase object as owner): every apply records the owner's revision, an adoption comes only from a revision that
      is not higher, leaves exactly one controller, and there is no apply over an object the pass did not read. *)
  Definition m_handover (annot : bool) : bool :=
    match ds_step o, ds_pre_phase o with
    | DPhase k _ _, Some p =>
        negb (op_class p =? DefaultClass) ||
        C02Corr.monitor
          {| pc_flavor := flavor_of annot k; pc_force := false; pc_owner := phase_owner p; pc_prev := [];
             pc_store := []; pc_rv := 0; pc_uid := 0; pc_teardown := op_deleting p; pc_objects := op_objects p; pc_between := [];
             pc_res := OErr None;
             pc_events := flat_map (fun e => match e with SMember x => [x] | _ => [] end) evs;
             pc_post := []; pc_rv' := 0; pc_uid' := 0 |}
    | _, _ => true
    end.
  (** C05, orphan clause for phase objects: a pass of the phase controller on a phase object that is being deleted with
      orphan propagation (deletionTimestamp and the "orphan" finalizer) sends no request for any member. *)
  Definition m_phase_orphan : bool :=
    match ds_step o, ds_pre_phase o with
    | DPhase _ _ _, Some p =>
        negb (op_deleting p && op_orphan p) ||
        forallb (fun e => match e with SMember _ => false | _ => true end) evs
    | _, _ => true
    end.
End StepMonitors.

(** The revision an ObjectSet stamps on its members never goes down over the passes of a run: it is computed once,
    persisted before any member is touched, and never recomputed (C02: a write never lowers a recorded revision of
    an object the ObjectSet already controls). *)
Definition stamped (o : dobs) : list Z :=
  flat_map (fun e => match e with
                     | SMember (EApply _ _ _ (POk x)) => match o_rev x with RevNum z => [z] | _ => [] end
                     | _ => [] end) (ds_events o).
Fixpoint sorted_z (l : list Z) : bool :=
  match l with
  | a :: ((b :: _) as r) => (a <=? b)%Z && sorted_z r
  | _ => true
  end.
Definition m_set_revision (c : drun) : bool :=
  forallb (fun o =>
    match ds_step o with
    | DSet k ns n =>
        sorted_z (flat_map (fun o' => match ds_step o' with
                                      | DSet k' ns' n' => if (k =? k') && (ns =? ns') && (n =? n') then stamped o' else []
                                      | _ => [] end) (dr_steps c))
    | _ => true
    end) (dr_steps c).

(** The phase controller lets its phase object go (removes its finalizer) only when no member is still controlled by
    it: judged on the member store at the end of the run (nobody re-creates members for a phase object that is gone). *)
Definition m_phase_teardown (c : drun) : bool :=
  forallb (fun o =>
    match ds_step o, ds_pre_phase o with
    | DPhase k _ nm, Some p =>
        negb (existsb (fun e => match e with SPhase (PFinalizer m false true) => m =? nm | _ => false end) (ds_events o)) ||
        op_orphan p ||
        forallb (fun kv => negb (is_controller (flavor_strat (flavor_of (dr_annot c) k)) (op_id p) (snd kv))) (dr_post c)
    | _, _ => true
    end) (dr_steps c).

Definition all_steps (m : dobs -> bool) (c : drun) : bool := forallb m (dr_steps c).

(** * The differential monitor: delegated run vs the all-local twin *)

(** A reference to the phase object of a delegated phase of a scenario ObjectSet is read as a reference to that
    ObjectSet: the owner identity is the one thing delegation changes. *)
Definition norm_ref (sets : list oset) (r : oref) : oref :=
  if (r_kind r =? KObjectSetPhase) || (r_kind r =? KClusterObjectSetPhase) then
    match find (fun s => (phase_kind s =? r_kind r) && existsb (fun ph => join s ph =? r_name r) (delegated s)) sets with
    | Some s => {| r_kind := oi_kind (os_id s); r_name := oi_name (os_id s); r_uid := oi_uid (os_id s); r_ctrl := r_ctrl r |}
    | None => r
    end
  else r.

(** What is compared of a member object: everything but uid / resourceVersion (the phase objects consume
    counters), with owner references normalised. *)
Definition obj_view_eqb (sets : list oset) (a b : obj) : bool :=
  Z.eqb (o_gen a) (o_gen b) &&
  list_eqb oref_eqb (map (norm_ref sets) (o_owners a)) (map (norm_ref sets) (o_owners b)) &&
  list_eqb oref_eqb (map (norm_ref sets) (o_aowners a)) (map (norm_ref sets) (o_aowners b)) &&
  revann_eqb (o_rev a) (o_rev b) && Bool.eqb (o_cache a) (o_cache b) && (o_pkg a =? o_pkg b) && (o_body a =? o_body b) &&
  (o_avail a =? o_avail b) && option_eqb Z.eqb (o_obsgen a) (o_obsgen b) && Bool.eqb (o_deleting a) (o_deleting b) &&
  Bool.eqb (o_fin a) (o_fin b).

Definition store_view_sub (sets : list oset) (a b : store) : bool :=
  forallb (fun kv => match lookup (fst kv) b with Some o => obj_view_eqb sets (snd kv) o | None => false end) a.
Definition store_view_eqb (sets : list oset) (a b : store) : bool :=
  store_view_sub sets a b && store_view_sub sets b a.

(** keys in the order of their first changing write *)
Definition ev_changed (e : ev) : bool :=
  match e with
  | EApply _ _ pre (POk o) => negb (option_eqb obj_eqb pre (Some o))
  | ERelease _ _ pre (POk o) => negb (option_eqb obj_eqb pre (Some o))
  | EDelete _ _ _ _ _ DOk => true
  | _ => false
  end.
Fixpoint first_keys (seen : list okey) (l : list okey) : list okey :=
  match l with
  | [] => []
  | k :: r => if existsb (okey_eqb k) seen then first_keys seen r else k :: first_keys (k :: seen) r
  end.
Definition write_order (c : drun) : list okey :=
  first_keys [] (flat_map (fun o => flat_map (fun e => match e with SMember x => if ev_changed x then [ev_key x] else [] | _ => [] end) (ds_events o)) (dr_steps c)).

(** What is compared of an ObjectSet at the end: existence, deletion and finalizer (teardown progress), lifecycle,
    and whether archival completed. The rest of the status (revision, Available / Paused conditions,
    controllerOf) is not compared: a delegated phase whose reconcile fails with an error surfaces as "no status
    reported" in the ObjectSet's status, a local one as an error of the ObjectSet's own pass, which persists no
    status at all. *)
Definition cond_view (cs : list cond) (t : ctype) : option cstatus :=
  match find_cond cs t with Some c => Some (cd_status c) | None => None end.
Definition set_view_eqb (a b : oset) : bool :=
  oid_eqb (os_id a) (os_id b) && Bool.eqb (os_deleting a) (os_deleting b) && Bool.eqb (os_fin a) (os_fin b) &&
  lifecycle_eqb (os_life a) (os_life b) &&
  option_eqb cstatus_eqb (cond_view (os_conds a) CArchived) (cond_view (os_conds b) CArchived).

(** delegated_equiv as a differential test: at quiescence of both runs the member objects are the same up to the
    owner identity, they were first written in the same order, and the ObjectSets report the same. *)
Definition m_twin_parts (c : tcase) : bool * bool * bool :=
  match tc_l c with
  | None => (true, true, true)
  | Some l =>
      let d := tc_d c in
      if negb (dr_quiet d && dr_quiet l) then (true, true, true) else
      (store_view_eqb (dr_sets d) (dr_post d) (dr_post l),
       list_eqb okey_eqb (write_order d) (write_order l),
       list_eqb set_view_eqb (dr_sets' d) (dr_sets' l))
  end.
Definition m_twin (c : tcase) : bool := let '(a, b, d) := m_twin_parts c in a && b && d.

(** At quiescence: a phase object controlled by a scenario ObjectSet carries one of its delegated phases, and an
    active ObjectSet that reports Available has a phase object for every delegated phase. *)
Definition m_final (c : drun) : bool :=
  negb (dr_quiet c) ||
  forallb (fun s =>
    negb (is_activeb s) || negb (cond_true (os_conds s) CAvailable) ||
    forallb (fun ph => match find_phase (dr_phases' c) (phase_kind s) (oi_ns (os_id s)) (join s ph) with Some _ => true | None => false end)
            (delegated s)) (dr_sets' c).

Definition monitor_run (c : drun) : bool :=
  all_steps m_carries c && all_steps m_relay c && all_steps m_gate c && all_steps m_teardown c && all_steps m_class c && (dr_annot c || (all_steps m_nsbound c && all_steps m_preflight_reported c)) && m_final c &&
  all_steps (fun o => m_handover o (dr_annot c)) c && m_phase_teardown c && m_set_revision c && all_steps m_phase_orphan c.

(** The clause the implementation violates (known finding): kept apart from the rest of the monitor. *)
Definition monitor_own (c : drun) : bool := all_steps m_own c && all_steps m_remotes c && all_steps m_relay_ctrlof c.

(** judge: agreement of both runs with the model, the monitors of the delegated run (and of the local twin, on
    which they are trivial but must hold too), the differential monitor, the ownership clause. *)
Definition judge (c : tcase) : list bool :=
  [agree (tc_d c); match tc_l c with Some l => agree l | None => true end;
   monitor_run (tc_d c) && match tc_l c with Some l => monitor_run l | None => true end;
   m_twin c; monitor_own (tc_d c)].

Definition judge_dev (c : tcase) : bool * bool :=
  (agree (tc_d c), match tc_l c with Some l => agree l | None => true end).

Definition judge_parts (c : tcase) : list bool :=
  let d := tc_d c in
  let '(t1, t2, t3) := m_twin_parts c in
  [agree d; match tc_l c with Some l => agree l | None => true end;
   all_steps m_carries d; all_steps m_relay d; all_steps m_gate d; all_steps m_teardown d; all_steps m_class d && (dr_annot d || (all_steps m_nsbound d && all_steps m_preflight_reported d)); m_final d;
   t1; t2; t3; all_steps m_own d; all_steps m_remotes d; all_steps m_relay_ctrlof d;
   all_steps (fun o => m_handover o (dr_annot d)) d; m_phase_teardown d; m_set_revision d; all_steps m_phase_orphan d].

(** * The monitors accept the model (the parts that do not depend on a whole run) *)

Lemma pobj_eqb_refl p : pobj_eqb p p = true.
Proof. unfold pobj_eqb. rewrite !N.eqb_refl, !Bool.eqb_reflx. destruct (po_cp p); reflexivity. Qed.

Lemma list_eqb_refl {A} (eqb : A -> A -> bool) (H : forall x, eqb x x = true) l : list_eqb eqb l l = true.
Proof. induction l as [|x xs IH]; [reflexivity|]. cbn. now rewrite H, IH. Qed.

Lemma oref_eqb_refl r : oref_eqb r r = true.
Proof. unfold oref_eqb. now rewrite !N.eqb_refl, Bool.eqb_reflx. Qed.

(** What the model's remote phase reconciler creates passes the monitor's carries check, for the revision the
    in-memory ObjectSet has. *)
Theorem carriesb_sound s ph uid rv :
  ph_class ph = true ->
  carriesb s (Some (os_revision s)) ph (stamp_phase (desired_phase s ph) uid rv 1) = true.
Proof.
  intros Hc. unfold carriesb, join. cbn. rewrite Hc. rewrite !N.eqb_refl, Z.eqb_refl, Bool.eqb_reflx.
  rewrite (list_eqb_refl pobj_eqb pobj_eqb_refl), (list_eqb_refl N.eqb N.eqb_refl), oref_eqb_refl. reflexivity.
Qed.

(** The class filter: on the model's observation of a pass on a phase object of another class, m_class holds. *)
Theorem m_class_sound_filter f force sw kind ns name p rv uid :
  find_phase (sw_phases sw) kind ns name = Some p -> op_class p <> DefaultClass ->
  let '(sw', e, r) := objectsetphase_pass f force DefaultClass sw kind ns name in
  m_class {| ds_step := DPhase kind ns name; ds_res := r; ds_events := e; ds_rv := rv; ds_uid := uid;
             ds_pre_set := None; ds_pre_phase := Some p |} = true.
Proof.
  intros Hf Hc. rewrite (class_filter f force DefaultClass sw kind ns name p Hf Hc).
  unfold m_class. cbn. destruct (op_class p =? DefaultClass) eqn:E; [apply N.eqb_eq in E; contradiction|reflexivity].
Qed.
