(** The controller-level monitors accept every pass of the model (no false alarm w.r.t. the model):
    proved here for C09 (m09) and for the duplicate clause of C11. *)
From Coq Require Import List NArith ZArith Bool Lia.
From PKO Require Import Util Base BaseProofs Owner Api ApiProofs Phase PhaseProofs ObjectSet ObjectSetProofs.
From PKOCorr Require Import PhaseCorr SetCorr SetMonitors C05Sound C01Sound PhaseMonSound.
Import ListNotations.
Local Open Scope N_scope.

(** the case with the model's own observation *)
Definition set_obs_s (c : scase) (res : sworld * list sev * sres) : scase :=
  let '(sw, e, r) := res in
  {| sc_force := sc_force c; sc_store := sc_store c; sc_rv := sc_rv c; sc_uid := sc_uid c; sc_sets := sc_sets c;
     sc_phases := sc_phases c; sc_nss := sc_nss c; sc_kind := sc_kind c; sc_ns := sc_ns c; sc_name := sc_name c;
     sc_res := r; sc_events := e; sc_post := w_store (sw_w sw); sc_sets' := sw_sets sw; sc_phases' := sw_phases sw;
     sc_rv' := w_rv (sw_w sw); sc_uid' := w_uid (sw_w sw) |}.

Lemma is_activeb_spec m : is_activeb m = true -> is_active m.
Proof.
  unfold is_activeb, is_active. rewrite !andb_true_iff, !negb_true_iff. intros [[H1 H2] H3].
  repeat split; try assumption. intros E. rewrite E in H3. discriminate.
Qed.

Lemma members_model c sw e r :
  members (set_obs_s c (sw, e, r)) = member_evs e.
Proof. reflexivity. Qed.

Theorem m09_sound (c : scase) : m09 (set_obs_s c (SetCorr.model_run c)) = true.
Proof.
  unfold m09. destruct (SetCorr.model_run c) as [[sw e] r] eqn:E.
  change (target (set_obs_s c (sw, e, r))) with (find_set (sc_sets c) (sc_kind c) (sc_ns c) (sc_name c)).
  destruct (find_set (sc_sets c) (sc_kind c) (sc_ns c) (sc_name c)) as [m|] eqn:Ef; [|reflexivity].
  destruct (is_activeb m) eqn:Ha; [|reflexivity]. cbn [negb orb].
  destruct (lifecycle_eqb (os_life m) LPaused) eqn:Hp; [|reflexivity]. cbn [negb orb].
  assert (Hlife : os_life m = LPaused) by (destruct (os_life m); try discriminate; reflexivity).
  unfold SetCorr.model_run in E.
  destruct (C09_paused_hands_off (sc_force c) (sc_world c) (sc_kind c) (sc_ns c) (sc_name c) m sw e r Ef (is_activeb_spec m Ha) Hlife E) as [Hm Hs].
  rewrite members_model, Hm. cbn [is_nil andb].
  change (sc_store (set_obs_s c (sw, e, r))) with (sc_store c). change (sc_post (set_obs_s c (sw, e, r))) with (w_store (sw_w sw)).
  rewrite Hs. apply store_eqb_refl.
Qed.
