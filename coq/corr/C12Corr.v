(** Correspondence and monitor for C12 (dynamic cache: one informer per watched kind, released
    with its last owner). *)
From Coq Require Import List Arith NArith Bool Lia.
From PKO Require Import Util Cache CacheProofs.
Import ListNotations.
Local Open Scope N_scope.

(** * Cases

    What the harness observes per operation on the real [dynamiccache.Cache] (wired to a scripted
    informer map): the error class, the calls that reached the informer map and the informers, the
    result of OwnersForGKV if that was the operation, and - after the operation - OwnersForGKV of every
    kind of the scenario ([None] = nil slice = no reference entry; [Some []] = entry without owner). *)
Record obs := Obs {
  b_err : err;
  b_events : list event;
  b_res : option (option (list owner));
  b_snap : list (gvk * option (list owner))
}.

(** A case: the registered handlers, the kinds of the scenario, and the operations with what the
    implementation did.  The [order] field of [Free] is not known to the harness (Go map iteration
    order) and is ignored here. *)
Definition case := (list handler * list gvk * list (op * obs))%type.

(** * Model side *)
Definition snap_of (kinds : list gvk) (s : state) : list (gvk * option (list owner)) :=
  map (fun g => (g, lookup g (refs s))) kinds.

Definition obs_of (kinds : list gvk) (p : state * output) : obs :=
  Obs (o_err (snd p)) (o_events (snd p)) (o_res (snd p)) (snap_of kinds (fst p)).

(** The operations of a sequence paired with the observations the model predicts. *)
Fixpoint steps_of (fixed : bool) (kinds : list gvk) (s : state) (ops : list op) : list (op * obs) :=
  match ops with
  | [] => []
  | x :: r => let p := stepf fixed s x in (x, obs_of kinds p) :: steps_of fixed kinds (fst p) r
  end.

(** Equality of observations; owner lists are compared as sets. *)
Definition err_eqb (a b : err) : bool :=
  match a, b with
  | ErrNone, ErrNone | ErrNotStarted, ErrNotStarted | ErrInformerGet, ErrInformerGet
  | ErrHandler, ErrHandler | ErrDelete, ErrDelete => true
  | _, _ => false
  end.

Definition event_eqb (a b : event) : bool :=
  match a, b with
  | EGet g s, EGet g' s' => (g =? g') && Bool.eqb s s'
  | EStart g, EStart g' => g =? g'
  | EAdd g h s, EAdd g' h' s' => (g =? g') && (h =? h') && Bool.eqb s s'
  | EDelete g s, EDelete g' s' => (g =? g') && Bool.eqb s s'
  | EStop g, EStop g' => g =? g'
  | _, _ => false
  end.

Definition subset (a b : list N) : bool := forallb (fun x => mem x b) a.
Fixpoint nodupb (l : list N) : bool :=
  match l with [] => true | x :: r => negb (mem x r) && nodupb r end.
Definition set_eqb (a b : list N) : bool := subset a b && subset b a && Nat.eqb (length a) (length b).
Definition oset_eqb := option_eqb set_eqb.

Definition obs_eqb (a b : obs) : bool :=
  err_eqb (b_err a) (b_err b) && list_eqb event_eqb (b_events a) (b_events b) &&
  option_eqb oset_eqb (b_res a) (b_res b) &&
  list_eqb (fun p q => (fst p =? fst q) && oset_eqb (snd p) (snd q)) (b_snap a) (b_snap b).

(** All orders in which Free may visit the kinds. *)
Fixpoint inserts (x : N) (l : list N) : list (list N) :=
  match l with
  | [] => [[x]]
  | y :: r => (x :: l) :: map (cons y) (inserts x r)
  end.
Fixpoint perms (l : list N) : list (list N) :=
  match l with
  | [] => [[]]
  | x :: r => flat_map (inserts x) (perms r)
  end.

(** [agree]: the implementation did, operation by operation, what the model does - for Free, what
    the model does for one of the possible visiting orders. *)
Fixpoint agree_steps (fixed : bool) (kinds : list gvk) (s : state) (steps : list (op * obs)) : bool :=
  match steps with
  | [] => true
  | (x, b) :: r =>
      let cands := match x with
                   | Free o out _ => map (fun ord => Free o out ord) (perms kinds)
                   | _ => [x]
                   end in
      match find (fun x' => obs_eqb (obs_of kinds (stepf fixed s x')) b) cands with
      | Some x' => agree_steps fixed kinds (fst (stepf fixed s x')) r
      | None => false
      end
  end.

(** [agree false]: against the model of the code as it is; [agree true]: against [Cache_fixed]. *)
Definition agree (fixed : bool) (c : case) : bool :=
  let '(handlers, kinds, steps) := c in agree_steps fixed kinds (init handlers) steps.

(** * The monitor: the property, evaluated on the implementation's observations only

    Per kind [g] it keeps a plain reference count derived from the calls and their results -
    [m_must]: owners whose Watch of [g] reported success and who were not freed since;
    [m_may]: additionally owners whose Watch of [g] failed (the property does not say whether such an
    owner counts) or whose Free failed - and what the informer-map events say about [g]'s informer
    ([m_inf]; [m_stuck]: a Delete of it failed and it was not stopped since - nothing the cache can do).
    After every operation:
      refs    - OwnersForGKV(g) lies between [m_must] and [m_may] and lists nobody twice;
      started - if [m_must] is not empty, an informer runs for [g] and has every registered handler;
      stopped - if [m_may] is empty, no informer runs for [g] (unless stuck);
      read    - Get/List of [g] with [m_may] empty fails with CacheNotStartedError without reaching the
                informer map (unless stuck). *)
Record mstate := MState {
  m_must : list owner;
  m_may : list owner;
  m_inf : option (list handler);
  m_stuck : bool
}.
Definition m_init : mstate := MState [] [] None false.

Definition stuck_event (g : gvk) (st : bool) (e : event) : bool :=
  match e with
  | EDelete g' false => if g' =? g then true else st
  | EDelete g' true => if g' =? g then false else st
  | EStop g' => if g' =? g then false else st
  | _ => st
  end.

Record verdict := Verdict { v_refs : bool; v_started : bool; v_stopped : bool; v_read : bool }.
Definition v_and (a b : verdict) : verdict :=
  Verdict (v_refs a && v_refs b) (v_started a && v_started b) (v_stopped a && v_stopped b) (v_read a && v_read b).
Definition v_true : verdict := Verdict true true true true.
Definition v_all (a : verdict) : bool := v_refs a && v_started a && v_stopped a && v_read a.

Definition between (lo hi l : list N) : bool := subset lo l && subset l hi && nodupb l.

Definition mon_step (g : gvk) (handlers : list handler) (m : mstate) (x : op) (b : obs) : mstate * verdict :=
  let read_ok :=
    match x with
    | Get g0 | List g0 =>
        if (g0 =? g) && nilb (m_may m) && negb (m_stuck m)
        then err_eqb (b_err b) ErrNotStarted && nilb (b_events b) else true
    | _ => true
    end in
  let inf' := replay g (b_events b) (m_inf m) in
  let stuck' := fold_left (stuck_event g) (b_events b) (m_stuck m) in
  let succ := err_eqb (b_err b) ErrNone in
  let must' := match x with
               | Watch o g0 _ => if (g0 =? g) && succ then add o (m_must m) else m_must m
               | Free o _ _ => rem o (m_must m)
               | _ => m_must m
               end in
  let may' := match x with
              | Watch o g0 _ => if g0 =? g then add o (m_may m) else m_may m
              | Free o _ _ => if succ then rem o (m_may m) else m_may m
              | _ => m_may m
              end in
  let sn := match lookup g (b_snap b) with Some (Some l) => l | _ => [] end in
  let res_ok := match x with
                | OwnersForGKV g0 =>
                    if g0 =? g then
                      match b_res b with
                      | Some r => between must' may' (match r with Some l => l | None => [] end)
                      | None => false
                      end
                    else true
                | _ => true
                end in
  (MState must' may' inf' stuck',
   Verdict (between must' may' sn && res_ok)
           (nilb must' || match inf' with Some att => subset handlers att | None => false end)
           (negb (nilb may') || stuck' || negb (is_some inf'))
           read_ok).

Fixpoint mon_run (g : gvk) (handlers : list handler) (m : mstate) (steps : list (op * obs)) : verdict :=
  match steps with
  | [] => v_true
  | (x, b) :: r => let '(m', v) := mon_step g handlers m x b in v_and v (mon_run g handlers m' r)
  end.

Definition monitor_verdict (c : case) : verdict :=
  let '(handlers, kinds, steps) := c in
  fold_right (fun g v => v_and (mon_run g handlers m_init steps) v) v_true kinds.

Definition monitor (c : case) : bool := v_all (monitor_verdict c).

(** [judge]: agreement with the model of the code as it is, agreement with [Cache_fixed], and the
    four clauses of the monitor. *)
Definition judge (c : case) : bool * bool * bool * bool * bool * bool :=
  let v := monitor_verdict c in
  (agree false c, agree true c, v_refs v, v_started v, v_stopped v, v_read v).

(** Quiescent state after concurrent callers (thorough tier): the final owner sets and informers must
    be those the model reaches on a serialisation of the callers' programs. *)
Definition final_case := (list handler * list gvk * list op *
                          list (gvk * option (list owner)) * list (gvk * option (list handler)))%type.
Definition judge_final (fixed : bool) (c : final_case) : bool :=
  let '(handlers, kinds, ops, snap, informers) := c in
  let s := runf fixed (init handlers) ops in
  list_eqb (fun p q => (fst p =? fst q) && oset_eqb (snd p) (snd q)) (snap_of kinds s) snap &&
  list_eqb (fun p q => (fst p =? fst q) && oset_eqb (snd p) (snd q))
           (map (fun g => (g, lookup g (infs s))) kinds) informers.

(** * Overlapping calls: linearizability against the sequential model

    The harness holds one call ("A") inside one of its informer-map / informer calls, starts the
    other calls of the case on their own goroutines, lets each return or block, and then lets A go on.
    Observed: per call its error class, the informer-map / informer calls it made and (OwnersForGKV) its
    result; after all calls returned: OwnersForGKV of every kind and the running informers with their
    handlers in attachment order.  [lin_agree]: the model, started in the state the (sequential) prefix
    leads to, produces exactly these per-call observations and this final state when it runs the calls
    atomically in SOME order (for Free additionally: in some order of visiting the kinds). *)
Record cobs := CObs {
  c_err : err;
  c_events : list event;
  c_res : option (option (list owner))
}.

Definition lin_case := (list handler * list gvk * list (op * obs) * list (op * cobs) *
                        list (gvk * option (list owner)) * list (gvk * option (list handler)))%type.

Definition cands (kinds : list gvk) (x : op) : list op :=
  match x with
  | Free o out _ => map (fun ord => Free o out ord) (perms kinds)
  | _ => [x]
  end.

(** The state the model is in after a sequentially observed prefix ([None]: the prefix itself
    does not agree with the model). *)
Fixpoint agree_state (fixed : bool) (kinds : list gvk) (s : state) (steps : list (op * obs)) : option state :=
  match steps with
  | [] => Some s
  | (x, b) :: r =>
      match find (fun x' => obs_eqb (obs_of kinds (stepf fixed s x')) b) (cands kinds x) with
      | Some x' => agree_state fixed kinds (fst (stepf fixed s x')) r
      | None => None
      end
  end.

(** Every element of a list together with the others. *)
Fixpoint picks {A} (l : list A) : list (A * list A) :=
  match l with
  | [] => []
  | x :: r => (x, r) :: map (fun p => (fst p, x :: snd p)) (picks r)
  end.

Definition call_eqb (o : output) (b : cobs) : bool :=
  err_eqb (o_err o) (c_err b) && list_eqb event_eqb (o_events o) (c_events b) &&
  option_eqb oset_eqb (o_res o) (c_res b).

Fixpoint lin_search (fuel : nat) (fixed : bool) (kinds : list gvk) (final : state -> bool)
         (s : state) (todo : list (op * cobs)) : bool :=
  match todo with
  | [] => final s
  | _ =>
      match fuel with
      | O => false
      | S f =>
          existsb (fun p =>
            existsb (fun x' =>
              let q := stepf fixed s x' in
              call_eqb (snd q) (snd (fst p)) && lin_search f fixed kinds final (fst q) (snd p))
              (cands kinds (fst (fst p))))
            (picks todo)
      end
  end.

Definition final_eqb (kinds : list gvk) (snap : list (gvk * option (list owner)))
           (informers : list (gvk * option (list handler))) (s : state) : bool :=
  list_eqb (fun p q => (fst p =? fst q) && oset_eqb (snd p) (snd q)) (snap_of kinds s) snap &&
  list_eqb (fun p q => (fst p =? fst q) && option_eqb (list_eqb N.eqb) (snd p) (snd q))
           (map (fun g => (g, lookup g (infs s))) kinds) informers.

Definition lin_agree (fixed : bool) (c : lin_case) : bool :=
  let '(handlers, kinds, pre, calls, snap, informers) := c in
  match agree_state fixed kinds (init handlers) pre with
  | None => false
  | Some s => lin_search (length calls) fixed kinds (final_eqb kinds snap informers) s calls
  end.

(** The property on the quiescent state the implementation ended in (no informerMap.Delete failure is
    scripted in these cases): an informer runs for a kind iff some owner references it, and a running
    informer has every registered handler. *)
Definition lin_monitor (c : lin_case) : bool :=
  let '(handlers, kinds, pre, calls, snap, informers) := c in
  forallb (fun g =>
    let own := match lookup g snap with Some (Some l) => l | _ => [] end in
    match lookup g informers with
    | Some (Some att) => negb (nilb own) && subset handlers att
    | _ => nilb own
    end) kinds.

Definition judge_lin (c : lin_case) : bool * bool * bool :=
  (lin_agree false c, lin_agree true c, lin_monitor c).

(** * Soundness of the monitor *)
Lemma subset_incl a b : subset a b = true <-> incl a b.
Proof.
  unfold subset, incl. rewrite forallb_forall. split; intros H x Hx; [apply mem_In|apply mem_In]; auto.
Qed.

Lemma nodupb_NoDup l : NoDup l -> nodupb l = true.
Proof.
  induction 1 as [|x l Hx _ IH]; cbn; [reflexivity|].
  apply mem_false in Hx. now rewrite Hx, IH.
Qed.

Lemma lookup_snap_of g kinds s : In g kinds -> lookup g (snap_of kinds s) = Some (lookup g (refs s)).
Proof.
  unfold snap_of. induction kinds as [|k kinds IH]; cbn; [intros []|].
  intros [->|H].
  - now rewrite N.eqb_refl.
  - destruct (g =? k) eqn:E; [apply N.eqb_eq in E; now subst|now apply IH].
Qed.

Lemma stuck_gev g evs : forall st, fold_left (stuck_event g) evs st = fold_left (stuck_event g) (gev g evs) st.
Proof.
  unfold gev. induction evs as [|e evs IH]; intros st; [reflexivity|]. cbn.
  destruct (ev_gvk e =? g) eqn:E; cbn; [apply IH|].
  rewrite <- IH. f_equal. destruct e as [g0 b|g0|g0 h b|g0 b|g0]; cbn in *; rewrite ?E; try reflexivity.
  now destruct b.
Qed.

(** What the model's state and the monitor's state for kind [g] have in common. *)
Record J (g : gvk) (s : state) (m : mstate) : Prop := {
  j_must : incl (m_must m) (owners s g);
  j_may : incl (owners s g) (m_may m);
  j_inf : m_inf m = lookup g (infs s);
  j_stuck : lookup g (refs s) = Some [] -> m_stuck m = true
}.

Definition owners_of (v : kview) : list owner := match fst v with Some l => l | None => [] end.

Lemma owners_view s g : owners s g = owners_of (view s g).
Proof. reflexivity. Qed.

(** Owner set of a kind after a step, by result. *)
Lemma kstep_owners fixed g handlers v x v' e evs :
  kstep_rel fixed g handlers v x v' e evs ->
  match x with
  | Watch o g0 _ =>
      if g0 =? g then
        (e = ErrNone -> owners_of v' = add o (owners_of v)) /\
        (e <> ErrNone -> (owners_of v' = [] /\ owners_of v = []) \/ owners_of v' = add o (owners_of v))
      else owners_of v' = owners_of v
  | Free o _ _ =>
      (e = ErrNone -> owners_of v' = rem o (owners_of v)) /\
      (owners_of v' = owners_of v \/ owners_of v' = rem o (owners_of v))
  | _ => owners_of v' = owners_of v
  end.
Proof.
  assert (Hread : forall v v' e evs, k_read g v = (v', e, evs) -> owners_of v' = owners_of v).
  { intros [[l|] i] w e0 evs0; unfold k_read.
    - destruct (k_get g GetOk i) as [[i1 ev1] got]. intros H; injection H as <- <- <-. reflexivity.
    - intros H; injection H as <- <- <-. reflexivity. }
  destruct x as [o g0 out|o out order|g0|g0|g0]; cbn [kstep_rel].
  - destruct (g0 =? g); [|intros [-> _]; reflexivity].
    destruct v as [[l|] i]; unfold owners_of; cbn [fst].
    + destruct fixed; cbn; intros H; injection H as <- <- <-; cbn; split; auto.
    + destruct fixed; cbn -[k_get k_handle k_delete].
      * destruct (k_get g (get_mode_of out) i) as [[i1 ev1] got].
        destruct got; cbn [negb].
        -- destruct (k_handle g out handlers i1) as [[i2 ev2] added].
           destruct added; cbn [negb].
           ++ intros H; injection H as <- <- <-; cbn. split; auto.
           ++ destruct (k_delete g false i2) as [[i2' evd] rd].
              intros H; injection H as <- <- <-; cbn. split; [discriminate|auto].
        -- destruct (k_delete g false i1) as [[i1' evd] rd].
           intros H; injection H as <- <- <-; cbn. split; [discriminate|auto].
      * destruct (k_get g (get_mode_of out) i) as [[i1 ev1] got].
        destruct got; cbn [negb].
        -- destruct (k_handle g out handlers i1) as [[i2 ev2] added].
           destruct added; cbn [negb]; intros H; injection H as <- <- <-; cbn; split; auto.
        -- intros H; injection H as <- <- <-; cbn. split; auto.
  - intros [(-> & -> & _)|(r & Hk & Hr)]; [split; [discriminate|auto]|].
    assert (Hc : owners_of v' = owners_of v \/ owners_of v' = rem o (owners_of v)).
    { unfold k_free in Hk. destruct v as [[l|] i]; unfold owners_of; cbn [fst].
      - destruct (mem o l).
        + destruct (nilb (rem o l)) eqn:En.
          * apply nilb_true in En. destruct (k_delete g _ i) as [[i1 ev1] deleted].
            destruct deleted; cbn [negb] in Hk; injection Hk as <- <- <-; cbn; auto.
          * injection Hk as <- <- <-; cbn. auto.
        + injection Hk as <- <- <-. auto.
      - injection Hk as <- <- <-. auto. }
    split; [|assumption]. intros ->.
    destruct r; [|specialize (Hr eq_refl); discriminate].
    unfold k_free in Hk. destruct v as [[l|] i]; unfold owners_of; cbn [fst].
    + destruct (mem o l) eqn:Em.
      * destruct (nilb (rem o l)) eqn:En.
        -- apply nilb_true in En. destruct (k_delete g _ i) as [[i1 ev1] deleted].
           destruct deleted; cbn [negb] in Hk; injection Hk as <- <-; [now cbn|discriminate].
        -- injection Hk as <- <-. reflexivity.
      * apply mem_false in Em. injection Hk as <- <-. cbn. now rewrite (rem_notin _ _ Em).
    + injection Hk as <- <-. reflexivity.
  - destruct (g0 =? g); [apply Hread|intros [-> _]; reflexivity].
  - destruct (g0 =? g); [apply Hread|intros [-> _]; reflexivity].
  - intros [-> _]; reflexivity.
Qed.

(** A reference entry without owner exists only after a Delete that failed. *)
Lemma kstep_stuck fixed g handlers v x v' e evs st :
  kstep_rel fixed g handlers v x v' e evs ->
  (fst v = Some [] -> st = true) ->
  fst v' = Some [] -> fold_left (stuck_event g) evs st = true.
Proof.
  assert (Hread : forall v v' e evs, k_read g v = (v', e, evs) ->
            fst v' = fst v /\ fold_left (stuck_event g) evs st = st).
  { intros [[l|] i] w e0 evs0; unfold k_read.
    - unfold k_get. destruct i; intros H; injection H as <- <- <-; cbn; auto.
    - intros H; injection H as <- <- <-. auto. }
  intros Hk Hst. destruct x as [o g0 out|o out order|g0|g0|g0]; cbn [kstep_rel] in Hk.
  - destruct (g0 =? g); [|destruct Hk as [-> ->]; exact Hst].
    intros Hv. exfalso. destruct v as [[l|] i].
    + destruct fixed; cbn in Hk; injection Hk as <- _ _; cbn in Hv; injection Hv as Hv;
        now apply add_not_nil in Hv.
    + destruct fixed; cbn -[k_get k_handle k_delete] in Hk.
      * destruct (k_get g (get_mode_of out) i) as [[i1 ev1] got].
        destruct got; cbn [negb] in Hk.
        -- destruct (k_handle g out handlers i1) as [[i2 ev2] added].
           destruct added; cbn [negb] in Hk.
           ++ injection Hk as <- _ _. discriminate.
           ++ destruct (k_delete g false i2) as [[i2' evd] rd]. injection Hk as <- _ _. discriminate.
        -- destruct (k_delete g false i1) as [[i1' evd] rd]. injection Hk as <- _ _. discriminate.
      * destruct (k_get g (get_mode_of out) i) as [[i1 ev1] got].
        destruct got; cbn [negb] in Hk.
        -- destruct (k_handle g out handlers i1) as [[i2 ev2] added].
           destruct added; cbn [negb] in Hk; injection Hk as <- _ _; discriminate.
        -- injection Hk as <- _ _. discriminate.
  - destruct Hk as [(_ & -> & ->)|(r & Hk & _)]; [exact Hst|].
    unfold k_free in Hk. destruct v as [[l|] i]; cbn [fst] in *.
    + destruct (mem o l).
      * destruct (nilb (rem o l)) eqn:En.
        -- unfold k_delete in Hk. destruct out; cbn in Hk; injection Hk as <- <- _; cbn;
             try discriminate. intros _. now rewrite N.eqb_refl.
        -- injection Hk as <- <- _. cbn. intros Hv. injection Hv as Hv. apply nilb_false in En. contradiction.
      * injection Hk as <- <- _. exact Hst.
    + injection Hk as <- <- _. exact Hst.
  - destruct (g0 =? g); [|destruct Hk as [-> ->]; exact Hst].
    destruct (Hread _ _ _ _ Hk) as [-> ->]. exact Hst.
  - destruct (g0 =? g); [|destruct Hk as [-> ->]; exact Hst].
    destruct (Hread _ _ _ _ Hk) as [-> ->]. exact Hst.
  - destruct Hk as [-> ->]. exact Hst.
Qed.

Lemma err_eqb_spec a b : err_eqb a b = true <-> a = b.
Proof. destruct a, b; cbn; split; congruence. Qed.

Lemma incl_add_add o a b : incl a b -> incl (add o a) (add o b).
Proof. intros H x. rewrite !In_add. intros [->|Hx]; auto. Qed.
Lemma incl_rem_rem o a b : incl a b -> incl (rem o a) (rem o b).
Proof. intros H x. rewrite !In_rem. intros [Hx Hn]; auto. Qed.
Lemma incl_rem o a : incl (rem o a) a.
Proof. intros x. rewrite In_rem. tauto. Qed.
Lemma incl_add o a : incl a (add o a).
Proof. intros x Hx. apply In_add. auto. Qed.
Lemma incl_nil_inv {A} (l : list A) : incl l [] -> l = [].
Proof. destruct l as [|a l]; [reflexivity|]. intros H. destruct (H a (or_introl eq_refl)). Qed.

(** One step: the monitor accepts what the model does, and [J] is kept. *)
Lemma mon_step_sound fixed g kinds s m x :
  In g kinds ->
  (fixed = true \/ op_no_start_failure x = true) ->
  J g s m -> EIk (hs s) (view s g) -> NDk (view s g) ->
  let p := stepf fixed s x in
  let r := mon_step g (hs s) m x (obs_of kinds p) in
  v_all (snd r) = true /\ J g (fst p) (fst r) /\ EIk (hs (fst p)) (view (fst p) g) /\ NDk (view (fst p) g).
Proof.
  intros Hg Hok HJ HEI HND p r.
  destruct (stepf fixed s x) as [s' o'] eqn:Estep. subst p. cbn [fst snd] in *.
  destruct (step_kind _ _ _ _ _ Estep) as [Hhs Hk]. specialize (Hk g).
  assert (HEI' : EIk (hs s') (view s' g)) by (rewrite Hhs; eapply EIk_step; eassumption).
  assert (HND' : NDk (view s' g)) by (eapply NDk_step; eassumption).
  pose proof (kstep_owners _ _ _ _ _ _ _ _ Hk) as Hown.
  pose proof (kstep_replay _ _ _ _ _ _ _ _ Hk) as Hrep.
  destruct HJ as [Jmust Jmay Jinf Jstuck].
  pose proof (kstep_stuck _ _ _ _ _ _ _ _ (m_stuck m) Hk Jstuck) as Hstk.
  rewrite <- !owners_view in Hown. cbn [view snd fst] in Hrep, Hstk.
  (* the new monitor state *)
  remember (err_eqb (o_err o') ErrNone) as succ eqn:Esucc.
  set (must' := match x with
                | Watch o g0 _ => if (g0 =? g) && succ then add o (m_must m) else m_must m
                | Free o _ _ => rem o (m_must m)
                | _ => m_must m
                end).
  set (may' := match x with
               | Watch o g0 _ => if g0 =? g then add o (m_may m) else m_may m
               | Free o _ _ => if succ then rem o (m_may m) else m_may m
               | _ => m_may m
               end).
  assert (Hsucc : succ = true <-> o_err o' = ErrNone) by (rewrite Esucc; apply err_eqb_spec).
  assert (Jmust' : incl must' (owners s' g)).
  { subst must'. destruct x as [o g0 out|o out order|g0|g0|g0]; try (rewrite Hown; assumption).
    - destruct (g0 =? g); cbn [andb]; [|rewrite Hown; assumption].
      destruct Hown as [Hs Hf]. destruct succ.
      + rewrite (Hs (proj1 Hsucc eq_refl)). now apply incl_add_add.
      + assert (Hne : o_err o' <> ErrNone) by (intros E; apply Hsucc in E; discriminate).
        destruct (Hf Hne) as [E|E]; [|rewrite E].
        * (* the reference was not recorded: nobody was recorded before either *)
          destruct E as [E E0]. rewrite E. now rewrite <- E0.
        * eapply incl_tran; [exact Jmust|apply incl_add].
    - destruct Hown as [_ [E|E]]; rewrite E.
      + eapply incl_tran; [apply incl_rem|exact Jmust].
      + now apply incl_rem_rem. }
  assert (Jmay' : incl (owners s' g) may').
  { subst may'. destruct x as [o g0 out|o out order|g0|g0|g0]; try (rewrite Hown; assumption).
    - destruct (g0 =? g); [|rewrite Hown; assumption].
      destruct Hown as [Hs Hf]. destruct (o_err o') eqn:Ee.
      1: rewrite (Hs eq_refl); now apply incl_add_add.
      all: destruct Hf as [[E _]|E]; [discriminate| |]; rewrite E;
        [intros ? []|now apply incl_add_add].
    - destruct Hown as [Hs Hf]. destruct succ.
      + rewrite (Hs (proj1 Hsucc eq_refl)). now apply incl_rem_rem.
      + destruct Hf as [E|E]; rewrite E; [assumption|].
        eapply incl_tran; [apply incl_rem|assumption]. }
  assert (Jinf' : replay g (o_events o') (m_inf m) = lookup g (infs s')).
  { rewrite replay_gev, Jinf. exact Hrep. }
  assert (Jstuck' : lookup g (refs s') = Some [] ->
                    fold_left (stuck_event g) (o_events o') (m_stuck m) = true).
  { rewrite stuck_gev. exact Hstk. }
  assert (HJ' : J g s' (MState must' may' (replay g (o_events o') (m_inf m))
                              (fold_left (stuck_event g) (o_events o') (m_stuck m)))).
  { constructor; assumption. }
  (* no reference entry when nobody may own the kind and it is not stuck *)
  assert (Hnoentry : forall s0 may0 st0, incl (owners s0 g) may0 ->
            (lookup g (refs s0) = Some [] -> st0 = true) ->
            nilb may0 = true -> st0 = false -> lookup g (refs s0) = None).
  { intros s0 may0 st0 Hi Hs Hn Hst. apply nilb_true in Hn. subst may0.
    apply incl_nil_inv in Hi. unfold owners in Hi.
    destruct (lookup g (refs s0)) as [l|]; [|reflexivity]. subst l.
    rewrite (Hs eq_refl) in Hst. discriminate. }
  clear Hsucc. subst succ.
  split; [|split; [exact HJ'|split; assumption]].
  unfold r, mon_step. cbn [snd obs_of b_err b_events b_res b_snap fst].
  fold must'. fold may'.
  rewrite (lookup_snap_of _ _ _ Hg).
  assert (Hsn : match lookup g (refs s') with Some l => l | None => [] end = owners s' g) by reflexivity.
  rewrite Hsn. unfold v_all. cbn [v_refs v_started v_stopped v_read].
  assert (Hbetween : between must' may' (owners s' g) = true).
  { unfold between. rewrite !andb_true_iff. repeat split.
    - now apply subset_incl.
    - now apply subset_incl.
    - apply nodupb_NoDup. unfold owners. unfold NDk, view in HND'. cbn [fst] in HND'.
      destruct (lookup g (refs s')) as [l|]; [now apply HND'|constructor]. }
  rewrite !andb_true_iff. repeat split.
  - exact Hbetween.
  - (* OwnersForGKV *)
    destruct x as [o g0 out|o out order|g0|g0|g0]; try reflexivity.
    destruct (g0 =? g) eqn:Eg; [|reflexivity]. apply N.eqb_eq in Eg. subst g0.
    cbn in Estep. unfold owners_for in Estep. injection Estep as <- <-. cbn [o_res].
    exact Hbetween.
  - (* started *)
    destruct (nilb must') eqn:En; [reflexivity|]. cbn [orb]. apply nilb_false in En.
    assert (Hentry : lookup g (refs s') <> None).
    { intros E. apply En. apply incl_nil_inv. unfold owners in Jmust'. now rewrite E in Jmust'. }
    destruct HEI' as [Hiff Hatt]. unfold view in Hiff, Hatt. cbn [fst snd] in Hiff, Hatt.
    rewrite Jinf'. destruct (lookup g (infs s')) as [att|] eqn:Ei.
    + apply subset_incl. rewrite <- Hhs. now apply Hatt.
    + exfalso. apply (proj1 Hiff) in Hentry. now apply Hentry.
  - (* stopped *)
    destruct (nilb may') eqn:En; [|reflexivity]. cbn [negb orb].
    destruct (fold_left (stuck_event g) (o_events o') (m_stuck m)) eqn:Est; [reflexivity|]. cbn [orb].
    pose proof (Hnoentry s' may' _ Jmay' Jstuck' En eq_refl) as Hnone.
    destruct HEI' as [Hiff _]. unfold view in Hiff. cbn [fst snd] in Hiff.
    rewrite Jinf'. destruct (lookup g (infs s')) as [att|] eqn:Ei; [|reflexivity].
    exfalso. apply (proj2 Hiff); [discriminate|assumption].
  - (* read *)
    assert (Hr : forall g0, stepf fixed s (Get g0) = (s', o') \/ stepf fixed s (List g0) = (s', o') ->
              (if (g0 =? g) && nilb (m_may m) && negb (m_stuck m)
               then err_eqb (o_err o') ErrNotStarted && nilb (o_events o') else true) = true).
    { intros g0 Hs. destruct (g0 =? g) eqn:Eg; [|reflexivity]. apply N.eqb_eq in Eg. subst g0.
      destruct (nilb (m_may m)) eqn:En; [|reflexivity].
      destruct (m_stuck m) eqn:Est; [reflexivity|]. cbn [andb negb].
      pose proof (Hnoentry s (m_may m) _ Jmay Jstuck En eq_refl) as Hnone.
      assert (Hread : read s g = (s', o')) by (destruct Hs as [Hs|Hs]; exact Hs).
      unfold read in Hread. rewrite Hnone in Hread. injection Hread as <- <-. reflexivity. }
    destruct x as [o g0 out|o out order|g0|g0|g0]; try reflexivity; apply Hr; auto.
Qed.

Lemma v_all_and a b : v_all (v_and a b) = v_all a && v_all b.
Proof. destruct a as [[] [] [] []], b as [[] [] [] []]; reflexivity. Qed.

Lemma mon_run_sound fixed g kinds ops : forall s m,
  In g kinds ->
  (fixed = true \/ no_start_failures ops = true) ->
  J g s m -> EIk (hs s) (view s g) -> NDk (view s g) ->
  v_all (mon_run g (hs s) m (steps_of fixed kinds s ops)) = true.
Proof.
  induction ops as [|x ops IH]; intros s m Hg Hok HJ HEI HND; [reflexivity|].
  cbn [steps_of mon_run].
  assert (Hx : fixed = true \/ op_no_start_failure x = true).
  { destruct Hok as [?|Hok]; [now left|right]. cbn in Hok. now apply andb_true_iff in Hok. }
  assert (Hops : fixed = true \/ no_start_failures ops = true).
  { destruct Hok as [?|Hok]; [now left|right]. cbn in Hok. now apply andb_true_iff in Hok. }
  destruct (mon_step_sound fixed g kinds s m x Hg Hx HJ HEI HND) as (Hv & HJ' & HEI' & HND').
  destruct (mon_step g (hs s) m x (obs_of kinds (stepf fixed s x))) as [m' v] eqn:Em.
  cbn [fst snd] in *. rewrite v_all_and, Hv. cbn [andb].
  assert (Hhs : hs (fst (stepf fixed s x)) = hs s).
  { destruct (stepf fixed s x) as [s' o'] eqn:E. now destruct (step_kind _ _ _ _ _ E). }
  rewrite <- Hhs. now apply IH.
Qed.

Lemma J_init g handlers : J g (init handlers) m_init.
Proof. constructor; cbn; try discriminate; try reflexivity; intros ? []. Qed.

Lemma monitor_verdict_sound fixed handlers kinds ops :
  (fixed = true \/ no_start_failures ops = true) ->
  monitor (handlers, kinds, steps_of fixed kinds (init handlers) ops) = true.
Proof.
  intros Hok. unfold monitor, monitor_verdict.
  assert (H : forall ks, incl ks kinds ->
     v_all (fold_right (fun g v => v_and (mon_run g handlers m_init
              (steps_of fixed kinds (init handlers) ops)) v) v_true ks) = true).
  { induction ks as [|g ks IH]; intros Hi; [reflexivity|]. cbn [fold_right].
    rewrite v_all_and, IH by (intros y Hy; apply Hi; now right). rewrite andb_true_r.
    apply (mon_run_sound fixed g kinds ops (init handlers) m_init).
    - apply Hi. now left.
    - exact Hok.
    - apply J_init.
    - split; [cbn; tauto|discriminate].
    - intros l. discriminate. }
  apply H, incl_refl.
Qed.

(** The monitor accepts every behaviour of the model of the code as it is on sequences without
    start-up failures (failing Deletes allowed), ... *)
Theorem monitor_sound handlers kinds ops :
  no_start_failures ops = true ->
  monitor (handlers, kinds, steps_of false kinds (init handlers) ops) = true.
Proof. intros H. apply monitor_verdict_sound. now right. Qed.

(** ... and every behaviour of the repair candidate, on all sequences. *)
Theorem monitor_sound_fixed handlers kinds ops :
  monitor (handlers, kinds, steps_of true kinds (init handlers) ops) = true.
Proof. apply monitor_verdict_sound. now left. Qed.

(** The monitor is not vacuous: it rejects what the model of the code as it is does on the F-C12
    witness, at the second Watch (clause "started"). *)
Example monitor_rejects_F_C12 :
  let ops := [Watch 0 0 informer_get_fails; Watch 0 0 ok; Get 0] in
  judge ([0; 1], [0; 1], steps_of false [0; 1] (init [0; 1]) ops) = (true, false, true, false, true, true).
Proof. vm_compute. reflexivity. Qed.

(** * The linearizability judge accepts the model

    Running the calls atomically in the order they are listed (and, by [lin_search_pick], in any other
    order) is accepted, so [lin_agree] rejects only what no serial execution of the model produces. *)
Definition cobs_of (o : output) : cobs := CObs (o_err o) (o_events o) (o_res o).

Fixpoint calls_of (fixed : bool) (s : state) (ops : list op) : list (op * cobs) * state :=
  match ops with
  | [] => ([], s)
  | x :: r =>
      let q := stepf fixed s x in
      let p := calls_of fixed (fst q) r in
      ((x, cobs_of (snd q)) :: fst p, snd p)
  end.

Lemma err_eqb_refl e : err_eqb e e = true.
Proof. now destruct e. Qed.

Lemma event_eqb_refl e : event_eqb e e = true.
Proof. destruct e as [g b|g|g h b|g b|g]; cbn; rewrite ?N.eqb_refl, ?eqb_reflx; reflexivity. Qed.

Lemma list_eqb_refl {A} (eqb : A -> A -> bool) (H : forall x, eqb x x = true) l : list_eqb eqb l l = true.
Proof. induction l as [|x l IH]; cbn; [reflexivity|]. now rewrite H, IH. Qed.

Lemma subset_refl l : subset l l = true.
Proof. apply subset_incl, incl_refl. Qed.

Lemma oset_eqb_refl o : oset_eqb o o = true.
Proof.
  destruct o as [l|]; cbn; [|reflexivity]. unfold set_eqb. now rewrite subset_refl, Nat.eqb_refl.
Qed.

Lemma call_eqb_refl o : call_eqb o (cobs_of o) = true.
Proof.
  unfold call_eqb, cobs_of. cbn. rewrite err_eqb_refl, (list_eqb_refl _ event_eqb_refl). cbn.
  destruct (o_res o) as [r|]; cbn; [apply oset_eqb_refl|reflexivity].
Qed.

Lemma lin_search_pick fuel fixed kinds final s todo x b rest x' :
  In ((x, b), rest) (picks todo) -> In x' (cands kinds x) ->
  call_eqb (snd (stepf fixed s x')) b = true ->
  lin_search fuel fixed kinds final (fst (stepf fixed s x')) rest = true ->
  lin_search (S fuel) fixed kinds final s todo = true.
Proof.
  intros Hp Hc He Hr. destruct todo as [|t todo]; [destruct Hp|].
  cbn [lin_search]. apply existsb_exists. exists ((x, b), rest). split; [exact Hp|].
  apply existsb_exists. exists x'. split; [exact Hc|]. cbn [fst snd]. now rewrite He, Hr.
Qed.

Theorem lin_search_accepts_model fixed kinds final ops : forall s,
  Forall (fun x => In x (cands kinds x)) ops ->
  final (snd (calls_of fixed s ops)) = true ->
  lin_search (length ops) fixed kinds final s (fst (calls_of fixed s ops)) = true.
Proof.
  induction ops as [|x ops IH]; intros s Hc Hf; [exact Hf|].
  inversion Hc as [|? ? Hx Hops]; subst. cbn [calls_of length fst snd] in *.
  eapply lin_search_pick.
  - cbn [picks]. left. reflexivity.
  - exact Hx.
  - apply call_eqb_refl.
  - now apply IH.
Qed.

(** Non-vacuity.  Prefix: owner 0 watches kind 0.  Get 0 overlaps Free 0.  Both serial outcomes are
    accepted; the outcome "Free stopped the informer while Get was between its check and
    informerMap.Get, Get then started a new one" is not, and breaks the property. *)
Example lin_accepts_get_then_free :
  let pre := steps_of true [0; 1] (init [0; 1]) [Watch 0 0 ok] in
  judge_lin ([0; 1], [0; 1], pre,
             [(Get 0, CObs ErrNone [EGet 0 true] None);
              (Free 0 ok [], CObs ErrNone [EDelete 0 true; EStop 0] None)],
             [(0, None); (1, None)], [(0, None); (1, None)]) = (true, true, true).
Proof. vm_compute. reflexivity. Qed.

Example lin_accepts_free_then_get :
  let pre := steps_of true [0; 1] (init [0; 1]) [Watch 0 0 ok] in
  judge_lin ([0; 1], [0; 1], pre,
             [(Get 0, CObs ErrNotStarted [] None);
              (Free 0 ok [], CObs ErrNone [EDelete 0 true; EStop 0] None)],
             [(0, None); (1, None)], [(0, None); (1, None)]) = (true, true, true).
Proof. vm_compute. reflexivity. Qed.

Example lin_rejects_get_free_race :
  let pre := steps_of true [0; 1] (init [0; 1]) [Watch 0 0 ok] in
  judge_lin ([0; 1], [0; 1], pre,
             [(Get 0, CObs ErrNone [EGet 0 true; EStart 0] None);
              (Free 0 ok [], CObs ErrNone [EDelete 0 true; EStop 0] None)],
             [(0, None); (1, None)], [(0, Some []); (1, None)]) = (false, false, false).
Proof. vm_compute. reflexivity. Qed.

(** * The real InformerMap (harness mode cachereal)

    The real Cache on top of the real InformerMap and real client-go informers; only the API server is a
    fake whose LIST can hang or fail and which serves a fixed set of objects per kind.  The informer map's
    calls are not visible here; observable per operation, once things settled: the error class,
    OwnersForGKV of every kind, the number of open WATCH streams per kind (= running informers past their
    initial LIST), per kind which registered handlers received an event sent down its streams, and the
    results of a battery of Get/List calls through the cache; per run: the most streams of a kind ever
    open at once.  A Watch during which LIST hangs or fails past the call's deadline is the model's
    [informer_sync_fails].  Objects are (namespace, name) pairs of numbers, namespace 0 = none. *)
Record robs := RObs {
  r_err : err;
  r_snap : list (gvk * option (list owner));
  r_streams : list (gvk * N);
  r_delivered : list (gvk * list handler);
  r_gets : list (gvk * N * N * option (option key));   (* kind, namespace, name |-> result of Cache.Get *)
  r_lists : list (gvk * N * option (list key))          (* kind, namespace (0: all) |-> result of Cache.List *)
}.

(** handlers, kinds, the scope the API declares per kind (true = namespaced), the objects the API server
    serves per kind, the operations with what was observed, peak streams per kind *)
Definition real_case := (list handler * list gvk * list (gvk * bool) * list (gvk * list key) *
                         list (op * robs) * list (gvk * N))%type.

Definition scope_of (tbl : list (gvk * bool)) (g : gvk) : bool :=
  match lookup g tbl with Some b => b | None => true end.
Definition store_of (tbl : list (gvk * list key)) (g : gvk) : list key :=
  match lookup g tbl with Some l => l | None => [] end.

Definition get_res_eqb := option_eqb (option_eqb key_eqb).
Definition list_res_eqb := option_eqb (list_eqb key_eqb).

Definition robs_of (kinds : list gvk) (scope : gvk -> bool) (store : gvk -> list key)
           (gets : list (gvk * N * N)) (lists : list (gvk * N)) (p : state * output) : robs :=
  RObs (o_err (snd p)) (snap_of kinds (fst p))
       (map (fun g => (g, if runningb (fst p) g then 1 else 0)) kinds)
       (map (fun g => (g, attached (fst p) g)) kinds)
       (map (fun q => let '(g, ns, n) := q in (g, ns, n, cache_get scope store (fst p) g ns n)) gets)
       (map (fun q => let '(g, ns) := q in (g, ns, cache_list store (fst p) g ns)) lists).

Definition robs_eqb (a b : robs) : bool :=
  err_eqb (r_err a) (r_err b) &&
  list_eqb (fun p q => (fst p =? fst q) && oset_eqb (snd p) (snd q)) (r_snap a) (r_snap b) &&
  list_eqb (fun p q => (fst p =? fst q) && (snd p =? snd q)) (r_streams a) (r_streams b) &&
  list_eqb (fun p q => (fst p =? fst q) && set_eqb (snd p) (snd q)) (r_delivered a) (r_delivered b) &&
  list_eqb (fun p q => let '(g, ns, n, r) := p in let '(g', ns', n', r') := q in
                       (g =? g') && (ns =? ns') && (n =? n') && get_res_eqb r r') (r_gets a) (r_gets b) &&
  list_eqb (fun p q => let '(g, ns, r) := p in let '(g', ns', r') := q in
                       (g =? g') && (ns =? ns') && list_res_eqb r r') (r_lists a) (r_lists b).

(** the reads the harness made at a step, without their results *)
Definition asked_gets (b : robs) : list (gvk * N * N) := map (fun q => let '(g, ns, n, _) := q in (g, ns, n)) (r_gets b).
Definition asked_lists (b : robs) : list (gvk * N) := map (fun q => let '(g, ns, _) := q in (g, ns)) (r_lists b).

Fixpoint agree_real_steps (fixed : bool) (kinds : list gvk) (scope : gvk -> bool) (store : gvk -> list key)
         (s : state) (steps : list (op * robs)) : bool :=
  match steps with
  | [] => true
  | (x, b) :: r =>
      match find (fun x' => robs_eqb (robs_of kinds scope store (asked_gets b) (asked_lists b) (stepf fixed s x')) b)
                 (cands kinds x) with
      | Some x' => agree_real_steps fixed kinds scope store (fst (stepf fixed s x')) r
      | None => false
      end
  end.

Definition agree_real (fixed : bool) (c : real_case) : bool :=
  let '(handlers, kinds, scope, store, steps, peaks) := c in
  agree_real_steps fixed kinds (scope_of scope) (store_of store) (init handlers) steps.

Definition owners_in (b : robs) (g : gvk) : list owner :=
  match lookup g (r_snap b) with Some (Some l) => l | _ => [] end.

(** The property on what was observed: after every operation, for every kind, exactly one open WATCH
    stream if some owner references the kind and none otherwise (nothing scripts informerMap.Delete to
    fail here), ... *)
Definition real_streams_ok (kinds : list gvk) (b : robs) : bool :=
  forallb (fun g =>
    match lookup g (r_streams b) with
    | Some n => n =? (if nilb (owners_in b g) then 0 else 1)
    | None => false
    end) kinds.

(** ... every registered handler receives the events of a kind some owner references, ... *)
Definition real_delivered_ok (handlers : list handler) (kinds : list gvk) (b : robs) : bool :=
  forallb (fun g =>
    nilb (owners_in b g) || match lookup g (r_delivered b) with Some d => subset handlers d | None => false end) kinds.

(** ... never two streams of one kind at the same time, ... *)
Definition real_peaks_ok (kinds : list gvk) (peaks : list (gvk * N)) : bool :=
  forallb (fun g => match lookup g peaks with Some n => n <=? 1 | None => false end) kinds.

(** ... and reads: a Get of a kind some owner references returns the object the API server serves under
    the scope-normalised key (namespace ignored for cluster-scoped kinds) iff there is one, a List returns
    the served objects (of the namespace, if one is given); reads of a kind nobody references fail. *)
Definition real_reads_ok (scope : gvk -> bool) (store : gvk -> list key) (b : robs) : bool :=
  forallb (fun q => let '(g, ns, n, r) := q in
     if nilb (owners_in b g) then get_res_eqb r None
     else let k := store_key scope g ns n in
          get_res_eqb r (Some (if existsb (key_eqb k) (store g) then Some k else None))) (r_gets b) &&
  forallb (fun q => let '(g, ns, r) := q in
     if nilb (owners_in b g) then list_res_eqb r None
     else list_res_eqb r (Some (if ns =? 0 then store g else filter (fun k => fst k =? ns) (store g)))) (r_lists b).

Definition judge_real (c : real_case) : bool * bool * bool * bool * bool * bool :=
  let '(handlers, kinds, scope, store, steps, peaks) := c in
  (agree_real false c, agree_real true c,
   forallb (fun p => real_streams_ok kinds (snd p)) steps,
   forallb (fun p => real_delivered_ok handlers kinds (snd p)) steps,
   real_peaks_ok kinds peaks,
   forallb (fun p => real_reads_ok (scope_of scope) (store_of store) (snd p)) steps).

(** What the repaired model predicts passes these checks, whatever start-up failures occur and whatever
    reads are asked at every step. *)
Fixpoint real_steps_of (fixed : bool) (kinds : list gvk) (scope : gvk -> bool) (store : gvk -> list key)
         (gets : list (gvk * N * N)) (lists : list (gvk * N)) (s : state) (ops : list op) : list (op * robs) :=
  match ops with
  | [] => []
  | x :: r => let p := stepf fixed s x in
              (x, robs_of kinds scope store gets lists p) :: real_steps_of fixed kinds scope store gets lists (fst p) r
  end.

Lemma lookup_map_kinds {V} (f : gvk -> V) g kinds :
  In g kinds -> lookup g (map (fun k => (k, f k)) kinds) = Some (f g).
Proof.
  induction kinds as [|k kinds IH]; cbn; [intros []|]. intros [->|H].
  - now rewrite N.eqb_refl.
  - destruct (g =? k) eqn:E; [apply N.eqb_eq in E; now subst|now apply IH].
Qed.

Lemma key_eqb_refl k : key_eqb k k = true.
Proof. now apply key_eqb_eq. Qed.

Lemma get_res_eqb_refl r : get_res_eqb r r = true.
Proof. destruct r as [[k|]|]; cbn; try reflexivity. apply key_eqb_refl. Qed.

Lemma list_res_eqb_refl r : list_res_eqb r r = true.
Proof. destruct r as [l|]; cbn; [|reflexivity]. apply list_eqb_refl, key_eqb_refl. Qed.

Lemma real_monitor_state handlers kinds scope store gets lists s o' :
  hs s = handlers ->
  Forall (fun q => In (fst (fst q)) kinds) gets -> Forall (fun q => In (fst q) kinds) lists ->
  (forall g, EIk (hs s) (view s g) /\ NEk (view s g)) ->
  let b := robs_of kinds scope store gets lists (s, o') in
  real_streams_ok kinds b = true /\ real_delivered_ok handlers kinds b = true /\ real_reads_ok scope store b = true.
Proof.
  intros Hhs Hgk Hlk Hinv b.
  assert (Hown : forall g, In g kinds -> owners_in b g = owners s g).
  { intros g Hg. unfold owners_in, b, robs_of. cbn [r_snap fst]. now rewrite (lookup_snap_of _ _ _ Hg). }
  assert (Hentry : forall g, nilb (owners s g) = negb (is_some (lookup g (refs s)))).
  { intros g. destruct (Hinv g) as [_ Hne]. unfold view, NEk, owners in *. cbn [fst] in *.
    destruct (lookup g (refs s)) as [[|o l]|]; cbn; try reflexivity. exfalso. now apply Hne. }
  split; [|split].
  - unfold real_streams_ok. apply forallb_forall. intros g Hg. rewrite (Hown g Hg), Hentry.
    unfold b, robs_of. cbn [r_streams fst].
    rewrite (lookup_map_kinds (fun k => if runningb s k then 1 else 0) g kinds Hg).
    destruct (Hinv g) as [[Hiff _] _]. unfold view, runningb in *. cbn [fst snd] in *.
    destruct (lookup g (refs s)) as [l|], (lookup g (infs s)) as [a|]; cbn; try reflexivity; exfalso.
    + apply (proj1 Hiff); [discriminate|reflexivity].
    + apply (proj2 Hiff); [discriminate|reflexivity].
  - unfold real_delivered_ok. apply forallb_forall. intros g Hg. rewrite (Hown g Hg), Hentry.
    unfold b, robs_of. cbn [r_delivered fst].
    rewrite (lookup_map_kinds (fun k => attached s k) g kinds Hg).
    destruct (Hinv g) as [[Hiff Hatt] _]. unfold view, attached in *. cbn [fst snd] in *.
    destruct (lookup g (refs s)) as [l|]; cbn; [|reflexivity].
    destruct (lookup g (infs s)) as [a|].
    + apply subset_incl. rewrite <- Hhs. now apply Hatt.
    + exfalso. apply (proj1 Hiff); [discriminate|reflexivity].
  - unfold real_reads_ok. rewrite andb_true_iff. split; apply forallb_forall.
    + intros q Hq. unfold b, robs_of in Hq. cbn [r_gets fst] in Hq.
      apply in_map_iff in Hq as ([[g ns] n] & <- & Hin).
      rewrite Forall_forall in Hgk. specialize (Hgk _ Hin). cbn in Hgk.
      rewrite (Hown g Hgk), Hentry. unfold cache_get.
      destruct (lookup g (refs s)); cbv [is_some negb]; apply get_res_eqb_refl.
    + intros q Hq. unfold b, robs_of in Hq. cbn [r_lists fst] in Hq.
      apply in_map_iff in Hq as ([g ns] & <- & Hin).
      rewrite Forall_forall in Hlk. specialize (Hlk _ Hin). cbn in Hlk.
      rewrite (Hown g Hlk), Hentry. unfold cache_list.
      destruct (lookup g (refs s)); cbv [is_some negb]; apply list_res_eqb_refl.
Qed.

Theorem monitor_real_sound_fixed handlers kinds scope store gets lists ops :
  no_delete_failures ops = true ->
  Forall (fun q => In (fst (fst q)) kinds) gets -> Forall (fun q => In (fst q) kinds) lists ->
  let steps := real_steps_of true kinds scope store gets lists (init handlers) ops in
  forallb (fun p => real_streams_ok kinds (snd p)) steps = true /\
  forallb (fun p => real_delivered_ok handlers kinds (snd p)) steps = true /\
  forallb (fun p => real_reads_ok scope store (snd p)) steps = true.
Proof.
  intros Hnd Hgk Hlk. cbv zeta.
  assert (H : forall ops s, no_delete_failures ops = true -> hs s = handlers ->
            (forall g, EIk (hs s) (view s g) /\ NEk (view s g)) ->
            let steps := real_steps_of true kinds scope store gets lists s ops in
            forallb (fun p => real_streams_ok kinds (snd p)) steps = true /\
            forallb (fun p => real_delivered_ok handlers kinds (snd p)) steps = true /\
            forallb (fun p => real_reads_ok scope store (snd p)) steps = true).
  { clear ops Hnd. induction ops as [|x ops IH]; intros s Hnd Hhs Hinv; [repeat split; reflexivity|].
    cbn in Hnd. apply andb_true_iff in Hnd as [Hx Hops]. cbv zeta. cbn [real_steps_of forallb snd].
    destruct (stepf true s x) as [s' o'] eqn:E. cbn [fst].
    destruct (step_kind _ _ _ _ _ E) as [Hhs' Hk].
    assert (Hinv' : forall g, EIk (hs s') (view s' g) /\ NEk (view s' g)).
    { intros g. destruct (Hinv g) as [He Hn]. rewrite Hhs'. split.
      - eapply EIk_step; [left; reflexivity|exact He|apply Hk].
      - eapply NEk_step; [exact Hx|exact Hn|apply Hk]. }
    assert (Hhs2 : hs s' = handlers) by congruence.
    destruct (real_monitor_state handlers kinds scope store gets lists s' o' Hhs2 Hgk Hlk Hinv') as (H1 & H2 & H3).
    destruct (IH s' Hops Hhs2 Hinv') as (H4 & H5 & H6).
    rewrite H1, H2, H3, H4, H5, H6. repeat split; reflexivity. }
  apply H; [exact Hnd|reflexivity|].
  intros g. split; [split; [cbn; tauto|discriminate]|discriminate].
Qed.

(** Non-vacuity: an informer that keeps running after its failed start was rolled back (two open
    streams after the retry, one left after the last owner is gone) is rejected, ... *)
Example judge_real_rejects_leak :
  judge_real ([0; 1], [0; 1], [], [],
    [(Watch 0 0 informer_sync_fails, RObs ErrInformerGet [(0, None); (1, None)] [(0, 1); (1, 0)] [(0, []); (1, [])] [] []);
     (Watch 0 0 ok, RObs ErrNone [(0, Some [0]); (1, None)] [(0, 2); (1, 0)] [(0, [0; 1]); (1, [])] [] []);
     (Free 0 ok [], RObs ErrNone [(0, None); (1, None)] [(0, 1); (1, 0)] [(0, []); (1, [])] [] [])],
    [(0, 2); (1, 0)]) = (false, false, false, true, false, true).
Proof. vm_compute. reflexivity. Qed.

(** ... a Get of a cluster-scoped kind (kind 4) that misses the served object because the caller's
    namespace was not blanked is rejected, ... *)
Example judge_real_rejects_scope :
  judge_real ([0; 1], [4], [(4, false)], [(4, [(0, 0); (0, 1)])],
    [(Watch 0 4 ok, RObs ErrNone [(4, Some [0])] [(4, 1)] [(4, [0; 1])]
                         [(4, 0, 0, Some (Some (0, 0))); (4, 1, 0, Some None)] [(4, 0, Some [(0, 0); (0, 1)])])],
    [(4, 1)]) = (false, false, true, true, true, false).
Proof. vm_compute. reflexivity. Qed.

(** ... and what the model predicts is accepted. *)
Example judge_real_accepts_model :
  let ops := [Watch 0 0 informer_sync_fails; Watch 0 0 ok; Watch 1 4 ok; Free 0 ok []; Free 1 ok []] in
  let scope := [(0, true); (4, false)] in
  let store := [(0, [(1, 0); (2, 0)]); (4, [(0, 0)])] in
  judge_real ([0; 1], [0; 4], scope, store,
              real_steps_of true [0; 4] (scope_of scope) (store_of store)
                            [(0, 1, 0); (0, 0, 0); (4, 3, 0); (4, 0, 1)] [(0, 0); (0, 2); (4, 0)] (init [0; 1]) ops,
              [(0, 1); (4, 1)])
  = (false, true, true, true, true, true).
Proof. vm_compute. reflexivity. Qed.

(** * The owner-deletion helper of the controllers (harness: operations finalize / ensure of mode cache)

    The real controllers.FreeCacheAndRemoveFinalizer / EnsureCachedFinalizer, given the real Cache (on the
    scripted informer map) and a client whose finalizer patch is answered adversarially.  Observed in
    addition to the usual observation: whether a patch reached the API server, and what the helper
    returned (nil / the error of Cache.Free / the error of the patch). *)
Inductive fop :=
| FOp (x : op)
| FFinalize (o : owner) (out : outcome) (has_fin : bool) (p : patch_outcome)
| FEnsure (o : owner) (has_fin : bool) (p : patch_outcome).

Record fobs := FObs { f_obs : obs; f_sent : bool; f_ret : helper_ret }.

Definition fin_case := (list handler * list gvk * list (fop * fobs))%type.

Definition ret_eqb (a b : helper_ret) : bool :=
  match a, b with RetNil, RetNil | RetFreeErr, RetFreeErr | RetPatchErr, RetPatchErr => true | _, _ => false end.

(** the error class of a helper step is not observed; everything else of the observation is compared *)
Definition obs_eqb_noerr (a b : obs) : bool :=
  list_eqb event_eqb (b_events a) (b_events b) &&
  option_eqb oset_eqb (b_res a) (b_res b) &&
  list_eqb (fun p q => (fst p =? fst q) && oset_eqb (snd p) (snd q)) (b_snap a) (b_snap b).

Fixpoint agree_fin_steps (fixed : bool) (kinds : list gvk) (s : state) (steps : list (fop * fobs)) : bool :=
  match steps with
  | [] => true
  | (FOp x, b) :: r =>
      match find (fun x' => obs_eqb (obs_of kinds (stepf fixed s x')) (f_obs b)) (cands kinds x) with
      | Some x' => agree_fin_steps fixed kinds (fst (stepf fixed s x')) r
      | None => false
      end
  | (FFinalize o out has_fin p, b) :: r =>
      match find (fun ord =>
               let '(s', fo, sent, ret) := free_and_remove_finalizer (stepf fixed) s o out ord has_fin p in
               obs_eqb_noerr (obs_of kinds (s', fo)) (f_obs b) && Bool.eqb sent (f_sent b) && ret_eqb ret (f_ret b))
             (perms kinds) with
      | Some ord =>
          let '(s', _, _, _) := free_and_remove_finalizer (stepf fixed) s o out ord has_fin p in
          agree_fin_steps fixed kinds s' r
      | None => false
      end
  | (FEnsure o has_fin p, b) :: r =>
      let '(sent, ret) := ensure_finalizer has_fin p in
      obs_eqb_noerr (obs_of kinds (s, mk_out ErrNone [])) (f_obs b) && Bool.eqb sent (f_sent b) && ret_eqb ret (f_ret b) &&
      agree_fin_steps fixed kinds s r
  end.

Definition agree_fin (fixed : bool) (c : fin_case) : bool :=
  let '(handlers, kinds, steps) := c in agree_fin_steps fixed kinds (init handlers) steps.

(** The property: the monitor of the sequential stage, with a helper step read as "Free of the owner" -
    one that counts as successful exactly when the helper let go of the owner ([owner_released]: it
    returned nil, or its patch was applied / answered NotFound); from then on the owner must be in no
    owner set and informers nobody else needs must be gone.  EnsureCachedFinalizer does not concern the
    cache. *)
Fixpoint fin_to_steps (steps : list (fop * fobs)) : list (op * obs) :=
  match steps with
  | [] => []
  | (FOp x, b) :: r => (x, f_obs b) :: fin_to_steps r
  | (FFinalize o out _ p, b) :: r =>
      (Free o out [], Obs (if owner_released (f_sent b) (f_ret b) p then ErrNone else ErrDelete)
                          (b_events (f_obs b)) (b_res (f_obs b)) (b_snap (f_obs b))) :: fin_to_steps r
  | (FEnsure _ _ _, _) :: r => fin_to_steps r
  end.

Definition judge_fin (c : fin_case) : bool * bool * bool * bool * bool * bool :=
  let '(handlers, kinds, steps) := c in
  let v := monitor_verdict (handlers, kinds, fin_to_steps steps) in
  (agree_fin false c, agree_fin true c, v_refs v, v_started v, v_stopped v, v_read v).

(** Non-vacuity: a helper that sends the patch first and gives up on NotFound without freeing is
    rejected (owner 0 still listed, informer still running) ... *)
Example judge_fin_rejects_unfreed_owner :
  let pre := steps_of true [0; 1] (init [0; 1]) [Watch 0 0 ok] in
  judge_fin ([0; 1], [0; 1],
             map (fun p => (FOp (fst p), FObs (snd p) false RetNil)) pre ++
             [(FFinalize 0 ok true patch_not_found,
               FObs (Obs ErrNone [] None [(0, Some [0]); (1, None)]) true RetPatchErr);
              (FOp (Get 0), FObs (Obs ErrNone [EGet 0 true] None [(0, Some [0]); (1, None)]) false RetNil)])
  = (false, false, false, true, false, false).
Proof. vm_compute. reflexivity. Qed.

(** ... and the model's behaviour is accepted. *)
Example judge_fin_accepts_model :
  let pre := steps_of true [0; 1] (init [0; 1]) [Watch 0 0 ok] in
  judge_fin ([0; 1], [0; 1],
             map (fun p => (FOp (fst p), FObs (snd p) false RetNil)) pre ++
             [(FFinalize 0 ok true patch_not_found,
               FObs (Obs ErrNone [EDelete 0 true; EStop 0] None [(0, None); (1, None)]) true RetPatchErr);
              (FOp (Get 0), FObs (Obs ErrNotStarted [] None [(0, None); (1, None)]) false RetNil)])
  = (true, true, true, true, true, true).
Proof. vm_compute. reflexivity. Qed.

(** ** The helper monitor accepts the model of the current cache.go *)
Inductive fin_in :=
| IOp (x : op)
| IFinalize (o : owner) (out : outcome) (order : list gvk) (has_fin : bool) (p : patch_outcome)
| IEnsure (o : owner) (has_fin : bool) (p : patch_outcome).

Fixpoint fin_steps_of (fixed : bool) (kinds : list gvk) (s : state) (ins : list fin_in) : list (fop * fobs) :=
  match ins with
  | [] => []
  | IOp x :: r =>
      let q := stepf fixed s x in
      (FOp x, FObs (obs_of kinds q) false RetNil) :: fin_steps_of fixed kinds (fst q) r
  | IFinalize o out ord has_fin p :: r =>
      let '(s', fo, sent, ret) := free_and_remove_finalizer (stepf fixed) s o out ord has_fin p in
      (FFinalize o out has_fin p, FObs (obs_of kinds (s', fo)) sent ret) :: fin_steps_of fixed kinds s' r
  | IEnsure o has_fin p :: r =>
      let '(sent, ret) := ensure_finalizer has_fin p in
      (FEnsure o has_fin p, FObs (obs_of kinds (s, mk_out ErrNone [])) sent ret) :: fin_steps_of fixed kinds s r
  end.

Lemma between_weaken lo hi hi' l : between lo hi l = true -> incl hi hi' -> between lo hi' l = true.
Proof.
  unfold between. rewrite !andb_true_iff. intros [[H1 H2] H3] Hi. repeat split; try assumption.
  apply subset_incl. apply subset_incl in H2. eapply incl_tran; eassumption.
Qed.

(** Reading a Free as failed although it succeeded only weakens what the monitor asks for. *)
Lemma mon_step_free_weaken g handlers m o out ord b :
  let r1 := mon_step g handlers m (Free o out ord) b in
  let r2 := mon_step g handlers m (Free o out ord) (Obs ErrDelete (b_events b) (b_res b) (b_snap b)) in
  v_all (snd r1) = true ->
  v_all (snd r2) = true /\
  m_must (fst r2) = m_must (fst r1) /\ incl (m_may (fst r1)) (m_may (fst r2)) /\
  m_inf (fst r2) = m_inf (fst r1) /\ m_stuck (fst r2) = m_stuck (fst r1).
Proof.
  unfold mon_step. cbn [fst snd b_err b_events b_res b_snap m_must m_may m_inf m_stuck err_eqb].
  unfold v_all. cbn [v_refs v_started v_stopped v_read]. rewrite !andb_true_iff.
  intros [[[Hb Hs] Ht] _].
  assert (Hincl : incl (if err_eqb (b_err b) ErrNone then rem o (m_may m) else m_may m) (m_may m)).
  { destruct (err_eqb (b_err b) ErrNone); [apply incl_rem|apply incl_refl]. }
  repeat split; try reflexivity; try assumption.
  - destruct Hb as [Hb _]. eapply between_weaken; eassumption.
  - destruct (m_may m) as [|a l]; [|reflexivity].
    destruct (err_eqb (b_err b) ErrNone); cbn in Ht; cbn; exact Ht.
Qed.

Lemma free_err_cases fixed s o out ord s' fo :
  stepf fixed s (Free o out ord) = (s', fo) -> o_err fo = ErrNone \/ o_err fo = ErrDelete.
Proof.
  unfold stepf, step_with, free. destruct (free_loop o out (ord ++ keys (refs s)) s) as [[s1 evs] r].
  intros H; injection H as <- <-. destruct r; cbn; auto.
Qed.

Lemma fin_mon_run_sound g kinds ins : forall s m,
  In g kinds ->
  J g s m -> EIk (hs s) (view s g) -> NDk (view s g) ->
  v_all (mon_run g (hs s) m (fin_to_steps (fin_steps_of true kinds s ins))) = true.
Proof.
  induction ins as [|i ins IH]; intros s m Hg HJ HEI HND; [reflexivity|].
  assert (Hhs : forall x, hs (fst (stepf true s x)) = hs s).
  { intros x. destruct (stepf true s x) as [s' o'] eqn:E. now destruct (step_kind _ _ _ _ _ E). }
  destruct i as [x|o out ord has_fin p|o has_fin p].
  - cbn [fin_steps_of fin_to_steps mon_run f_obs].
    destruct (mon_step_sound true g kinds s m x Hg (or_introl eq_refl) HJ HEI HND) as (Hv & HJ' & HEI' & HND').
    destruct (mon_step g (hs s) m x (obs_of kinds (stepf true s x))) as [m' v] eqn:Em.
    cbn [fst snd] in *. rewrite v_all_and, Hv. cbn [andb]. rewrite <- (Hhs x). now apply IH.
  - cbn [fin_steps_of].
    destruct (free_and_remove_finalizer (stepf true) s o out ord has_fin p) as [[[s' fo] sent] ret] eqn:Eh.
    cbn [fin_to_steps mon_run f_obs f_sent f_ret].
    set (x := Free o out ord).
    destruct (mon_step_sound true g kinds s m x Hg (or_introl eq_refl) HJ HEI HND) as (Hv & HJ' & HEI' & HND').
    assert (Hq : stepf true s x = (s', fo)).
    { unfold free_and_remove_finalizer in Eh. fold x in Eh. destruct (stepf true s x) as [s1 o1]. cbn [fst snd] in Eh.
      destruct (o_err o1); injection Eh as <- <- _ _; reflexivity. }
    rewrite Hq in *. cbn [fst snd] in *.
    assert (Hs' : hs s' = hs s) by (specialize (Hhs x); now rewrite Hq in Hhs).
    (* the error class the monitor is shown *)
    set (e' := if owner_released sent ret p then ErrNone else ErrDelete).
    assert (Hcase : e' = o_err fo \/ (e' = ErrDelete /\ o_err fo = ErrNone)).
    { subst e'. destruct (owner_released sent ret p) eqn:Er.
      - left. symmetry.
        assert (Hrel : sent = true \/ ret = RetNil).
        { unfold owner_released in Er. destruct ret; auto; apply andb_true_iff in Er as [-> _]; auto. }
        now destruct (helper_frees_before_finalizer_goes _ _ _ _ _ _ _ _ _ _ _ Eh Hrel) as (_ & He & _).
      - destruct (free_err_cases _ _ _ _ _ _ _ Hq) as [Ee|Ee]; rewrite Ee; auto. }
    change (Free o out []) with (Free o out []).
    (* the monitor does not look at the visiting order of a Free *)
    assert (Hord : forall b, mon_step g (hs s) m (Free o out []) b = mon_step g (hs s) m x b) by reflexivity.
    rewrite Hord.
    destruct Hcase as [He|[He Hn]].
    + assert (Hobs : Obs e' (b_events (obs_of kinds (s', fo))) (b_res (obs_of kinds (s', fo)))
                         (b_snap (obs_of kinds (s', fo))) = obs_of kinds (s', fo)).
      { rewrite He. reflexivity. }
      rewrite Hobs.
      destruct (mon_step g (hs s) m x (obs_of kinds (s', fo))) as [m' v] eqn:Em.
      cbn [fst snd] in *. rewrite v_all_and, Hv. cbn [andb]. rewrite <- Hs'. now apply IH.
    + rewrite He.
      pose proof (mon_step_free_weaken g (hs s) m o out ord (obs_of kinds (s', fo)) Hv) as (Hv2 & Hm1 & Hm2 & Hm3 & Hm4).
      fold x in Hv2, Hm1, Hm2, Hm3, Hm4.
      destruct (mon_step g (hs s) m x (obs_of kinds (s', fo))) as [m1 v1] eqn:Em1.
      destruct (mon_step g (hs s) m x (Obs ErrDelete (b_events (obs_of kinds (s', fo)))
                  (b_res (obs_of kinds (s', fo))) (b_snap (obs_of kinds (s', fo))))) as [m2 v2] eqn:Em2.
      cbn [fst snd] in *. rewrite v_all_and, Hv2. cbn [andb]. rewrite <- Hs'. apply IH; try assumption.
      destruct HJ' as [J1 J2 J3 J4]. constructor.
      * now rewrite Hm1.
      * eapply incl_tran; eassumption.
      * now rewrite Hm3.
      * now rewrite Hm4.
  - cbn [fin_steps_of]. destruct (ensure_finalizer has_fin p) as [sent ret].
    cbn [fin_to_steps]. now apply IH.
Qed.

Theorem monitor_fin_sound_fixed handlers kinds ins :
  monitor (handlers, kinds, fin_to_steps (fin_steps_of true kinds (init handlers) ins)) = true.
Proof.
  unfold monitor, monitor_verdict.
  assert (H : forall ks, incl ks kinds ->
     v_all (fold_right (fun g v => v_and (mon_run g handlers m_init
              (fin_to_steps (fin_steps_of true kinds (init handlers) ins))) v) v_true ks) = true).
  { induction ks as [|g ks IH]; intros Hi; [reflexivity|]. cbn [fold_right].
    rewrite v_all_and, IH by (intros y Hy; apply Hi; now right). rewrite andb_true_r.
    apply (fin_mon_run_sound g kinds ins (init handlers) m_init).
    - apply Hi. now left.
    - apply J_init.
    - split; [cbn; tauto|discriminate].
    - intros l. discriminate. }
  apply H, incl_refl.
Qed.
