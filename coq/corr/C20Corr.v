(** Correspondence and monitor for C20 (RequestManager). *)
From Coq Require Import List Arith NArith Bool Lia.
From PKO Require Import Util ReqMgr ReqMgrProofs.
Import ListNotations.
Local Open Scope N_scope.

(** What the harness can see of an event: copy identities are not observable (aliasing is
    probed separately by mutating the returned Files maps). *)
Inductive ievent :=
| IPull (img n : N)                 (* the scripted pull function was entered for img; n = global call number *)
| IResp (c img n : N) (res : bool)  (* caller c's Pull(img) returned the result of pull call n (true = package) *)
| IRej (c : N)                      (* caller c's Pull returned (nil, err) at once: the registry-host override failed *)
| IGone (c img : N).                (* caller c's Pull(img) returned its context's error without a response
                                       (never on the current code; allowed by the monitor after Cancel c) *)

(** Observation of one run:
    - per step, the events that happened during that (linearised) step; responses in
      registration order of their requests;
    - per step, the number of receivers registered for the step's image after the step
      (read under inFlightLock);
    - per image of the scenario, the callers whose Pull never returned;
    - aliasing reports: (request index + 1, request index + 1), 0 = the pull function's original. *)
Definition obs := (list (list ievent) * list N * list (N * list N) * list (N * N))%type.

(** A forced schedule.  [Plain x]: the critical section x ran alone (linearised by the harness).
    [Overlap img res c]: handleResponse(img, res) was stalled in the middle of its broadcast (on an
    extra unbuffered receiver the harness put at the head of the entry), and while it was stalled
    caller c called Pull(img); then the stall was released.  The two operations overlap in time. *)
Inductive ostep := Plain (x : step) | Overlap (img : N) (res : bool) (c : N).

(** A linearisation of a schedule fixes, for every overlap, which operation took effect first. *)
Inductive lstep := LPlain (x : step) | LOverlap (img : N) (res : bool) (c : N) (done_first : bool).

Definition forget (l : lstep) : ostep :=
  match l with LPlain x => Plain x | LOverlap i r c _ => Overlap i r c end.

Definition expand1 (l : lstep) : list step :=
  match l with
  | LPlain x => [x]
  | LOverlap i r c true => [Done i r; Req c i]
  | LOverlap i r c false => [Req c i; Done i r]
  end.
Definition expand (ls : list lstep) : list step := flat_map expand1 ls.

Definition candidates (o : ostep) : list lstep :=
  match o with
  | Plain x => [LPlain x]
  | Overlap i r c => [LOverlap i r c true; LOverlap i r c false]
  end.

(** A case: the schedule that was forced (including the Done steps the harness appended to
    drain pending pulls) and what the implementation did. *)
Definition case := (list ostep * obs)%type.

Definition erase (e : event) : ievent :=
  match e with
  | PullStarted img n => IPull img n
  | Response c img n res _ => IResp c img n res
  | Rejected c => IRej c
  end.

Definition ievent_eqb (a b : ievent) : bool :=
  match a, b with
  | IPull i n, IPull i' n' => (i =? i') && (n =? n')
  | IResp c i n r, IResp c' i' n' r' => (c =? c') && (i =? i') && (n =? n') && Bool.eqb r r'
  | IGone c i, IGone c' i' => (c =? c') && (i =? i')
  | IRej c, IRej c' => c =? c'
  | _, _ => false
  end.

Lemma ievent_eqb_refl a : ievent_eqb a a = true.
Proof. destruct a; cbn; rewrite ?N.eqb_refl, ?eqb_reflx; reflexivity. Qed.

Lemma ievents_eqb_refl l : list_eqb ievent_eqb l l = true.
Proof. induction l as [|a l IH]; cbn; [reflexivity|]. now rewrite ievent_eqb_refl, IH. Qed.

Definition step_img (x : step) : N := match x with Req _ i => i | Done i _ => i | _ => 0 end.
Definition step_imgs (x : step) : list N := match x with Req _ i => [i] | Done i _ => [i] | _ => [] end.

Definition recv_count (s : state) (img : N) : N :=
  match inflight s img with Some e => N.of_nat (length (e_recv e)) | None => 0 end.

Fixpoint counts (s : state) (steps : list step) : list N :=
  match steps with
  | [] => []
  | x :: r => let s' := do_step s x in recv_count s' (step_img x) :: counts s' r
  end.

Definition receivers (s : state) (img : N) : list N :=
  match inflight s img with Some e => e_recv e | None => [] end.

Fixpoint nodup_N (l : list N) : list N :=
  match l with
  | [] => []
  | a :: r => a :: filter (fun b => negb (b =? a)) (nodup_N r)
  end.

Definition images (steps : list step) : list N := nodup_N (flat_map step_imgs steps).

Definition ostep_img (o : ostep) : N := match o with Plain x => step_img x | Overlap i _ _ => i end.
Definition ostep_imgs (o : ostep) : list N := match o with Plain x => step_imgs x | Overlap i _ _ => [i] end.
Definition oimages (os : list ostep) : list N := nodup_N (flat_map ostep_imgs os).

(** Receivers registered for the step's image after the step (0 for a cancel step, which has no image). *)
Definition ostep_count (s : state) (o : ostep) : N :=
  match o with Plain (Cancel _) | Plain (Fail _) => 0 | _ => recv_count s (ostep_img o) end.

Definition is_ipull (e : ievent) : bool := match e with IPull _ _ => true | _ => false end.
Definition pulls_of (l : list ievent) : list ievent := filter is_ipull l.
Definition resps_of (l : list ievent) : list ievent := filter (fun e => negb (is_ipull e)) l.

(** Events of one (possibly overlapping) step are compared per kind: the relative order of a pull
    start and the responses inside one overlapping step is not observable. *)
Definition same_events (a b : list ievent) : bool :=
  list_eqb ievent_eqb (pulls_of a) (pulls_of b) && list_eqb ievent_eqb (resps_of a) (resps_of b).

(** The sequential model's events for one linearised step, started in state s. *)
Definition levents (s : state) (l : lstep) : list ievent := concat (map (map erase) (outs s (expand1 l))).
Definition lnext (s : state) (l : lstep) : state := run_from s (expand1 l).

Fixpoint levs_from (s : state) (ls : list lstep) : list (list ievent) :=
  match ls with [] => [] | l :: r => levents s l :: levs_from (lnext s l) r end.
Fixpoint lcounts_from (s : state) (ls : list lstep) : list N :=
  match ls with [] => [] | l :: r => ostep_count (lnext s l) (forget l) :: lcounts_from (lnext s l) r end.

Definition pend_of (s : state) (os : list ostep) : list (N * list N) :=
  map (fun i => (i, receivers s i)) (oimages os).

(** The model's observation of a linearised schedule. *)
Definition model_lobs (ls : list lstep) : obs :=
  (levs_from init ls, lcounts_from init ls, pend_of (run (expand ls)) (map forget ls), []).

Definition model_obs (steps : list step) : obs := model_lobs (map LPlain steps).

Definition pending_eqb (a b : list (N * list N)) : bool :=
  list_eqb (fun x y => (fst x =? fst y) && list_eqb N.eqb (snd x) (snd y)) a b.

(** Linearizability against the sequential model: there is a choice of order for every overlap
    such that the model, run sequentially, produces the observed events and receiver counts at
    every step and the observed set of callers that never returned.  [lin_run] carries the model
    states of all linearisations that explain the observation so far. *)
Fixpoint lin_run (ss : list state) (os : list ostep) (evss : list (list ievent)) (cnts : list N)
  : option (list state) :=
  match os, evss, cnts with
  | [], [], [] => Some ss
  | o :: r, evs :: er, n :: cr =>
      lin_run (flat_map (fun s => flat_map (fun l =>
                 if same_events (levents s l) evs && (ostep_count (lnext s l) o =? n)
                 then [lnext s l] else []) (candidates o)) ss) r er cr
  | _, _, _ => None
  end.

Definition lin_agree (c : case) : bool :=
  let '(os, (evs, cnts, pend, alias)) := c in
  match lin_run [init] os evs cnts with
  | Some ss => existsb (fun s => pending_eqb (pend_of s os) pend) ss
  | None => false
  end.

Definition agree := lin_agree.

(** * The monitor: the property, evaluated on the schedule and the implementation's events only.
    It keeps, per image, the number of the pull it has seen start and not finish, and the callers
    that asked and were not answered. *)
Record mstate := { mrun : N -> option N; mwait : N -> list N }.
Definition minit : mstate := {| mrun := fun _ => None; mwait := fun _ => [] |}.

Fixpoint remove_first (c : N) (l : list N) : list N :=
  match l with [] => [] | a :: r => if a =? c then r else a :: remove_first c r end.

Definition mon_step (m : mstate) (x : step) (evs : list ievent) : option mstate :=
  match x with
  | Req c img =>
      match mrun m img with
      | None =>
          (* nothing in flight for img: this request must start a pull (fresh pull, no waiting forever) *)
          match evs with
          | [IPull i n] => if i =? img
                           then Some {| mrun := set (mrun m) img (Some n); mwait := set (mwait m) img (mwait m img ++ [c]) |}
                           else None
          | _ => None
          end
      | Some _ =>
          (* a pull for img is in flight: no second pull, and nobody is answered by a request *)
          if is_nil evs then Some {| mrun := mrun m; mwait := set (mwait m) img (mwait m img ++ [c]) |} else None
      end
  | Done img res =>
      match mrun m img with
      | Some n =>
          (* exactly the callers waiting for img are answered, once each, with this pull's result *)
          if list_eqb ievent_eqb evs (map (fun c => IResp c img n res) (mwait m img))
          then Some {| mrun := set (mrun m) img None; mwait := set (mwait m) img [] |}
          else None
      | None => if is_nil evs then Some m else None
      end
  | Fail c =>
      (* the override step of this Pull fails: the caller gets the error, exactly once and at once;
         nothing else happens - in particular no pull starts *)
      match evs with
      | [IRej c'] => if c' =? c then Some m else None
      | _ => None
      end
  | Cancel c =>
      (* the cancelled caller may keep waiting (it is then answered like everybody else), or return
         early with its context's error: it is then exempt from "answered exactly once", everybody
         else is not *)
      match evs with
      | [] => Some m
      | [IGone c' i] => if (c' =? c) && existsb (N.eqb c) (mwait m i)
                        then Some {| mrun := mrun m; mwait := set (mwait m) i (remove_first c (mwait m i)) |}
                        else None
      | _ => None
      end
  end.

Definition opt_list {A} (o : option A) : list A := match o with Some a => [a] | None => [] end.
Definition obind {A B} (o : option A) (f : A -> option B) : option B := match o with Some a => f a | None => None end.

(** An overlapping step satisfies the property iff it does so in one of the two orders: the request
    took effect after the broadcast (it must then start a fresh pull) or before it (it must then be
    answered by this very broadcast).  A request that is registered but neither answered nor followed
    by a fresh pull is accepted by neither. *)
(** After every [Done] the image has no in-flight entry (receiver count read under the lock is 0). *)
Definition count_ok (o : ostep) (n : N) : bool :=
  match o with Plain (Done _ _) => n =? 0 | _ => true end.

Definition mon_ostep (m : mstate) (o : ostep) (evs : list ievent) (n : N) : list mstate :=
  if negb (count_ok o n) then [] else
  match o with
  | Plain x => opt_list (mon_step m x evs)
  | Overlap i r c =>
      let p := pulls_of evs in
      let q := resps_of evs in
      opt_list (obind (mon_step m (Done i r) q) (fun m1 => mon_step m1 (Req c i) p)) ++
      opt_list (obind (mon_step m (Req c i) p) (fun m1 => mon_step m1 (Done i r) q))
  end.

Fixpoint mon_run (ms : list mstate) (os : list ostep) (evss : list (list ievent)) (cnts : list N)
  : option (list mstate) :=
  match os, evss, cnts with
  | [], [], [] => Some ms
  | o :: r, evs :: er, n :: cr => mon_run (flat_map (fun m => mon_ostep m o evs n) ms) r er cr
  | _, _, _ => None
  end.

Definition mon_final (pend : list (N * list N)) (m : mstate) : bool :=
  (* whoever has not returned is still (legitimately) waiting for a pull that is in flight *)
  forallb (fun p => list_eqb N.eqb (snd p) (mwait m (fst p)) &&
                    (is_nil (snd p) || match mrun m (fst p) with Some _ => true | None => false end)) pend.

Definition monitor (c : case) : bool :=
  let '(os, (evs, cnts, pend, alias)) := c in
  match mon_run [minit] os evs cnts with
  | None => false
  | Some ms =>
      existsb (mon_final pend) ms
      && is_nil alias                       (* no returned Files map shares memory with another or the original *)
  end.

Definition judge (c : case) : bool * bool := (agree c, monitor c).

(** * Soundness of the monitor for the model *)

Definition sim (s : state) (m : mstate) : Prop :=
  forall img, mrun m img = option_map e_pull (inflight s img) /\ mwait m img = receivers s img.

Lemma erase_broadcast img n res recv : forall k,
  map erase (broadcast img n res k recv) = map (fun c => IResp c img n res) recv.
Proof. induction recv as [|c r IH]; intros k; cbn; [reflexivity|]. now rewrite IH. Qed.

Ltac sim_case Hs img :=
  let i := fresh "i" in let Hi := fresh "Hi" in
  intros i; unfold receivers; cbn [inflight mrun mwait];
  destruct (N.eq_dec i img) as [->|Hi];
  [rewrite ?set_same; cbn [option_map e_pull e_recv]
  |rewrite ?set_other by assumption; apply Hs].

Lemma sim_step s m x : sim s m ->
  exists m', mon_step m x (map erase (step_events s x)) = Some m' /\ sim (do_step s x) m'.
Proof.
  intros Hs. destruct x as [c img|img res|c|c].
  3: { exists m. split; [cbn; now rewrite N.eqb_refl|]. intros i. unfold receivers. cbn. apply Hs. }
  3: { exists m. split; [reflexivity|]. intros i. unfold receivers. cbn. apply Hs. }
  - destruct (Hs img) as (Hr & Hw). unfold receivers in *. cbn [mon_step step_events do_step]. rewrite Hr.
    destruct (inflight s img) as [e|] eqn:E; cbn [option_map map erase is_nil].
    + eexists. split; [reflexivity|]. sim_case Hs img. now rewrite Hw.
    + rewrite N.eqb_refl. eexists. split; [reflexivity|]. sim_case Hs img. now rewrite Hw.
  - destruct (Hs img) as (Hr & Hw). unfold receivers in *. cbn [mon_step step_events do_step]. rewrite Hr.
    destruct (inflight s img) as [e|] eqn:E; cbn [option_map].
    + rewrite erase_broadcast, Hw, ievents_eqb_refl. eexists. split; [reflexivity|].
      sim_case Hs img. now split.
    + cbn [map is_nil]. exists m. split; [reflexivity|]. sim_case Hs img. now rewrite Hr, Hw.
Qed.

Lemma sim_init : sim init minit.
Proof. intros img. cbn. now split. Qed.

Lemma pulls_of_app a b : pulls_of (a ++ b) = pulls_of a ++ pulls_of b.
Proof. apply filter_app. Qed.
Lemma resps_of_app a b : resps_of (a ++ b) = resps_of a ++ resps_of b.
Proof. apply filter_app. Qed.

Lemma kinds_done s i r :
  pulls_of (map erase (step_events s (Done i r))) = [] /\
  resps_of (map erase (step_events s (Done i r))) = map erase (step_events s (Done i r)).
Proof.
  cbn. destruct (inflight s i) as [e|]; [|now split]. generalize 0 as k.
  induction (e_recv e) as [|c l IH]; intros k; cbn; [now split|].
  destruct (IH (k + 1)) as [H1 H2]. unfold pulls_of, resps_of in *. now rewrite H1, H2.
Qed.

Lemma kinds_req s c i :
  pulls_of (map erase (step_events s (Req c i))) = map erase (step_events s (Req c i)) /\
  resps_of (map erase (step_events s (Req c i))) = [].
Proof. cbn. destruct (inflight s i); now split. Qed.

Lemma count_ok_model s l : count_ok (forget l) (ostep_count (lnext s l) (forget l)) = true.
Proof.
  destruct l as [[c i|i r|c|c]|i r c b]; try reflexivity.
  unfold lnext, ostep_count, recv_count. cbn. now rewrite set_same.
Qed.

Lemma sim_lstep s m l : sim s m ->
  exists m', In m' (mon_ostep m (forget l) (levents s l) (ostep_count (lnext s l) (forget l))) /\ sim (lnext s l) m'.
Proof.
  intros Hs. unfold mon_ostep. rewrite count_ok_model. cbn [negb].
  destruct l as [x|i r c [|]]; unfold levents, lnext; cbn [expand1 outs map concat forget run_from fold_left].
  - rewrite app_nil_r. destruct (sim_step s m x Hs) as (m' & H1 & H2). exists m'. rewrite H1. split; [now left|assumption].
  - rewrite app_nil_r, pulls_of_app, resps_of_app.
    destruct (kinds_done s i r) as [D1 D2]. destruct (kinds_req (do_step s (Done i r)) c i) as [R1 R2].
    rewrite D1, D2, R1, R2, app_nil_r. cbn [app].
    destruct (sim_step s m (Done i r) Hs) as (m1 & H1 & Hs1).
    destruct (sim_step _ m1 (Req c i) Hs1) as (m2 & H2 & Hs2).
    exists m2. split; [|assumption]. apply in_or_app. left. rewrite H1. cbn [obind]. rewrite H2. now left.
  - rewrite app_nil_r, pulls_of_app, resps_of_app.
    destruct (kinds_req s c i) as [R1 R2]. destruct (kinds_done (do_step s (Req c i)) i r) as [D1 D2].
    rewrite D1, D2, R1, R2, app_nil_r. cbn [app].
    destruct (sim_step s m (Req c i) Hs) as (m1 & H1 & Hs1).
    destruct (sim_step _ m1 (Done i r) Hs1) as (m2 & H2 & Hs2).
    exists m2. split; [|assumption]. apply in_or_app. right. rewrite H1. cbn [obind]. rewrite H2. now left.
Qed.

Lemma sim_lrun ls : forall s ms, (exists m, In m ms /\ sim s m) ->
  exists ms', mon_run ms (map forget ls) (levs_from s ls) (lcounts_from s ls) = Some ms' /\
              exists m', In m' ms' /\ sim (run_from s (expand ls)) m'.
Proof.
  induction ls as [|l r IH]; intros s ms (m & Hin & Hs); cbn [map levs_from lcounts_from mon_run expand flat_map].
  - exists ms. split; [reflexivity|]. exists m. now split.
  - rewrite run_from_app. apply IH.
    destruct (sim_lstep s m l Hs) as (m' & Hin' & Hs'). exists m'. split; [|exact Hs'].
    apply in_flat_map. exists m. now split.
Qed.

(** The model's observation of *any* linearisation of *any* schedule (with or without overlaps,
    well-formed or not) satisfies the monitor. *)
Theorem monitor_sound_lin ls : monitor (map forget ls, model_lobs ls) = true.
Proof.
  unfold monitor, model_lobs.
  destruct (sim_lrun ls init [minit]) as (ms & Hm & m & Hin & Hs).
  { exists minit. split; [now left|apply sim_init]. }
  rewrite Hm. rewrite andb_true_iff. split; [|reflexivity].
  apply existsb_exists. exists m. split; [assumption|].
  apply forallb_forall. intros [i l] Hp. apply in_map_iff in Hp. destruct Hp as (j & Hj & _).
  injection Hj as <- <-. cbn [fst snd]. destruct (Hs j) as (Hr & Hw). fold (run (expand ls)) in *.
  rewrite Hw, (proj2 (list_eqb_N_spec _ _) eq_refl). cbn [andb]. rewrite Hr.
  unfold receivers. destruct (inflight (run (expand ls)) j); [now rewrite orb_true_r|reflexivity].
Qed.

Lemma forget_plain steps : map forget (map LPlain steps) = map Plain steps.
Proof. now rewrite map_map. Qed.

Theorem monitor_sound_all steps : monitor (map Plain steps, model_obs steps) = true.
Proof. rewrite <- forget_plain. apply monitor_sound_lin. Qed.

Theorem monitor_sound steps : wf steps = true -> monitor (map Plain steps, model_obs steps) = true.
Proof. intros _. apply monitor_sound_all. Qed.

(** The model's own observation is linearizable (by the linearisation that produced it). *)
Lemma same_events_refl l : same_events l l = true.
Proof. unfold same_events. now rewrite !ievents_eqb_refl. Qed.

Lemma pending_eqb_refl p : pending_eqb p p = true.
Proof.
  unfold pending_eqb. induction p as [|[i l] p IH]; cbn; [reflexivity|].
  now rewrite N.eqb_refl, (proj2 (list_eqb_N_spec _ _) eq_refl), IH.
Qed.

Lemma candidates_forget l : In l (candidates (forget l)).
Proof. destruct l as [x|i r c [|]]; cbn; auto. Qed.

Lemma lin_run_model ls : forall s ss, In s ss ->
  exists ss', lin_run ss (map forget ls) (levs_from s ls) (lcounts_from s ls) = Some ss' /\
              In (run_from s (expand ls)) ss'.
Proof.
  induction ls as [|l r IH]; intros s ss Hin; cbn [map levs_from lcounts_from lin_run expand flat_map].
  - exists ss. now split.
  - rewrite run_from_app. apply IH. apply in_flat_map. exists s. split; [assumption|].
    apply in_flat_map. exists l. split; [apply candidates_forget|].
    rewrite same_events_refl, N.eqb_refl. now left.
Qed.

Theorem lin_agree_model ls : lin_agree (map forget ls, model_lobs ls) = true.
Proof.
  unfold lin_agree, model_lobs. destruct (lin_run_model ls init [init]) as (ss & H & Hin); [now left|].
  rewrite H. apply existsb_exists. exists (run (expand ls)). split; [assumption|apply pending_eqb_refl].
Qed.
