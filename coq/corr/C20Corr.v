(** Correspondence and monitor for C20 (RequestManager). *)
From Coq Require Import List Arith NArith Bool Lia.
From PKO Require Import Util ReqMgr ReqMgrProofs.
Import ListNotations.
Local Open Scope N_scope.

(** What the harness can see of an event: copy identities are not observable (aliasing is
    probed separately by mutating the returned Files maps). *)
Inductive ievent :=
| IPull (img n : N)                 (* the scripted pull function was entered for img; n = global call number *)
| IResp (c img n : N) (res : bool). (* caller c's Pull(img) returned the result of pull call n (true = package) *)

(** Observation of one run:
    - per step, the events that happened during that (linearised) step; responses in
      registration order of their requests;
    - per step, the number of receivers registered for the step's image after the step
      (read under inFlightLock);
    - per image of the scenario, the callers whose Pull never returned;
    - aliasing reports: (request index + 1, request index + 1), 0 = the pull function's original. *)
Definition obs := (list (list ievent) * list N * list (N * list N) * list (N * N))%type.

(** A case: the schedule that was forced (including the Done steps the harness appended to
    drain pending pulls) and what the implementation did. *)
Definition case := (list step * obs)%type.

Definition erase (e : event) : ievent :=
  match e with
  | PullStarted img n => IPull img n
  | Response c img n res _ => IResp c img n res
  end.

Definition ievent_eqb (a b : ievent) : bool :=
  match a, b with
  | IPull i n, IPull i' n' => (i =? i') && (n =? n')
  | IResp c i n r, IResp c' i' n' r' => (c =? c') && (i =? i') && (n =? n') && Bool.eqb r r'
  | _, _ => false
  end.

Lemma ievent_eqb_refl a : ievent_eqb a a = true.
Proof. destruct a; cbn; rewrite ?N.eqb_refl, ?eqb_reflx; reflexivity. Qed.

Lemma ievents_eqb_refl l : list_eqb ievent_eqb l l = true.
Proof. induction l as [|a l IH]; cbn; [reflexivity|]. now rewrite ievent_eqb_refl, IH. Qed.

Definition step_img (x : step) : N := match x with Req _ i => i | Done i _ => i end.

Definition recv_count (s : state) (img : N) : N :=
  match inflight s img with Some e => N.of_nat (length (e_recv e)) | None => 0 end.

Fixpoint counts (s : state) (steps : list step) : list N :=
  match steps with
  | [] => []
  | x :: r => let s' := do_step s x in recv_count s' (step_img x) :: counts s' r
  end.

Definition receivers (s : state) (img : N) : list N :=
  match inflight s img with Some e => e_recv e | None => [] end.

Fixpoint nodup_N (l : list N) : list N :=
  match l with
  | [] => []
  | a :: r => a :: filter (fun b => negb (b =? a)) (nodup_N r)
  end.

Definition images (steps : list step) : list N := nodup_N (map step_img steps).

(** The model's observation of a schedule. *)
Definition model_obs (steps : list step) : obs :=
  (map (map erase) (outs init steps),
   counts init steps,
   map (fun i => (i, receivers (run steps) i)) (images steps),
   []).

Definition pending_eqb (a b : list (N * list N)) : bool :=
  list_eqb (fun x y => (fst x =? fst y) && list_eqb N.eqb (snd x) (snd y)) a b.

Definition agree (c : case) : bool :=
  let '(steps, (evs, cnts, pend, alias)) := c in
  let '(mevs, mcnts, mpend, _) := model_obs steps in
  list_eqb (list_eqb ievent_eqb) mevs evs && list_eqb N.eqb mcnts cnts && pending_eqb mpend pend.

(** * The monitor: the property, evaluated on the schedule and the implementation's events only.
    It keeps, per image, the number of the pull it has seen start and not finish, and the callers
    that asked and were not answered. *)
Record mstate := { mrun : N -> option N; mwait : N -> list N }.
Definition minit : mstate := {| mrun := fun _ => None; mwait := fun _ => [] |}.

Definition mon_step (m : mstate) (x : step) (evs : list ievent) : option mstate :=
  match x with
  | Req c img =>
      match mrun m img with
      | None =>
          (* nothing in flight for img: this request must start a pull (fresh pull, no waiting forever) *)
          match evs with
          | [IPull i n] => if i =? img
                           then Some {| mrun := set (mrun m) img (Some n); mwait := set (mwait m) img (mwait m img ++ [c]) |}
                           else None
          | _ => None
          end
      | Some _ =>
          (* a pull for img is in flight: no second pull, and nobody is answered by a request *)
          if is_nil evs then Some {| mrun := mrun m; mwait := set (mwait m) img (mwait m img ++ [c]) |} else None
      end
  | Done img res =>
      match mrun m img with
      | Some n =>
          (* exactly the callers waiting for img are answered, once each, with this pull's result *)
          if list_eqb ievent_eqb evs (map (fun c => IResp c img n res) (mwait m img))
          then Some {| mrun := set (mrun m) img None; mwait := set (mwait m) img [] |}
          else None
      | None => if is_nil evs then Some m else None
      end
  end.

Fixpoint mon_run (m : mstate) (steps : list step) (evss : list (list ievent)) : option mstate :=
  match steps, evss with
  | [], [] => Some m
  | x :: r, evs :: er => match mon_step m x evs with Some m' => mon_run m' r er | None => None end
  | _, _ => None
  end.

Definition monitor (c : case) : bool :=
  let '(steps, (evs, cnts, pend, alias)) := c in
  match mon_run minit steps evs with
  | None => false
  | Some m =>
      (* whoever has not returned is still (legitimately) waiting for a pull that is in flight *)
      forallb (fun p => list_eqb N.eqb (snd p) (mwait m (fst p)) &&
                        (is_nil (snd p) || match mrun m (fst p) with Some _ => true | None => false end)) pend
      && is_nil alias                       (* no returned Files map shares memory with another or the original *)
  end.

Definition judge (c : case) : bool * bool := (agree c, monitor c).

(** * Soundness of the monitor for the model *)

Definition sim (s : state) (m : mstate) : Prop :=
  forall img, mrun m img = option_map e_pull (inflight s img) /\ mwait m img = receivers s img.

Lemma erase_broadcast img n res recv : forall k,
  map erase (broadcast img n res k recv) = map (fun c => IResp c img n res) recv.
Proof. induction recv as [|c r IH]; intros k; cbn; [reflexivity|]. now rewrite IH. Qed.

Ltac sim_case Hs img :=
  let i := fresh "i" in let Hi := fresh "Hi" in
  intros i; unfold receivers; cbn [inflight mrun mwait];
  destruct (N.eq_dec i img) as [->|Hi];
  [rewrite ?set_same; cbn [option_map e_pull e_recv]
  |rewrite ?set_other by assumption; apply Hs].

Lemma sim_step s m x : sim s m ->
  exists m', mon_step m x (map erase (step_events s x)) = Some m' /\ sim (do_step s x) m'.
Proof.
  intros Hs. destruct x as [c img|img res].
  - destruct (Hs img) as (Hr & Hw). unfold receivers in *. cbn [mon_step step_events do_step]. rewrite Hr.
    destruct (inflight s img) as [e|] eqn:E; cbn [option_map map erase is_nil].
    + eexists. split; [reflexivity|]. sim_case Hs img. now rewrite Hw.
    + rewrite N.eqb_refl. eexists. split; [reflexivity|]. sim_case Hs img. now rewrite Hw.
  - destruct (Hs img) as (Hr & Hw). unfold receivers in *. cbn [mon_step step_events do_step]. rewrite Hr.
    destruct (inflight s img) as [e|] eqn:E; cbn [option_map].
    + rewrite erase_broadcast, Hw, ievents_eqb_refl. eexists. split; [reflexivity|].
      sim_case Hs img. now split.
    + cbn [map is_nil]. exists m. split; [reflexivity|]. sim_case Hs img. now rewrite Hr, Hw.
Qed.

Lemma sim_run steps : forall s m, sim s m ->
  exists m', mon_run m steps (map (map erase) (outs s steps)) = Some m' /\ sim (run_from s steps) m'.
Proof.
  induction steps as [|x r IH]; intros s m Hs; cbn.
  - exists m. now split.
  - destruct (sim_step s m x Hs) as (m1 & H1 & Hs1). rewrite H1.
    destruct (IH _ _ Hs1) as (m2 & H2 & Hs2). exists m2. now split.
Qed.

Lemma sim_init : sim init minit.
Proof. intros img. cbn. now split. Qed.

(** The model's observation of *any* schedule satisfies the monitor; in particular that of
    every well-formed one. *)
Theorem monitor_sound_all steps : monitor (steps, model_obs steps) = true.
Proof.
  unfold monitor, model_obs. destruct (sim_run steps init minit sim_init) as (m & Hm & Hs).
  rewrite Hm. rewrite andb_true_iff. split; [|reflexivity].
  apply forallb_forall. intros [i l] Hin. apply in_map_iff in Hin. destruct Hin as (j & Hj & _).
  injection Hj as <- <-. cbn [fst snd]. destruct (Hs j) as (Hr & Hw). fold (run steps) in *.
  rewrite Hw, (proj2 (list_eqb_N_spec _ _) eq_refl). cbn [andb]. rewrite Hr.
  unfold receivers. destruct (inflight (run steps) j); [now rewrite orb_true_r|reflexivity].
Qed.

Theorem monitor_sound steps : wf steps = true -> monitor (steps, model_obs steps) = true.
Proof. intros _. apply monitor_sound_all. Qed.
