(** Correspondence and monitor for C17 (availability probing). *)
From Coq Require Import List Arith ZArith NArith Bool String Ascii Lia.
From PKO Require Import Util Json Probe ProbeProofs.
Import ListNotations.
Local Open Scope string_scope.
Local Open Scope list_scope.

(** What the harness observed: Parse failed at ObjectSetProbe [i] with an error class, or the
    parsed prober returned [success] and messages (mapped to reason codes and attributed to
    ObjectSetProbe indices), every ObjectSetProbe parsed (ParseProbes + ParseSelector, without
    the outer And) and run alone gave [per], and the
    probed object was (not) left unchanged. *)
Inductive obs : Type :=
| OParseErr (i : N) (e : perr)
| ORun (success : bool) (fails : list (N * reason)) (per : list result) (pure : bool).

(** CEL oracle table for the object of the case: rule id -> (NewCELProbe class, result of
    the compiled probe on the object), filled from the real CEL prober. *)
Definition cel_table : Type := list (N * (cel_class * cel_outcome)).

Fixpoint tbl_find (tbl : cel_table) (r : N) : option (cel_class * cel_outcome) :=
  match tbl with
  | [] => None
  | (k, v) :: rest => if N.eqb k r then Some v else tbl_find rest r
  end.

Definition cc_of (tbl : cel_table) (r : N) : cel_class :=
  match tbl_find tbl r with Some (c, _) => c | None => CelCompileErr end.
Definition ce_of (tbl : cel_table) (r : N) (_ : json) : cel_outcome :=
  match tbl_find tbl r with Some (_, v) => v | None => CelErr end.

(** A case: probe list, object, oracle table, observation. *)
Definition case : Type := list osp * json * cel_table * obs.

(** ** The model's observation *)

Definition per_model (tbl : cel_table) (qs : list osp) (o : json) : list result :=
  map (fun q => match parse_group (cc_of tbl) (ce_of tbl) q with
                | inr g => g o
                | inl _ => (false, [RUnknown])
                end) qs.

Definition model (qs : list osp) (o : json) (tbl : cel_table) : obs :=
  match parse (cc_of tbl) (ce_of tbl) qs with
  | inl (i, e) => OParseErr i e
  | inr p => ORun (fst (p o)) (failures (ce_of tbl) qs o) (per_model tbl qs o) true
  end.

(** ** Boolean equalities *)

Definition reason_code (r : reason) : N :=
  match r with
  | RStatusOutdated => 0 | RCondMissing => 1 | RCondMalformed => 2 | RCondOutdated => 3
  | RCondWrongStatus => 4 | RCondNotReported => 5 | RFieldMissingA => 6 | RFieldMissingB => 7
  | RFieldNotEqual => 8 | RCelFalse => 9 | RCelError => 10 | RUnknown => 11
  end%N.

Definition reason_eqb (a b : reason) : bool := N.eqb (reason_code a) (reason_code b).

Lemma reason_eqb_spec a b : reason_eqb a b = true <-> a = b.
Proof. destruct a, b; cbn; split; congruence. Qed.

Definition fail_eqb (a b : N * reason) : bool := N.eqb (fst a) (fst b) && reason_eqb (snd a) (snd b).

Lemma fail_eqb_spec a b : fail_eqb a b = true <-> a = b.
Proof.
  destruct a as [i r], b as [j s]. unfold fail_eqb. cbn. rewrite andb_true_iff, N.eqb_eq, reason_eqb_spec.
  split; [intros [-> ->]; reflexivity|intros H; injection H; auto].
Qed.

Definition result_eqb (a b : result) : bool := Bool.eqb (fst a) (fst b) && list_eqb reason_eqb (snd a) (snd b).

Definition perr_eqb (a b : perr) : bool :=
  match a, b with
  | ECelNotBool, ECelNotBool | ECelCompile, ECelCompile | ESelector, ESelector => true
  | _, _ => false
  end.

(** ** agree: the model's output on the scenario is the implementation's observation.
    Besides the indexed failures also the flat message list of the model's prober is compared
    with the observed messages (their reason codes in order). *)
Definition agree (c : case) : bool :=
  let '(qs, o, tbl, ob) := c in
  match parse (cc_of tbl) (ce_of tbl) qs, ob with
  | inl (i, e), OParseErr j f => N.eqb i j && perr_eqb e f
  | inr p, ORun success fails per pure =>
      Bool.eqb (fst (p o)) success
      && list_eqb reason_eqb (snd (p o)) (map snd fails)
      && list_eqb fail_eqb (failures (ce_of tbl) qs o) fails
      && list_eqb result_eqb (per_model tbl qs o) per
      && pure
  | _, _ => false
  end.

(** ** monitor: the property, evaluated on the observation.
    Independent readings used here: [selects] (kind and label selector read off the API type),
    [og_stale], a path lookup that knows nothing about error classes, and "some entry of the
    probed condition type carries an integer observedGeneration other than
    metadata.generation". *)
Fixpoint ref_lookup (v : json) (path : list string) : option json :=
  match path with
  | [] => Some v
  | k :: r =>
      match v with
      | JObj kvs => match assoc k kvs with Some w => ref_lookup w r | None => None end
      | _ => None
      end
  end.

Definition ref_missing (o : json) (f : string) : bool :=
  match ref_lookup o (path_of f) with Some _ => false | None => true end.

Definition cond_stale_any (o : json) (t : string) : bool :=
  match conditions_of o with
  | Some cs => existsb (stale_entry (generation o) t) cs
  | None => false
  end.

(** What the property demands of the result [r] of ObjectSetProbe [q] (parsed and run alone)
    on [o], clause by clause. *)
Definition k_iff (q : osp) (o : json) (r : result) : bool :=          (* passes iff nothing is reported *)
  Bool.eqb (fst r) (is_nil (snd r)).
Definition k_unselected (q : osp) (o : json) (r : result) : bool :=   (* not selected: passes *)
  selects q o || fst r.
Definition k_stale_status (q : osp) (o : json) (r : result) : bool := (* stale status never passes *)
  implb (selects q o && og_stale o) (negb (fst r)).
Definition k_stale_cond (q : osp) (o : json) (r : result) : bool :=   (* stale condition never passes *)
  implb (selects q o && existsb (fun l => match l with LCond t _ => cond_stale_any o t | _ => false end)
                                (leaves (o_probes q)))
        (negb (fst r)).
Definition k_fe_missing (q : osp) (o : json) (r : result) : bool :=   (* fieldsEqual fails on missing fields *)
  implb (selects q o && existsb (fun l => match l with LFE a b => ref_missing o a || ref_missing o b | _ => false end)
                                (leaves (o_probes q)))
        (negb (fst r)).

(** a selected probe passes iff the status is up to date and each of its probes passes (the
    success FLAG, whatever the messages are) ... *)
Definition k_passes (tbl : cel_table) (q : osp) (o : json) (r : result) : bool :=
  implb (selects q o) (Bool.eqb (fst r) (passes_one (ce_of tbl) q o)).
(** ... and it reports as many failures as it has failing probes (the NUMBER of messages, whatever
    their text is: empty, blank and duplicate messages count) *)
Definition k_count (tbl : cel_table) (q : osp) (o : json) (r : result) : bool :=
  implb (selects q o) (Nat.eqb (List.length (snd r)) (List.length (messages_one (ce_of tbl) q o))).

Definition per_all (k : osp -> json -> result -> bool) (qs : list osp) (o : json) (per : list result) : bool :=
  forallb (fun qr => k (fst qr) o (snd qr)) (combine qs per).

Definition leaf_compiles (tbl : cel_table) (l : leaf) : bool :=
  match l with LCel r => match cc_of tbl r with CelOk => true | _ => false end | _ => true end.

Definition cel_all_ok (tbl : cel_table) (qs : list osp) : bool :=
  forallb (fun q => forallb (leaf_compiles tbl) (leaves (o_probes q))) qs.

Fixpoint index_concat (i : N) (per : list result) : list (N * reason) :=
  match per with
  | [] => []
  | r :: rest => (if fst r then [] else map (pair i) (snd r)) ++ index_concat (i + 1) rest
  end.

(** The clauses of the property on one observation, in a fixed order:
    0 CEL rules must be boolean / Parse refuses nothing else
    1 success is the conjunction over the ObjectSetProbes
    2 all failing probes are reported, in order, and only those
    3 objects a probe does not select pass it
    4 stale status.observedGeneration never passes (selected object)
    5 stale per-condition observedGeneration never passes (selected object, probed type)
    6 fieldsEqual fails on missing fields (selected object)
    7 probing leaves the object unchanged
    8 a selected probe passes iff its status is up to date and all its probes pass (success flag)
    9 a selected probe reports as many failures as it has failing probes (number of messages) *)
Definition clauses (c : case) : list bool :=
  let '(qs, o, tbl, ob) := c in
  match ob with
  | OParseErr _ _ =>
      [negb (cel_all_ok tbl qs && forallb selector_ok qs); true; true; true; true; true; true; true; true; true]
  | ORun success fails per pure =>
      [cel_all_ok tbl qs;
       Nat.eqb (List.length per) (List.length qs) && Bool.eqb success (forallb fst per);
       list_eqb fail_eqb fails (index_concat 0 per) && per_all k_iff qs o per;
       per_all k_unselected qs o per;
       per_all k_stale_status qs o per;
       per_all k_stale_cond qs o per;
       per_all k_fe_missing qs o per;
       pure;
       per_all (k_passes tbl) qs o per;
       per_all (k_count tbl) qs o per]
  end.

Definition monitor (c : case) : bool := forallb (fun b : bool => b) (clauses c).

Definition judge (c : case) : bool * bool := (agree c, monitor c).
(** the same with the individual clauses, to name the clause that failed *)
Definition judge_detail (c : case) : bool * bool * list bool := (agree c, monitor c, clauses c).

(** ** Soundness of the monitor for the model *)

Lemma ref_lookup_nested v path : ref_lookup v path = None <-> (forall w, nested_field v path <> NFound w).
Proof.
  revert v; induction path as [|k r IH]; intros v; cbn.
  - split; [discriminate|]. intros H. exfalso. now apply (H v).
  - destruct v; try (split; [intros _ w; discriminate|reflexivity]).
    destruct (assoc k kvs) as [w|]; [apply IH|split; [intros _ w'; discriminate|reflexivity]].
Qed.

Lemma ref_missing_present o f : ref_missing o f = true -> field_present o f = false.
Proof.
  unfold ref_missing, field_present. destruct (ref_lookup o (path_of f)) eqn:E; [discriminate|]. intros _.
  destruct (ref_lookup_nested o (path_of f)) as [H _]. specialize (H E).
  destruct (nested_field o (path_of f)) as [w| |]; try reflexivity.
  exfalso. now apply (H w).
Qed.

Section Sound.
  Variable tbl : cel_table.
  Notation cc := (cc_of tbl).
  Notation ce := (ce_of tbl).

  Lemma per_model_groups qs gs o :
    Forall2 (fun q g => parse_group cc ce q = inr g) qs gs -> per_model tbl qs o = map (fun q => group_result ce q o) qs.
  Proof.
    unfold per_model. induction 1 as [|q g qs gs Hg _ IH]; [reflexivity|].
    cbn [map]. rewrite IH. apply (f_equal2 (@cons result)); [|reflexivity].
    rewrite Hg. now destruct (parse_group_inr _ _ _ _ Hg) as [Hr _].
  Qed.

  Lemma forallb_fst_groups qs o :
    forallb fst (map (fun q => group_result ce q o) qs) = is_nil (flat_map (fun q => contribution ce q o) qs).
  Proof.
    induction qs as [|q qs IH]; cbn; [reflexivity|]. rewrite is_nil_app, IH, contribution_snd. f_equal.
    apply group_result_wf.
  Qed.

  Lemma failures_index_concat qs : forall i o,
    failures_from ce i qs o = index_concat i (map (fun q => group_result ce q o) qs).
  Proof.
    induction qs as [|q qs IH]; intros i o; cbn; [reflexivity|]. rewrite IH. f_equal.
    unfold group_result. destruct (selects q o); cbn; [|reflexivity]. now destruct (passes_one ce q o).
  Qed.

  Lemma combine_map {A B} (f : A -> B) l : combine l (map f l) = map (fun x => (x, f x)) l.
  Proof. induction l; cbn; [reflexivity|]. now rewrite IHl. Qed.

  Lemma leaf_fails_passes_one q o l :
    In l (leaves (o_probes q)) -> fst (leaf_prober ce l o) = false -> passes_one ce q o = false.
  Proof.
    intros Hl Hf. destruct (passes_one ce q o) eqn:E; [|reflexivity].
    pose proof (passes_one_leaf _ _ _ _ E Hl). congruence.
  Qed.

  Lemma per_all_groups (k : osp -> json -> result -> bool) qs o :
    (forall q, k q o (group_result ce q o) = true) ->
    per_all k qs o (map (fun q => group_result ce q o) qs) = true.
  Proof.
    intros H. unfold per_all. rewrite combine_map. apply forallb_forall. intros [q r] Hin.
    apply in_map_iff in Hin. destruct Hin as (q' & Heq & _). injection Heq as <- <-. apply H.
  Qed.

  Lemma k_iff_group q o : k_iff q o (group_result ce q o) = true.
  Proof. unfold k_iff. rewrite (group_result_wf ce q o). apply eqb_reflx. Qed.

  Lemma k_unselected_group q o : k_unselected q o (group_result ce q o) = true.
  Proof. unfold k_unselected, group_result. now destruct (selects q o). Qed.

  Lemma k_stale_status_group q o : k_stale_status q o (group_result ce q o) = true.
  Proof.
    unfold k_stale_status, group_result, passes_one. destruct (selects q o); [|reflexivity].
    now destruct (og_stale o).
  Qed.

  Lemma k_stale_cond_group q o : k_stale_cond q o (group_result ce q o) = true.
  Proof.
    unfold k_stale_cond, group_result. destruct (selects q o); [|reflexivity]. cbn [andb fst].
    destruct (existsb _ (leaves (o_probes q))) eqn:Ex; [|reflexivity]. cbn.
    apply existsb_exists in Ex. destruct Ex as (l & Hl & Est). destruct l as [t s| |]; try discriminate.
    rewrite (leaf_fails_passes_one q o (LCond t s) Hl); [reflexivity|].
    unfold cond_stale_any in Est. destruct (conditions_of o) as [cs|] eqn:Ec; [|discriminate].
    cbn. now rewrite (cond_probe_stale o t s cs Ec Est).
  Qed.

  Lemma k_passes_group q o : k_passes tbl q o (group_result ce q o) = true.
  Proof. unfold k_passes, group_result. destruct (selects q o); [cbn; apply eqb_reflx|reflexivity]. Qed.

  Lemma k_count_group q o : k_count tbl q o (group_result ce q o) = true.
  Proof. unfold k_count, group_result. destruct (selects q o); [cbn; apply Nat.eqb_refl|reflexivity]. Qed.

  Lemma k_fe_missing_group q o : k_fe_missing q o (group_result ce q o) = true.
  Proof.
    unfold k_fe_missing, group_result. destruct (selects q o); [|reflexivity]. cbn [andb fst].
    destruct (existsb _ (leaves (o_probes q))) eqn:Ex; [|reflexivity]. cbn.
    apply existsb_exists in Ex. destruct Ex as (l & Hl & Em). destruct l as [|a b|]; try discriminate.
    rewrite (leaf_fails_passes_one q o (LFE a b) Hl); [reflexivity|].
    cbn. apply fe_missing_fails. apply orb_true_iff in Em.
    destruct Em as [H|H]; [left|right]; now apply ref_missing_present.
  Qed.

  Lemma cel_leaves_ok_b specs : cel_leaves_ok cc specs <-> forallb (leaf_compiles tbl) (leaves specs) = true.
  Proof.
    unfold cel_leaves_ok. rewrite forallb_forall. split.
    - intros H l Hl. destruct l as [| |r]; try reflexivity. cbn. now rewrite (H r Hl).
    - intros H r Hr. specialize (H _ Hr). cbn in H. now destruct (cc r).
  Qed.

  Lemma cel_all_ok_groups qs gs :
    Forall2 (fun q g => parse_group cc ce q = inr g) qs gs -> cel_all_ok tbl qs = true.
  Proof.
    unfold cel_all_ok. induction 1 as [|q g qs gs Hg _ IH]; cbn; [reflexivity|]. rewrite IH, andb_true_r.
    apply cel_leaves_ok_b. now destruct (parse_group_inr _ _ _ _ Hg).
  Qed.

  Theorem monitor_sound qs o : monitor (qs, o, tbl, model qs o tbl) = true.
  Proof.
    unfold monitor, clauses, model. destruct (parse cc ce qs) as [[i e]|p] eqn:Ep.
    - (* Parse failed: there is a reason *)
      cbn. rewrite andb_true_r. apply negb_true_iff.
      destruct (cel_all_ok tbl qs && forallb selector_ok qs) eqn:E; [|reflexivity]. exfalso.
      apply andb_true_iff in E. destruct E as [Ec Es]. unfold cel_all_ok in Ec. rewrite forallb_forall in Ec, Es.
      destruct (parse_total cc ce qs) as [p Hp]; [|congruence].
      intros q Hq. split; [apply cel_leaves_ok_b; now apply Ec|now apply Es].
    - pose proof (parse_inr _ _ _ _ Ep o) as Hpo.
      unfold parse in Ep. destruct (parse_groups cc ce 0 qs) as [e|gs] eqn:Eg; [discriminate|].
      pose proof (parse_groups_inr _ _ _ _ _ Eg) as HF.
      rewrite (per_model_groups _ _ o HF), (cel_all_ok_groups _ _ HF), Hpo. cbn [fst snd forallb andb].
      rewrite map_length, Nat.eqb_refl, forallb_fst_groups, eqb_reflx.
      rewrite !per_all_groups; auto using k_iff_group, k_unselected_group, k_stale_status_group,
        k_stale_cond_group, k_fe_missing_group, k_passes_group, k_count_group.
      cbn [andb]. rewrite !andb_true_r.
      apply (list_eqb_spec fail_eqb fail_eqb_spec). apply failures_index_concat.
  Qed.
End Sound.

(** ** The callers: one pass of the phase reconciler, and histories of passes *)

(** An item: an object of the phase as it was probed (None: the pass did not find it), the CEL
    oracle table for this object, and whether the implementation recorded it in
    ProbingResult.FailedProbes. *)
Definition item : Type := option json * cel_table * bool.

(** One observed pass: the availabilityProbes of the ObjectSet that was reconciled, the objects of
    its phase, the number of entries of ProbingResult.FailedProbes, and whether the result was zero
    (= the ObjectSet is reported Available). *)
Definition pass_obs : Type := list osp * list item * N * bool.

Definition count_true (l : list bool) : N := N.of_nat (List.length (filter (fun b : bool => b) l)).

(** the model: Parse the probes, run the prober on the object, record iff the flag is false *)
Definition model_failed (qs : list osp) (o : option json) (tbl : cel_table) : option bool :=
  match verdict (cc_of tbl) (ce_of tbl) (qs, [o]) with
  | inr [b] => Some b
  | _ => None
  end.

Definition model_pass (qs : list osp) (objs : list (option json * cel_table)) : option pass_obs :=
  let ms := map (fun ot => model_failed qs (fst ot) (snd ot)) objs in
  if forallb (fun m : option bool => match m with Some _ => true | None => false end) ms then
    let fl := map (fun m : option bool => match m with Some b => b | None => false end) ms in
    Some (qs, map (fun otf => (fst (fst otf), snd (fst otf), snd otf)) (combine objs fl), count_true fl,
          result_is_zero fl)
  else None.

Definition agree_pass (c : pass_obs) : bool :=
  let '(qs, items, n, zero) := c in
  let ms := map (fun it : item => model_failed qs (fst (fst it)) (snd (fst it))) items in
  let fl := map (fun m : option bool => match m with Some b => b | None => false end) ms in
  forallb (fun m : option bool => match m with Some _ => true | None => false end) ms
  && list_eqb Bool.eqb fl (map (fun it : item => snd it) items)
  && N.eqb n (count_true fl)
  && Bool.eqb zero (result_is_zero fl).

(** the property, on the observation only: an object is recorded as failed iff some probe that
    selects it does not pass (reference reading, success flags only); every failed object is
    counted; the result is zero iff nothing failed. About objects the pass did not find the
    property says nothing: the observed flag is taken as it is. *)
Definition ref_failed (qs : list osp) (it : item) : bool :=
  match fst (fst it) with
  | Some o => existsb (fun q => selects q o && negb (passes_one (ce_of (snd (fst it))) q o)) qs
  | None => snd it
  end.

(** Staleness read directly off the object, without evaluating any probe: some ObjectSetProbe
    selects the object and either status.observedGeneration is an integer other than
    metadata.generation, or the ObjectSetProbe has a condition probe of a type of which SOME entry of
    status.conditions (wherever it is in the list) carries an integer observedGeneration other than
    metadata.generation. *)
Definition stale_selected (qs : list osp) (o : json) : bool :=
  existsb (fun q => selects q o
                    && (og_stale o
                        || existsb (fun l => match l with LCond t _ => cond_stale_any o t | _ => false end)
                                   (leaves (o_probes q)))) qs.

Definition stale_item_ok (qs : list osp) (it : item) : bool :=
  match fst (fst it) with
  | Some o => implb (stale_selected qs o) (snd it)
  | None => true
  end.

Definition pass_clauses (c : pass_obs) : list bool :=
  let '(qs, items, n, zero) := c in
  let ex := map (ref_failed qs) items in
  [list_eqb Bool.eqb (map (fun it : item => snd it) items) ex;
   N.eqb n (count_true ex);
   Bool.eqb zero (result_is_zero ex);
   forallb (stale_item_ok qs) items].      (* a selected object with a stale status / stale entry of a probed condition type is recorded *)

Definition monitor_pass (c : pass_obs) : bool := forallb (fun b : bool => b) (pass_clauses c).

Definition judge_pass (c : pass_obs) : bool * bool * list bool := (agree_pass c, monitor_pass c, pass_clauses c).

(** A history: the passes of ONE long-lived controller, in order. Every pass is judged by the
    probes of the ObjectSet it reconciled and the objects it found, nothing else
    (ProbeProofs.history_independent). *)
Definition judge_history (h : list pass_obs) : bool * bool * list bool :=
  (forallb agree_pass h, forallb monitor_pass h,
   [forallb (fun c => nth 0 (pass_clauses c) true) h;
    forallb (fun c => nth 1 (pass_clauses c) true) h;
    forallb (fun c => nth 2 (pass_clauses c) true) h;
    forallb (fun c => nth 3 (pass_clauses c) true) h]).

Lemma model_failed_ref qs o tbl b : model_failed qs o tbl = Some b -> b = ref_failed qs (o, tbl, b).
Proof.
  unfold model_failed, verdict, ref_failed. cbn [fst snd].
  destruct (parse (cc_of tbl) (ce_of tbl) qs) as [e|p] eqn:Ep; [discriminate|].
  rewrite (recorded_iff_fails _ _ _ _ _ Ep). cbn. intros H. injection H as <-. now destruct o.
Qed.

Lemma bool_list_eqb_refl l : list_eqb Bool.eqb l l = true.
Proof. induction l as [|b l IH]; cbn; [reflexivity|]. now rewrite eqb_reflx, IH. Qed.

Lemma stale_passes_one tbl q o :
  og_stale o || existsb (fun l => match l with LCond t _ => cond_stale_any o t | _ => false end) (leaves (o_probes q)) = true ->
  passes_one (ce_of tbl) q o = false.
Proof.
  intros H. apply orb_true_iff in H. destruct H as [H|H].
  - unfold passes_one. now rewrite H.
  - apply existsb_exists in H. destruct H as (l & Hl & Est). destruct l as [t s| |]; try discriminate.
    apply (leaf_fails_passes_one tbl q o (LCond t s) Hl).
    unfold cond_stale_any in Est. destruct (conditions_of o) as [cs|] eqn:Ec; [|discriminate].
    cbn. now rewrite (cond_probe_stale o t s cs Ec Est).
Qed.

Lemma stale_items_ok qs items :
  map (ref_failed qs) items = map (fun it : item => snd it) items -> forallb (stale_item_ok qs) items = true.
Proof.
  induction items as [|[[o tbl] f] items IH]; cbn; [reflexivity|]. intros H. injection H as H1 H2.
  rewrite (IH H2), andb_true_r. unfold stale_item_ok. cbn [fst snd]. destruct o as [o|]; [|reflexivity].
  destruct (stale_selected qs o) eqn:Es; [|reflexivity]. cbn. rewrite <- H1. unfold ref_failed. cbn [fst snd].
  unfold stale_selected in Es. apply existsb_exists in Es. destruct Es as (q & Hq & Hs).
  apply andb_true_iff in Hs. destruct Hs as [Hsel Hst]. apply existsb_exists. exists q. split; [assumption|].
  now rewrite Hsel, (stale_passes_one tbl q o Hst).
Qed.

(** The monitor accepts every pass of the model (whenever Parse yields a prober at all). *)
Theorem monitor_pass_sound qs objs c : model_pass qs objs = Some c -> monitor_pass c = true.
Proof.
  unfold model_pass. destruct (forallb _ _) eqn:Eall; [|discriminate]. intros H. injection H as <-.
  unfold monitor_pass, pass_clauses.
  set (fl := map (fun m : option bool => match m with Some b => b | None => false end)
                 (map (fun ot => model_failed qs (fst ot) (snd ot)) objs)).
  set (items := map (fun otf => (fst (fst otf), snd (fst otf), snd otf)) (combine objs fl)).
  assert (Hex : map (ref_failed qs) items = fl /\ map (fun it : item => snd it) items = fl).
  { subst items fl. induction objs as [|[o tbl] objs IH]; cbn in *; [split; reflexivity|].
    apply andb_true_iff in Eall. destruct Eall as [E1 E2]. destruct (IH E2) as [IH1 IH2]. rewrite IH1, IH2.
    split; [|reflexivity]. f_equal.
    destruct (model_failed qs o tbl) as [b|] eqn:Em; [|discriminate]. symmetry. now apply model_failed_ref. }
  pose proof (stale_items_ok qs items) as Hst. destruct Hex as [E1 E2]. rewrite E1, E2 in Hst.
  rewrite (Hst eq_refl), E1, E2. cbn. now rewrite bool_list_eqb_refl, N.eqb_refl, eqb_reflx.
Qed.

(** ** Witnesses for the non-vacuity examples in props/C17.v *)
Definition ex_cc (_ : N) : cel_class := CelOk.
Definition ex_ce (_ : N) (_ : json) : cel_outcome := CelFalse.
Definition ex_tbl : cel_table := [(0%N, (CelOk, CelFalse))].

Definition ex_q : osp :=
  {| o_probes := [{| p_cond := Some {| c_type := "Available"; c_status := "True" |}; p_fe := None; p_cel := None |};
                  {| p_cond := None; p_fe := Some {| fe_a := ".status.a"; fe_b := ".status.b" |}; p_cel := None |};
                  {| p_cond := None; p_fe := None; p_cel := Some 0%N |}];
     o_sel := {| s_kind := Some ("apps", "Deployment");
                 s_labels := Some {| match_labels := [("app", "x")];
                                     match_exprs := [{| e_key := "tier"; e_op := LNotIn; e_vals := ["db"] |}] |} |} |}.
Definition ex_probes : list osp := [ex_q].

Definition ex_cond (cg : Z) : json :=
  JObj [("type", JStr "Available"); ("status", JStr "True"); ("observedGeneration", JNum cg)].

Definition ex_object (og cg : Z) : json :=
  JObj [("apiVersion", JStr "apps/v1"); ("kind", JStr "Deployment");
        ("metadata", JObj [("generation", JNum 2); ("labels", JObj [("app", JStr "x")])]);
        ("status", JObj [("observedGeneration", JNum og); ("a", JNum 1); ("conditions", JArr [ex_cond cg])])].

Definition ex_configmap : json := JObj [("apiVersion", JStr "v1"); ("kind", JStr "ConfigMap")].

Lemma ex_selected_stale :
  exists p, parse ex_cc ex_ce ex_probes = inr p /\ In ex_q ex_probes /\ selects ex_q (ex_object 1 2) = true
            /\ og_stale (ex_object 1 2) = true /\ p (ex_object 1 2) = (false, [RStatusOutdated]).
Proof. eexists. repeat split; try reflexivity. now left. Qed.

Lemma ex_stale_condition_and_missing_field :
  exists p, parse ex_cc ex_ce ex_probes = inr p
            /\ In (LCond "Available" "True") (leaves (o_probes ex_q))
            /\ In (LFE ".status.a" ".status.b") (leaves (o_probes ex_q))
            /\ conditions_of (ex_object 2 1) = Some [ex_cond 1]
            /\ stale_entry (generation (ex_object 2 1)) "Available" (ex_cond 1) = true
            /\ field_present (ex_object 2 1) ".status.b" = false
            /\ p (ex_object 2 1) = (false, [RCondOutdated; RFieldMissingB; RCelFalse]).
Proof. eexists. repeat split; try reflexivity; cbn; auto. Qed.

Lemma ex_unselected :
  exists p, parse ex_cc ex_ce ex_probes = inr p
            /\ (forall q, In q ex_probes -> selects q ex_configmap = false)
            /\ p ex_configmap = (true, []).
Proof. eexists. repeat split; try reflexivity. intros q [<-|[]]. reflexivity. Qed.

Lemma ex_not_boolean_rejected :
  In (LCel 0%N) (leaves (o_probes ex_q)) /\ parse (fun _ => CelNotBool) ex_ce ex_probes = inl (0%N, ECelNotBool).
Proof. split; [cbn; auto|reflexivity]. Qed.

Lemma ex_monitor_rejects :
  monitor (ex_probes ++ ex_probes, ex_object 2 1, ex_tbl,
           ORun false [(0%N, RCondOutdated); (0%N, RFieldMissingB); (0%N, RCelFalse)]
                [(false, [RCondOutdated; RFieldMissingB; RCelFalse]); (false, [RCondOutdated; RFieldMissingB; RCelFalse])]
                true) = false
  /\ monitor (ex_probes, ex_object 1 2, ex_tbl, ORun true [] [(true, [])] true) = false
  (* the former witness of the duplicate-type defect (fixed by 9b2e4f3): passing it is rejected *)
  /\ monitor (dup_witness_probes, dup_witness_object, [], ORun true [] [(true, [])] true) = false.
Proof. repeat split; reflexivity. Qed.

Lemma ex_monitor_pass_rejects :
  model_pass ex_probes [(Some (ex_object 2 1), ex_tbl)] = Some (ex_probes, [(Some (ex_object 2 1), ex_tbl, true)], 1%N, false)
  /\ monitor_pass (ex_probes, [(Some (ex_object 2 1), ex_tbl, false)], 0%N, true) = false.
Proof. split; reflexivity. Qed.

(** [Progressing; Available current; Available stale] with generation 4: the shape a pre-scan that
    stops at the first entry of another type lets pass. *)
Definition sep_dup_object : json :=
  JObj [("apiVersion", JStr "v1"); ("kind", JStr "ConfigMap");
        ("metadata", JObj [("generation", JNum 4)]);
        ("status", JObj [("conditions", JArr [
           JObj [("type", JStr "Progressing"); ("status", JStr "True")];
           JObj [("type", JStr "Available"); ("status", JStr "True"); ("observedGeneration", JNum 4)];
           JObj [("type", JStr "Available"); ("status", JStr "False"); ("observedGeneration", JNum 3)]])])].

Lemma ex_separated_duplicate_rejected :
  stale_selected dup_witness_probes sep_dup_object = true
  /\ nth 3 (pass_clauses (dup_witness_probes, [(Some sep_dup_object, [], false)], 0%N, true)) true = false
  /\ nth 5 (clauses (dup_witness_probes, sep_dup_object, [], ORun true [] [(true, [])] true)) true = false
  /\ model_pass dup_witness_probes [(Some sep_dup_object, [])]
     = Some (dup_witness_probes, [(Some sep_dup_object, [], true)], 1%N, false).
Proof. repeat split; reflexivity. Qed.
