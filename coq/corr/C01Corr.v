(** C01 monitor: collision protection evaluated on what the implementation did in one pass
    (harness mode "phase"), together with PhaseCorr.agree. *)
From Coq Require Import List NArith ZArith Bool.
From PKO Require Import Util Base Owner OwnerProofs Api Phase AdoptionProofs AdoptProofs.
From PKOCorr Require Import PhaseCorr.
Import ListNotations.
Local Open Scope N_scope.

Section Mon.
  Variable c : pcase.
  Let s := flavor_strat (pc_flavor c).
  Let ow := pc_owner c.
  Let key (p : pobj) := desired_key ow p.
  Let perm (o : obj) (p : pobj) := permitted s (pc_force c) ow o (pc_prev c) (po_cp p).
  Let quiet := is_nil (pc_between c).     (* no third party between read and write *)

  (** m1: every write is justified by the version the pass read (rollout: absent, already controlled,
      or adoption permitted; teardown: only controlled objects are deleted). *)
  Definition ev_okb (e : ev) : bool :=
    if pc_teardown c then
      match e with
      | EDelete _ rd _ _ _ _ => is_controller s (ow_id ow) rd
      | ERelease _ _ _ _ => true          (* governed by C05 *)
      | EApply _ _ _ _ => false
      end
    else
      match e with
      | EApply k rd _ _ =>
          negb (ow_paused ow) &&
          existsb (fun p => okey_eqb (key p) k &&
                            match rd with None => true | Some o => is_controller s (ow_id ow) o || perm o p end) (pc_objects c)
      | _ => false
      end.
  Definition m1 : bool := forallb ev_okb (pc_events c).

  (** m2: an existing object that is not controlled and may not be adopted is identical afterwards and
      named by no request. *)
  Definition m2 : bool :=
    negb quiet || pc_teardown c ||
    forallb (fun p =>
      match lookup (key p) (pc_store c) with
      | None => true
      | Some o =>
          is_controller s (ow_id ow) o ||
          existsb (fun q => okey_eqb (key q) (key p) && perm o q) (pc_objects c) ||
          (option_eqb obj_eqb (lookup (key p) (pc_post c)) (Some o) &&
           forallb (fun e => negb (okey_eqb (ev_key e) (key p))) (pc_events c))
      end) (pc_objects c).

  Definition must_refuseb (p : pobj) (o : obj) : bool :=
    negb (is_controller s (ow_id ow) o) && negb (perm o p) && negb (newer ow o) && negb (rev_unparsable o).

  (** m3: a refusal is reported (the call returns a collision error, which the controller turns into
      Available=False/CollisionDetected) and a collision error is only returned for a refusal. *)
  Definition m3 : bool :=
    negb quiet || pc_teardown c || ow_paused ow || negb (nodupb okey_eqb (map key (pc_objects c))) ||
    match pc_res c with
    | OOk _ _ => forallb (fun p => match lookup (key p) (pc_store c) with Some o => negb (must_refuseb p o) | None => true end) (pc_objects c)
    | OErr (Some ErrNotPrevious) | OErr (Some ErrRevCollision) =>
        existsb (fun p => match lookup (key p) (pc_store c) with Some o => must_refuseb p o | None => false end) (pc_objects c)
    | _ => true
    end.

  (** m4: a permitted adoption is carried out: after a completed pass the owner controls the object. *)
  Definition m4 : bool :=
    negb quiet || pc_teardown c || ow_paused ow || negb (nodupb okey_eqb (map key (pc_objects c))) ||
    match pc_res c with
    | OOk _ _ =>
        forallb (fun p =>
          match lookup (key p) (pc_store c) with
          | Some o =>
              is_controller s (ow_id ow) o || negb (perm o p) || negb (obj_wfb s (ow_id ow) o) ||
              negb (match s with Native => validate_owner (ow_id ow) (k_ns (key p)) | Annot => true end) ||
              match lookup (key p) (pc_post c) with Some o' => is_controller s (ow_id ow) o' | None => false end
          | None => true
          end) (pc_objects c)
    | _ => true
    end.

  Definition monitor : bool := m1 && m2 && m3 && m4.
End Mon.

Definition judge (c : pcase) : bool * bool := (agree c, monitor c).

(** m3r: a refusal the pass reaches is reported. Where no third party acts and nothing is injected, the model's
    pass ends in a collision error exactly when the phase loop reaches a listed object that must be refused
    (props/C01.v C01_collision_error_sound names that object); the implementation's error must then be a collision
    error as well - it is what UpdateObjectSetOrPhaseStatusFromError recognises and turns into
    Available=False/CollisionDetected. Consults the (fault-free) model, hence kept out of [monitor], which also
    judges the fault stages. *)
Definition ores_collision (r : ores) : bool :=
  match r with OErr (Some ErrNotPrevious) | OErr (Some ErrRevCollision) => true | _ => false end.
Definition m3r (c : pcase) : bool :=
  negb (is_nil (pc_between c)) || pc_teardown c ||
  negb (ores_collision (snd (model_run c))) || ores_collision (pc_res c).
Definition judge_r (c : pcase) : bool * bool := (agree c, monitor c && m3r c).
