(** C01 monitor (placeholder: agreement only until the monitor is written). *)
From Coq Require Import List NArith ZArith Bool.
From PKO Require Import Util Base Owner Api Phase.
From PKOCorr Require Import PhaseCorr.
Definition judge (c : pcase) : bool * bool := (agree c, true).
