(** Property monitors evaluated on one observed ObjectSet controller pass (harness mode "objectset"). *)
From Coq Require Import List NArith ZArith Bool.
From PKO Require Import Util Base Owner Api Phase ObjectSet.
From PKO Require Import AdoptionProofs.
From PKOCorr Require Import PhaseCorr SetCorr C01Corr C02Corr.
From PKOCorr Require C15Corr.
Import ListNotations.
Local Open Scope N_scope.

Section Mon.
  Variable c : scase.

  Definition target : option oset := find_set (sc_sets c) (sc_kind c) (sc_ns c) (sc_name c).
  Definition target' : option oset := find_set (sc_sets' c) (sc_kind c) (sc_ns c) (sc_name c).

  Definition members : list ev := flat_map (fun e => match e with SMember x => [x] | _ => [] end) (sc_events c).
  Definition statuses : list (list cond * list okey * option N * bool) :=
    flat_map (fun e => match e with SMeta (MStatus _ cs co _ f ok) => [(cs, co, f, ok)] | _ => [] end) (sc_events c).

  Definition is_activeb (m : oset) : bool :=
    negb (cond_true (os_conds m) CArchived) && negb (os_deleting m) && negb (lifecycle_eqb (os_life m) LArchived).
  Definition is_goingb (m : oset) : bool :=
    negb (cond_true (os_conds m) CArchived) && (os_deleting m || lifecycle_eqb (os_life m) LArchived).

  Definition locals (m : oset) : list phase := filter (fun ph => negb (ph_class ph)) (os_phases m).
  Definition pkeys (m : oset) (ph : phase) : list okey := map (spec_key m) (ph_objects ph).
  Definition all_keys (m : oset) : list okey := flat_map (pkeys m) (locals m).
  Definition keys_nodup (m : oset) : bool := nodupb okey_eqb (all_keys m).

  (** "found present": for a paused ObjectSet, found in the cache (which only sees labelled objects). *)
  Definition obj_okb (m : oset) (st : store) (k : okey) : bool :=
    match lookup k st with
    | Some o => probe_ok k o && (negb (lifecycle_eqb (os_life m) LPaused) || o_cache o)
    | None => false
    end.
  Definition phase_okb (m : oset) (st : store) (ph : phase) : bool := forallb (obj_okb m st) (pkeys m ph).

  (** index of the (first) local phase naming key k *)
  Fixpoint phase_index (m : oset) (phs : list phase) (k : okey) (i : nat) : option nat :=
    match phs with
    | [] => None
    | ph :: r => if existsb (okey_eqb k) (pkeys m ph) then Some i else phase_index m r k (S i)
    end.

  (** C03: a request on an object of phase j implies all earlier phases are complete (in the post store);
      the phase named as failing is the first incomplete one and nothing after it is touched. *)
  Definition m03 : bool :=
    match target with
    | None => true
    | Some m =>
        negb (is_activeb m) || negb (keys_nodup m) ||
        (forallb (fun e =>
           match phase_index m (locals m) (ev_key e) O with
           | None => false
           | Some j => forallb (phase_okb m (sc_post c)) (firstn j (locals m))
           end) members &&
         forallb (fun s =>
           let '(_, _, fph, _) := s in
           match fph with
           | None => true
           | Some n =>
               match find (fun ph => ph_name ph =? n) (os_phases m) with
               | None => false
               | Some ph =>
                   if ph_class ph then
                     (* a delegated phase is named only if its phase object was not seen Available for its generation *)
                     negb (C15Corr.seen_available (C15Corr.join m ph) (sc_events c))
                   else
                   negb (phase_okb m (sc_post c) ph) &&
                   match phase_index m (locals m) (match pkeys m ph with k :: _ => k | [] => Build_okey 0 0 0 end) O with
                   | Some j => forallb (phase_okb m (sc_post c)) (firstn j (locals m)) &&
                               forallb (fun e => match phase_index m (locals m) (ev_key e) O with
                                                 | Some i => Nat.leb i j | None => false end) members
                   | None => true
                   end
               end
           end) statuses)
    end.

  Definition td_doneb (m : oset) (st : store) (p : pobj) : bool :=
    negb (is_nil (preflight_obj FObjectSet (as_owner m) false p)) ||
    match lookup (spec_key m p) st with
    | None => true
    | Some o => negb (is_controller Native (os_id m) o)
    end.
  Definition phase_doneb (m : oset) (st : store) (ph : phase) : bool := forallb (td_doneb m st) (ph_objects ph).

  (** C04: reverse order and finalizer. *)
  Definition m04 : bool :=
    match target with
    | None => true
    | Some m =>
        negb (is_goingb m) || negb (keys_nodup m) ||
        (forallb (fun e =>
           match phase_index m (locals m) (ev_key e) O with
           | None => false
           | Some j => forallb (phase_doneb m (sc_post c)) (skipn (S j) (locals m))
           end) members &&
         (* finalizer removed or Archived=True reported => everything done (orphan deletion excepted) *)
         (negb (os_fin m) || os_orphan m ||
          (negb (existsb (fun e => match e with SMeta (MFinalizer false _) => true | _ => false end) (sc_events c) ||
                 existsb (fun s => let '(cs, _, _, _) := s in cond_true cs CArchived) statuses) ||
           forallb (phase_doneb m (sc_post c)) (locals m))) &&
         (* until then the finalizer stays and Archived is reported False for an archived set *)
         (negb (os_fin m) || os_orphan m || forallb (phase_doneb m (sc_post c)) (locals m) ||
          (match target' with Some m' => os_fin m' | None => false end &&
           (negb (lifecycle_eqb (os_life m) LArchived) ||
            forallb (fun s => let '(cs, _, _, _) := s in
                     match find_cond cs CArchived with Some cd => cstatus_eqb (cd_status cd) SFalse | None => false end) statuses))) &&
         (* orphan: nothing is deleted (C05) *)
         (negb (os_orphan m) || is_nil members))
    end.

  (** C06: status never claims more than the pass observed. *)
  Definition m06 : bool :=
    match target with
    | None => true
    | Some m =>
        (* archived short-circuit *)
        (negb (cond_true (os_conds m) CArchived) || is_nil (sc_events c)) &&
        (* Succeeded never withdrawn *)
        (negb (cond_true (os_conds m) CSucceeded) ||
         match target' with Some m' => cond_true (os_conds m') CSucceeded | None => true end) &&
        forallb (fun s =>
          let '(cs, co, fph, ok) := s in
          (* deleting / archiving: no Available condition; Archived=True => empty controllerOf *)
          (negb (is_goingb m) ||
           (match find_cond cs CAvailable with None => true | Some _ => false end &&
            (negb (cond_true cs CArchived) || is_nil co))) &&
          (negb (is_activeb m) || negb (keys_nodup m) ||
           ((* Available newly True *)
            match find_cond cs CAvailable with
            | Some cd =>
                negb (cstatus_eqb (cd_status cd) STrue) ||
                option_eqb cond_eqb (find_cond (os_conds m) CAvailable) (Some cd) ||
                (Z.eqb (cd_gen cd) (os_gen m) && match fph with None => true | Some _ => false end &&
                 forallb (phase_okb m (sc_post c)) (locals m) &&
                 forallb (fun k => match lookup k (sc_post c) with Some o => is_controller Native (os_id m) o | None => false end ||
                                   (* or reported by a delegated phase's phase object, controlled by the ObjectSet, read in this pass *)
                                   existsb (fun ph => match C15Corr.last_seen (C15Corr.join m ph) (sc_events c) None with
                                                      | Some (Some cur) => controlled_by_uid (op_owners cur) (oi_uid (os_id m)) &&
                                                                           existsb (okey_eqb k) (op_ctrlof cur)
                                                      | _ => false end) (C15Corr.delegated m)) co &&
                 forallb (fun k => match lookup k (sc_post c) with
                                   | Some o => negb (is_controller Native (os_id m) o) || existsb (okey_eqb k) co
                                   | None => true end) (all_keys m))
            | None => true
            end &&
            (* Succeeded newly True only while Available and not InTransition *)
            (negb (cond_true cs CSucceeded) || cond_true (os_conds m) CSucceeded ||
             (cond_true cs CAvailable && match find_cond cs CInTransition with None => true | Some _ => false end)) &&
            (* InTransition cleared only if every spec object is in controllerOf *)
            (match find_cond cs CInTransition with
             | Some _ => true
             | None => match find_cond (os_conds m) CInTransition with
                       | None => true     (* was not set: nothing is being cleared *)
                       | Some _ => forallb (fun k => existsb (okey_eqb k) co) (map (spec_key m) (all_objects m)) ||
                                   (* re-sent unchanged statuses do not clear anything *) false
                       end
             end)))) statuses
    end.

  (** C09: a paused ObjectSet sends no member request; members are unchanged. *)
  Definition m09 : bool :=
    match target with
    | None => true
    | Some m =>
        negb (is_activeb m) || negb (lifecycle_eqb (os_life m) LPaused) ||
        (is_nil members && store_eqb (sc_store c) (sc_post c))
    end.

  (** C11: duplicates and namespace bounds. [same object twice] is judged on the object identity, i.e.
      after the namespace default is applied. *)
  Definition m11 : bool :=
    match target with
    | None => true
    | Some m =>
        (negb (is_activeb m) || keys_nodup m || is_nil members) &&
        (* a namespaced ObjectSet never writes outside its namespace or to cluster-scoped kinds *)
        ((oi_ns (os_id m) =? 0) ||
         forallb (fun e => (k_ns (ev_key e) =? oi_ns (os_id m)) &&
                           match gk_scope (k_gk (ev_key e)) with Some true => true | _ => false end) members) &&
        (* no write in a pass in which some object of the phase being rolled out violates preflight *)
        (negb (is_activeb m) ||
         forallb (fun e =>
           match phase_index m (locals m) (ev_key e) O with
           | None => false
           | Some j => match nth_error (locals m) j with
                       | Some ph => forallb (fun p => is_nil (preflight_obj FObjectSet (as_owner m) false p)) (ph_objects ph)
                       | None => false end
           end) members)
    end.

  (** C11: "violations ... are retried": an active pass of an ObjectSet that lists an object twice, or whose first
      (in-process) phase contains an object violating preflight, ends with a requeue (or an error, which the
      workqueue retries with backoff). *)
  Definition m11r : bool :=
    match target with
    | None => true
    | Some m =>
        negb (is_activeb m) || Z.eqb (os_revision m) 0 ||
        negb (Nat.ltb 0 (dup_count [] (map (spec_key m) (all_objects m))) ||
              match os_phases m with
              | ph :: _ => negb (ph_class ph) &&
                           existsb (fun p => negb (is_nil (preflight_obj FObjectSet (as_owner m) false p))) (ph_objects ph)
              | [] => false end) ||
        match sc_res c with SDone true | SError => true | _ => false end
    end.

  (** C01 at the controller level: a collision error is reported as Available=False/CollisionDetected for
      the current generation, with a requeue. *)
  Definition m01 : bool :=
    match target with
    | None => true
    | Some m =>
        forallb (fun s => let '(cs, _, _, _) := s in
          match find_cond cs CAvailable with
          | Some cd => negb (creason_eqb (cd_reason cd) RCollisionDetected) ||
                       option_eqb cond_eqb (find_cond (os_conds m) CAvailable) (Some cd) ||
                       (cstatus_eqb (cd_status cd) SFalse && Z.eqb (cd_gen cd) (os_gen m))
          | None => true end) statuses
    end.
End Mon.

(** The pass as an observation of the delegation monitors (C15Corr): the same clauses for delegated phases. *)
Definition as_dobs (c : scase) : C15Corr.dobs :=
  {| C15Corr.ds_step := C15Corr.DSet (sc_kind c) (sc_ns c) (sc_name c); C15Corr.ds_res := sc_res c;
     C15Corr.ds_events := sc_events c; C15Corr.ds_rv := sc_rv' c; C15Corr.ds_uid := sc_uid' c;
     C15Corr.ds_pre_set := find_set (sc_sets c) (sc_kind c) (sc_ns c) (sc_name c); C15Corr.ds_pre_phase := None |}.

(** C03 with delegated phases: a later phase is written only after every earlier delegated phase's phase object was
    seen Available for its current generation; Available=True only if all were. *)
Definition m03d (c : scase) : bool := C15Corr.m_gate (as_dobs c) && C15Corr.m_relay (as_dobs c).
(** C04 / C05 with delegated phases: reverse order incl. phase objects, finalizer held until they are gone, nothing
    deleted under orphan propagation. *)
Definition m04d (c : scase) : bool := C15Corr.m_teardown (as_dobs c).
(** C06 with delegated phases: Available=True only from phase objects read in this pass, controlled by the
    ObjectSet, Available for their own generation. *)
Definition m06d (c : scase) : bool := C15Corr.m_relay (as_dobs c) && C15Corr.m_own (as_dobs c).

(** C01 / C02 at the controller level: the member requests of an active pass of an ObjectSet with a revision are
    judged by the phase-level monitors (C01Corr m1: every write justified by the version read; m2: objects that may
    not be adopted are untouched; C02Corr: handover only forward, one controller, owner's revision recorded) on the
    phase case synthesised from the controller's own inputs: the previous revisions are those the stored ObjectSets
    give for spec.previous (so the real PreviousRevisionLookup and the wiring of the controller are inside the run). *)
Definition as_pcase (c : scase) (m : oset) : pcase :=
  {| pc_flavor := FObjectSet; pc_force := sc_force c; pc_owner := as_owner m; pc_prev := lookup_prev (sc_sets c) m;
     pc_store := sc_store c; pc_rv := sc_rv c; pc_uid := sc_uid c; pc_teardown := false;
     pc_objects := flat_map ph_objects (locals m); pc_between := [];
     pc_res := OErr None; pc_events := members c; pc_post := sc_post c; pc_rv' := sc_rv' c; pc_uid' := sc_uid' c |}.

Definition judged_active (c : scase) (m : oset) : bool :=
  is_activeb m && keys_nodup m && negb (Z.eqb (os_revision m) 0).

Definition must_refuse_s (c : scase) (m : oset) (p : pobj) (o : obj) : bool :=
  negb (is_controller Native (os_id m) o) &&
  negb (AdoptionProofs.permitted Native (sc_force c) (as_owner m) o (lookup_prev (sc_sets c) m) (po_cp p)) &&
  negb (AdoptionProofs.newer (as_owner m) o) && negb (AdoptionProofs.rev_unparsable o).

(** a collision is reported only for a refusal: some listed object exists, is not controlled and may not be adopted *)
Definition m01c (c : scase) : bool :=
  match target c with
  | None => true
  | Some m =>
      negb (judged_active c m) || lifecycle_eqb (os_life m) LPaused ||
      forallb (fun s => let '(cs, _, _, _) := s in
        match find_cond cs CAvailable with
        | Some cd => negb (creason_eqb (cd_reason cd) RCollisionDetected) ||
                     option_eqb cond_eqb (find_cond (os_conds m) CAvailable) (Some cd) ||
                     existsb (fun p => match lookup (spec_key m p) (sc_store c) with
                                       | Some o => must_refuse_s c m p o | None => false end)
                             (flat_map ph_objects (locals m))
        | None => true end) (statuses c)
  end.

Definition m01s (c : scase) : bool :=
  m01 c && m01c c &&
  match target c with
  | Some m => negb (judged_active c m) || (C01Corr.m1 (as_pcase c m) && C01Corr.m2 (as_pcase c m))
  | None => true end.
Definition m02s (c : scase) : bool :=
  match target c with
  | Some m => negb (judged_active c m) || C02Corr.monitor (as_pcase c m)
  | None => true end.
Definition judge01s (c : scase) : bool * bool := (agree c, m01s c).
Definition judge02s (c : scase) : bool * bool := (agree c, m02s c).

Definition judge03 (c : scase) : bool * bool := (agree c, m03 c && m03d c).
Definition judge04 (c : scase) : bool * bool := (agree c, m04 c && m04d c).
Definition judge05s (c : scase) : bool * bool := (agree c, m04d c && match target c with Some m => negb (is_goingb m) || negb (os_orphan m) || is_nil (members c) | None => true end).
Definition judge06 (c : scase) : bool * bool := (agree c, m06 c && m06d c).
(** C09 with delegated phases: the pause state is handed to every phase object the phase loop reached ([m09d]);
    [m09d_all]: to every phase object of the ObjectSet, also those behind the phase the pass stopped at. *)
Definition m09d (c : scase) : bool := C15Corr.m_pause (as_dobs c).
Definition m09d_all (c : scase) : bool := C15Corr.m_pause_all (as_dobs c).
Definition judge09 (c : scase) : bool * bool * bool := (agree c, m09 c && m09d c, m09d_all c).
Definition judge11 (c : scase) : bool * bool := (agree c, m11 c && m11r c).
Definition judge_all (c : scase) : list bool := [agree c; m01 c; m03 c && m03d c; m04 c && m04d c; m06 c && m06d c; m09 c; m11 c].
