(** A permitted adoption is carried out (C01) and leaves exactly one controller, the adopting
    owner, with the former owners demoted and the revision raised to the owner's (C02). *)
From Coq Require Import List NArith ZArith Bool Lia.
From PKO Require Import Util Base BaseProofs Owner OwnerProofs Api ApiProofs Phase AdoptionProofs PhaseProofs.
Import ListNotations.
Local Open Scope N_scope.

Lemma find_ctrl_release l : get_controller_l (release_l l) = None.
Proof. unfold get_controller_l, release_l. induction l as [|x xs IH]; [reflexivity|]. cbn. exact IH. Qed.

Lemma existsb_foreign_ctrl_release ow l : existsb (fun r => negb (same_obj r ow) && r_ctrl r) (release_l l) = false.
Proof. unfold release_l. induction l as [|x xs IH]; [reflexivity|]. cbn. rewrite andb_false_r. exact IH. Qed.

Lemma merge_refs_self l : NoDup (map r_uid l) -> merge_refs l l = l.
Proof.
  intros Hnd. pose proof (merge_refs_pointwise (fun r => r) l [] Hnd (fun x => eq_refl)) as H.
  rewrite map_id, app_nil_r in H. apply H. intros x [].
Qed.

(** Object-level well-formedness needed by the carried-out theorem: what any object admitted by the
    API server satisfies (unique owner UIDs, at most one controller reference) and UIDs identifying
    owners consistently. *)
Definition obj_wf (s : strat) (ow : oid) (o : obj) : Prop :=
  NoDup (map r_uid (o_owners o)) /\ refs_valid (o_owners o) = true /\
  match s with Native => refs_wf ow (o_owners o) | Annot => True end.

Definition obj_wfb (s : strat) (ow : oid) (o : obj) : bool :=
  nodupb N.eqb (map r_uid (o_owners o)) && refs_valid (o_owners o) &&
  match s with Native => refs_wfb ow (o_owners o) | Annot => true end.

Lemma obj_wfb_spec s ow o : obj_wfb s ow o = true -> obj_wf s ow o.
Proof.
  unfold obj_wfb, obj_wf. rewrite !andb_true_iff. intros [[H1 H2] H3]. split; [|split; [assumption|]].
  - apply (nodupb_spec N.eqb N.eqb_eq) in H1. exact H1.
  - destruct s; [now apply refs_wfb_spec|exact I].
Qed.

Section Adopt.
  Variable c : cfg.
  Let s := flavor_strat (c_flavor c).

  Definition controllers (st : strat) (o : obj) : list oref := filter r_ctrl (refs st o).

  Lemma rec_obj_adopt w ow prev p o :
    ow_paused ow = false ->
    (match s with Native => validate_owner (ow_id ow) (k_ns (key_of ow p)) = true | Annot => True end) ->
    lookup (key_of ow p) (w_store w) = Some o ->
    is_controller s (ow_id ow) o = false ->
    permitted s (c_force c) ow o prev (po_cp p) = true ->
    obj_wf s (ow_id ow) o ->
    exists w' o',
      reconcile_object c idw w ow prev p = (w', [EApply (key_of ow p) (Some o) (Some o) (POk o')], ROk o') /\
      lookup (key_of ow p) (w_store w') = Some o' /\
      is_controller s (ow_id ow) o' = true /\
      controllers s o' = [ctrl_ref (ow_id ow)] /\
      o_rev o' = RevNum (ow_rev ow) /\ o_uid o' = o_uid o /\
      (forall r, In r (refs s o) -> same_gkn r (ow_id ow) = false -> s = Native -> In (demote r) (refs s o')).
  Proof.
    intros Hpa Hval El Hc Hp (Hnd & Hvalid & Hwf).
    unfold reconcile_object. fold s. fold (key_of ow p).
    assert (Hd : exists dref, set_controller_l s (ow_id ow) (k_ns (key_of ow p)) [] = Some dref).
    { unfold set_controller_l. destruct s; [rewrite Hval; cbn|cbn]; eauto. }
    destruct Hd as [dref ->]. rewrite Hpa, cur_lookup, El.
    rewrite (proj2 (check_adopt_iff s (c_force c) ow o prev (po_cp p) Hc) Hp).
    unfold do_apply, idw, api_get. rewrite El.
    destruct s eqn:Es.
    - (* native *)
      unfold set_controller_l. rewrite Hval. cbn [negb]. cbn [refs]. rewrite find_ctrl_release.
      set (l := upsert_ref (fun x => same_gkn x (ow_id ow)) (ctrl_ref (ow_id ow)) (release_l (o_owners o))).
      destruct (adopt_controllers (ow_id ow) (o_owners o) Hwf) as (Hone & Hdem & Hic). fold l in Hone, Hdem, Hic.
      pose proof (merge_adopt_eq (ow_id ow) (o_owners o) Hwf) as Hm. cbn zeta in Hm. fold l in Hm.
      unfold api_apply. rewrite El.
      assert (Ho : o_owners (apply_to (applied_for c ow p l) o) = l) by (cbn; exact Hm).
      assert (Hv : refs_valid (o_owners (apply_to (applied_for c ow p l) o)) = true).
      { rewrite Ho. unfold refs_valid. rewrite Hone. reflexivity. }
      rewrite Hv. cbn [negb].
      destruct (obj_eqb (apply_to (applied_for c ow p l) o) o) eqn:Eq.
      + apply obj_eqb_spec in Eq. exists w, o. split; [reflexivity|]. split; [assumption|].
        assert (Hoo : o_owners o = l) by (rewrite <- Eq at 1; exact Ho).
        assert (Hrev : o_rev o = RevNum (ow_rev ow)) by (rewrite <- Eq at 1; reflexivity).
        unfold is_controller, controllers. cbn [refs]. rewrite Hoo. repeat split; try assumption; try reflexivity.
        intros r Hin Hr _. apply Hdem; [|assumption]. now rewrite Hoo.
      + eexists _, _. split; [reflexivity|]. cbn [w_store]. split; [apply lookup_upsert_same|].
        assert (Ho' : o_owners (set_rv (apply_to (applied_for c ow p l) o) (w_rv w)) = l) by exact Ho.
        unfold is_controller, controllers. cbn [refs]. rewrite Ho'.
        repeat split; try assumption; try reflexivity. intros r Hin Hr _. now apply Hdem.
    - (* annotation *)
      unfold set_controller_l. cbn [refs]. rewrite existsb_foreign_ctrl_release.
      unfold api_apply. rewrite El.
      assert (Hself : merge_refs (o_owners o) (o_owners o) = o_owners o) by now apply merge_refs_self.
      assert (Hv : refs_valid (o_owners (apply_to (applied_for c ow p (o_owners o)) o)) = true) by (cbn; now rewrite Hself).
      rewrite Hv. cbn [negb].
      assert (Ha : o_aowners (apply_to (applied_for c ow p (o_owners o)) o) = [ctrl_ref (ow_id ow)]).
      { cbn. unfold applied_for. fold s. rewrite Es. reflexivity. }
      destruct (obj_eqb (apply_to (applied_for c ow p (o_owners o)) o) o) eqn:Eq.
      + apply obj_eqb_spec in Eq. exists w, o. split; [reflexivity|]. split; [assumption|].
        assert (Hoo : o_aowners o = [ctrl_ref (ow_id ow)]) by (rewrite <- Eq at 1; exact Ha).
        assert (Hrev : o_rev o = RevNum (ow_rev ow)) by (rewrite <- Eq at 1; reflexivity).
        unfold is_controller, controllers. cbn [refs]. rewrite Hoo. cbn.
        rewrite same_obj_ctrl_ref. repeat split; try reflexivity; try assumption. intros; discriminate.
      + eexists _, _. split; [reflexivity|]. cbn [w_store]. split; [apply lookup_upsert_same|].
        assert (Ha' : o_aowners (set_rv (apply_to (applied_for c ow p (o_owners o)) o) (w_rv w)) = [ctrl_ref (ow_id ow)]) by exact Ha.
        unfold is_controller, controllers. cbn [refs]. rewrite Ha'. cbn.
        rewrite same_obj_ctrl_ref. repeat split; try reflexivity. intros; discriminate.
  Qed.
End Adopt.

Section AdoptPhase.
  Variable c : cfg.
  Let s := flavor_strat (c_flavor c).

  Definition adopted (ow : owner) (o o' : obj) : Prop :=
    is_controller s (ow_id ow) o' = true /\ controllers s o' = [ctrl_ref (ow_id ow)] /\
    o_rev o' = RevNum (ow_rev ow) /\ o_uid o' = o_uid o /\
    (forall r, In r (refs s o) -> same_gkn r (ow_id ow) = false -> s = Native -> In (demote r) (refs s o')).

  Lemma rec_objs_adopt ow prev ps : forall w acc failed w' evs a f,
    reconcile_objects c idw w ow prev ps acc failed = (w', evs, PhOk a f) ->
    ow_paused ow = false ->
    NoDup (map (key_of ow) ps) ->
    forall p o, In p ps ->
      (match s with Native => validate_owner (ow_id ow) (k_ns (key_of ow p)) = true | Annot => True end) ->
      lookup (key_of ow p) (w_store w) = Some o ->
      is_controller s (ow_id ow) o = false ->
      permitted s (c_force c) ow o prev (po_cp p) = true ->
      obj_wf s (ow_id ow) o ->
      exists o', lookup (key_of ow p) (w_store w') = Some o' /\ adopted ow o o'.
  Proof.
    induction ps as [|p ps IH]; intros w acc failed w' evs a f H Hpa Hnd p0 o Hin Hval El Hc Hp Hwf; [contradiction|].
    cbn in H. inversion Hnd as [|? ? Hnotin Hnd']; subst.
    destruct Hin as [<-|Hin].
    - destruct (rec_obj_adopt c w ow prev p o Hpa Hval El Hc Hp Hwf) as (w1 & o' & E1 & El1 & Had).
      fold (key_of ow p) in H. rewrite E1 in H.
      destruct (reconcile_objects c idw w1 ow prev ps _ _) as [[w2 e2] r2] eqn:E2. injection H as <- <- ->.
      exists o'. split; [|exact Had].
      destruct (rec_objs_frame c ow prev (key_of ow p) ps _ _ _ _ _ _ E2) as [Hf _].
      + intros p1 Hin1 Heq. apply Hnotin. rewrite <- Heq. now apply in_map.
      + now rewrite Hf.
    - destruct (reconcile_object c idw w ow prev p) as [[w1 e1] r1] eqn:E1.
      assert (Hne : key_of ow p0 <> key_of ow p).
      { intros Heq. apply Hnotin. rewrite <- Heq. now apply in_map. }
      assert (El1 : lookup (key_of ow p0) (w_store w1) = Some o).
      { rewrite (rec_obj_frame c _ _ _ _ _ _ _ (key_of ow p0) E1); assumption. }
      destruct r1 as [o1| |e]; [| |discriminate];
        destruct (reconcile_objects c idw w1 ow prev ps _ _) as [[w2 e2] r2] eqn:E2; injection H as <- <- ->;
        eapply (IH _ _ _ _ _ _ _ E2 Hpa Hnd' p0 o Hin Hval El1 Hc Hp Hwf).
  Qed.
End AdoptPhase.
