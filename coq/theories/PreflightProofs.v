(** C11 at the phase level: nothing is written unless every object of the phase passed preflight, and
    namespaced owners never write outside their namespace or to cluster-scoped kinds. C09: a paused
    owner writes nothing. *)
From Coq Require Import List NArith ZArith Bool Lia.
From PKO Require Import Util Base BaseProofs Owner Api ApiProofs Phase PhaseProofs TeardownProofs.
Import ListNotations.
Local Open Scope N_scope.

Section Preflight.
  Variable c : cfg.

  (** Any violation anywhere in the phase: the pass writes nothing and the world is unchanged. *)
  Lemma phase_preflight_gate between w ow prev class ps p :
    In p ps -> preflight_obj (c_flavor c) ow class p <> [] ->
    exists vs, reconcile_phase c between w ow prev class ps = (w, [], PhPreflight vs) /\ vs <> [].
  Proof.
    intros Hin Hv. unfold reconcile_phase.
    destruct (flat_map (preflight_obj (c_flavor c) ow class) ps) as [|v vs] eqn:E.
    - exfalso. apply Hv. destruct (preflight_obj (c_flavor c) ow class p) as [|x xs] eqn:Ep; [reflexivity|].
      assert (In x (flat_map (preflight_obj (c_flavor c) ow class) ps)) by (apply in_flat_map; exists p; split; [assumption|rewrite Ep; now left]).
      rewrite E in H. contradiction.
    - exists (v :: vs). split; [reflexivity|discriminate].
  Qed.

  (** If anything was written, every object of the phase had passed preflight. *)
  Lemma phase_writes_imply_preflight between w ow prev class ps w' evs r :
    reconcile_phase c between w ow prev class ps = (w', evs, r) -> evs <> [] ->
    forall p, In p ps -> preflight_obj (c_flavor c) ow class p = [].
  Proof.
    intros H Hev p Hin. destruct (preflight_obj (c_flavor c) ow class p) as [|x xs] eqn:Ep; [reflexivity|].
    destruct (phase_preflight_gate between w ow prev class ps p Hin) as (vs & E & _); [rewrite Ep; discriminate|].
    rewrite E in H. injection H as <- <- <-. contradiction.
  Qed.

  Definition ns_bound_flavor (f : flavor) : bool :=
    match f with FObjectSet | FSamePhase => true | _ => false end.

  (** An object that passes preflight under a namespaced owner (flavours with the namespace check, phase
      without class) lives in the owner's namespace and is of a namespaced kind. *)
  Lemma preflight_ok_ns ow p :
    ns_bound_flavor (c_flavor c) = true -> oi_ns (ow_id ow) <> 0 ->
    preflight_obj (c_flavor c) ow false p = [] ->
    k_ns (key_of ow p) = oi_ns (ow_id ow) /\ gk_scope (k_gk (key_of ow p)) = Some true.
  Proof.
    intros Hf Hns Hp. unfold preflight_obj in Hp. fold (key_of ow p) in Hp.
    destruct (gk_scope (k_gk (key_of ow p))) as [nsd|] eqn:Es; [|discriminate].
    assert (Hesc : check_ns_escalation ow false (key_of ow p) = [] /\ check_dryrun p (key_of ow p) = []).
    { destruct (c_flavor c); try discriminate.
      - apply app_eq_nil in Hp. destruct Hp as [_ Hp]. apply app_eq_nil in Hp. exact Hp.
      - apply app_eq_nil in Hp. destruct Hp as [H1 Hp]. apply app_eq_nil in Hp. destruct Hp as [H2 _]. auto. }
    destruct Hesc as [He Hd]. unfold check_ns_escalation in He. apply N.eqb_neq in Hns. rewrite Hns in He.
    destruct (negb (k_ns (key_of ow p) =? 0) && negb (k_ns (key_of ow p) =? oi_ns (ow_id ow))) eqn:E0; [discriminate|].
    rewrite Es in He. destruct nsd; [|discriminate]. split; [|reflexivity].
    (* the key is defaulted: its namespace is the owner's unless the spec names another one *)
    apply andb_false_iff in E0. destruct E0 as [E0|E0].
    - apply negb_false_iff, N.eqb_eq in E0.
      unfold check_dryrun in Hd. destruct (po_dryreject p); [discriminate|]. rewrite Es, E0 in Hd. discriminate.
    - now apply negb_false_iff, N.eqb_eq in E0.
  Qed.

  (** C11, rollout: every write of a namespaced ObjectSet / same-cluster ObjectSetPhase stays in its
      namespace and on namespaced kinds. *)
  Lemma phase_writes_ns_bound between w ow prev ps w' evs r :
    ns_bound_flavor (c_flavor c) = true -> oi_ns (ow_id ow) <> 0 ->
    reconcile_phase c between w ow prev false ps = (w', evs, r) ->
    Forall (fun e => k_ns (ev_key e) = oi_ns (ow_id ow) /\ gk_scope (k_gk (ev_key e)) = Some true) evs.
  Proof.
    intros Hf Hns H. destruct evs as [|e0 evs0] eqn:Ee; [constructor|]. rewrite <- Ee in *.
    assert (Hall : forall p, In p ps -> preflight_obj (c_flavor c) ow false p = []).
    { apply (phase_writes_imply_preflight _ _ _ _ _ _ _ _ _ H). rewrite Ee. discriminate. }
    unfold reconcile_phase in H.
    destruct (flat_map (preflight_obj (c_flavor c) ow false) ps); [|injection H as _ <- _; rewrite Ee in *; discriminate].
    pose proof (rec_objs_justified c _ _ _ _ _ _ _ _ _ _ H) as HJ.
    eapply Forall_impl; [|exact HJ]. intros e (p & rd & pre & post & Hin & -> & _). cbn.
    apply preflight_ok_ns; auto.
  Qed.

  (** C11, teardown: deletes and release patches alike. *)
  Lemma teardown_writes_ns_bound between ow ps : forall w alldone w' evs r,
    ns_bound_flavor (c_flavor c) = true -> oi_ns (ow_id ow) <> 0 ->
    teardown_objects c between w ow ps alldone = (w', evs, r) ->
    Forall (fun e => k_ns (ev_key e) = oi_ns (ow_id ow) /\ gk_scope (k_gk (ev_key e)) = Some true) evs.
  Proof.
    induction ps as [|p ps IH]; intros w alldone w' evs r Hf Hns H; cbn in H.
    - injection H as <- <- <-. constructor.
    - destruct (teardown_object c between w ow p) as [[w1 e1] d] eqn:E1.
      assert (H1 : Forall (fun e => k_ns (ev_key e) = oi_ns (ow_id ow) /\ gk_scope (k_gk (ev_key e)) = Some true) e1).
      { destruct (td_obj_events c _ _ _ _ _ _ _ E1) as [Hev _].
        unfold teardown_object in E1. fold (key_of ow p) in E1.
        destruct (preflight_obj (c_flavor c) ow false p) eqn:Ep; [|injection E1 as _ <- _; constructor].
        eapply Forall_impl; [|exact Hev]. intros e (cu & _ & He).
        assert (ev_key e = key_of ow p) as ->.
        { destruct e; [contradiction| |]; cbn; destruct He as (-> & _); reflexivity. }
        now apply preflight_ok_ns. }
      destruct (teardown_err e1); [injection H as <- <- <-; exact H1|].
      destruct (teardown_objects c between w1 ow ps (alldone && d)) as [[w2 e2] r2] eqn:E2. injection H as <- <- <-.
      apply Forall_app. split; [exact H1|]. eapply IH; eauto.
  Qed.

  (** C09: a paused owner issues no write at all, for any phase and world; the world is unchanged. *)
  Lemma phase_paused_no_write between ow prev ps : forall w acc failed w' evs r,
    ow_paused ow = true ->
    reconcile_objects c between w ow prev ps acc failed = (w', evs, r) -> w' = w /\ evs = [].
  Proof.
    induction ps as [|p ps IH]; intros w acc failed w' evs r Hp H; cbn in H.
    - injection H as <- <- <-. auto.
    - destruct (reconcile_object c between w ow prev p) as [[w1 e1] r1] eqn:E1.
      destruct (rec_obj_paused c _ _ _ _ _ _ _ _ Hp E1) as [-> ->].
      destruct r1 as [o| |e].
      + destruct (reconcile_objects c between w ow prev ps _ _) as [[w2 e2] r2] eqn:E2. injection H as <- <- <-.
        destruct (IH _ _ _ _ _ _ Hp E2) as [-> ->]. auto.
      + destruct (reconcile_objects c between w ow prev ps _ _) as [[w2 e2] r2] eqn:E2. injection H as <- <- <-.
        destruct (IH _ _ _ _ _ _ Hp E2) as [-> ->]. auto.
      + injection H as <- <- <-. auto.
  Qed.
End Preflight.

(** C09: a paused owner keeps probing: the result of reconciling an object is what the cache holds. *)
Lemma paused_still_probes c between w ow prev p w' evs r :
  ow_paused ow = true -> reconcile_object c between w ow prev p = (w', evs, r) ->
  r = RErr ErrOwnerRef \/
  r = match cache_get w (desired_key ow p) with Some o => ROk o | None => RMissing end.
Proof.
  intros Hp. unfold reconcile_object. destruct (set_controller_l _ _ _ []); [|intros H; injection H as _ _ <-; now left].
  rewrite Hp. destruct (cache_get w (desired_key ow p)); intros H; injection H as _ _ <-; now right.
Qed.
