(** C02 / C07: status.revision is set once, to 1 + the greatest revision of the declared previous
    revisions, and never while one of them has not reported its own (revision_reconciler.go:23-73). *)
From Coq Require Import List NArith ZArith Bool Lia.
From PKO Require Import Util Base Owner Api Phase ObjectSet.
Import ListNotations.
Local Open Scope Z_scope.

Lemma scan_prev_spec sets s names : forall latest m,
  scan_prev sets s names latest = Some (Some m) ->
  latest <= m /\
  (forall n, In n names -> exists p, find_set sets (oi_kind (os_id s)) (oi_ns (os_id s)) n = Some p /\
                                     os_revision p <> 0 /\ os_revision p <= m) /\
  (m = latest \/ exists n p, In n names /\ find_set sets (oi_kind (os_id s)) (oi_ns (os_id s)) n = Some p /\ os_revision p = m).
Proof.
  induction names as [|n r IH]; intros latest m H; cbn in H.
  - injection H as <-. split; [lia|]. split; [intros n []|now left].
  - destruct (find_set sets _ _ n) as [p|] eqn:Ef; [|discriminate].
    destruct (Z.eqb (os_revision p) 0) eqn:E0; [discriminate|]. apply Z.eqb_neq in E0.
    destruct (IH _ _ H) as (Hle & Hall & Hex). split; [lia|]. split.
    + intros n0 [<-|Hin].
      * exists p. split; [assumption|]. split; [assumption|lia].
      * apply Hall, Hin.
    + destruct Hex as [->|(n0 & p0 & Hin & Hf & Hr)].
      * destruct (Z.max_spec latest (os_revision p)) as [[_ Hm]|[_ Hm]]; rewrite Hm.
        -- right. exists n, p. split; [now left|auto].
        -- now left.
      * right. exists n0, p0. split; [now right|auto].
Qed.

(** Once set, status.revision is never changed by the revision reconciler. *)
Theorem revision_fixed_once_set sw mem :
  os_revision mem <> 0 -> revision_pass sw mem = (sw, [], mem, RevGo).
Proof. intros H. unfold revision_pass. apply Z.eqb_neq in H. now rewrite H. Qed.

(** A first revision (no previous declared) becomes revision 1, in memory (persisted by the final status write). *)
Theorem revision_first sw mem :
  os_revision mem = 0 -> os_prev mem = [] ->
  revision_pass sw mem = (sw, [], set_revision mem 1, RevGo).
Proof. intros H0 Hp. unfold revision_pass. rewrite H0, Hp. reflexivity. Qed.

(** With previous revisions declared, the new revision is strictly greater than every one of theirs, all
    of which have reported a revision; otherwise nothing is set. *)
Theorem revision_from_previous sw mem sw1 evs1 mem1 rr :
  os_revision mem = 0 -> os_prev mem <> [] ->
  revision_pass sw mem = (sw1, evs1, mem1, rr) ->
  (os_revision mem1 = 0 /\ rr <> RevGo) \/
  (forall n, In n (os_prev mem) ->
     exists p, find_set (sw_sets sw) (oi_kind (os_id mem)) (oi_ns (os_id mem)) n = Some p /\
               os_revision p <> 0 /\ os_revision p < os_revision mem1).
Proof.
  intros H0 Hp. unfold revision_pass. rewrite H0. cbn [Z.eqb negb].
  destruct (os_prev mem) as [|n r] eqn:Epv; [contradiction|].
  destruct (scan_prev (sw_sets sw) mem (n :: r) 0) as [[latest|]|] eqn:Es.
  - destruct (update_status sw (set_revision mem (latest + 1))) as [[sw2 m2] ok] eqn:Eu. intros H. injection H as _ _ <- _.
    right. destruct (scan_prev_spec _ _ _ _ _ Es) as (_ & Hall & _).
    assert (Hrev : os_revision m2 = latest + 1).
    { unfold update_status in Eu. destruct (find_set _ _ _ _) as [st|]; [|now injection Eu as _ <- _].
      destruct (negb _); [now injection Eu as _ <- _|]. destruct (status_eqb st _); now injection Eu as _ <- _. }
    intros n0 Hin. destruct (Hall n0 Hin) as (p & Hf & Hnz & Hle). exists p. rewrite Hrev. repeat split; auto; lia.
  - intros H. injection H as _ _ <- <-. left. split; [assumption|discriminate].
  - intros H. injection H as _ _ <- <-. left. split; [assumption|discriminate].
Qed.
