(** Laws of the collection stage and of the template stage of package rendering (C13). *)
From Coq Require Import List NArith Bool Lia Permutation Sorted.
From PKO Require Import Collector Templates.
Import ListNotations.
Local Open Scope N_scope.

(** * The byte order on path keys is a strict total order *)
Ltac ltb_cases :=
  repeat match goal with
         | |- context [?x <? ?y] => destruct (N.ltb_spec x y)
         | H : context [?x <? ?y] |- _ => destruct (N.ltb_spec x y)
         end.

Lemma lex_ltb_irrefl a : lex_ltb a a = false.
Proof. induction a as [|x a IH]; cbn; [reflexivity|]. ltb_cases; try lia. exact IH. Qed.

Lemma lex_ltb_trans a : forall b c, lex_ltb a b = true -> lex_ltb b c = true -> lex_ltb a c = true.
Proof.
  induction a as [|x a IH]; intros [|y b] [|z c]; cbn; try congruence.
  intros H1 H2. ltb_cases; try lia; try congruence. eapply IH; eassumption.
Qed.

Lemma lex_ltb_asym a b : lex_ltb a b = true -> lex_ltb b a = false.
Proof.
  intros H. destruct (lex_ltb b a) eqn:E; [|reflexivity].
  pose proof (lex_ltb_trans _ _ _ H E) as Haa. now rewrite lex_ltb_irrefl in Haa.
Qed.

Lemma lex_ltb_total a : forall b, lex_ltb a b = false -> lex_ltb b a = false -> a = b.
Proof.
  induction a as [|x a IH]; intros [|y b]; cbn; try congruence.
  intros H1 H2. ltb_cases; try lia; try congruence.
  assert (x = y) by lia. subst. f_equal. now apply IH.
Qed.

(** The same facts for files compared by path key. *)
Definition fkey (f : file) : list N := path_key (f_path f).
Definition flt (x y : file) : bool := path_ltb (f_path x) (f_path y).
(** x may stand before y *)
Definition fle (x y : file) : Prop := flt y x = false.

Lemma flt_trans x y z : flt x y = true -> flt y z = true -> flt x z = true.
Proof. apply lex_ltb_trans. Qed.

Lemma flt_asym x y : flt x y = true -> flt y x = false.
Proof. apply lex_ltb_asym. Qed.

Lemma flt_total x y : fkey x <> fkey y -> flt x y = false -> flt y x = true.
Proof.
  intros Hne H. destruct (flt y x) eqn:E; [reflexivity|]. exfalso. apply Hne.
  now apply lex_ltb_total.
Qed.

(** * Insertion sort: permutation, sortedness, independence of the input order *)
Lemma insert_perm x l : Permutation (insert_file x l) (x :: l).
Proof.
  induction l as [|y l IH]; cbn; [reflexivity|].
  destruct (path_ltb (f_path x) (f_path y)); [reflexivity|].
  rewrite IH. apply perm_swap.
Qed.

Lemma sort_paths_perm fs : Permutation (sort_paths fs) fs.
Proof.
  induction fs as [|x fs IH]; cbn; [reflexivity|]. rewrite insert_perm. now constructor.
Qed.

Lemma insert_sorted x l : StronglySorted fle l -> StronglySorted fle (insert_file x l).
Proof.
  induction l as [|y l IH]; intros Hs; cbn.
  - constructor; constructor.
  - inversion Hs as [|? ? Hs' Hall]; subst.
    destruct (path_ltb (f_path x) (f_path y)) eqn:E.
    + constructor; [assumption|]. constructor.
      * unfold fle. now apply flt_asym.
      * rewrite Forall_forall in *. intros z Hz. specialize (Hall z Hz). unfold fle in *.
        destruct (flt z x) eqn:Ezx; [|reflexivity].
        pose proof (flt_trans _ _ _ Ezx E) as Hzy. congruence.
    + constructor; [now apply IH|].
      rewrite Forall_forall in *. intros z Hz.
      apply (Permutation_in _ (insert_perm x l)) in Hz. destruct Hz as [<-|Hz]; [exact E|now apply Hall].
Qed.

Lemma sort_paths_sorted fs : StronglySorted fle (sort_paths fs).
Proof. induction fs as [|x fs IH]; cbn; [constructor|now apply insert_sorted]. Qed.

Lemma insert_comm x y l :
  fkey x <> fkey y -> insert_file x (insert_file y l) = insert_file y (insert_file x l).
Proof.
  intros Hne. induction l as [|z l IH]; cbn.
  - change (path_ltb (f_path x) (f_path y)) with (flt x y).
    change (path_ltb (f_path y) (f_path x)) with (flt y x).
    destruct (flt x y) eqn:Exy.
    + now rewrite (flt_asym _ _ Exy).
    + now rewrite (flt_total _ _ Hne Exy).
  - change (path_ltb (f_path x) (f_path z)) with (flt x z).
    change (path_ltb (f_path y) (f_path z)) with (flt y z).
    destruct (flt y z) eqn:Eyz; destruct (flt x z) eqn:Exz; cbn;
      change (path_ltb (f_path x) (f_path y)) with (flt x y);
      change (path_ltb (f_path y) (f_path x)) with (flt y x);
      change (path_ltb (f_path x) (f_path z)) with (flt x z);
      change (path_ltb (f_path y) (f_path z)) with (flt y z);
      rewrite ?Eyz, ?Exz.
    + destruct (flt x y) eqn:Exy.
      * now rewrite (flt_asym _ _ Exy).
      * now rewrite (flt_total _ _ Hne Exy).
    + (* y < z, not x < z: then not x < y *)
      destruct (flt x y) eqn:Exy.
      * pose proof (flt_trans _ _ _ Exy Eyz). congruence.
      * reflexivity.
    + destruct (flt y x) eqn:Eyx.
      * pose proof (flt_trans _ _ _ Eyx Exz). congruence.
      * reflexivity.
    + now rewrite IH.
Qed.

Lemma sort_paths_perm_invariant fs fs' :
  Permutation fs fs' -> NoDup (map fkey fs) -> sort_paths fs = sort_paths fs'.
Proof.
  unfold sort_paths.
  induction 1 as [|x l l' Hp IH|x y l|l l' l'' Hp1 IH1 Hp2 IH2]; intros Hnd; cbn.
  - reflexivity.
  - inversion Hnd; subst. now rewrite IH.
  - apply insert_comm. inversion Hnd as [|? ? Hnin _]; subst. cbn in Hnin. intros E. apply Hnin. now left.
  - rewrite IH1 by assumption. apply IH2.
    apply (Permutation_NoDup (Permutation_map fkey Hp1) Hnd).
Qed.

(** Any two sorted arrangements of the same files with pairwise different keys coincide: whatever
    algorithm sort.Slice uses, its result is the one of [sort_paths]. *)
Lemma sorted_perm_unique l : forall l',
  StronglySorted fle l -> StronglySorted fle l' -> Permutation l l' -> NoDup (map fkey l) -> l = l'.
Proof.
  induction l as [|x l IH]; intros l' Hs Hs' Hp Hnd.
  - apply Permutation_nil in Hp. now subst.
  - destruct l' as [|y l']; [apply Permutation_sym, Permutation_nil in Hp; discriminate|].
    inversion Hs as [|? ? Hs1 Hall]; inversion Hs' as [|? ? Hs1' Hall']; subst.
    inversion Hnd as [|? ? Hnin Hnd']; subst.
    assert (Hxy : x = y).
    { assert (Hin : In x (y :: l')) by (apply (Permutation_in _ Hp); now left).
      assert (Hin' : In y (x :: l)) by (apply (Permutation_in _ (Permutation_sym Hp)); now left).
      destruct Hin as [->|Hin]; [reflexivity|]. destruct Hin' as [->|Hin']; [reflexivity|].
      rewrite Forall_forall in Hall, Hall'. pose proof (Hall _ Hin') as H1. pose proof (Hall' _ Hin) as H2.
      unfold fle in *. exfalso. apply Hnin. apply in_map_iff. exists y. split; [|assumption].
      unfold fkey. symmetry. now apply lex_ltb_total. }
    subst y. f_equal. apply IH; try assumption. now apply Permutation_cons_inv in Hp.
Qed.

(** * NUL-free, pairwise different paths have pairwise different keys *)
Lemma path_key_inj p : forall q, ~ In 0 p -> ~ In 0 q -> path_key p = path_key q -> p = q.
Proof.
  induction p as [|c p IH]; intros [|d q] Hp Hq; cbn; try congruence.
  intros H. injection H as Hc Hr.
  assert (c <> 0 /\ d <> 0) as [Hc0 Hd0] by (split; intros ->; [apply Hp|apply Hq]; now left).
  f_equal.
  - destruct (N.eqb_spec c 47), (N.eqb_spec d 47); subst; congruence.
  - apply IH; try assumption; intros Hin; [apply Hp|apply Hq]; now right.
Qed.

Lemma nodup_keys fs :
  NoDup (map f_path fs) -> Forall (fun f => ~ In 0 (f_path f)) fs -> NoDup (map fkey fs).
Proof.
  induction fs as [|f fs IH]; cbn; intros Hnd Hz; [constructor|].
  inversion Hnd as [|? ? Hnin Hnd']; inversion Hz as [|? ? Hf Hz']; subst.
  constructor; [|now apply IH].
  intros Hin. apply in_map_iff in Hin. destruct Hin as (g & Hk & Hg).
  apply Hnin. apply in_map_iff. exists g. split; [|assumption].
  rewrite Forall_forall in Hz'. symmetry. apply path_key_inj; auto.
Qed.

(** * The phase collector *)
Definition phase_is (p : N) (o : object) : bool := phase_of o =? p.

(** What ends up in phase [p]: the objects naming it, stripped, in input order. *)
Definition phase_objs (p : N) (objs : list object) : list out_object :=
  map strip_object (filter (phase_is p) objs).

Definition nonempty {A} (l : list A) : bool := match l with [] => false | _ => true end.

Lemma dedup_last_nodup l : NoDup l -> dedup_last l = l.
Proof.
  induction 1 as [|x l Hnin Hnd IH]; cbn; [reflexivity|].
  destruct (existsb (N.eqb x) l) eqn:E.
  - apply existsb_exists in E. destruct E as (y & Hy & Hxy). apply N.eqb_eq in Hxy. now subst.
  - now rewrite IH.
Qed.

Lemma add_object_fold objs : forall (f : N -> list out_object) names,
  fold_left add_object objs (map (fun p => (p, f p)) names) =
  map (fun p => (p, f p ++ phase_objs p objs)) names.
Proof.
  induction objs as [|o objs IH]; intros f names; cbn.
  - apply map_ext. intros p. unfold phase_objs. cbn. now rewrite app_nil_r.
  - unfold add_object at 2. rewrite map_map. cbn.
    rewrite (map_ext _ (fun p => (p, (fun q => if q =? phase_of o then f q ++ [strip_object o] else f q) p))).
    + rewrite IH. apply map_ext. intros p. f_equal. unfold phase_objs, phase_is. cbn.
      rewrite (N.eqb_sym (phase_of o) p). destruct (p =? phase_of o); cbn; [|reflexivity].
      now rewrite <- app_assoc.
    + intros p. now destruct (p =? phase_of o).
Qed.

(** Closed form of the collector: one entry per manifest phase (last occurrence of a name), in
    manifest order, holding the objects that name it in input order; empty entries dropped. *)
Theorem phase_collector_char phases objs :
  phase_collector phases objs =
  filter (fun e => nonempty (snd e)) (map (fun p => (p, phase_objs p objs)) (dedup_last phases)).
Proof.
  unfold phase_collector, new_collector, collect_phases.
  rewrite (add_object_fold objs (fun _ => [])). cbn. reflexivity.
Qed.

Lemma phase_objs_nonempty p objs : nonempty (phase_objs p objs) = existsb (phase_is p) objs.
Proof.
  unfold phase_objs. induction objs as [|o objs IH]; cbn; [reflexivity|].
  destruct (phase_is p o); cbn; [reflexivity|exact IH].
Qed.

(** ** Phases come in manifest order *)
Theorem phase_order phases objs :
  NoDup phases ->
  map fst (phase_collector phases objs) = filter (fun p => existsb (phase_is p) objs) phases.
Proof.
  intros Hnd. rewrite phase_collector_char, (dedup_last_nodup _ Hnd).
  induction phases as [|p ps IH]; cbn; [reflexivity|].
  inversion Hnd; subst. rewrite phase_objs_nonempty.
  destruct (existsb (phase_is p) objs); cbn; now rewrite IH.
Qed.

(** ** Every entry holds exactly the objects naming its phase, in input order *)
Theorem phase_content phases objs p l :
  In (p, l) (phase_collector phases objs) -> In p phases /\ l = phase_objs p objs /\ l <> [].
Proof.
  rewrite phase_collector_char. intros H. apply filter_In in H. destruct H as [H Hne].
  apply in_map_iff in H. destruct H as (q & Hq & Hin). injection Hq as -> <-.
  repeat split.
  - clear Hne. induction phases as [|x r IH]; cbn in *; [contradiction|].
    destruct (existsb (N.eqb x) r); [right; now apply IH|].
    destruct Hin as [->|Hin]; [now left|right; now apply IH].
  - cbn in Hne. now destruct (phase_objs p objs).
Qed.

Theorem phase_present phases objs p :
  NoDup phases -> In p phases -> phase_objs p objs <> [] ->
  In (p, phase_objs p objs) (phase_collector phases objs).
Proof.
  intros Hnd Hin Hne. rewrite phase_collector_char, (dedup_last_nodup _ Hnd).
  apply filter_In. split.
  - apply in_map_iff. now exists p.
  - cbn. now destruct (phase_objs p objs).
Qed.

(** ** Conservation: nothing lost, nothing duplicated *)
Lemma flat_nonempty {A} (c : list (N * list A)) :
  flat_map snd (filter (fun e => nonempty (snd e)) c) = flat_map snd c.
Proof.
  induction c as [|[p [|a l]] c IH]; cbn; [reflexivity|exact IH|]. now rewrite IH.
Qed.

Definition in_manifest (phases : list N) (o : object) : bool := existsb (N.eqb (phase_of o)) phases.

Lemma all_phase_objs_nil phases : flat_map (fun p => phase_objs p []) phases = [].
Proof. induction phases; cbn; auto. Qed.

Lemma all_phase_objs_cons phases o objs :
  NoDup phases ->
  Permutation (flat_map (fun p => phase_objs p (o :: objs)) phases)
              (if in_manifest phases o then strip_object o :: flat_map (fun p => phase_objs p objs) phases
               else flat_map (fun p => phase_objs p objs) phases).
Proof.
  induction 1 as [|p ps Hnin Hnd IH]; cbn; [reflexivity|].
  unfold phase_objs at 1. cbn. unfold phase_is at 1. unfold in_manifest in *. cbn.
  destruct (N.eqb_spec (phase_of o) p) as [E|E]; cbn.
  - assert (Hno : existsb (N.eqb (phase_of o)) ps = false).
    { destruct (existsb (N.eqb (phase_of o)) ps) eqn:X; [|reflexivity].
      apply existsb_exists in X. destruct X as (y & Hy & Hxy). apply N.eqb_eq in Hxy. congruence. }
    rewrite Hno in IH. constructor. apply Permutation_app_head. exact IH.
  - fold (phase_objs p objs). destruct (existsb (N.eqb (phase_of o)) ps).
    + rewrite IH. symmetry. apply Permutation_middle.
    + now apply Permutation_app_head.
Qed.

(** The multiset of collected objects is the multiset of the input objects whose phase annotation
    names a manifest phase. *)
Theorem conservation phases objs :
  NoDup phases ->
  Permutation (flat_map snd (phase_collector phases objs))
              (map strip_object (filter (in_manifest phases) objs)).
Proof.
  intros Hnd. rewrite phase_collector_char, (dedup_last_nodup _ Hnd), flat_nonempty, flat_map_concat_map, map_map.
  cbn. rewrite <- flat_map_concat_map.
  induction objs as [|o objs IH]; cbn.
  - now rewrite all_phase_objs_nil.
  - rewrite (all_phase_objs_cons phases o objs Hnd).
    destruct (in_manifest phases o); cbn; [constructor|]; exact IH.
Qed.

(** Exactly once, counted. *)
Corollary conservation_count phases objs (eq_dec : forall a b : out_object, {a = b} + {a <> b}) oo :
  NoDup phases ->
  count_occ eq_dec (flat_map snd (phase_collector phases objs)) oo =
  count_occ eq_dec (map strip_object (filter (in_manifest phases) objs)) oo.
Proof. intros Hnd. apply Permutation_count_occ. now apply conservation. Qed.

(** ** Control annotations are removed, the annotation map is nil when nothing is left *)
Definition annos_of (oo : out_object) : list kv := match oo_annos oo with Some l => l | None => [] end.

Lemma delete_keys_has ks m k : In k ks -> has_key k (delete_keys ks m) = false.
Proof.
  intros Hin. unfold has_key, delete_keys. induction m as [|[k' v] m IH]; cbn; [reflexivity|].
  destruct (existsb (N.eqb k') ks) eqn:E; cbn; [exact IH|].
  rewrite IH, orb_false_r. destruct (N.eqb_spec k' k) as [->|]; [|reflexivity].
  exfalso. assert (X : existsb (N.eqb k) ks = true) by (apply existsb_exists; exists k; split; [assumption|apply N.eqb_refl]).
  congruence.
Qed.

Lemma delete_keys_lookup ks m k : ~ In k ks -> lookup k (delete_keys ks m) = lookup k m.
Proof.
  intros Hnin. unfold delete_keys. induction m as [|[k' v] m IH]; cbn; [reflexivity|].
  destruct (existsb (N.eqb k') ks) eqn:E; cbn.
  - destruct (N.eqb_spec k' k) as [->|]; [|exact IH].
    apply existsb_exists in E. destruct E as (y & Hy & Hxy). apply N.eqb_eq in Hxy. subst. contradiction.
  - now rewrite IH.
Qed.

Lemma annos_of_strip o : annos_of (strip_object o) = delete_keys control_keys (o_annos o).
Proof. unfold annos_of, strip_object. cbn. now destruct (delete_keys control_keys (o_annos o)). Qed.

Theorem annotations_stripped o :
  (forall k, In k control_keys -> has_key k (annos_of (strip_object o)) = false) /\
  (forall k, ~ In k control_keys -> lookup k (annos_of (strip_object o)) = lookup k (o_annos o)) /\
  oo_annos (strip_object o) <> Some [].
Proof.
  rewrite annos_of_strip. repeat split.
  - intros k Hk. now apply delete_keys_has.
  - intros k Hk. now apply delete_keys_lookup.
  - unfold strip_object. cbn. destruct (delete_keys control_keys (o_annos o)); congruence.
Qed.

(** ** Package labels are added, other labels kept *)
Lemma lookup_filter_other k m (P : kv -> bool) :
  (forall v, P (k, v) = true) -> lookup k (filter P m) = lookup k m.
Proof.
  intros HP. induction m as [|[k' v] m IH]; cbn; [reflexivity|].
  destruct (N.eqb_spec k' k) as [->|Hne].
  - rewrite HP. cbn. now rewrite N.eqb_refl.
  - destruct (P (k', v)); cbn; [|exact IH]. destruct (N.eqb_spec k' k); [contradiction|exact IH].
Qed.

Theorem labels_added mname pname o :
  lookup L_PACKAGE (o_labels (label_object mname pname o)) = Some mname /\
  lookup L_INSTANCE (o_labels (label_object mname pname o)) = Some pname /\
  (forall k, k <> L_PACKAGE -> k <> L_INSTANCE ->
     lookup k (o_labels (label_object mname pname o)) = lookup k (o_labels o)).
Proof.
  repeat split; try reflexivity.
  intros k H1 H2. unfold label_object, merge_labels, common_labels. cbn [o_labels lookup app].
  destruct (N.eqb_spec L_PACKAGE k); [congruence|].
  destruct (N.eqb_spec L_INSTANCE k); [congruence|].
  apply lookup_filter_other. intros v. unfold has_key. cbn [existsb fst].
  destruct (N.eqb_spec L_PACKAGE k); [congruence|]. destruct (N.eqb_spec L_INSTANCE k); [congruence|]. reflexivity.
Qed.

Lemma label_object_view mname pname o :
  o_id (label_object mname pname o) = o_id o /\ o_annos (label_object mname pname o) = o_annos o /\
  phase_of (label_object mname pname o) = phase_of o.
Proof. repeat split. Qed.

(** * The whole collection stage *)
Definition labelled (mname pname : N) (fs : list file) : list object :=
  map (label_object mname pname) (concat_objects fs).

(** Every collected object is a live input object with labels added and control annotations stripped. *)
Theorem collect_objects phases mname pname fs p l oo :
  In (p, l) (collect phases mname pname fs) -> In oo l ->
  exists o, In o (concat_objects fs) /\ phase_of o = p /\
            oo = strip_object (label_object mname pname o).
Proof.
  intros Hin Hoo. apply phase_content in Hin. destruct Hin as (_ & -> & _).
  unfold phase_objs in Hoo. apply in_map_iff in Hoo. destruct Hoo as (o' & <- & Ho').
  apply filter_In in Ho'. destruct Ho' as [Ho' Hp]. apply in_map_iff in Ho'.
  destruct Ho' as (o & <- & Ho). exists o. repeat split; [assumption|].
  unfold phase_is in Hp. now apply N.eqb_eq in Hp.
Qed.

(** Path-then-document order inside every phase: the phase's objects are the live objects naming it
    taken from the files in sorted path order, each file's documents in document order. *)
Theorem object_order phases mname pname fs p l :
  In (p, l) (collect phases mname pname fs) ->
  l = map (fun o => strip_object (label_object mname pname o))
          (filter (phase_is p) (flat_map live_of_file (sort_paths fs))) /\
  StronglySorted fle (sort_paths fs) /\ Permutation (sort_paths fs) fs.
Proof.
  intros Hin. apply phase_content in Hin. destruct Hin as (_ & -> & _).
  split; [|split; [apply sort_paths_sorted|apply sort_paths_perm]].
  unfold phase_objs, concat_objects. generalize (flat_map live_of_file (sort_paths fs)) as objs.
  induction objs as [|o objs IH]; cbn; [reflexivity|].
  unfold phase_is at 1. change (phase_of (label_object mname pname o)) with (phase_of o).
  fold (phase_is p o). destruct (phase_is p o); cbn; now rewrite IH.
Qed.

(** Map iteration order cannot matter: any two enumerations of the same pathObjectMap collect to the
    same phases. *)
Theorem render_perm_invariant phases mname pname fs fs' :
  Permutation fs fs' -> NoDup (map fkey fs) ->
  collect phases mname pname fs = collect phases mname pname fs'.
Proof.
  intros Hp Hnd. unfold collect, concat_objects. now rewrite (sort_paths_perm_invariant _ _ Hp Hnd).
Qed.

Corollary render_perm_invariant_paths phases mname pname fs fs' :
  Permutation fs fs' -> NoDup (map f_path fs) -> Forall (fun f => ~ In 0 (f_path f)) fs ->
  collect phases mname pname fs = collect phases mname pname fs'.
Proof. intros Hp Hnd Hz. apply render_perm_invariant; [assumption|now apply nodup_keys]. Qed.

(** Whatever is computed from the collected phases (the canonical JSON, the FNV hash of the
    template) is the same for every enumeration. *)
Corollary hash_deterministic {H} (h : collector -> H) phases mname pname fs fs' :
  Permutation fs fs' -> NoDup (map fkey fs) ->
  h (collect phases mname pname fs) = h (collect phases mname pname fs').
Proof. intros Hp Hnd. f_equal. now apply render_perm_invariant. Qed.

(** sort.Slice is not specified beyond "sorted permutation": any such result equals [sort_paths]. *)
Corollary any_sort_agrees fs sorted :
  NoDup (map fkey fs) -> Permutation sorted fs -> StronglySorted fle sorted -> sorted = sort_paths fs.
Proof.
  intros Hnd Hp Hs. apply sorted_perm_unique; try assumption; [apply sort_paths_sorted| |].
  - rewrite Hp. symmetry. apply sort_paths_perm.
  - apply (Permutation_NoDup (Permutation_map fkey (Permutation_sym Hp)) Hnd).
Qed.

(** Conservation for the whole stage. *)
Corollary collect_conservation phases mname pname fs :
  NoDup phases ->
  Permutation (flat_map snd (collect phases mname pname fs))
    (map (fun o => strip_object (label_object mname pname o))
         (filter (in_manifest phases) (concat_objects fs))).
Proof.
  intros Hnd. unfold collect. rewrite (conservation _ _ Hnd).
  generalize (concat_objects fs) as objs. induction objs as [|o objs IH]; cbn; [reflexivity|].
  unfold in_manifest at 1. change (phase_of (label_object mname pname o)) with (phase_of o).
  fold (in_manifest phases o). destruct (in_manifest phases o); cbn; [constructor|]; exact IH.
Qed.

(** * The template stage (as implemented since commit 10a6940) *)
Section SortByLaws.
  Context {A : Type} (key : A -> N).

  Lemma insert_by_perm x l : Permutation (insert_by key x l) (x :: l).
  Proof.
    induction l as [|y l IH]; cbn; [reflexivity|].
    destruct (key x <? key y); [reflexivity|]. rewrite IH. apply perm_swap.
  Qed.

  Lemma sort_by_perm l : Permutation (sort_by key l) l.
  Proof. induction l as [|x l IH]; cbn; [reflexivity|]. rewrite insert_by_perm. now constructor. Qed.

  Lemma insert_by_comm x y l :
    key x <> key y \/ x = y ->
    insert_by key x (insert_by key y l) = insert_by key y (insert_by key x l).
  Proof.
    intros [Hne| ->]; [|reflexivity].
    induction l as [|z l IH]; cbn.
    - destruct (N.ltb_spec (key x) (key y)), (N.ltb_spec (key y) (key x)); try lia; reflexivity.
    - destruct (N.ltb_spec (key y) (key z)), (N.ltb_spec (key x) (key z)); cbn;
        repeat match goal with |- context [?a <? ?b] => destruct (N.ltb_spec a b) end;
        try lia; try reflexivity.
      now rewrite IH.
  Qed.

  (** Elements with the same key are the same element (for map entries: paths pairwise different). *)
  Definition key_inj_on (l : list A) : Prop := forall x y, In x l -> In y l -> key x = key y -> x = y.

  Lemma sort_by_perm_invariant l l' :
    Permutation l l' -> key_inj_on l -> sort_by key l = sort_by key l'.
  Proof.
    unfold sort_by.
    induction 1 as [|x l l' Hp IH|x y l|l l' l'' Hp1 IH1 Hp2 IH2]; intros Hinj; cbn.
    - reflexivity.
    - rewrite IH; [reflexivity|]. intros a b Ha Hb. apply Hinj; now right.
    - apply insert_by_comm. destruct (N.eq_dec (key y) (key x)) as [E|E]; [right|now left].
      apply Hinj; cbn; auto.
    - rewrite IH1 by assumption. apply IH2. intros a b Ha Hb.
      apply Hinj; eapply Permutation_in; try eassumption; now apply Permutation_sym.
  Qed.
End SortByLaws.

Lemma nodup_fst_inj (fs : filelist) : NoDup (map fst fs) -> key_inj_on fst fs.
Proof.
  induction fs as [|[k v] fs IH]; cbn; intros Hnd x y Hx Hy E; [contradiction|].
  inversion Hnd as [|? ? Hnin Hnd']; subst.
  destruct Hx as [<-|Hx], Hy as [<-|Hy]; try reflexivity.
  - exfalso. apply Hnin. cbn in E. rewrite E. now apply in_map.
  - exfalso. apply Hnin. cbn in E. rewrite <- E. now apply in_map.
  - now apply IH.
Qed.

Lemma filter_perm {A} (f : A -> bool) l l' : Permutation l l' -> Permutation (filter f l) (filter f l').
Proof.
  induction 1 as [|x l l' Hp IH|x y l|l l' l'' Hp1 IH1 Hp2 IH2]; cbn.
  - reflexivity.
  - destruct (f x); [now constructor|assumption].
  - destruct (f x), (f y); try reflexivity. apply perm_swap.
  - now rewrite IH1.
Qed.

Section TemplateLaws.
  Variable is_template : N -> bool.
  Variable strip : N -> N.
  Variable exec : N -> filelist -> option N.

  Lemma canon_perm_invariant fs fs' :
    Permutation fs fs' -> NoDup (map fst fs) -> canon fs = canon fs'.
  Proof. intros Hp Hnd. apply sort_by_perm_invariant; [assumption|now apply nodup_fst_inj]. Qed.

  Lemma template_paths_perm_invariant fs fs' :
    Permutation fs fs' -> template_paths is_template fs = template_paths is_template fs'.
  Proof.
    intros Hp. apply sort_by_perm_invariant.
    - apply filter_perm. now apply Permutation_map.
    - intros x y _ _ E. exact E.
  Qed.

  (** However Go enumerates pkg.Files, the stage computes the same result: no hypothesis on what
      templates read or write is needed any more. *)
  Theorem templates_order_independent fs fs' :
    Permutation fs fs' -> NoDup (map fst fs) ->
    render_templates_fixed is_template strip exec fs = render_templates_fixed is_template strip exec fs'.
  Proof.
    intros Hp Hnd. unfold render_templates_fixed.
    now rewrite (canon_perm_invariant _ _ Hp Hnd), (template_paths_perm_invariant _ _ Hp).
  Qed.

  (** What is executed: exactly the packaged files that are named like templates, each once. *)
  Theorem executed_are_packaged fs p :
    In p (template_paths is_template fs) <-> In p (map fst fs) /\ is_template p = true.
  Proof.
    unfold template_paths. split.
    - intros H. apply (Permutation_in _ (sort_by_perm _ _)) in H. apply filter_In in H. exact H.
    - intros H. apply (Permutation_in _ (Permutation_sym (sort_by_perm _ _))). now apply filter_In.
  Qed.

  Theorem executed_once fs : NoDup (map fst fs) -> NoDup (template_paths is_template fs).
  Proof.
    intros Hnd. unfold template_paths.
    apply (Permutation_NoDup (Permutation_sym (sort_by_perm _ _))). now apply NoDup_filter.
  Qed.

  (** An output is never picked up as a template: a path that exists only because a template wrote
      it (it was not packaged) is not executed, however it is named. *)
  Corollary output_never_executed fs q :
    ~ In (strip q) (map fst fs) -> ~ In (strip q) (template_paths is_template fs).
  Proof. intros Hnin H. apply executed_are_packaged in H. tauto. Qed.
End TemplateLaws.

(** Rendering is a function of (context value, file map content): the same context and any
    enumeration of the same files give the same result, render after render. *)
Theorem render_stage_pure {C : Type} is_template strip (exec : C -> N -> filelist -> option N) context fs fs' :
  Permutation fs fs' -> NoDup (map fst fs) ->
  render_stage is_template strip exec context fs = render_stage is_template strip exec context fs'.
Proof. intros Hp Hnd. unfold render_stage. now apply templates_order_independent. Qed.

(** The two former witnesses under the fixed stage: one result for both enumerations (a.yaml gets
    the packaged b.yaml), and the double-suffix package simply renders. *)
Example fixed_witness_values :
  at_path (render_templates_fixed Witness.is_template Witness.strip Witness.exec_fixed Witness.enum1) Witness.A_YAML
    = Some (Some Witness.STATIC) /\
  at_path (render_templates_fixed Witness.is_template Witness.strip Witness.exec_fixed Witness.enum2) Witness.A_YAML
    = Some (Some Witness.STATIC) /\
  at_path (render_templates_fixed Witness.is_template Witness.strip Witness.exec_fixed Witness.enum2) Witness.B_YAML
    = Some (Some Witness.RENDERED) /\
  at_path (render_templates_fixed InsertWitness.is_template InsertWitness.strip InsertWitness.exec_fixed
             InsertWitness.enum) InsertWitness.C_TMPL = Some (Some 20).
Proof. repeat split; reflexivity. Qed.

(** * The template stage before commit 10a6940 (historical record of the fixed defect) *)
Section TemplateLawsV0.
  Variable is_template : N -> bool.
  Variable strip : N -> N.
  Variable exec : N -> fmap -> option N.

  (** Executing a template depends on the file map only through what it contains. *)
  Definition exec_extensional : Prop :=
    forall p m m', (forall k, m k = m' k) -> exec p m = exec p m'.
  (** No template reads a path that another template writes. *)
  Definition independent : Prop :=
    forall p q m v, p <> q -> is_template p = true -> is_template q = true ->
                    exec p (fset m (strip q) v) = exec p m.
  (** Different templates write different paths (StripTemplateSuffix removes a fixed suffix). *)
  Definition strip_injective : Prop :=
    forall p q, is_template p = true -> is_template q = true -> strip p = strip q -> p = q.

  (** Same outcome: both failed, or both maps have the same content. *)
  Definition req (a b : option fmap) : Prop :=
    match a, b with
    | None, None => True
    | Some m, Some m' => forall k, m k = m' k
    | _, _ => False
    end.

  Hypothesis Hext : exec_extensional.
  Hypothesis Hind : independent.
  Hypothesis Hinj : strip_injective.

  Notation tstep := (tstep is_template strip exec).

  Lemma req_refl a : req a a.
  Proof. destruct a; cbn; auto. Qed.

  Lemma req_trans a b c : req a b -> req b c -> req a c.
  Proof. destruct a, b, c; cbn; try tauto. intros H1 H2 k. now rewrite H1. Qed.

  Lemma tstep_req a b p : req a b -> req (tstep a p) (tstep b p).
  Proof.
    destruct a as [m|], b as [m'|]; cbn; try tauto. intros H.
    destruct (is_template p); [|exact H]. rewrite (Hext p m m' H).
    destruct (exec p m'); cbn; [|exact I]. intros k. unfold fset. now rewrite H.
  Qed.

  Lemma fold_req l : forall a b, req a b -> req (fold_left tstep l a) (fold_left tstep l b).
  Proof. induction l as [|p l IH]; intros a b H; cbn; [exact H|]. apply IH. now apply tstep_req. Qed.

  Lemma tstep_swap a p q : req (tstep (tstep a p) q) (tstep (tstep a q) p).
  Proof.
    destruct (N.eq_dec p q) as [->|Hne]; [apply req_refl|].
    destruct a as [m|]; cbn; [|exact I].
    destruct (is_template p) eqn:Tp, (is_template q) eqn:Tq; cbn; rewrite ?Tp, ?Tq; try apply req_refl.
    - destruct (exec p m) as [vp|] eqn:Ep; cbn; rewrite ?Tq.
      + rewrite (Hind q p m vp) by auto.
        destruct (exec q m) as [vq|] eqn:Eq; cbn; rewrite ?Tp.
        * rewrite (Hind p q m vq) by auto. rewrite Ep. cbn. intros k. unfold fset.
          destruct (N.eqb_spec k (strip q)), (N.eqb_spec k (strip p)); try reflexivity.
          subst k. exfalso. apply Hne. now apply Hinj.
        * exact I.
      + destruct (exec q m) as [vq|] eqn:Eq; cbn; rewrite ?Tp; [|exact I].
        rewrite (Hind p q m vq) by auto. now rewrite Ep.
    - destruct (exec p m) as [vp|]; cbn; rewrite ?Tq; [intros k; reflexivity|exact I].
    - destruct (exec q m) as [vq|]; cbn; rewrite ?Tp; [intros k; reflexivity|exact I].
  Qed.

  Lemma render_perm o1 o2 : Permutation o1 o2 ->
    forall a b, req a b -> req (fold_left tstep o1 a) (fold_left tstep o2 b).
  Proof.
    induction 1 as [|x l l' Hp IH|x y l|l l' l'' Hp1 IH1 Hp2 IH2]; intros a b H; cbn.
    - exact H.
    - apply IH. now apply tstep_req.
    - apply fold_req. eapply req_trans; [apply tstep_swap|]. apply tstep_req. now apply tstep_req.
    - eapply req_trans; [apply IH1, H|]. apply IH2, req_refl.
  Qed.

  (** Under independence the iteration order of the file map could not matter even then. *)
  Theorem v0_templates_order_independent o1 o2 m :
    Permutation o1 o2 ->
    forall k, at_path (render_templates_v0 is_template strip exec o1 m) k =
              at_path (render_templates_v0 is_template strip exec o2 m) k.
  Proof.
    intros Hp k. pose proof (render_perm o1 o2 Hp (Some m) (Some m) (req_refl _)) as H.
    unfold render_templates_v0.
    destruct (fold_left tstep o1 (Some m)), (fold_left tstep o2 (Some m)); cbn in *; try tauto.
    now rewrite H.
  Qed.
End TemplateLawsV0.

(** The hypotheses are satisfiable: templates with constant output. *)
Example independence_satisfiable :
  exec_extensional (fun p _ => Some p) /\
  independent (fun _ => true) (fun p => p + 100) (fun p _ => Some p) /\
  strip_injective (fun _ => true) (fun p => p + 100).
Proof.
  repeat split.
  intros p q _ _ H. lia.
Qed.

(** Without independence the claim is false: the F-C13 witness renders differently under two
    iteration orders of the very same file map. *)
Theorem v0_templates_refuted :
  exists is_template strip exec files order1 order2 k,
    Permutation order1 order2 /\ NoDup order1 /\
    at_path (render_templates_v0 is_template strip exec order1 files) k <>
    at_path (render_templates_v0 is_template strip exec order2 files) k.
Proof.
  exists Witness.is_template, Witness.strip, Witness.exec, Witness.files,
         Witness.order1, Witness.order2, Witness.A_YAML.
  repeat split.
  - unfold Witness.order1, Witness.order2.
    change [Witness.B_TMPL; Witness.B_YAML; Witness.A_TMPL] with ([Witness.B_TMPL; Witness.B_YAML] ++ [Witness.A_TMPL]).
    apply Permutation_cons_append.
  - repeat constructor; cbn; intros H; repeat destruct H as [H|H]; try discriminate H; exact H.
  - vm_compute. discriminate.
Qed.

(** What the two orders give: the packaged b.yaml or the rendered one. *)
Example v0_templates_refuted_values :
  at_path (render_templates_v0 Witness.is_template Witness.strip Witness.exec Witness.order1 Witness.files) Witness.A_YAML
    = Some (Some Witness.STATIC) /\
  at_path (render_templates_v0 Witness.is_template Witness.strip Witness.exec Witness.order2 Witness.files) Witness.A_YAML
    = Some (Some Witness.RENDERED).
Proof. split; reflexivity. Qed.

(** Entries created during the range may or may not be visited: a template whose output name is
    again a template name makes the render succeed or fail depending on that. *)
Theorem v0_templates_refuted_insert :
  render_templates_v0 InsertWitness.is_template InsertWitness.strip InsertWitness.exec
                   InsertWitness.order_skipped InsertWitness.files <> None /\
  render_templates_v0 InsertWitness.is_template InsertWitness.strip InsertWitness.exec
                   InsertWitness.order_produced InsertWitness.files = None.
Proof. split; vm_compute; [discriminate|reflexivity]. Qed.
