(** The (Cluster)ObjectSetPhase controller (internal/controllers/objectsetphases): one Reconcile pass of
    GenericObjectSetPhaseController over the world of ObjectSet.v. The phase objects are those the ObjectSet
    controller creates for phases with a class. Executable definitions only.
    Anchors: objectsetphase_controller.go:178-340, objectsetphase_reconciler.go, objectsetphase_adapter.go. *)
From Coq Require Import List NArith ZArith Bool.
From PKO Require Import Util Base Owner Api Phase ObjectSet.
Import ListNotations.
Local Open Scope N_scope.

(** The phase object as PhaseObjectOwner (objectsetphase_adapter.go): revision and paused come from its spec,
    the package label from its labels (copied from the ObjectSet at creation). *)
Definition phase_owner (po : osphase) : owner :=
  {| ow_id := op_id po; ow_rev := op_revision po; ow_paused := op_paused po; ow_pkg := op_pkg po |}.

(** The kind the previous-revision lookup of the flavour reads (adapters.NewObjectSet / NewClusterObjectSet). *)
Definition set_kind_of (po : osphase) : N :=
  if oi_kind (op_id po) =? KClusterObjectSetPhase then KClusterObjectSet else KObjectSet.

(** PreviousRevisionLookup.Lookup with the phase object as PreviousOwner: spec.previous names ObjectSets in
    the phase object's namespace; a missing one yields an empty identity. *)
Definition lookup_prev_p (sets : list oset) (po : osphase) : list prevrev :=
  map (fun n => match find_set sets (set_kind_of po) (oi_ns (op_id po)) n with
                | Some p => {| pv_id := os_id p; pv_remotes := os_remotes p |}
                | None => {| pv_id := {| oi_kind := set_kind_of po; oi_ns := 0; oi_name := 0; oi_uid := 0 |}; pv_remotes := [] |}
                end) (op_prev po).

Definition set_pconds (p : osphase) (cs : list cond) : osphase :=
  {| op_id := op_id p; op_rv := op_rv p; op_gen := op_gen p; op_owners := op_owners p; op_deleting := op_deleting p;
     op_fin := op_fin p; op_orphan := op_orphan p; op_pkg := op_pkg p; op_class := op_class p; op_paused := op_paused p;
     op_revision := op_revision p; op_prev := op_prev p; op_objects := op_objects p;
     op_conds := cs; op_ctrlof := op_ctrlof p |}.
Definition set_pctrlof (p : osphase) (l : list okey) : osphase :=
  {| op_id := op_id p; op_rv := op_rv p; op_gen := op_gen p; op_owners := op_owners p; op_deleting := op_deleting p;
     op_fin := op_fin p; op_orphan := op_orphan p; op_pkg := op_pkg p; op_class := op_class p; op_paused := op_paused p;
     op_revision := op_revision p; op_prev := op_prev p; op_objects := op_objects p;
     op_conds := op_conds p; op_ctrlof := l |}.
Definition pmk_cond (p : osphase) (t : ctype) (st : cstatus) (r : creason) : cond :=
  {| cd_type := t; cd_status := st; cd_reason := r; cd_gen := op_gen p |}.

Definition pstatus_eqb (a b : osphase) : bool :=
  list_eqb cond_eqb (op_conds a) (op_conds b) && list_eqb okey_eqb (op_ctrlof a) (op_ctrlof b).

Definition with_pstatus (stored mem : osphase) (rv : N) : osphase :=
  {| op_id := op_id stored; op_rv := rv; op_gen := op_gen stored; op_owners := op_owners stored;
     op_deleting := op_deleting stored; op_fin := op_fin stored; op_orphan := op_orphan stored; op_pkg := op_pkg stored;
     op_class := op_class stored; op_paused := op_paused stored; op_revision := op_revision stored;
     op_prev := op_prev stored; op_objects := op_objects stored;
     op_conds := op_conds mem; op_ctrlof := op_ctrlof mem |}.

(** Status().Update of the in-memory copy (305-312): conflict unless the resourceVersion is current, NotFound if
    the object is gone; a status equal to the stored one is a no-op on the server. *)
Definition update_pstatus (sw : sworld) (mem : osphase) : sworld * osphase * bool :=
  match find_phase (sw_phases sw) (oi_kind (op_id mem)) (oi_ns (op_id mem)) (oi_name (op_id mem)) with
  | None => (sw, mem, false)
  | Some stored =>
      if negb (op_rv stored =? op_rv mem) then (sw, mem, false) else
      if pstatus_eqb stored mem then (sw, mem, true) else
      let s' := with_pstatus stored mem (w_rv (sw_w sw)) in
      (with_phases sw (bump_rv (sw_w sw)) (put_phase (sw_phases sw) s'), s', true)
  end.

(** EnsureFinalizer / RemoveFinalizer (controllers.go:22-76) on the phase object: merge patch pinned to the
    resourceVersion; the response replaces the in-memory copy. Removing the last finalizer of a deleting
    object deletes it. *)
Definition patch_pfinalizer (sw : sworld) (mem : osphase) (fin : bool) : sworld * option osphase :=
  match find_phase (sw_phases sw) (oi_kind (op_id mem)) (oi_ns (op_id mem)) (oi_name (op_id mem)) with
  | None => (sw, None)
  | Some stored =>
      if negb (op_rv stored =? op_rv mem) then (sw, None) else
      let s' := phase_with stored (w_rv (sw_w sw)) (op_gen stored) (op_deleting stored) fin (op_orphan stored) (op_paused stored) in
      if negb fin && op_deleting stored && negb (op_orphan stored)
      then (with_phases sw (bump_rv (sw_w sw)) (del_phase (sw_phases sw) (op_id stored)), Some s')
      else (with_phases sw (bump_rv (sw_w sw)) (put_phase (sw_phases sw) s'), Some s')
  end.

Definition pstatus_ev (mem : osphase) (ok : bool) : sev :=
  SPhase (PStatus (oi_name (op_id mem)) (op_conds mem) (op_ctrlof mem) ok).

(** reportPausedCondition (283-297): Paused=True while spec.paused, else the condition is removed
    (ObjectSetPaused and ObjectSetPhasePaused are the same string). *)
Definition ppaused_cond (mem : osphase) : list cond :=
  if op_paused mem then set_cond (op_conds mem) (pmk_cond mem CPaused STrue RPaused)
  else remove_cond (op_conds mem) CPaused.

Section PhasePass.
  Variable f : flavor.       (* FSamePhase / FSameClusterPhase: native owner references;
                                FMultiPhase / FMultiClusterPhase: owner annotation *)
  Variable force : bool.
  Variable cls : N.          (* the class the controller was started for; 1 = "default" *)
  Let c : cfg := {| c_flavor := f; c_force := force |}.
  Let idw (w : world) := w.
  Let st : strat := flavor_strat f.

  (** handleDeletionAndArchival (314-338) followed by updateStatus (207). Teardown (objectsetphase_reconciler.go
      :131-141): nothing to do under the "orphan" finalizer, else TeardownPhase with the phase object as owner. *)
  Definition pdeletion_pass (sw : sworld) (mem : osphase) : sworld * list sev * sres :=
    let '(w1, tevs, td) :=
      if op_fin mem then
        if op_orphan mem then (sw_w sw, [], TdOk true)
        else teardown_phase c idw (sw_w sw) (phase_owner mem) (op_objects mem)
      else (sw_w sw, [], TdOk true) in
    let sw1 := with_w sw w1 in
    let evs1 := map SMember tevs in
    let finish (sw' : sworld) (evs : list sev) (m : osphase) :=
      let '(sw'', _, ok) := update_pstatus sw' m in
      (sw'', evs ++ [pstatus_ev m ok], if ok then SDone false else SError) in
    match td with
    | TdErr => (sw1, evs1, SError)
    | TdOk false => finish sw1 evs1 mem
    | TdOk true =>
        if op_fin mem then
          match patch_pfinalizer sw1 mem false with
          | (sw2, None) => (sw2, evs1 ++ [SPhase (PFinalizer (oi_name (op_id mem)) false false)], SError)
          | (sw2, Some mem2) =>
              (* the status update that follows finds the object gone unless another finalizer holds it *)
              finish sw2 (evs1 ++ [SPhase (PFinalizer (oi_name (op_id mem)) false true)]) mem2
          end
        else finish sw1 evs1 mem
    end.

  (** objectSetPhaseReconciler.Reconcile (objectsetphase_reconciler.go:68-129), the error mapping of
      UpdateObjectSetOrPhaseStatusFromError, reportPausedCondition and updateStatus. *)
  Definition pactive_body (sw0 : sworld) (evs0 : list sev) (mem : osphase) : sworld * list sev * sres :=
    let ow := phase_owner mem in
    let prev := lookup_prev_p (sw_sets sw0) mem in
    let fail_with (sw' : sworld) (evs : list sev) (r : creason) :=
      let m' := set_pconds mem (set_cond (op_conds mem) (pmk_cond mem CAvailable SFalse r)) in
      let '(sw'', _, ok) := update_pstatus sw' m' in
      (sw'', evs ++ [pstatus_ev m' ok], if ok then SDone true else SError) in
    (* GetPhase() returns the objects only: no class, no name (objectsetphase_adapter.go:82-86) *)
    match reconcile_phase c idw (sw_w sw0) ow prev false (op_objects mem) with
    | (w1, e1, PhPreflight _) => fail_with (with_w sw0 w1) (evs0 ++ map SMember e1) RPreflightError
    | (w1, e1, PhErr ErrNotPrevious) | (w1, e1, PhErr ErrRevCollision) =>
        fail_with (with_w sw0 w1) (evs0 ++ map SMember e1) RCollisionDetected
    | (w1, e1, PhErr _) => (with_w sw0 w1, evs0 ++ map SMember e1, SError)
    | (w1, e1, PhOk actual failed) =>
        (* reportOwnActiveObjects *)
        let ctrlof := map fst (filter (fun ko => is_controller st (ow_id ow) (snd ko)) actual) in
        let m1 := set_pctrlof mem ctrlof in
        let cs := match failed with
                  | _ :: _ => set_cond (op_conds m1) (pmk_cond m1 CAvailable SFalse RProbeFailure)
                  | [] => set_cond (op_conds m1) (pmk_cond m1 CAvailable STrue RAvailable)
                  end in
        let m2 := set_pconds m1 cs in
        let m3 := set_pconds m2 (ppaused_cond m2) in
        let '(sw3, _, ok) := update_pstatus (with_w sw0 w1) m3 in
        (sw3, evs0 ++ map SMember e1 ++ [pstatus_ev m3 ok], if ok then SDone false else SError)
    end.

  (** GenericObjectSetPhaseController.Reconcile (178-227). *)
  Definition objectsetphase_pass (sw : sworld) (kind ns name : N) : sworld * list sev * sres :=
    match find_phase (sw_phases sw) kind ns name with
    | None => (sw, [], SNothing)
    | Some mem =>
        if negb (op_class mem =? cls) then (sw, [], SNothing) else      (* 191-193: class filter *)
        if op_deleting mem then pdeletion_pass sw mem else
        if op_fin mem then pactive_body sw [] mem else                 (* EnsureCachedFinalizer *)
        match patch_pfinalizer sw mem true with
        | (sw', None) => (sw', [SPhase (PFinalizer name true false)], SError)
        | (sw', Some m) => pactive_body sw' [SPhase (PFinalizer name true true)] m
        end
    end.
End PhasePass.
