(** Theorems about the Package controller pass (C16).  All statements quantify over every oracle
    outcome, every stored state and every outcome of every API request. *)
From Coq Require Import List NArith Bool Lia.
From PKO Require Import Util Package.
Import ListNotations.
Local Open Scope N_scope.

(** ** Weakest-precondition rule for one API request *)

Lemma call_gen_wp (Q : result -> Prop) k found eff s kok knf kcf :
  (forall s' r, st_log s' = st_log s ++ [EReq k r] ->
        (st_w s' = st_w s \/ (found = true /\ st_w s' = eff (st_w s))) -> Q (fail s')) ->
  (found = true -> forall s', st_log s' = st_log s ++ [EReq k OOk] -> st_w s' = eff (st_w s) -> Q (kok s')) ->
  (found = false -> forall s', st_log s' = st_log s ++ [EReq k ONotFound] -> st_w s' = st_w s -> Q (knf s')) ->
  (found = true -> forall s', st_log s' = st_log s ++ [EReq k OConflict] -> st_w s' = st_w s -> Q (kcf s')) ->
  Q (call_gen k found eff s kok knf kcf).
Proof.
  intros Hf Hok Hnf Hcf. unfold call_gen.
  destruct (match st_f s with [] => SOk | x :: _ => x end).
  - destruct found; cbn [negb]; [|apply Hnf; reflexivity].
    destruct (checks_od k && _); [apply Hcf|apply Hok]; reflexivity.
  - apply (Hf _ OFault); [reflexivity|now left].
  - destruct found; cbn [negb]; [|apply Hnf; reflexivity].
    destruct (checks_od k && _); [apply Hcf; reflexivity|].
    apply (Hf _ OFault); [reflexivity|right; split; reflexivity].
Qed.

Lemma call_wp (Q : result -> Prop) k found eff s kok knf :
  (forall s' r, st_log s' = st_log s ++ [EReq k r] ->
        (st_w s' = st_w s \/ (found = true /\ st_w s' = eff (st_w s))) -> Q (fail s')) ->
  (found = true -> forall s', st_log s' = st_log s ++ [EReq k OOk] -> st_w s' = eff (st_w s) -> Q (kok s')) ->
  (found = false -> forall s', st_log s' = st_log s ++ [EReq k ONotFound] -> st_w s' = st_w s -> Q (knf s')) ->
  Q (call k found eff s kok knf).
Proof.
  intros Hf Hok Hnf. unfold call. apply call_gen_wp; try assumption.
  intros _ s' Hl Hw. apply (Hf s' OConflict Hl). now left.
Qed.

(** ** Conditions *)

Lemma ctype_eqb_eq a b : ctype_eqb a b = true <-> a = b.
Proof. destruct a, b; cbn; split; congruence. Qed.

Lemma ctype_eqb_refl a : ctype_eqb a a = true.
Proof. now destruct a. Qed.

Lemma find_set_same c l : find_cond (c_type c) (set_cond c l) = Some c.
Proof.
  induction l as [|x l IH]; cbn.
  - now rewrite ctype_eqb_refl.
  - destruct (ctype_eqb (c_type x) (c_type c)) eqn:E; cbn.
    + now rewrite ctype_eqb_refl.
    + now rewrite E.
Qed.

Lemma find_set_other t c l : t <> c_type c -> find_cond t (set_cond c l) = find_cond t l.
Proof.
  intros Hne. induction l as [|x l IH]; cbn.
  - destruct (ctype_eqb (c_type c) t) eqn:E; [apply ctype_eqb_eq in E; congruence|reflexivity].
  - destruct (ctype_eqb (c_type x) (c_type c)) eqn:E; cbn.
    + apply ctype_eqb_eq in E. rewrite E.
      destruct (ctype_eqb (c_type c) t) eqn:E2; [apply ctype_eqb_eq in E2; congruence|reflexivity].
    + now rewrite IH.
Qed.

Lemma find_remove_same t l : find_cond t (remove_cond t l) = None.
Proof.
  unfold remove_cond. induction l as [|x l IH]; cbn; [reflexivity|].
  destruct (ctype_eqb (c_type x) t) eqn:E; cbn; [assumption|now rewrite E].
Qed.

Lemma find_remove_other t u l : t <> u -> find_cond t (remove_cond u l) = find_cond t l.
Proof.
  intros Hne. unfold remove_cond. induction l as [|x l IH]; cbn; [reflexivity|].
  destruct (ctype_eqb (c_type x) u) eqn:E; cbn.
  - apply ctype_eqb_eq in E. destruct (ctype_eqb (c_type x) t) eqn:E2; [apply ctype_eqb_eq in E2; congruence|assumption].
  - now rewrite IH.
Qed.

Lemma has_set t b r g l : has_cond t b r (set_cond {| c_type := t; c_status := b; c_reason := r; c_gen := g |} l) = true.
Proof.
  unfold has_cond. pose proof (find_set_same {| c_type := t; c_status := b; c_reason := r; c_gen := g |} l) as H.
  cbn in H. rewrite H. cbn. destruct b, r; reflexivity.
Qed.

Lemma has_set_other t b r c l : t <> c_type c -> has_cond t b r (set_cond c l) = has_cond t b r l.
Proof. intros H. unfold has_cond. now rewrite find_set_other. Qed.

Lemma spec_eqb_refl s : spec_eqb s s = true.
Proof. unfold spec_eqb. rewrite !N.eqb_refl, eqb_reflx. reflexivity. Qed.

Lemma spec_eqb_eq a b : spec_eqb a b = true <-> a = b.
Proof.
  split; [|intros ->; apply spec_eqb_refl]. unfold spec_eqb. rewrite !andb_true_iff, !N.eqb_eq, eqb_true_iff.
  destruct a, b; cbn. intros [[[-> ->] ->] ->]. reflexivity.
Qed.

Lemma tmpl_eqb_eq a b : tmpl_eqb a b = true <-> a = b.
Proof. apply option_eqb_spec. intros; apply N.eqb_eq. Qed.

Lemma none_of_app f l1 l2 : none_of f (l1 ++ l2) = none_of f l1 && none_of f l2.
Proof. unfold none_of. apply forallb_app. Qed.

Lemma none_of_single f e : f e = false -> none_of f [e] = true.
Proof. intros H. unfold none_of. cbn. now rewrite H. Qed.

(** ** A pass that does not deploy leaves the ObjectDeployment template alone *)

Section Pass.
  Variable digest : N -> N -> N -> N.
  Variable fixed : bool.
  Variable o : oracle.

  Notation reconcile := (reconcile digest fixed o).
  Notation deploy := (deploy digest fixed o).
  Notation deploy_rest := (deploy_rest digest fixed o).
  Notation deployment_reconcile := (deployment_reconcile digest).
  Notation unpack := (unpack digest fixed o).

  (** [same_od w w']: the ObjectDeployment of [w'] is that of [w] up to spec.paused and generation. *)
  Definition same_od (w w' : world) : Prop := od_tmpl w' = od_tmpl w.

  (** Events that must not happen; of the API requests only ObjectDeployment create / update
      by the deployment reconciler are ever "bad". *)
  Variable bad : ev -> bool.
  Hypothesis bad_req : forall k r, bad (EReq k r) = is_od_write (EReq k r).

  (** [quiet s0 r]: relative to the state [s0] in which the pass (or a suffix of it) started, the
      new events contain no bad event and the template of the ObjectDeployment is untouched
      (in particular no ObjectDeployment appeared). *)
  Definition quiet (s0 : st) (r : result) : Prop :=
    exists l, st_log (r_st r) = st_log s0 ++ l /\ none_of bad l = true /\ same_od (st_w s0) (st_w (r_st r)).

  Lemma quiet_refl_fail s : quiet s (fail s).
  Proof. exists []. cbn. rewrite app_nil_r. repeat split. Qed.

  Lemma quiet_trans s0 s1 r :
    (exists l, st_log s1 = st_log s0 ++ l /\ none_of bad l = true /\ same_od (st_w s0) (st_w s1)) ->
    quiet s1 r -> quiet s0 r.
  Proof.
    intros (l1 & H1 & H2 & H3) (l2 & G1 & G2 & G3). exists (l1 ++ l2). repeat split.
    - now rewrite G1, H1, app_assoc.
    - now rewrite none_of_app, H2, G2.
    - unfold same_od in *. congruence.
  Qed.

  (** A request that is no ObjectDeployment write and whose effect keeps the template is quiet. *)
  Lemma call_quiet k found eff s kok knf :
    is_od_write (EReq k OOk) = false ->
    (forall w, same_od w (eff w)) ->
    (forall s', st_log s' = st_log s ++ [EReq k OOk] -> st_w s' = eff (st_w s) -> quiet s' (kok s')) ->
    (forall s', st_log s' = st_log s ++ [EReq k ONotFound] -> st_w s' = st_w s -> quiet s' (knf s')) ->
    quiet s (call k found eff s kok knf).
  Proof.
    intros Hk Heff Hok Hnf.
    assert (Hw : forall r, bad (EReq k r) = false) by (intros r; rewrite bad_req; destruct k; cbn in *; congruence).
    apply call_wp.
    - intros s' r Hl Hwld. exists [EReq k r]. split; [exact Hl|]. split; [apply none_of_single, Hw|].
      cbn. destruct Hwld as [->|[_ ->]]; [reflexivity|apply Heff].
    - intros _ s' Hl Hw'. eapply quiet_trans; [|apply Hok; assumption].
      exists [EReq k OOk]. split; [exact Hl|]. split; [apply none_of_single, Hw|]. rewrite Hw'. apply Heff.
    - intros _ s' Hl Hw'. eapply quiet_trans; [|apply Hnf; assumption].
      exists [EReq k ONotFound]. split; [exact Hl|]. split; [apply none_of_single, Hw|]. rewrite Hw'. reflexivity.
  Qed.

  Lemma same_od_id w : same_od w w. Proof. reflexivity. Qed.
  Lemma same_od_status p w : same_od w (eff_status p w). Proof. reflexivity. Qed.
  Lemma same_od_pull w : same_od w (eff_pull w). Proof. reflexivity. Qed.
  Lemma same_od_pause b w : same_od w (eff_pause b w).
  Proof. unfold same_od, od_tmpl, eff_pause. destruct (w_od w) eqn:E; cbn; [reflexivity|now rewrite E]. Qed.

  Lemma update_status_quiet p rq s : quiet s (update_status p rq s).
  Proof.
    unfold update_status. apply call_quiet; [reflexivity|apply same_od_status| |].
    - intros s' _ _. exists []. cbn. rewrite app_nil_r. repeat split.
    - intros s' _ _. apply quiet_refl_fail.
  Qed.

  Lemma status_reconcile_quiet s k :
    (forall s', quiet s' (k s')) -> quiet s (status_reconcile s k).
  Proof. intros Hk. unfold status_reconcile. apply call_quiet; [reflexivity|apply same_od_id|intros; apply Hk|intros; apply Hk]. Qed.

  Lemma after_unpack_quiet p s : quiet s (after_unpack p s).
  Proof. unfold after_unpack. apply status_reconcile_quiet. intros. apply update_status_quiet. Qed.

  Lemma unpacked_quiet p s : quiet s (unpacked p s).
  Proof. unfold unpacked. apply after_unpack_quiet. Qed.

  (** Deploy does not reach the deployment reconciler unless the package is deployable. *)
  Lemma deploy_rest_quiet p msgs s :
    (fixed = true /\ msgs <> []) \/ config_ok o = false \/ o_images o = false \/ o_render o = false ->
    quiet s (deploy_rest p msgs s).
  Proof.
    intros H. unfold deploy_rest.
    destruct (fixed && negb (is_nil msgs)) eqn:Efx; [apply unpacked_quiet|].
    destruct H as [[-> Hm]|H].
    { destruct msgs; [congruence|discriminate]. }
    unfold config_ok in H.
    destruct (o_config o); try apply quiet_refl_fail.
    destruct (o_images o); cbn; [|apply quiet_refl_fail].
    destruct (o_render o); cbn; [|apply quiet_refl_fail].
    destruct H as [H|[H|H]]; discriminate.
  Qed.

  Lemma logev_quiet s e r : bad e = false -> quiet (logev s e) r -> quiet s r.
  Proof.
    intros He Hq. eapply quiet_trans; [|exact Hq]. exists [e]. split; [reflexivity|]. split; [now apply none_of_single|reflexivity].
  Qed.

  Lemma rest_cond (msgs : list ckind) :
    o_pull o = true -> o_load o = true -> o_range_ok o = true -> unique_err o = false ->
    deployable fixed o = false -> (msgs = [] -> unmet o = false) ->
    (fixed = true /\ msgs <> []) \/ config_ok o = false \/ o_images o = false \/ o_render o = false.
  Proof.
    intros Hp Hl Hr Hu Hd Hm. unfold deployable, all_ok, stages_ok, cons_err in Hd. rewrite Hp, Hl, Hr, Hu in Hd. cbn in Hd.
    destruct (config_ok o); [|now (right; left)]. destruct (o_images o); [|now (right; right; left)].
    destruct (o_render o); [|now (right; right; right)]. cbn in Hd. left.
    destruct fixed; [|discriminate]. split; [reflexivity|]. intros ->. rewrite (Hm eq_refl) in Hd. discriminate.
  Qed.

  Lemma deploy_quiet p s :
    bad EDeploy = false -> deployable fixed o = false -> o_pull o = true -> quiet s (deploy p s).
  Proof.
    intros Hbd Hd Hpull. unfold deploy. apply (logev_quiet s EDeploy); [assumption|].
    set (s1 := logev s EDeploy). clearbody s1.
    destruct (o_load o) eqn:El; cbn; [|apply unpacked_quiet].
    destruct (o_range_ok o) eqn:Er; cbn; [|apply quiet_refl_fail].
    destruct (o_unique o) as [l|] eqn:Eu.
    - apply call_quiet; [reflexivity|apply same_od_id| |intros; apply quiet_refl_fail].
      intros s' _ _. destruct (l =? 0) eqn:E0; [apply quiet_refl_fail|].
      assert (Hue : unique_err o = false) by (unfold unique_err; now rewrite Eu).
      destruct (l =? 1) eqn:E1.
      + apply deploy_rest_quiet. apply rest_cond; try assumption.
        intros Hm. unfold unmet, unique_unmet. rewrite Hm, Eu. cbn. apply N.eqb_eq in E1. subst l. reflexivity.
      + apply deploy_rest_quiet. apply rest_cond; try assumption.
        intros Hm. destruct (o_unmet o); discriminate.
    - apply deploy_rest_quiet. apply rest_cond; try assumption.
      + unfold unique_err. now rewrite Eu.
      + intros Hm. unfold unmet, unique_unmet. rewrite Hm, Eu. reflexivity.
  Qed.

  Lemma deployable_pull : deployable fixed o = true -> o_pull o = true.
  Proof. unfold deployable, all_ok, stages_ok. destruct fixed, (o_pull o); cbn; congruence. Qed.

  (** The unpack reconciler: quiet when the hash matches (then not even a pull or Deploy), or
      when the package is not deployable. *)
  Lemma unpack_quiet p s :
    hash_eqb (p_hash p) (p_spec p) = true \/
    ((forall i, bad (EPull i) = false) /\ bad EDeploy = false /\ deployable fixed o = false) ->
    quiet s (unpack p s).
  Proof.
    intros H. unfold unpack. destruct (hash_eqb (p_hash p) (p_spec p)) eqn:Eh; [apply after_unpack_quiet|].
    destruct H as [H|(Hbp & Hbd & Hd)]; [discriminate|].
    apply (quiet_trans s {| st_w := eff_pull (st_w s); st_f := st_f s; st_d := st_d s; st_dirty := st_dirty s;
                            st_log := st_log s ++ [EPull (s_image (p_spec p))] |}).
    { exists [EPull (s_image (p_spec p))]. split; [reflexivity|]. split; [apply none_of_single, Hbp|apply same_od_pull]. }
    destruct (o_pull o) eqn:Ep; cbn; [|apply update_status_quiet].
    now apply deploy_quiet.
  Qed.

  Definition reach (p : pkg) : bool := negb (s_paused (p_spec p)) && negb (hash_eqb (p_hash p) (p_spec p)).

  Lemma reconcile_quiet s :
    reach (w_pkg (st_w s)) = false \/
    ((forall i, bad (EPull i) = false) /\ bad EDeploy = false /\ deployable fixed o = false) ->
    quiet s (reconcile s).
  Proof.
    intros H. unfold Package.reconcile.
    apply call_quiet; [reflexivity|apply same_od_id| |intros; apply quiet_refl_fail].
    intros s1 _ Hw1. rewrite Hw1.
    assert (Hsub : forall s', quiet s'
       (if s_paused (p_spec (w_pkg (st_w s))) then status_reconcile s' (update_status (w_pkg (st_w s)) false)
        else unpack (w_pkg (st_w s)) s')).
    { intros s'. destruct (s_paused (p_spec (w_pkg (st_w s)))) eqn:Epa.
      - apply status_reconcile_quiet. intros. apply update_status_quiet.
      - apply unpack_quiet. destruct H as [H|H]; [left|now right].
        unfold reach in H. rewrite Epa in H. cbn in H. now apply negb_false_iff in H. }
    assert (Hk : forall s', quiet s'
       (if Bool.eqb (s_paused (p_spec (w_pkg (st_w s)))) (match w_od (st_w s') with Some d => d_paused d | None => false end)
        then (if s_paused (p_spec (w_pkg (st_w s))) then status_reconcile s' (update_status (w_pkg (st_w s)) false)
              else unpack (w_pkg (st_w s)) s')
        else call KPauseOD (is_some (w_od (st_w s'))) (eff_pause (s_paused (p_spec (w_pkg (st_w s))))) s'
               (fun s0 => if s_paused (p_spec (w_pkg (st_w s))) then status_reconcile s0 (update_status (w_pkg (st_w s)) false)
                          else unpack (w_pkg (st_w s)) s0) fail)).
    { intros s'. destruct (Bool.eqb _ _); [apply Hsub|].
      apply call_quiet; [reflexivity|apply same_od_pause|intros; apply Hsub|intros; apply quiet_refl_fail]. }
    apply call_quiet; [reflexivity|apply same_od_id|intros; apply Hk|intros; apply Hk].
  Qed.
End Pass.

(** ** The error-free pass in closed form *)

Definition okpost (Post : result -> Prop) (r : result) : Prop := r_err r = false -> Post r.

Lemma okpost_fail Post s : okpost Post (fail s).
Proof. intros H. discriminate. Qed.

Lemma okpost_weaken (P Q : result -> Prop) r : (forall r, P r -> Q r) -> okpost P r -> okpost Q r.
Proof. intros H HP He. apply H, HP, He. Qed.

Lemma call_ok Post k found eff s kok knf :
  (found = true -> forall s', st_w s' = eff (st_w s) -> okpost Post (kok s')) ->
  (found = false -> forall s', st_w s' = st_w s -> okpost Post (knf s')) ->
  okpost Post (call k found eff s kok knf).
Proof.
  intros Hok Hnf. apply call_wp.
  - intros. apply okpost_fail.
  - intros Hf s' _ Hw. now apply Hok.
  - intros Hf s' _ Hw. now apply Hnf.
Qed.

Lemma call_gen_ok Post k found eff s kok knf kcf :
  (found = true -> forall s', st_w s' = eff (st_w s) -> okpost Post (kok s')) ->
  (found = false -> forall s', st_w s' = st_w s -> okpost Post (knf s')) ->
  (found = true -> forall s', st_w s' = st_w s -> okpost Post (kcf s')) ->
  okpost Post (call_gen k found eff s kok knf kcf).
Proof.
  intros Hok Hnf Hcf. apply call_gen_wp.
  - intros. apply okpost_fail.
  - intros Hf s' _ Hw. now apply Hok.
  - intros Hf s' _ Hw. now apply Hnf.
  - intros Hf s' _ Hw. now apply Hcf.
Qed.

(** final stored objects and requeue flag of a result *)
Definition fin (w : world) (rq : bool) (r : result) : Prop := st_w (r_st r) = w /\ r_requeue r = rq.

(** unpack_reconciler.go:141-149 *)
Definition mark_unpacked (p : pkg) : pkg :=
  {| p_spec := p_spec p; p_gen := p_gen p; p_hash := Some (p_spec p);
     p_conds := set_cond (mk_cond p CUnpacked true RUnpackSuccess) (p_conds p) |}.

Definition ensure_od (w : world) : world := if is_some (w_od w) then w else eff_create w.

(** validateConstraints :375-383 *)
Definition note_msgs (p : pkg) (msgs : list ckind) : pkg :=
  if is_nil msgs then p else with_conds p (set_cond (mk_cond p CInvalid true RConstraintsFailed) (p_conds p)).

Definition msgs_of (o : oracle) : list ckind := o_unmet o ++ (if unique_unmet o then [KUnique] else []).

Lemma msgs_of_nil o : is_nil (msgs_of o) = negb (unmet o).
Proof. unfold msgs_of, unmet. destruct (o_unmet o), (unique_unmet o); reflexivity. Qed.

Section PassOk.
  Variable digest : N -> N -> N -> N.
  Variable fixed : bool.
  Variable o : oracle.

  Lemma update_status_ok p rq s : okpost (fin (eff_status p (st_w s)) rq) (update_status p rq s).
  Proof.
    unfold update_status. apply call_ok; [|discriminate].
    intros _ s' Hw _. split; [exact Hw|reflexivity].
  Qed.

  Lemma status_reconcile_ok Post s k :
    (forall s', st_w s' = st_w s -> okpost Post (k s')) -> okpost Post (status_reconcile s k).
  Proof. intros H. unfold status_reconcile. apply call_ok; intros _ s' Hw; now apply H. Qed.

  Lemma after_unpack_ok p s : okpost (fin (eff_status p (st_w s)) false) (after_unpack p s).
  Proof.
    unfold after_unpack. apply status_reconcile_ok. intros s' Hw. rewrite <- Hw. apply update_status_ok.
  Qed.

  Lemma unpacked_ok p s : okpost (fin (eff_status (mark_unpacked p) (st_w s)) false) (unpacked p s).
  Proof. unfold unpacked. apply after_unpack_ok. Qed.

  Definition deployed (p : pkg) (w : world) : world :=
    eff_status (mark_unpacked (with_conds p (remove_cond CInvalid (p_conds p))))
               (eff_update (Some (spec_digest digest (p_spec p))) (ensure_od w)).

  (** the retry loop: whatever the number of Conflicts, an error-free exit has written the template *)
  Lemma update_loop_ok Post n t k : forall s,
    (forall s', st_w s' = eff_update t (st_w s) -> okpost Post (k s')) ->
    okpost Post (update_loop n t s k).
  Proof.
    induction n as [|n IH]; intros s Hk; cbn [update_loop].
    - apply call_gen_ok; [intros _ s' Hw; now apply Hk|discriminate|].
      intros _ s' Hw. apply call_ok; [|discriminate]. intros _ s2 Hw2. exact (okpost_fail _ _).
    - apply call_gen_ok; [intros _ s' Hw; now apply Hk|discriminate|].
      intros _ s' Hw. apply call_ok; [|discriminate]. intros _ s2 Hw2.
      apply IH. intros s3 Hw3. apply Hk. now rewrite Hw3, Hw2, Hw.
  Qed.

  Lemma deployment_reconcile_ok p s :
    okpost (fin (deployed p (st_w s)) false) (deployment_reconcile digest p s).
  Proof.
    unfold deployment_reconcile.
    assert (Hupd : forall s1 w1, st_w s1 = w1 ->
      okpost (fin (eff_status (mark_unpacked (with_conds p (remove_cond CInvalid (p_conds p))))
                              (eff_update (Some (spec_digest digest (p_spec p))) w1)) false)
        (update_loop (pred retry_steps) (Some (spec_digest digest (p_spec p))) s1
          (fun s2 => call KListSet true (fun w => w) s2
             (fun s3 => call KListSlice true (fun w => w) s3
                (fun s4 => unpacked (with_conds p (remove_cond CInvalid (p_conds p))) s4) fail) fail))).
    { intros s1 w1 Hw1. apply update_loop_ok. intros s2 Hw2.
      apply call_ok; [|discriminate]. intros _ s3 Hw3.
      apply call_ok; [|discriminate]. intros _ s4 Hw4.
      rewrite <- Hw1, <- Hw2, <- Hw3, <- Hw4. apply unpacked_ok. }
    unfold deployed, ensure_od.
    apply call_ok.
    - intros Hf s1 Hw1. rewrite Hf. now apply Hupd.
    - intros Hf s1 Hw1. rewrite Hf. apply call_ok; [|discriminate]. intros _ s2 Hw2.
      apply Hupd. now rewrite Hw2, Hw1.
  Qed.

  Definition ok_rest (p : pkg) (msgs : list ckind) (w : world) : world :=
    if fixed && negb (is_nil msgs) then eff_status (mark_unpacked (note_msgs p msgs)) w
    else deployed (note_msgs p msgs) w.

  Lemma deploy_rest_ok p msgs s :
    okpost (fun r => fin (ok_rest p msgs (st_w s)) false r /\
                     (fixed && negb (is_nil msgs) = true \/
                      (config_ok o = true /\ o_images o = true /\ o_render o = true)))
           (deploy_rest digest fixed o p msgs s).
  Proof.
    unfold deploy_rest, ok_rest. fold (note_msgs p msgs).
    destruct (fixed && negb (is_nil msgs)) eqn:E.
    - eapply okpost_weaken; [|apply unpacked_ok]. intros r H. split; [exact H|now left].
    - unfold config_ok. destruct (o_config o); [|exact (okpost_fail _ _)|exact (okpost_fail _ _)].
      destruct (o_images o); cbn [negb]; [|exact (okpost_fail _ _)].
      destruct (o_render o); cbn [negb]; [|exact (okpost_fail _ _)].
      eapply okpost_weaken; [|apply deployment_reconcile_ok]. intros r H. split; [exact H|right; repeat split].
  Qed.

  Definition load_failed (p : pkg) : pkg :=
    with_conds p (set_cond (mk_cond p CInvalid true RLoadError) (p_conds p)).

  Definition ok_deploy (p : pkg) (w : world) : world :=
    if negb (o_load o) then eff_status (mark_unpacked (load_failed p)) w else ok_rest p (msgs_of o) w.

  Lemma deploy_ok p s :
    okpost (fun r => fin (ok_deploy p (st_w s)) false r /\
                     (o_load o = false \/
                      (o_load o = true /\ cons_err o = false /\
                       (fixed && unmet o = true \/
                        (config_ok o = true /\ o_images o = true /\ o_render o = true)))))
           (deploy digest fixed o p s).
  Proof.
    unfold deploy, ok_deploy. fold (load_failed p).
    change (st_w s) with (st_w (logev s EDeploy)). set (s1 := logev s EDeploy). clearbody s1.
    destruct (o_load o) eqn:El; cbn [negb].
    2:{ eapply okpost_weaken; [|apply unpacked_ok]. intros r H. split; [exact H|now left]. }
    destruct (o_range_ok o) eqn:Er; cbn [negb]; [|exact (okpost_fail _ _)].
    assert (Hgen : forall s2 m, st_w s2 = st_w s1 -> unique_err o = false -> m = msgs_of o ->
              okpost (fun r => fin (ok_rest p (msgs_of o) (st_w s1)) false r /\
                     (true = false \/ (true = true /\ cons_err o = false /\
                       (fixed && unmet o = true \/
                        (config_ok o = true /\ o_images o = true /\ o_render o = true)))))
                (deploy_rest digest fixed o p m s2)).
    { intros s2 m Hw Hue ->. eapply okpost_weaken; [|apply deploy_rest_ok]. rewrite Hw.
      intros r [H1 H2]. split; [exact H1|]. right. split; [reflexivity|]. split.
      - unfold cons_err. now rewrite Er, Hue.
      - rewrite msgs_of_nil, negb_involutive in H2. exact H2. }
    destruct (o_unique o) as [l|] eqn:Eu.
    - apply call_ok; [|discriminate]. intros _ s2 Hw2.
      destruct (N.eqb_spec l 0) as [->|Hl0]; [exact (okpost_fail _ _)|].
      assert (Hue : unique_err o = false) by (unfold unique_err; rewrite Eu; now apply N.eqb_neq).
      destruct (N.eqb_spec l 1) as [->|Hl1].
      + apply Hgen; [assumption|assumption|]. unfold msgs_of, unique_unmet. rewrite Eu. cbn. now rewrite app_nil_r.
      + apply Hgen; [assumption|assumption|]. unfold msgs_of, unique_unmet. rewrite Eu.
        assert (H2 : (2 <=? l) = true) by (apply N.leb_le; lia). now rewrite H2.
    - apply Hgen; [reflexivity| |].
      + unfold unique_err. now rewrite Eu.
      + unfold msgs_of, unique_unmet. rewrite Eu. now rewrite app_nil_r.
  Qed.

  Definition pull_failed (p : pkg) : pkg :=
    with_conds p (set_cond (mk_cond p CUnpacked false RImagePullBackOff) (p_conds p)).

  Definition ok_unpack (p : pkg) (w : world) : world :=
    if hash_eqb (p_hash p) (p_spec p) then eff_status p w
    else if negb (o_pull o) then eff_status (pull_failed p) (eff_pull w)
    else ok_deploy p (eff_pull w).

  (** what an error-free pass through Deploy implies about the oracle *)
  Definition went_through : Prop :=
    o_pull o = false \/ o_load o = false \/
    (o_load o = true /\ cons_err o = false /\
     (fixed && unmet o = true \/ (config_ok o = true /\ o_images o = true /\ o_render o = true))).

  Lemma unpack_ok p s :
    okpost (fun r => fin (ok_unpack p (st_w s)) (negb (hash_eqb (p_hash p) (p_spec p)) && negb (o_pull o)) r /\
                     (hash_eqb (p_hash p) (p_spec p) = false -> went_through))
           (unpack digest fixed o p s).
  Proof.
    unfold unpack, ok_unpack. fold (pull_failed p).
    destruct (hash_eqb (p_hash p) (p_spec p)) eqn:Eh; cbn [negb andb].
    - eapply okpost_weaken; [|apply after_unpack_ok]. intros r H. split; [exact H|discriminate].
    - destruct (o_pull o) eqn:Ep; cbn [negb andb].
      + eapply okpost_weaken; [|apply deploy_ok]. cbn beta. intros r [H1 H2]. split; [exact H1|].
        intros _. right. exact H2.
      + eapply okpost_weaken; [|apply update_status_ok]. cbn beta. intros r H. split; [exact H|]. intros _. now left.
  Qed.

  Definition pause_sync (w : world) : world :=
    let pa := s_paused (p_spec (w_pkg w)) in
    if Bool.eqb pa (match w_od w with Some d => d_paused d | None => false end) then w else eff_pause pa w.

  Definition ok_world (w : world) : world :=
    let p := w_pkg w in
    if s_paused (p_spec p) then eff_status p (pause_sync w) else ok_unpack p (pause_sync w).

  Theorem reconcile_ok s :
    let p := w_pkg (st_w s) in
    okpost (fun r => fin (ok_world (st_w s)) (reach p && negb (o_pull o)) r /\ (reach p = true -> went_through))
           (reconcile digest fixed o s).
  Proof.
    intros p. unfold Package.reconcile. apply call_ok; [|discriminate]. intros _ s1 Hw1. rewrite Hw1. fold p.
    assert (Hsub : forall s', st_w s' = pause_sync (st_w s) ->
      okpost (fun r => fin (ok_world (st_w s)) (reach p && negb (o_pull o)) r /\ (reach p = true -> went_through))
        (if s_paused (p_spec p) then status_reconcile s' (update_status p false) else unpack digest fixed o p s')).
    { intros s' Hw. unfold ok_world, reach. fold p. destruct (s_paused (p_spec p)) eqn:Epa; cbn.
      - apply status_reconcile_ok. intros s2 Hw2. eapply okpost_weaken; [|apply update_status_ok].
        rewrite Hw2, Hw. intros r H. split; [exact H|discriminate].
      - eapply okpost_weaken; [|apply unpack_ok]. rewrite Hw. intros r [H1 H2]. split; [exact H1|].
        intros Hh. apply H2. now apply negb_true_iff in Hh. }
    assert (Hk : forall s', st_w s' = st_w s ->
      okpost (fun r => fin (ok_world (st_w s)) (reach p && negb (o_pull o)) r /\ (reach p = true -> went_through))
       (if Bool.eqb (s_paused (p_spec p)) (match w_od (st_w s') with Some d => d_paused d | None => false end)
        then (if s_paused (p_spec p) then status_reconcile s' (update_status p false) else unpack digest fixed o p s')
        else call KPauseOD (is_some (w_od (st_w s'))) (eff_pause (s_paused (p_spec p))) s'
               (fun s0 => if s_paused (p_spec p) then status_reconcile s0 (update_status p false)
                          else unpack digest fixed o p s0) fail)).
    { intros s' Hw. rewrite Hw.
      destruct (Bool.eqb (s_paused (p_spec p)) (match w_od (st_w s) with Some d => d_paused d | None => false end)) eqn:Ee.
      - apply Hsub. unfold pause_sync. fold p. now rewrite Ee.
      - apply call_ok; [|intros; exact (okpost_fail _ _)]. intros _ s2 Hw2. apply Hsub. unfold pause_sync. fold p.
        now rewrite Ee, Hw2, Hw. }
    apply call_ok; intros _ s2 Hw2; apply Hk; now rewrite Hw2.
  Qed.
End PassOk.

(** ** Invariants of the stored objects across a pass *)

Section PassInv.
  Variable digest : N -> N -> N -> N.
  Variable fixed : bool.
  Variable o : oracle.
  Variable I : world -> Prop.
  Variable p0 : pkg.
  Hypothesis I_status : forall p w, I w -> I (eff_status p w).
  Hypothesis I_pull : forall w, I w -> I (eff_pull w).
  Hypothesis I_pause : forall b w, I w -> I (eff_pause b w).
  (** only needed when the package is deployable *)
  Hypothesis I_create : deployable fixed o = true -> forall w, I w -> I (eff_create w).
  Hypothesis I_update : deployable fixed o = true ->
                        forall w, I w -> I (eff_update (Some (spec_digest digest (p_spec p0))) w).

  Definition Iq (r : result) : Prop := I (st_w (r_st r)).

  Lemma call_inv_eq k found eff s kok knf :
    I (st_w s) -> (forall w, I w -> I (eff w)) ->
    (forall s', st_w s' = eff (st_w s) -> I (st_w s') -> Iq (kok s')) ->
    (forall s', st_w s' = st_w s -> I (st_w s') -> Iq (knf s')) ->
    Iq (call k found eff s kok knf).
  Proof.
    intros Hs He Hok Hnf. apply call_wp.
    - intros s' r _ [Hw|[_ Hw]]; unfold Iq; cbn; rewrite Hw; [assumption|now apply He].
    - intros _ s' _ Hw. apply Hok; [exact Hw|]. rewrite Hw. now apply He.
    - intros _ s' _ Hw. apply Hnf; [exact Hw|]. now rewrite Hw.
  Qed.

  Lemma call_gen_inv k found eff s kok knf kcf :
    I (st_w s) -> (forall w, I w -> I (eff w)) ->
    (forall s', I (st_w s') -> Iq (kok s')) -> (forall s', I (st_w s') -> Iq (knf s')) ->
    (forall s', I (st_w s') -> Iq (kcf s')) ->
    Iq (call_gen k found eff s kok knf kcf).
  Proof.
    intros Hs He Hok Hnf Hcf. apply call_gen_wp.
    - intros s' r _ [Hw|[_ Hw]]; unfold Iq; cbn; rewrite Hw; [assumption|now apply He].
    - intros _ s' _ Hw. apply Hok. rewrite Hw. now apply He.
    - intros _ s' _ Hw. apply Hnf. now rewrite Hw.
    - intros _ s' _ Hw. apply Hcf. now rewrite Hw.
  Qed.

  Lemma call_inv k found eff s kok knf :
    I (st_w s) -> (forall w, I w -> I (eff w)) ->
    (forall s', I (st_w s') -> Iq (kok s')) -> (forall s', I (st_w s') -> Iq (knf s')) ->
    Iq (call k found eff s kok knf).
  Proof. intros Hs He Hok Hnf. apply call_inv_eq; auto. Qed.

  Lemma fail_inv s : I (st_w s) -> Iq (fail s).
  Proof. intros H. exact H. Qed.

  Lemma update_status_inv p rq s : I (st_w s) -> Iq (update_status p rq s).
  Proof.
    intros H. unfold update_status. apply call_inv; [assumption|apply I_status| |intros; now apply fail_inv].
    intros s' H'. exact H'.
  Qed.

  Lemma status_reconcile_inv s k : I (st_w s) -> (forall s', I (st_w s') -> Iq (k s')) -> Iq (status_reconcile s k).
  Proof. intros H Hk. unfold status_reconcile. apply call_inv; auto. Qed.

  Lemma unpacked_inv p s : I (st_w s) -> Iq (unpacked p s).
  Proof.
    intros H. unfold unpacked, after_unpack. apply status_reconcile_inv; [assumption|].
    intros. now apply update_status_inv.
  Qed.

  Lemma update_loop_inv n t k : forall s,
    I (st_w s) -> (forall w, I w -> I (eff_update t w)) -> (forall s', I (st_w s') -> Iq (k s')) ->
    Iq (update_loop n t s k).
  Proof.
    induction n as [|n IH]; intros s Hs He Hk; cbn [update_loop].
    - apply call_gen_inv; [assumption|assumption|assumption|intros; now apply fail_inv|].
      intros s1 H1. apply call_inv; [assumption|auto|intros; now apply fail_inv|intros; now apply fail_inv].
    - apply call_gen_inv; [assumption|assumption|assumption|intros; now apply fail_inv|].
      intros s1 H1. apply call_inv; [assumption|auto| |intros; now apply fail_inv].
      intros s2 H2. now apply IH.
  Qed.

  Lemma deployment_reconcile_inv p s :
    deployable fixed o = true -> p_spec p = p_spec p0 -> I (st_w s) -> Iq (deployment_reconcile digest p s).
  Proof.
    intros Hd Hp H. unfold deployment_reconcile. rewrite Hp.
    assert (Hupd : forall s1, I (st_w s1) ->
      Iq (update_loop (pred retry_steps) (Some (spec_digest digest (p_spec p0))) s1
          (fun s2 => call KListSet true (fun w => w) s2
             (fun s3 => call KListSlice true (fun w => w) s3
                (fun s4 => unpacked (with_conds p (remove_cond CInvalid (p_conds p))) s4) fail) fail))).
    { intros s1 H1. apply update_loop_inv; [assumption|now apply I_update|].
      intros s2 H2. apply call_inv; [assumption|auto| |intros; now apply fail_inv].
      intros s3 H3. apply call_inv; [assumption|auto| |intros; now apply fail_inv].
      intros s4 H4. now apply unpacked_inv. }
    apply call_inv; [assumption|auto|exact Hupd|].
    intros s1 H1. apply call_inv; [assumption|now apply I_create|exact Hupd|intros; now apply fail_inv].
  Qed.

  Lemma deploy_rest_inv p msgs s :
    (deployable fixed o = false -> (fixed = true /\ msgs <> []) \/ config_ok o = false \/ o_images o = false \/ o_render o = false) ->
    p_spec p = p_spec p0 -> I (st_w s) -> Iq (deploy_rest digest fixed o p msgs s).
  Proof.
    intros Hnd Hp H. unfold deploy_rest.
    destruct (fixed && negb (is_nil msgs)) eqn:Efx; [now apply unpacked_inv|].
    destruct (o_config o) eqn:Ec; try now apply fail_inv.
    destruct (o_images o) eqn:Ei; cbn [negb]; [|now apply fail_inv].
    destruct (o_render o) eqn:Er; cbn [negb]; [|now apply fail_inv].
    assert (Hdd : deployable fixed o = true \/ deployable fixed o = false) by (destruct (deployable fixed o); auto).
    destruct Hdd as [Ed|Ed].
    - apply deployment_reconcile_inv; [exact Ed| |assumption].
      destruct (is_nil msgs); [exact Hp|exact Hp].
    - exfalso. destruct (Hnd Ed) as [[-> Hm]|[Hc|[Hc|Hc]]]; try discriminate.
      + destruct msgs; [congruence|discriminate].
      + unfold config_ok in Hc. rewrite Ec in Hc. discriminate.
  Qed.

  Lemma deploy_inv p s : o_pull o = true -> p_spec p = p_spec p0 -> I (st_w s) -> Iq (deploy digest fixed o p s).
  Proof.
    intros Hpull Hp H. unfold deploy.
    change (I (st_w s)) with (I (st_w (logev s EDeploy))) in H. set (s1 := logev s EDeploy) in *. clearbody s1.
    destruct (o_load o) eqn:El; cbn [negb]; [|now apply unpacked_inv].
    destruct (o_range_ok o) eqn:Er; cbn [negb]; [|now apply fail_inv].
    destruct (o_unique o) as [l|] eqn:Eu.
    - apply call_inv; [assumption|auto| |intros; now apply fail_inv].
      intros s2 H2. destruct (l =? 0) eqn:E0; [now apply fail_inv|].
      assert (Hue : unique_err o = false) by (unfold unique_err; now rewrite Eu).
      destruct (l =? 1) eqn:E1.
      + apply deploy_rest_inv; [|assumption|assumption]. intros Hd. apply rest_cond; try assumption.
        intros Hm. unfold unmet, unique_unmet. rewrite Hm, Eu. cbn. apply N.eqb_eq in E1. subst l. reflexivity.
      + apply deploy_rest_inv; [|assumption|assumption]. intros Hd. apply rest_cond; try assumption.
        intros Hm. destruct (o_unmet o); discriminate.
    - apply deploy_rest_inv; [|assumption|assumption]. intros Hd. apply rest_cond; try assumption.
      + unfold unique_err. now rewrite Eu.
      + intros Hm. unfold unmet, unique_unmet. rewrite Hm, Eu. reflexivity.
  Qed.

  Lemma unpack_inv s : I (st_w s) -> Iq (unpack digest fixed o p0 s).
  Proof.
    intros H. unfold unpack. destruct (hash_eqb (p_hash p0) (p_spec p0)).
    - unfold after_unpack. apply status_reconcile_inv; [assumption|]. intros. now apply update_status_inv.
    - destruct (o_pull o) eqn:Ep; cbn [negb].
      + apply deploy_inv; [assumption|reflexivity|]. cbn. now apply I_pull.
      + apply update_status_inv. cbn. now apply I_pull.
  Qed.

  Lemma reconcile_inv s : w_pkg (st_w s) = p0 -> I (st_w s) -> Iq (reconcile digest fixed o s).
  Proof.
    intros Hp0 H. unfold Package.reconcile.
    apply call_inv_eq; [assumption|auto| |intros; now apply fail_inv].
    intros s1 Hw1 H1. rewrite Hw1, Hp0.
    assert (Hsub : forall s', I (st_w s') ->
       Iq (if s_paused (p_spec p0) then status_reconcile s' (update_status p0 false) else unpack digest fixed o p0 s')).
    { intros s' H'. destruct (s_paused (p_spec p0)).
      - apply status_reconcile_inv; [assumption|]. intros. now apply update_status_inv.
      - now apply unpack_inv. }
    assert (Hk : forall s2, I (st_w s2) ->
      Iq (if Bool.eqb (s_paused (p_spec p0)) (match w_od (st_w s2) with Some d => d_paused d | None => false end)
          then (if s_paused (p_spec p0) then status_reconcile s2 (update_status p0 false) else unpack digest fixed o p0 s2)
          else call KPauseOD (is_some (w_od (st_w s2))) (eff_pause (s_paused (p_spec p0))) s2
                (fun s3 => if s_paused (p_spec p0) then status_reconcile s3 (update_status p0 false)
                           else unpack digest fixed o p0 s3) fail)).
    { intros s2 H2. destruct (Bool.eqb _ _); [now apply Hsub|].
      apply call_inv; [assumption|intros; now apply I_pause|exact Hsub|intros; now apply fail_inv]. }
    apply call_inv; [assumption|auto|exact Hk|exact Hk].
  Qed.
End PassInv.

(** ** The theorems of C16 *)

Definition pass_gen digest fixed o (s : st) : result := reconcile digest fixed o s.
(** one Reconcile of the code as it is *)
Definition pass digest o (s : st) : result := pass_gen digest true o s.
(** ... and of the code before cb58cda (kept for the refutation of the constraints clause) *)
Definition pass_v0 digest o (s : st) : result := pass_gen digest false o s.
Definition stored_pkg (r : result) : pkg := w_pkg (st_w (r_st r)).

(** events of the pass [r] that started in [s] *)
Definition new_events (s : st) (r : result) (l : list ev) : Prop := st_log (r_st r) = st_log s ++ l.

Section Theorems.
  Variable digest : N -> N -> N -> N.

  (** A pass over a package that is not deployable issues no ObjectDeployment create / update
      and leaves the stored template (or the absence of an ObjectDeployment) as it is. *)
  Theorem not_deployable_no_deploy fixed o s :
    deployable fixed o = false ->
    exists l, new_events s (pass_gen digest fixed o s) l /\ none_of is_od_write l = true /\
              od_tmpl (st_w (r_st (pass_gen digest fixed o s))) = od_tmpl (st_w s).
  Proof.
    intros Hd. apply (reconcile_quiet digest fixed o is_od_write); [reflexivity|].
    right. repeat split; auto.
  Qed.

  Lemma not_stage fixed o : stages_ok o = false -> deployable fixed o = false.
  Proof. intros H. unfold deployable, all_ok. rewrite H. now destruct fixed. Qed.

  (** one instance per failure class; [fixed] arbitrary: they hold for the code as it is *)
  Theorem invalid_no_deploy_pull fixed o s : o_pull o = false ->
    exists l, new_events s (pass_gen digest fixed o s) l /\ none_of is_od_write l = true /\
              od_tmpl (st_w (r_st (pass_gen digest fixed o s))) = od_tmpl (st_w s).
  Proof. intros H. apply not_deployable_no_deploy, not_stage. unfold stages_ok. now rewrite H. Qed.

  Theorem invalid_no_deploy_load fixed o s : o_load o = false ->
    exists l, new_events s (pass_gen digest fixed o s) l /\ none_of is_od_write l = true /\
              od_tmpl (st_w (r_st (pass_gen digest fixed o s))) = od_tmpl (st_w s).
  Proof. intros H. apply not_deployable_no_deploy, not_stage. unfold stages_ok. rewrite H. now destruct (o_pull o). Qed.

  Theorem invalid_no_deploy_constraint_error fixed o s : cons_err o = true ->
    exists l, new_events s (pass_gen digest fixed o s) l /\ none_of is_od_write l = true /\
              od_tmpl (st_w (r_st (pass_gen digest fixed o s))) = od_tmpl (st_w s).
  Proof.
    intros H. apply not_deployable_no_deploy, not_stage. unfold stages_ok. rewrite H.
    now destruct (o_pull o), (o_load o).
  Qed.

  Theorem invalid_no_deploy_config fixed o s : config_ok o = false ->
    exists l, new_events s (pass_gen digest fixed o s) l /\ none_of is_od_write l = true /\
              od_tmpl (st_w (r_st (pass_gen digest fixed o s))) = od_tmpl (st_w s).
  Proof.
    intros H. apply not_deployable_no_deploy, not_stage. unfold stages_ok. rewrite H.
    now destruct (o_pull o), (o_load o), (cons_err o).
  Qed.

  Theorem invalid_no_deploy_render fixed o s : o_images o = false \/ o_render o = false ->
    exists l, new_events s (pass_gen digest fixed o s) l /\ none_of is_od_write l = true /\
              od_tmpl (st_w (r_st (pass_gen digest fixed o s))) = od_tmpl (st_w s).
  Proof.
    intros H. apply not_deployable_no_deploy, not_stage. unfold stages_ok.
    destruct H as [H|H]; rewrite H; now destruct (o_pull o), (o_load o), (cons_err o), (config_ok o), (o_images o).
  Qed.

  (** unmet constraints: only the repaired Deploy *)
  Theorem invalid_no_deploy_unmet o s : unmet o = true ->
    exists l, new_events s (pass_gen digest true o s) l /\ none_of is_od_write l = true /\
              od_tmpl (st_w (r_st (pass_gen digest true o s))) = od_tmpl (st_w s).
  Proof.
    intros H. apply not_deployable_no_deploy. unfold deployable, all_ok. rewrite H. now destruct (stages_ok o).
  Qed.

  (** A Package whose spec hash equals status.unpackedHash (or that is paused): no pull, no
      Deploy (load / render), no ObjectDeployment write - whatever the oracle says. *)
  Definition busy (e : ev) : bool := is_od_write e || is_pull e || is_deploy e.

  Theorem unchanged_no_pull fixed o s :
    hash_eqb (p_hash (w_pkg (st_w s))) (p_spec (w_pkg (st_w s))) = true ->
    exists l, new_events s (pass_gen digest fixed o s) l /\ none_of busy l = true /\
              od_tmpl (st_w (r_st (pass_gen digest fixed o s))) = od_tmpl (st_w s).
  Proof.
    intros H. apply (reconcile_quiet digest fixed o busy).
    - intros k r. unfold busy. cbn. now rewrite !orb_false_r.
    - left. unfold reach. rewrite H. now rewrite andb_false_r.
  Qed.

  Theorem paused_no_pull fixed o s :
    s_paused (p_spec (w_pkg (st_w s))) = true ->
    exists l, new_events s (pass_gen digest fixed o s) l /\ none_of busy l = true /\
              od_tmpl (st_w (r_st (pass_gen digest fixed o s))) = od_tmpl (st_w s).
  Proof.
    intros H. apply (reconcile_quiet digest fixed o busy).
    - intros k r. unfold busy. cbn. now rewrite !orb_false_r.
    - left. unfold reach. now rewrite H.
  Qed.

  (** Persisted status of error-free passes. *)
  Lemma reach_split p : reach p = true -> s_paused (p_spec p) = false /\ hash_eqb (p_hash p) (p_spec p) = false.
  Proof. unfold reach. rewrite andb_true_iff, !negb_true_iff. tauto. Qed.

  Theorem pull_failure_condition fixed o s :
    let p := w_pkg (st_w s) in let r := pass_gen digest fixed o s in
    reach p = true -> o_pull o = false -> r_err r = false ->
    p_conds (stored_pkg r) = set_cond (mk_cond p CUnpacked false RImagePullBackOff) (p_conds p) /\
    has_cond CUnpacked false RImagePullBackOff (p_conds (stored_pkg r)) = true /\
    p_hash (stored_pkg r) = p_hash p /\ r_requeue r = true.
  Proof.
    intros p r Hreach Hpull He. destruct (reconcile_ok digest fixed o s He) as [[Hw Hrq] _].
    destruct (reach_split _ Hreach) as [Hpa Hh]. fold p in Hw, Hrq.
    subst r. unfold stored_pkg, pass_gen. rewrite Hw, Hrq. unfold ok_world, ok_unpack. fold p.
    rewrite Hpa, Hh, Hpull, Hreach. cbn. repeat split. apply has_set.
  Qed.

  Theorem load_failure_condition fixed o s :
    let p := w_pkg (st_w s) in let r := pass_gen digest fixed o s in
    reach p = true -> o_pull o = true -> o_load o = false -> r_err r = false ->
    p_conds (stored_pkg r) =
      set_cond (mk_cond p CUnpacked true RUnpackSuccess) (set_cond (mk_cond p CInvalid true RLoadError) (p_conds p)) /\
    has_cond CInvalid true RLoadError (p_conds (stored_pkg r)) = true /\
    p_hash (stored_pkg r) = Some (p_spec p).
  Proof.
    intros p r Hreach Hpull Hload He. destruct (reconcile_ok digest fixed o s He) as [[Hw Hrq] _].
    destruct (reach_split _ Hreach) as [Hpa Hh]. fold p in Hw, Hrq.
    subst r. unfold stored_pkg, pass_gen. rewrite Hw. unfold ok_world, ok_unpack, ok_deploy. fold p.
    rewrite Hpa, Hh, Hpull, Hload. cbn. repeat split.
    rewrite has_set_other by discriminate. apply has_set.
  Qed.

  (** the repaired Deploy records unmet constraints durably *)
  Theorem constraints_failure_condition o s :
    let p := w_pkg (st_w s) in let r := pass_gen digest true o s in
    reach p = true -> o_pull o = true -> o_load o = true -> unmet o = true -> r_err r = false ->
    p_conds (stored_pkg r) =
      set_cond (mk_cond p CUnpacked true RUnpackSuccess) (set_cond (mk_cond p CInvalid true RConstraintsFailed) (p_conds p)) /\
    has_cond CInvalid true RConstraintsFailed (p_conds (stored_pkg r)) = true /\
    p_hash (stored_pkg r) = Some (p_spec p).
  Proof.
    intros p r Hreach Hpull Hload Hun He. destruct (reconcile_ok digest true o s He) as [[Hw Hrq] _].
    destruct (reach_split _ Hreach) as [Hpa Hh]. fold p in Hw, Hrq.
    subst r. unfold stored_pkg, pass_gen. rewrite Hw. unfold ok_world, ok_unpack, ok_deploy, ok_rest, note_msgs. fold p.
    rewrite Hpa, Hh, Hpull, Hload, msgs_of_nil, Hun. cbn. repeat split.
    rewrite has_set_other by discriminate. apply has_set.
  Qed.

  Lemma od_tmpl_deployed p w : od_tmpl (deployed digest p w) = Some (Some (spec_digest digest (p_spec p))).
  Proof.
    unfold deployed, od_tmpl, ensure_od. cbn. destruct (w_od w) eqn:E; cbn; [unfold eff_update; now rewrite E|reflexivity].
  Qed.

  (** An error-free pass over a deployable package whose spec is new: the ObjectDeployment's
      template is the render of the current spec, the hash is recorded, Unpacked=True and no
      Invalid condition remain.  For [fixed = false] "deployable" does not include the constraints. *)
  Theorem changed_template fixed o s :
    let p := w_pkg (st_w s) in let r := pass_gen digest fixed o s in
    reach p = true -> deployable fixed o = true -> r_err r = false ->
    od_tmpl (st_w (r_st r)) = Some (Some (spec_digest digest (p_spec p))) /\
    p_hash (stored_pkg r) = Some (p_spec p) /\
    has_cond CUnpacked true RUnpackSuccess (p_conds (stored_pkg r)) = true /\
    find_cond CInvalid (p_conds (stored_pkg r)) = None.
  Proof.
    intros p r Hreach Hd He. destruct (reconcile_ok digest fixed o s He) as [[Hw Hrq] _].
    destruct (reach_split _ Hreach) as [Hpa Hh]. fold p in Hw, Hrq.
    assert (Hst : stages_ok o = true /\ (fixed && negb (is_nil (msgs_of o))) = false).
    { unfold deployable, all_ok in Hd. rewrite msgs_of_nil, negb_involutive.
      destruct fixed; [|now split]. apply andb_true_iff in Hd. destruct Hd as [H1 H2].
      split; [assumption|]. now apply negb_true_iff in H2. }
    destruct Hst as [Hst Hfx]. unfold stages_ok in Hst. rewrite !andb_true_iff in Hst.
    destruct Hst as [[[[[Hpull Hload] _] _] _] _].
    subst r. unfold stored_pkg, pass_gen. rewrite Hw. unfold ok_world, ok_unpack, ok_deploy, ok_rest. fold p.
    rewrite Hpa, Hh, Hpull, Hload, Hfx. cbn [negb].
    split; [|split; [|split]].
    - rewrite od_tmpl_deployed. unfold note_msgs. now destruct (is_nil (msgs_of o)).
    - unfold deployed. cbn. unfold note_msgs. now destruct (is_nil (msgs_of o)).
    - unfold deployed. cbn. apply has_set.
    - unfold deployed. cbn. rewrite find_set_other by discriminate. apply find_remove_same.
  Qed.

  (** An error-free pass that got past the pull went through Deploy with every stage it executed
      succeeding (the converse direction of the stage theorems). *)
  Theorem error_free_pass_stages fixed o s :
    let p := w_pkg (st_w s) in let r := pass_gen digest fixed o s in
    reach p = true -> r_err r = false -> o_pull o = true -> o_load o = true ->
    cons_err o = false /\ (fixed && unmet o = true \/ (config_ok o = true /\ o_images o = true /\ o_render o = true)).
  Proof.
    intros p r Hreach He Hpull Hload. destruct (reconcile_ok digest fixed o s He) as [_ Hwt].
    destruct (Hwt Hreach) as [H|[H|(_ & H1 & H2)]]; [congruence|congruence|]. now split.
  Qed.

  (** status.unpackedHash after an error-free pass *)
  Theorem pass_hash_ok fixed o s :
    let p := w_pkg (st_w s) in let r := pass_gen digest fixed o s in
    r_err r = false ->
    p_hash (stored_pkg r) =
      if s_paused (p_spec p) then p_hash p
      else if hash_eqb (p_hash p) (p_spec p) then p_hash p
      else if o_pull o then Some (p_spec p) else p_hash p.
  Proof.
    intros p r He. destruct (reconcile_ok digest fixed o s He) as [[Hw _] _]. fold p in Hw.
    subst r. unfold stored_pkg, pass_gen. rewrite Hw. unfold ok_world, ok_unpack, ok_deploy, ok_rest, deployed. fold p.
    destruct (s_paused (p_spec p)); [reflexivity|].
    destruct (hash_eqb (p_hash p) (p_spec p)); [reflexivity|].
    destruct (o_pull o); cbn [negb]; [|reflexivity].
    destruct (o_load o); cbn [negb]; [|reflexivity].
    destruct (fixed && negb (is_nil (msgs_of o))); cbn; unfold note_msgs; now destruct (is_nil (msgs_of o)).
  Qed.

  (** ** History invariant *)

  (** the template of the stored ObjectDeployment is the pre-created empty one or a digest in [G] *)
  Definition od_ok (G : list N) (w : world) : Prop :=
    match od_tmpl w with Some (Some d) => In d G | _ => True end.

  Definition od_okb (G : list N) (w : world) : bool :=
    match od_tmpl w with Some (Some d) => existsb (N.eqb d) G | _ => true end.

  Lemma od_okb_ok G w : od_okb G w = true <-> od_ok G w.
  Proof.
    unfold od_okb, od_ok. destruct (od_tmpl w) as [[d|]|]; try tauto.
    rewrite existsb_exists. split.
    - intros (x & Hin & Hx). apply N.eqb_eq in Hx. now subst.
    - intros Hin. exists d. split; [assumption|apply N.eqb_refl].
  Qed.

  Lemma od_ok_mono G G' w : od_ok G w -> od_ok (G ++ G') w.
  Proof. unfold od_ok. destruct (od_tmpl w) as [[d|]|]; auto. intros. apply in_or_app. now left. Qed.

  Variable fixed : bool.
  Variable scoped : bool.

  (** digests of the specs that were current at a pass whose oracle, among the peers of that
      moment, satisfies [good] *)
  Fixpoint goods_of (good : peers -> oracle -> bool) (steps : list step) (w : world) (f : list rstat) (d : list bool) : list N :=
    match steps with
    | [] => []
    | SEdit sp :: r => goods_of good r (edit sp w) f d
    | SFault n k :: r => goods_of good r w (arm (N.to_nat n) k f) d
    | SDisturb n :: r => goods_of good r w f (armb (N.to_nat n) d)
    | SPass o :: r =>
        (if good (w_peers w) o then [spec_digest digest (p_spec (w_pkg w))] else [])
        ++ goods_of good r (st_w (r_st (do_pass digest fixed scoped o w f d))) [] []
    end.
  (** "deployable" as the controller itself judges it *)
  Definition judged (ps : peers) (o : oracle) : bool := deployable fixed (seen scoped ps o).
  Notation goods := (goods_of judged).

  Lemma reconcile_od_ok G o s :
    od_ok G (st_w s) ->
    od_ok (G ++ (if deployable fixed o then [spec_digest digest (p_spec (w_pkg (st_w s)))] else []))
          (st_w (r_st (reconcile digest fixed o s))).
  Proof.
    intros H.
    set (G' := G ++ (if deployable fixed o then [spec_digest digest (p_spec (w_pkg (st_w s)))] else [])).
    apply (reconcile_inv digest fixed o (od_ok G') (w_pkg (st_w s))).
    - intros p w' Hw'. exact Hw'.
    - intros w' Hw'. exact Hw'.
    - intros b w' Hw'. unfold od_ok in *. now rewrite (same_od_pause b w').
    - intros Hd w' _. unfold od_ok, od_tmpl. cbn. exact Logic.I.
    - intros Hd w' Hw'. unfold od_ok, od_tmpl, eff_update in *. destruct (w_od w') eqn:E; cbn; [|now rewrite E in *].
      unfold G'. rewrite Hd. apply in_or_app. right. now left.
    - reflexivity.
    - unfold G'. now apply od_ok_mono.
  Qed.

  Lemma pass_od_ok G o w f d :
    od_ok G w ->
    od_ok (G ++ (if judged (w_peers w) o then [spec_digest digest (p_spec (w_pkg w))] else []))
          (st_w (r_st (do_pass digest fixed scoped o w f d))).
  Proof. intros H. unfold do_pass, judged. now apply (reconcile_od_ok G _ {| st_w := w; st_f := f; st_d := d; st_dirty := false; st_log := [] |}). Qed.

  (** At every point of every history (edits, faults, third-party writes, passes with arbitrary
      oracle outcomes): the stored ObjectDeployment's template is empty or the render of a spec
      that was current at a pass where the controller judged the package deployable.  With
      [fixed = true] and [scoped = true] that is: valid and admissible. *)
  Theorem od_history steps : forall w f d G,
    od_ok G w -> od_ok (G ++ goods steps w f d) (final digest fixed scoped steps w f d).
  Proof.
    induction steps as [|x steps IH]; intros w f d G H; cbn.
    - now rewrite app_nil_r.
    - destruct x as [sp|n k|n|o].
      + apply IH. unfold od_ok, od_tmpl, edit in *. destruct (spec_eqb sp (p_spec (w_pkg w))); exact H.
      + apply IH. exact H.
      + apply IH. exact H.
      + rewrite app_assoc. apply IH. now apply pass_od_ok.
  Qed.

  Corollary od_history_init steps sp ps :
    od_ok (goods steps (init_world sp ps) [] []) (final digest fixed scoped steps (init_world sp ps) [] []).
  Proof. apply (od_history steps (init_world sp ps) [] [] []). exact Logic.I. Qed.
End Theorems.

(** ** Passes without API faults: a pull failure, a load failure and (repaired Deploy) an unmet
    constraint end without error, so their condition is persisted. *)

(** no injected fault, no third-party write to come, in-memory copy up to date *)
Definition calm (s : st) : Prop := st_f s = [] /\ st_d s = [] /\ st_dirty s = false.

Lemma call_nofault (Q : result -> Prop) k found eff s kok knf :
  calm s ->
  (found = true -> forall s', calm s' -> st_w s' = eff (st_w s) -> Q (kok s')) ->
  (found = false -> forall s', calm s' -> st_w s' = st_w s -> Q (knf s')) ->
  Q (call k found eff s kok knf).
Proof.
  intros (Hf & Hd & Hdirty) Hok Hnf. unfold call, call_gen. rewrite Hf, Hd, Hdirty. cbn [tl andb orb].
  rewrite andb_false_r.
  destruct found; cbn [negb]; [apply Hok|apply Hnf]; try reflexivity; repeat split; cbn; now destruct (reads_od k).
Qed.

Lemma update_status_nofault p rq s : calm s -> r_err (update_status p rq s) = false.
Proof. intros Hf. unfold update_status. apply call_nofault; [assumption| |discriminate]. reflexivity. Qed.

Lemma status_reconcile_nofault s k :
  calm s -> (forall s', calm s' -> r_err (k s') = false) -> r_err (status_reconcile s k) = false.
Proof. intros Hf Hk. unfold status_reconcile. apply call_nofault; [assumption| |]; intros _ s' Hf' _; now apply Hk. Qed.

Lemma unpacked_nofault p s : calm s -> r_err (unpacked p s) = false.
Proof.
  intros Hf. unfold unpacked, after_unpack. apply status_reconcile_nofault; [assumption|].
  intros. now apply update_status_nofault.
Qed.

Section NoFault.
  Variable digest : N -> N -> N -> N.
  Variable fixed : bool.
  Variable o : oracle.

  (** without faults a reachable pass arrives at the unpack reconciler with the stored Package *)
  Lemma reconcile_nofault_unpack (Q : result -> Prop) s :
    calm s -> reach (w_pkg (st_w s)) = true ->
    (forall s', calm s' -> Q (unpack digest fixed o (w_pkg (st_w s)) s')) ->
    Q (reconcile digest fixed o s).
  Proof.
    intros Hf Hreach HQ. destruct (reach_split _ Hreach) as [Hpa _].
    unfold Package.reconcile. apply call_nofault; [assumption| |discriminate].
    intros _ s1 Hf1 Hw1. rewrite Hw1, Hpa.
    assert (Hk : forall s2, calm s2 -> st_w s2 = st_w s ->
      Q (if Bool.eqb false (match w_od (st_w s2) with Some d => d_paused d | None => false end)
         then unpack digest fixed o (w_pkg (st_w s)) s2
         else call KPauseOD (is_some (w_od (st_w s2))) (eff_pause false) s2
                (fun s3 => unpack digest fixed o (w_pkg (st_w s)) s3) fail)).
    { intros s2 Hf2 Hw2. destruct (w_od (st_w s2)) as [d|] eqn:Eod; cbn.
      - destruct (d_paused d); cbn; [|now apply HQ].
        apply call_nofault; [assumption| |discriminate]. intros _ s3 Hf3 _. now apply HQ.
      - now apply HQ. }
    apply call_nofault; [assumption| |]; intros _ s2 Hf2 Hw2; apply Hk; [assumption|congruence|assumption|congruence].
  Qed.

  Theorem nofault_pull_failure s :
    calm s -> reach (w_pkg (st_w s)) = true -> o_pull o = false ->
    r_err (pass_gen digest fixed o s) = false.
  Proof.
    intros Hf Hreach Hp. unfold pass_gen. apply reconcile_nofault_unpack; [assumption|assumption|].
    intros s' Hf'. destruct (reach_split _ Hreach) as [_ Hh]. unfold unpack. rewrite Hh, Hp. cbn [negb].
    now apply update_status_nofault.
  Qed.

  Theorem nofault_load_failure s :
    calm s -> reach (w_pkg (st_w s)) = true -> o_pull o = true -> o_load o = false ->
    r_err (pass_gen digest fixed o s) = false.
  Proof.
    intros Hf Hreach Hp Hl. unfold pass_gen. apply reconcile_nofault_unpack; [assumption|assumption|].
    intros s' Hf'. destruct (reach_split _ Hreach) as [_ Hh]. unfold unpack, deploy. rewrite Hh, Hp, Hl. cbn [negb].
    now apply unpacked_nofault.
  Qed.
End NoFault.

Theorem nofault_unmet digest o s :
  calm s -> reach (w_pkg (st_w s)) = true -> o_pull o = true -> o_load o = true ->
  cons_err o = false -> unmet o = true ->
  r_err (pass_gen digest true o s) = false.
Proof.
  intros Hf Hreach Hp Hl Hce Hun. unfold pass_gen. apply reconcile_nofault_unpack; [assumption|assumption|].
  intros s' Hf'. destruct (reach_split _ Hreach) as [_ Hh]. unfold unpack, deploy. rewrite Hh, Hp, Hl. cbn [negb].
  unfold cons_err in Hce. apply orb_false_iff in Hce. destruct Hce as [Hr Hue]. apply negb_false_iff in Hr. rewrite Hr. cbn [negb].
  assert (Hrest : forall msgs s2, calm s2 -> msgs <> [] ->
            r_err (deploy_rest digest true o (w_pkg (st_w s)) msgs s2) = false).
  { intros msgs s2 Hf2 Hm. unfold deploy_rest. destruct msgs; [congruence|]. cbn. now apply unpacked_nofault. }
  unfold unmet, unique_unmet, unique_err in *. destruct (o_unique o) as [l|] eqn:Eu.
  - apply call_nofault; [exact Hf'| |discriminate]. intros _ s2 Hf2 _. rewrite Hue.
    destruct (N.eqb_spec l 1) as [->|Hl1].
    + apply Hrest; [assumption|]. rewrite orb_false_r in Hun. destruct (o_unmet o); [discriminate|congruence].
    + apply Hrest; [assumption|]. destruct (o_unmet o); discriminate.
  - apply Hrest; [exact Hf'|]. rewrite orb_false_r in Hun. destruct (o_unmet o); [discriminate|congruence].
Qed.

(** ** Conflicts: a third party writes the ObjectDeployment between the reconciler's read and its
    Update.  [changed_template], [od_history] and all other theorems above quantify over every
    schedule of third-party writes ([st_d], [st_dirty]); here is the retry loop on its own. *)

(** However many of the (at most [n]+1) attempts are answered with Conflict, an exit of the loop
    into its continuation has stored the template [t] (when there is an ObjectDeployment). *)
Theorem update_loop_writes n t (k : st -> result) (P : result -> Prop) s :
  (forall s', od_tmpl (st_w s') = option_map (fun _ => t) (w_od (st_w s)) -> w_pkg (st_w s') = w_pkg (st_w s) -> P (k s')) ->
  (forall s', w_pkg (st_w s') = w_pkg (st_w s) -> P (fail s')) ->
  P (update_loop n t s k).
Proof.
  assert (Hpk : forall w, w_pkg (eff_update t w) = w_pkg w) by (intros w; unfold eff_update; now destruct (w_od w)).
  revert s. induction n as [|n IH]; intros s Hk Hfail; cbn [update_loop].
  - apply call_gen_wp; [intros s' r _ [Hw|[_ Hw]]; apply Hfail; rewrite Hw; [reflexivity|apply Hpk]| |discriminate|].
    + intros _ s' _ Hw. apply Hk; rewrite Hw; unfold od_tmpl, eff_update; destruct (w_od (st_w s)) eqn:E; cbn; rewrite ?E; reflexivity.
    + intros _ s' _ Hw. apply call_wp; [|intros _ s2 _ Hw2; apply Hfail; now rewrite Hw2, Hw|discriminate].
      intros s2 r _ [Hw2|[_ Hw2]]; apply Hfail; now rewrite Hw2, Hw.
  - apply call_gen_wp; [intros s' r _ [Hw|[_ Hw]]; apply Hfail; rewrite Hw; [reflexivity|apply Hpk]| |discriminate|].
    + intros _ s' _ Hw. apply Hk; rewrite Hw; unfold od_tmpl, eff_update; destruct (w_od (st_w s)) eqn:E; cbn; rewrite ?E; reflexivity.
    + intros _ s' _ Hw. apply call_wp; [| |discriminate].
      * intros s2 r _ [Hw2|[_ Hw2]]; apply Hfail; now rewrite Hw2, Hw.
      * intros _ s2 _ Hw2. apply IH.
        -- intros s3 H3 H4. apply Hk; [now rewrite H3, Hw2, Hw|now rewrite H4, Hw2, Hw].
        -- intros s3 H3. apply Hfail. now rewrite H3, Hw2, Hw.
Qed.

(** ** status.unpackedHash and the template move together.
    Whatever happens in a pass (errors, lost responses, conflicts): the persisted unpackedHash
    either stays what it was or becomes the hash of the spec the pass started with - and in the
    latter case the pull succeeded and, if the controller judged the package deployable, the
    stored template is the render of that spec at the end of the pass. *)
Section HashMoves.
  Variable digest : N -> N -> N -> N.
  Variable fixed : bool.
  Variable o : oracle.
  Variable p0 : pkg.

  Definition synced (w : world) : Prop :=
    deployable fixed o = true -> od_tmpl w = Some (Some (spec_digest digest (p_spec p0))).
  (** the in-memory Package [p] may be written to the status while the stored objects are [w] *)
  Definition writable (p : pkg) (w : world) : Prop :=
    p_hash p = p_hash p0 \/ (p_hash p = Some (p_spec p0) /\ o_pull o = true /\ synced w).
  Definition hash_inv (w : world) : Prop := writable (w_pkg w) w.
  Definition hash_same (w : world) : Prop := p_hash (w_pkg w) = p_hash p0.
  Definition Hq (r : result) : Prop := hash_inv (st_w (r_st r)).

  Lemma hash_same_inv w : hash_same w -> hash_inv w.
  Proof. intros H. now left. Qed.

  Lemma fail_hq s : hash_same (st_w s) -> Hq (fail s).
  Proof. intros H. now apply hash_same_inv. Qed.

  (** a request that leaves the Package alone *)
  Lemma call_hs k found eff s kok knf :
    hash_same (st_w s) -> (forall w, w_pkg (eff w) = w_pkg w) ->
    (found = true -> forall s', st_w s' = eff (st_w s) -> hash_same (st_w s') -> Hq (kok s')) ->
    (found = false -> forall s', st_w s' = st_w s -> hash_same (st_w s') -> Hq (knf s')) ->
    Hq (call k found eff s kok knf).
  Proof.
    intros Hs He Hok Hnf. apply call_wp.
    - intros s' r _ [Hw|[_ Hw]]; apply fail_hq; unfold hash_same; rewrite Hw, ?He; exact Hs.
    - intros Hf s' _ Hw. apply Hok; [exact Hf|exact Hw|]. unfold hash_same. now rewrite Hw, He.
    - intros Hf s' _ Hw. apply Hnf; [exact Hf|exact Hw|]. unfold hash_same. now rewrite Hw.
  Qed.

  Lemma update_status_hq p rq s : hash_same (st_w s) -> writable p (st_w s) -> Hq (update_status p rq s).
  Proof.
    intros Hs Hwr. unfold update_status.
    assert (Hafter : hash_inv (eff_status p (st_w s))).
    { unfold hash_inv, writable, synced in *. cbn. exact Hwr. }
    apply call_wp.
    - intros s' r _ [Hw|[_ Hw]]; unfold Hq, fail; cbn; rewrite Hw; [now apply hash_same_inv|exact Hafter].
    - intros _ s' _ Hw. unfold Hq. cbn. rewrite Hw. exact Hafter.
    - discriminate.
  Qed.

  Lemma status_reconcile_hq s k :
    hash_same (st_w s) -> (forall s', st_w s' = st_w s -> Hq (k s')) -> Hq (status_reconcile s k).
  Proof.
    intros Hs Hk. unfold status_reconcile. apply call_hs; auto.
  Qed.

  Lemma after_unpack_hq p s : hash_same (st_w s) -> writable p (st_w s) -> Hq (after_unpack p s).
  Proof.
    intros Hs Hwr. unfold after_unpack. apply status_reconcile_hq; [assumption|].
    intros s' Hw. apply update_status_hq; unfold hash_same; rewrite Hw; assumption.
  Qed.

  Lemma unpacked_hq p s :
    hash_same (st_w s) -> p_spec p = p_spec p0 -> o_pull o = true -> synced (st_w s) -> Hq (unpacked p s).
  Proof.
    intros Hs Hp Hpull Hsy. unfold unpacked. apply after_unpack_hq; [assumption|].
    right. cbn. rewrite Hp. repeat split; assumption.
  Qed.

  Lemma deployment_reconcile_hq p s :
    hash_same (st_w s) -> p_spec p = p_spec p0 -> o_pull o = true -> Hq (deployment_reconcile digest p s).
  Proof.
    intros Hs Hp Hpull. unfold deployment_reconcile. rewrite Hp.
    assert (Hupd : forall s1, hash_same (st_w s1) -> w_od (st_w s1) <> None ->
      Hq (update_loop (pred retry_steps) (Some (spec_digest digest (p_spec p0))) s1
          (fun s2 => call KListSet true (fun w => w) s2
             (fun s3 => call KListSlice true (fun w => w) s3
                (fun s4 => unpacked (with_conds p (remove_cond CInvalid (p_conds p))) s4) fail) fail))).
    { intros s1 H1 Hod. apply update_loop_writes.
      - intros s2 Ht Hpk.
        assert (H2 : hash_same (st_w s2)) by (unfold hash_same; now rewrite Hpk).
        assert (Hsy : synced (st_w s2)).
        { intros _. rewrite Ht. destruct (w_od (st_w s1)); [reflexivity|congruence]. }
        apply call_wp; [intros s3 r _ [Hw|[_ Hw]]; apply fail_hq; unfold hash_same; now rewrite Hw| |discriminate].
        intros _ s3 _ Hw3. apply call_wp; [intros s4 r _ [Hw|[_ Hw]]; apply fail_hq; unfold hash_same; now rewrite Hw, Hw3| |discriminate].
        intros _ s4 _ Hw4. apply unpacked_hq; [unfold hash_same; now rewrite Hw4, Hw3|exact Hp|exact Hpull|].
        unfold synced. now rewrite Hw4, Hw3.
      - intros s2 Hpk. apply fail_hq. unfold hash_same. now rewrite Hpk. }
    apply call_hs; [assumption|reflexivity| |].
    - intros Hf s1 Hw1 H1. apply Hupd; [assumption|]. rewrite Hw1. destruct (w_od (st_w s)); [discriminate|discriminate].
    - intros _ s1 Hw1 H1. apply call_hs; [assumption|reflexivity| |discriminate].
      intros _ s2 Hw2 H2. apply Hupd; [assumption|]. rewrite Hw2. discriminate.
  Qed.

  Lemma deploy_rest_hq p msgs s :
    (deployable fixed o = true -> fixed && negb (is_nil msgs) = false) ->
    hash_same (st_w s) -> p_spec p = p_spec p0 -> o_pull o = true -> Hq (deploy_rest digest fixed o p msgs s).
  Proof.
    intros Hm Hs Hp Hpull. unfold deploy_rest.
    destruct (fixed && negb (is_nil msgs)) eqn:Efx.
    - apply unpacked_hq; [assumption|now destruct (is_nil msgs)|assumption|].
      intros Hd. specialize (Hm Hd). discriminate.
    - destruct (o_config o); try now apply fail_hq.
      destruct (o_images o); cbn [negb]; [|now apply fail_hq].
      destruct (o_render o); cbn [negb]; [|now apply fail_hq].
      apply deployment_reconcile_hq; [assumption|now destruct (is_nil msgs)|assumption].
  Qed.

  Lemma deploy_hq p s :
    hash_same (st_w s) -> p_spec p = p_spec p0 -> o_pull o = true -> Hq (deploy digest fixed o p s).
  Proof.
    intros Hs Hp Hpull. unfold deploy.
    change (hash_same (st_w s)) with (hash_same (st_w (logev s EDeploy))) in Hs. set (s1 := logev s EDeploy) in *. clearbody s1.
    destruct (o_load o) eqn:El; cbn [negb].
    2:{ apply unpacked_hq; [assumption|exact Hp|assumption|].
        intros Hd. unfold deployable, all_ok, stages_ok in Hd. rewrite El, andb_false_r in Hd. now destruct fixed. }
    destruct (o_range_ok o) eqn:Er; cbn [negb]; [|now apply fail_hq].
    (* if the package is deployable there are no messages *)
    assert (Hnomsg : forall msgs : list ckind, (msgs = [] <-> unmet o = false) ->
                     deployable fixed o = true -> fixed && negb (is_nil msgs) = false).
    { intros msgs Hiff Hd. destruct fixed; [|reflexivity]. cbn. unfold deployable, all_ok in Hd.
      apply andb_true_iff in Hd. destruct Hd as [_ Hu]. apply negb_true_iff in Hu.
      apply Hiff in Hu. now subst msgs. }
    destruct (o_unique o) as [l|] eqn:Eu.
    - apply call_hs; [assumption|reflexivity| |discriminate].
      intros _ s2 _ H2. destruct (N.eqb_spec l 0); [now apply fail_hq|].
      destruct (N.eqb_spec l 1) as [->|Hl1].
      + apply deploy_rest_hq; try assumption. apply Hnomsg.
        unfold unmet, unique_unmet. rewrite Eu. cbn. rewrite orb_false_r. destruct (o_unmet o); cbn; split; congruence.
      + apply deploy_rest_hq; try assumption. apply Hnomsg.
        unfold unmet, unique_unmet. rewrite Eu. assert (H2l : (2 <=? l) = true) by (apply N.leb_le; lia). rewrite H2l, orb_true_r.
        split; [destruct (o_unmet o); discriminate|discriminate].
    - apply deploy_rest_hq; try assumption. apply Hnomsg.
      unfold unmet, unique_unmet. rewrite Eu, orb_false_r. destruct (o_unmet o); cbn; split; congruence.
  Qed.

  Lemma unpack_hq s : hash_same (st_w s) -> Hq (unpack digest fixed o p0 s).
  Proof.
    intros Hs. unfold unpack. destruct (hash_eqb (p_hash p0) (p_spec p0)).
    - apply after_unpack_hq; [assumption|now left].
    - destruct (o_pull o) eqn:Ep; cbn [negb].
      + apply deploy_hq; [exact Hs|reflexivity|exact Ep].
      + apply update_status_hq; [exact Hs|now left].
  Qed.

  Theorem reconcile_hq s : w_pkg (st_w s) = p0 -> Hq (reconcile digest fixed o s).
  Proof.
    intros Hp0. assert (Hs : hash_same (st_w s)) by (unfold hash_same; now rewrite Hp0).
    unfold Package.reconcile.
    apply call_hs; [assumption|reflexivity| |discriminate].
    intros _ s1 Hw1 H1. rewrite Hw1, Hp0.
    assert (Hsub : forall s', hash_same (st_w s') ->
       Hq (if s_paused (p_spec p0) then status_reconcile s' (update_status p0 false) else unpack digest fixed o p0 s')).
    { intros s' H'. destruct (s_paused (p_spec p0)).
      - apply status_reconcile_hq; [assumption|]. intros s2 Hw2.
        apply update_status_hq; [unfold hash_same; now rewrite Hw2|now left].
      - now apply unpack_hq. }
    assert (Hpause : forall b w, w_pkg (eff_pause b w) = w_pkg w) by (intros b w; unfold eff_pause; now destruct (w_od w)).
    assert (Hk : forall s2, hash_same (st_w s2) ->
      Hq (if Bool.eqb (s_paused (p_spec p0)) (match w_od (st_w s2) with Some d => d_paused d | None => false end)
          then (if s_paused (p_spec p0) then status_reconcile s2 (update_status p0 false) else unpack digest fixed o p0 s2)
          else call KPauseOD (is_some (w_od (st_w s2))) (eff_pause (s_paused (p_spec p0))) s2
                (fun s3 => if s_paused (p_spec p0) then status_reconcile s3 (update_status p0 false)
                           else unpack digest fixed o p0 s3) fail)).
    { intros s2 H2. destruct (Bool.eqb _ _); [now apply Hsub|].
      apply call_hs; [assumption|apply Hpause|intros; now apply Hsub|intros; now apply fail_hq]. }
    apply call_hs; [assumption|reflexivity|intros; now apply Hk|intros; now apply Hk].
  Qed.
End HashMoves.

(** the theorem in terms of a pass *)
Theorem hash_moves digest fixed o s :
  let p := w_pkg (st_w s) in let r := pass_gen digest fixed o s in
  p_hash (stored_pkg r) = p_hash p \/
  (p_hash (stored_pkg r) = Some (p_spec p) /\ o_pull o = true /\
   (deployable fixed o = true -> od_tmpl (st_w (r_st r)) = Some (Some (spec_digest digest (p_spec p))))).
Proof. intros p r. exact (reconcile_hq digest fixed o p s eq_refl). Qed.

(** ** uniqueInScope: the peers of the world decide *)

Lemma listed_mono ps : listed true ps <= listed false ps.
Proof. unfold listed. destruct (self_labelled ps); lia. Qed.

Lemma seen_unique scoped ps o : o_unique o <> None -> o_unique (seen scoped ps o) = Some (listed scoped ps).
Proof. unfold seen. destruct (o_unique o); [reflexivity|congruence]. Qed.

Lemma seen_fields scoped ps o :
  o_pull (seen scoped ps o) = o_pull o /\ o_load (seen scoped ps o) = o_load o /\
  o_range_ok (seen scoped ps o) = o_range_ok o /\ o_unmet (seen scoped ps o) = o_unmet o /\
  o_config (seen scoped ps o) = o_config o /\ o_images (seen scoped ps o) = o_images o /\
  o_render (seen scoped ps o) = o_render o.
Proof. unfold seen. destruct (o_unique o); repeat split. Qed.

(** A uniqueInScope constraint that is not met - at least two (Cluster)Packages carry the
    manifest's package label in the scope of the Package - blocks the deployment write, whichever
    of the two Lists is used, for every flavour (the model does not distinguish Package and
    ClusterPackage: a ClusterPackage has no peers elsewhere), under all faults and third-party
    writes ... *)
Theorem unique_unmet_blocks digest scoped o w f d :
  o_unique o <> None -> 2 <= listed true (w_peers w) ->
  let r := do_pass digest true scoped o w f d in
  none_of is_od_write (st_log (r_st r)) = true /\ od_tmpl (st_w (r_st r)) = od_tmpl w.
Proof.
  intros Hu H2 r.
  assert (Hun : unmet (seen scoped (w_peers w) o) = true).
  { unfold unmet, unique_unmet. rewrite (seen_unique _ _ _ Hu).
    assert (H : (2 <=? listed scoped (w_peers w)) = true).
    { apply N.leb_le. destruct scoped; [assumption|]. pose proof (listed_mono (w_peers w)). lia. }
    now rewrite H, orb_true_r. }
  destruct (invalid_no_deploy_unmet digest _ {| st_w := w; st_f := f; st_d := d; st_dirty := false; st_log := [] |} Hun)
    as (l & Hl & Hn & Ht).
  unfold new_events in Hl. cbn in Hl. split; [|exact Ht].
  unfold r, do_pass. unfold pass_gen in Hl. now rewrite Hl.
Qed.

(** ... and is reported: every error-free pass that got to the constraint check persists
    Invalid=True/ConstraintsFailed (and Unpacked=True with the hash, so it is not retried). *)
Theorem unique_unmet_reported digest scoped o w f d :
  o_unique o <> None -> 2 <= listed true (w_peers w) ->
  let r := do_pass digest true scoped o w f d in
  reach (w_pkg w) = true -> o_pull o = true -> o_load o = true -> r_err r = false ->
  has_cond CInvalid true RConstraintsFailed (p_conds (stored_pkg r)) = true /\
  p_hash (stored_pkg r) = Some (p_spec (w_pkg w)).
Proof.
  intros Hu H2 r Hreach Hp Hl He.
  assert (Hun : unmet (seen scoped (w_peers w) o) = true).
  { unfold unmet, unique_unmet. rewrite (seen_unique _ _ _ Hu).
    assert (H : (2 <=? listed scoped (w_peers w)) = true).
    { apply N.leb_le. destruct scoped; [assumption|]. pose proof (listed_mono (w_peers w)). lia. }
    now rewrite H, orb_true_r. }
  destruct (seen_fields scoped (w_peers w) o) as (F1 & F2 & _).
  destruct (constraints_failure_condition digest (seen scoped (w_peers w) o)
              {| st_w := w; st_f := f; st_d := d; st_dirty := false; st_log := [] |}) as (_ & Hc & Hh);
    try assumption; try congruence.
  split; assumption.
Qed.

(** the code before cb58cda *)
(** ** The defect fixed by cb58cda: unmet constraints did not block Deploy *)

Definition wit_digest (i c k : N) : N := 1 + i + 10 * c + 100 * k.
Definition wit_spec : spec := {| s_image := 1; s_config := 0; s_comp := 0; s_paused := false |}.
(** everything is fine except that the platform constraint is not met *)
Definition wit_oracle : oracle :=
  {| o_pull := true; o_load := true; o_range_ok := true; o_unmet := [KPlatform]; o_unique := None;
     o_config := CfgOk; o_images := true; o_render := true |}.
Definition wit_start : st := {| st_w := init_world wit_spec no_peers; st_f := []; st_d := []; st_dirty := false; st_log := [] |}.

Theorem constraints_block_refuted :
  exists (o : oracle) (s : st),
    let r := pass_gen wit_digest false o s in
    unmet o = true /\ r_err r = false /\
    existsb is_od_write (st_log (r_st r)) = true /\
    od_tmpl (st_w (r_st r)) = Some (Some (spec_digest wit_digest (p_spec (w_pkg (st_w s))))) /\
    od_tmpl (st_w s) = None /\
    find_cond CInvalid (p_conds (stored_pkg r)) = None /\
    p_hash (stored_pkg r) = Some (p_spec (w_pkg (st_w s))).
Proof. exists wit_oracle, wit_start. vm_compute. repeat split. Qed.

(** ... and hence the history invariant with "deployable = valid and admissible" fails for it *)
Theorem od_history_refuted :
  exists steps sp,
    od_okb (goods_of wit_digest false true (fun ps o => all_ok (seen true ps o)) steps (init_world sp no_peers) [] [])
           (final wit_digest false true steps (init_world sp no_peers) [] []) = false.
Proof. exists [SPass wit_oracle], wit_spec. vm_compute. reflexivity. Qed.

(** What the List of the code as it is ([scoped = false]) gets wrong (REFUTED clauses):
    (1) a valid package whose manifest is unique in its scope is NOT rolled out as soon as any
        other (Cluster)Package exists - here one that does not carry the label at all;
    (2) a Package that does not carry the label itself (nobody in scope does: the constraint cannot
        be evaluated, validateUnique's own ErrNonExisting case) IS rolled out. *)
Definition uniq_oracle : oracle :=
  {| o_pull := true; o_load := true; o_range_ok := true; o_unmet := []; o_unique := Some 0;
     o_config := CfgOk; o_images := true; o_render := true |}.
Definition one_stranger : peers := {| n_same := 0; n_elsewhere := 0; n_unrelated := 1; self_labelled := true |}.
Definition unlabelled : peers := {| n_same := 0; n_elsewhere := 0; n_unrelated := 0; self_labelled := false |}.

Theorem unique_scope_refuted :
  (let r := do_pass wit_digest true false uniq_oracle (init_world wit_spec one_stranger) [] [] in
   all_ok (seen true one_stranger uniq_oracle) = true /\ r_err r = false /\
   od_tmpl (st_w (r_st r)) = None /\
   has_cond CInvalid true RConstraintsFailed (p_conds (stored_pkg r)) = true) /\
  (let r := do_pass wit_digest true false uniq_oracle (init_world wit_spec unlabelled) [] [] in
   cons_err (seen true unlabelled uniq_oracle) = true /\ r_err r = false /\
   od_tmpl (st_w (r_st r)) = Some (Some (spec_digest wit_digest wit_spec))).
Proof. vm_compute. repeat split. Qed.


(** "Whenever status.unpackedHash is the hash of the current spec, the stored template is the render
    of that spec" is NOT an invariant of the code as it is (nor of the model with the scoped List):
    a pass for spec B that fails after its Update leaves B's template with A's hash; if the user
    goes back to A before the retry, the next pass takes the short cut and the ObjectDeployment
    keeps B's render for good.  ([hash_moves] is what does hold: the hash only moves together with
    the template.) *)
Definition plain_ok : oracle :=
  {| o_pull := true; o_load := true; o_range_ok := true; o_unmet := []; o_unique := None;
     o_config := CfgOk; o_images := true; o_render := true |}.
Definition wit_spec_b : spec := {| s_image := 2; s_config := 0; s_comp := 0; s_paused := false |}.
Definition revert_steps : list step :=
  [SPass plain_ok; SEdit wit_spec_b; SFault 4 SErr; SPass plain_ok; SEdit wit_spec; SPass plain_ok; SPass plain_ok].

Theorem hash_fit_refuted :
  forall scoped,
    let w := final wit_digest true scoped revert_steps (init_world wit_spec no_peers) [] [] in
    p_spec (w_pkg w) = wit_spec /\ p_hash (w_pkg w) = Some wit_spec /\
    od_tmpl w = Some (Some (spec_digest wit_digest wit_spec_b)) /\
    spec_digest wit_digest wit_spec_b <> spec_digest wit_digest wit_spec /\
    forallb ob_err (run wit_digest true scoped revert_steps (init_world wit_spec no_peers) [] [])
      = false.
Proof. intros [|]; vm_compute; repeat split; discriminate. Qed.

(** ** The constraint list is a conjunction, whatever its order *)
From Coq Require Import Permutation.

(** an entry is satisfied: a platformVersion constraint for another platform is neutral *)
Definition entry_met (c : centry) : bool :=
  match c with
  | CPlatform met => met
  | CVersion _ _ applies met => negb applies || met
  | CUniqueInScope => true
  end.
(** an entry can be evaluated *)
Definition entry_parses (c : centry) : bool :=
  match c with CVersion _ parses _ _ => parses | _ => true end.

Definition constraints_met (cs : list centry) : bool := forallb entry_met cs.
Definition constraints_evaluable (cs : list centry) : bool := forallb entry_parses cs.

(** the message an entry contributes *)
Definition entry_msgs (c : centry) : list ckind :=
  match c with
  | CPlatform met => if met then [] else [KPlatform]
  | CVersion k _ applies met => if negb applies || met then [] else [k]
  | CUniqueInScope => []
  end.

Lemma constraint_loop_spec cs : forall msgs,
  constraint_loop cs msgs =
    if constraints_evaluable cs then Some (msgs ++ flat_map entry_msgs cs) else None.
Proof.
  unfold constraints_evaluable. induction cs as [|c cs IH]; intros msgs; cbn.
  - now rewrite app_nil_r.
  - destruct c as [met|k parses applies met|]; cbn.
    + rewrite IH. destruct (forallb entry_parses cs); [|reflexivity]. destruct met; cbn; [reflexivity|now rewrite <- app_assoc].
    + destruct parses; cbn; [|reflexivity]. destruct applies; cbn.
      * rewrite IH. destruct (forallb entry_parses cs); [|reflexivity]. destruct met; cbn; [reflexivity|now rewrite <- app_assoc].
      * apply IH.
    + apply IH.
Qed.

Lemma msgs_nil_met cs : is_nil (flat_map entry_msgs cs) = constraints_met cs.
Proof.
  induction cs as [|c cs IH]; cbn; [reflexivity|].
  destruct c as [met|k parses applies met|]; cbn.
  - destruct met; cbn; [exact IH|reflexivity].
  - destruct (negb applies || met); cbn; [exact IH|reflexivity].
  - exact IH.
Qed.

(** The oracle built from a constraint list: evaluable iff every entry parses; no message iff
    every entry is met (non-applicable version ranges are neutral); uniqueInScope iff listed. *)
Theorem mk_oracle_constraints pull load cs cfg images render :
  let o := mk_oracle pull load cs cfg images render in
  o_range_ok o = constraints_evaluable cs /\
  (constraints_evaluable cs = true -> is_nil (o_unmet o) = constraints_met cs) /\
  is_some (o_unique o) = existsb is_unique_entry cs.
Proof.
  cbn. rewrite constraint_loop_spec. destruct (constraints_evaluable cs); cbn.
  - repeat split; [intros _; apply msgs_nil_met|now destruct (existsb is_unique_entry cs)].
  - repeat split; [discriminate|now destruct (existsb is_unique_entry cs)].
Qed.

Lemma forallb_perm {A} (f : A -> bool) l l' : Permutation l l' -> forallb f l = forallb f l'.
Proof.
  intros H. induction H as [|x l l' H IH|x y l|l l' l'' H1 IH1 H2 IH2]; cbn.
  - reflexivity.
  - now rewrite IH.
  - destruct (f x), (f y); reflexivity.
  - congruence.
Qed.

Lemma existsb_perm {A} (f : A -> bool) l l' : Permutation l l' -> existsb f l = existsb f l'.
Proof.
  intros H. induction H as [|x l l' H IH|x y l|l l' l'' H1 IH1 H2 IH2]; cbn.
  - reflexivity.
  - now rewrite IH.
  - destruct (f x), (f y); reflexivity.
  - congruence.
Qed.

(** What the pass depends on is invariant under reordering the list: whether the constraints can
    be evaluated, whether all are met, whether uniqueness is required - hence so are "unmet",
    "cannot be evaluated" and "valid and admissible" among any peers. *)
Theorem constraints_permutation pull load cs cs' cfg images render sc ps :
  Permutation cs cs' ->
  let o := seen sc ps (mk_oracle pull load cs cfg images render) in
  let o' := seen sc ps (mk_oracle pull load cs' cfg images render) in
  unmet o = unmet o' /\ cons_err o = cons_err o' /\ all_ok o = all_ok o' /\
  forall fixed, deployable fixed o = deployable fixed o'.
Proof.
  intros Hp.
  assert (He := forallb_perm entry_parses _ _ Hp). assert (Hm := forallb_perm entry_met _ _ Hp).
  assert (Hu := existsb_perm is_unique_entry _ _ Hp).
  fold (constraints_evaluable cs) (constraints_evaluable cs') in He. fold (constraints_met cs) (constraints_met cs') in Hm.
  assert (Hcore : forall c, 
            unmet (seen sc ps (mk_oracle pull load c cfg images render)) =
              (constraints_evaluable c && negb (constraints_met c)) ||
              (existsb is_unique_entry c && (2 <=? listed sc ps)) /\
            cons_err (seen sc ps (mk_oracle pull load c cfg images render)) =
              negb (constraints_evaluable c) || (existsb is_unique_entry c && (listed sc ps =? 0))).
  { intros c. unfold unmet, cons_err, unique_unmet, unique_err, seen, mk_oracle. cbn.
    rewrite constraint_loop_spec. destruct (existsb is_unique_entry c); cbn;
      destruct (constraints_evaluable c); cbn; rewrite ?msgs_nil_met, ?orb_false_r; split; reflexivity. }
  destruct (Hcore cs) as [U1 E1]. destruct (Hcore cs') as [U2 E2].
  assert (HU : unmet (seen sc ps (mk_oracle pull load cs cfg images render)) = unmet (seen sc ps (mk_oracle pull load cs' cfg images render)))
    by (rewrite U1, U2, He, Hm, Hu; reflexivity).
  assert (HE : cons_err (seen sc ps (mk_oracle pull load cs cfg images render)) = cons_err (seen sc ps (mk_oracle pull load cs' cfg images render)))
    by (rewrite E1, E2, He, Hu; reflexivity).
  assert (HS : stages_ok (seen sc ps (mk_oracle pull load cs cfg images render)) = stages_ok (seen sc ps (mk_oracle pull load cs' cfg images render))).
  { unfold stages_ok. rewrite HE. unfold seen, mk_oracle, config_ok. cbn.
    destruct (existsb is_unique_entry cs), (existsb is_unique_entry cs'); reflexivity. }
  cbn zeta. repeat split; try assumption.
  - unfold all_ok. now rewrite HS, HU.
  - intros fixed. unfold deployable, all_ok. rewrite HS, HU. reflexivity.
Qed.

(** One unmet entry anywhere in the list - before or after entries that are met, that belong to
    another platform, or that ask for uniqueness - blocks the deployment write. *)
Theorem unmet_entry_blocks digest scoped pull load cs cfg images render w f d :
  constraints_evaluable cs = true -> constraints_met cs = false ->
  let r := do_pass digest true scoped (mk_oracle pull load cs cfg images render) w f d in
  none_of is_od_write (st_log (r_st r)) = true /\ od_tmpl (st_w (r_st r)) = od_tmpl w.
Proof.
  intros He Hm r.
  assert (Hun : unmet (seen scoped (w_peers w) (mk_oracle pull load cs cfg images render)) = true).
  { unfold unmet, seen, mk_oracle. cbn. rewrite constraint_loop_spec, He.
    destruct (existsb is_unique_entry cs); cbn; rewrite msgs_nil_met, Hm; reflexivity. }
  destruct (invalid_no_deploy_unmet digest _ {| st_w := w; st_f := f; st_d := d; st_dirty := false; st_log := [] |} Hun)
    as (l & Hl & Hn & Ht).
  unfold new_events in Hl. cbn in Hl. split; [|exact Ht].
  unfold r, do_pass. unfold pass_gen in Hl. now rewrite Hl.
Qed.
