(** Model of the template stage of package rendering (C13):
    internal/packages/internal/packagerender/template.go RenderTemplates.
    Executable definitions only; proofs are in CollectorProofs.v.

    The stage ranges over the file map (template.go:50) - Go leaves the order open - executes every
    `.gotmpl` file and stores the output in the SAME map under the name without the suffix
    (template.go:62). Executing a template is an oracle that may read the current file map: that is
    what `getFile`/`getFileGlob` do, they close over pkg.Files (template.go:28-29,
    internal/transform/file_funcs.go:19-27). That the oracle is a function at all is the purity of the
    function table, which the C13 check sweeps separately. *)
From Coq Require Import List NArith Bool.
Import ListNotations.
Local Open Scope N_scope.

Section Templates.
  (** Paths and file contents are interned. *)
  Definition fmap := N -> option N.

  Definition fset (m : fmap) (k v : N) : fmap := fun k' => if k' =? k then Some v else m k'.

  Variable is_template : N -> bool.       (* packagetypes.IsTemplateFile *)
  Variable strip : N -> N.                (* packagetypes.StripTemplateSuffix *)
  (** templ.ExecuteTemplate for the template parsed from that path; None = error. *)
  Variable exec : N -> fmap -> option N.

  (** Loop body template.go:50-63; None = the render failed. *)
  Definition tstep (acc : option fmap) (p : N) : option fmap :=
    match acc with
    | None => None
    | Some m =>
        if is_template p then
          match exec p m with
          | Some out => Some (fset m (strip p) out)
          | None => None
          end
        else Some m
    end.

  (** The loop for one iteration order of the map. *)
  Definition render_templates (order : list N) (m : fmap) : option fmap :=
    fold_left tstep order (Some m).

  (** Observation of a result at one path: None = render failed, Some None = no such file. *)
  Definition at_path (r : option fmap) (k : N) : option (option N) :=
    match r with None => None | Some m => Some (m k) end.
End Templates.

(** * The F-C13 witness: {a.yaml.gotmpl: getFile "b.yaml"; b.yaml.gotmpl; b.yaml} *)
Module Witness.
  Definition A_TMPL : N := 1.  (* a.yaml.gotmpl *)
  Definition A_YAML : N := 2.  (* a.yaml *)
  Definition B_TMPL : N := 3.  (* b.yaml.gotmpl *)
  Definition B_YAML : N := 4.  (* b.yaml *)
  Definition STATIC : N := 10.     (* packaged content of b.yaml *)
  Definition RENDERED : N := 20.   (* output of b.yaml.gotmpl *)
  Definition SRC : N := 30.        (* some template source *)

  Definition is_template (p : N) : bool := (p =? A_TMPL) || (p =? B_TMPL).
  Definition strip (p : N) : N := if p =? A_TMPL then A_YAML else if p =? B_TMPL then B_YAML else p.
  (** a.yaml.gotmpl copies what `getFile "b.yaml"` returns; b.yaml.gotmpl is a constant. *)
  Definition exec (p : N) (m : fmap) : option N :=
    if p =? A_TMPL then m B_YAML else if p =? B_TMPL then Some RENDERED else None.
  Definition files : fmap :=
    fun k => if k =? A_TMPL then Some SRC else if k =? B_TMPL then Some SRC
             else if k =? B_YAML then Some STATIC else None.
  Definition order1 : list N := [A_TMPL; B_TMPL; B_YAML].
  Definition order2 : list N := [B_TMPL; B_YAML; A_TMPL].
End Witness.

(** * Second witness: the output of `c.yaml.gotmpl.gotmpl` is itself named like a template and is
    inserted into the map while it is ranged over; Go may or may not produce the new entry. If it is
    produced, ExecuteTemplate fails because no template of that name was parsed (template.go:38-48
    ran before). *)
Module InsertWitness.
  Definition CC_TMPL : N := 1.  (* c.yaml.gotmpl.gotmpl *)
  Definition C_TMPL : N := 2.   (* c.yaml.gotmpl, created by the loop *)
  Definition is_template (p : N) : bool := (p =? CC_TMPL) || (p =? C_TMPL).
  Definition strip (p : N) : N := if p =? CC_TMPL then C_TMPL else 3.
  Definition exec (p : N) (_ : fmap) : option N := if p =? CC_TMPL then Some 20 else None.
  Definition files : fmap := fun k => if k =? CC_TMPL then Some 30 else None.
  Definition order_skipped : list N := [CC_TMPL].
  Definition order_produced : list N := [CC_TMPL; C_TMPL].
End InsertWitness.
