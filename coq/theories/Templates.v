(** Model of the template stage of package rendering (C13):
    internal/packages/internal/packagerender/template.go RenderTemplates.
    Executable definitions only; proofs are in CollectorProofs.v.

    Two models live here.
    - [render_templates_fixed]: the stage as it is since commit 10a6940. The template paths are
      collected up front and sorted (template.go:31-39), `getFile`/`getFileGlob` close over a
      snapshot of the files as packaged (template.go:31-35, 42-43), outputs are written back into
      pkg.Files afterwards (template.go:63-72).
    - [render_templates_v0]: the stage before that commit, kept as the record of the defect that was
      fixed: it ranged over the live map, executed templates in map order and let the file
      functions read the map that also received the outputs.
    Paths and file contents are interned as [N]. That executing a template is a function of its
    inputs at all is the purity of the function table, which the C13 check sweeps separately. *)
From Coq Require Import List NArith Bool.
Import ListNotations.
Local Open Scope N_scope.

(** The file map as a function (what a Go map lookup sees). *)
Definition fmap := N -> option N.
Definition fset (m : fmap) (k v : N) : fmap := fun k' => if k' =? k then Some v else m k'.

(** Observation of a result at one path: None = render failed, Some None = no such file. *)
Definition at_path (r : option fmap) (k : N) : option (option N) :=
  match r with None => None | Some m => Some (m k) end.

(** * The stage as implemented now *)
(** One enumeration of pkg.Files: (path, content) in some map iteration order, paths pairwise
    different. *)
Definition filelist := list (N * N).

Fixpoint alookup (k : N) (fs : filelist) : option N :=
  match fs with
  | [] => None
  | (k', v) :: r => if k' =? k then Some v else alookup k r
  end.

(** Insertion sort by a key; with pairwise different keys (or equal elements) every sorting
    algorithm returns this list (CollectorProofs.sort_by_perm_invariant). *)
Section SortBy.
  Context {A : Type} (key : A -> N).
  Fixpoint insert_by (x : A) (l : list A) : list A :=
    match l with
    | [] => [x]
    | y :: l' => if key x <? key y then x :: y :: l' else y :: insert_by x l'
    end.
  Definition sort_by (l : list A) : list A := fold_right insert_by [] l.
End SortBy.

(** The content of the map, independent of how it was enumerated: entries ordered by path. *)
Definition canon (fs : filelist) : filelist := sort_by fst fs.

Section Fixed.
  Variable is_template : N -> bool.       (* packagetypes.IsTemplateFile *)
  Variable strip : N -> N.                (* packagetypes.StripTemplateSuffix *)
  (** templ.ExecuteTemplate for the template parsed from that path, with the file functions
      closed over the snapshot [sourceFiles]; None = error. A Go function of a map can depend on
      its content only, so the oracle receives the content in canonical form. *)
  Variable exec : N -> filelist -> option N.

  (** template.go:33-39: collect the template paths while ranging over the map, then sort them. *)
  Definition template_paths (fs : filelist) : list N :=
    sort_by (fun p => p) (filter is_template (map fst fs)).

  (** Loop body template.go:63-72: execute against the snapshot, write back into pkg.Files. *)
  Definition fstep (snapshot : filelist) (acc : option fmap) (p : N) : option fmap :=
    match acc with
    | None => None
    | Some m =>
        match exec p snapshot with
        | Some out => Some (fset m (strip p) out)
        | None => None
        end
    end.

  Definition render_templates_fixed (fs : filelist) : option fmap :=
    let snapshot := canon fs in
    fold_left (fstep snapshot) (template_paths fs) (Some (fun k => alookup k snapshot)).
End Fixed.

(** * Purity: configuration, images and environment are VALUES *)
(** The render context enters the stage as a parameter of the execution oracle and the stage
    returns the file map only. There is nothing through which a render could hand a changed
    configuration to the next render or to the CEL filter stage that follows it: in the model that is
    a matter of types. The Go code gets the context as maps it could write to; that it does not
    (templateContext's JSON round trip copies them, template.go:75-88) is what the
    `ctx_unchanged` clause of the C13 monitor tests on the implementation. *)
Definition render_stage {C : Type} (is_template : N -> bool) (strip : N -> N)
           (exec : C -> N -> filelist -> option N) (context : C) (fs : filelist) : option fmap :=
  render_templates_fixed is_template strip (exec context) fs.

(** * The stage before commit 10a6940 (historical) *)
Section V0.
  Variable is_template : N -> bool.
  Variable strip : N -> N.
  (** Here executing a template could read the CURRENT file map. *)
  Variable exec : N -> fmap -> option N.

  (** Loop body of the old `for path := range pkg.Files`; None = the render failed. *)
  Definition tstep (acc : option fmap) (p : N) : option fmap :=
    match acc with
    | None => None
    | Some m =>
        if is_template p then
          match exec p m with
          | Some out => Some (fset m (strip p) out)
          | None => None
          end
        else Some m
    end.

  (** The loop for one iteration order of the map. *)
  Definition render_templates_v0 (order : list N) (m : fmap) : option fmap :=
    fold_left tstep order (Some m).
End V0.

(** * The F-C13 witness: {a.yaml.gotmpl: getFile "b.yaml"; b.yaml.gotmpl; b.yaml} *)
Module Witness.
  Definition A_TMPL : N := 1.  (* a.yaml.gotmpl *)
  Definition A_YAML : N := 2.  (* a.yaml *)
  Definition B_TMPL : N := 3.  (* b.yaml.gotmpl *)
  Definition B_YAML : N := 4.  (* b.yaml *)
  Definition STATIC : N := 10.     (* packaged content of b.yaml *)
  Definition RENDERED : N := 20.   (* output of b.yaml.gotmpl *)
  Definition SRC : N := 30.        (* some template source *)

  Definition is_template (p : N) : bool := (p =? A_TMPL) || (p =? B_TMPL).
  Definition strip (p : N) : N := if p =? A_TMPL then A_YAML else if p =? B_TMPL then B_YAML else p.
  (** a.yaml.gotmpl copies what `getFile "b.yaml"` returns; b.yaml.gotmpl is a constant. *)
  Definition exec (p : N) (m : fmap) : option N :=
    if p =? A_TMPL then m B_YAML else if p =? B_TMPL then Some RENDERED else None.
  Definition files : fmap :=
    fun k => if k =? A_TMPL then Some SRC else if k =? B_TMPL then Some SRC
             else if k =? B_YAML then Some STATIC else None.
  Definition order1 : list N := [A_TMPL; B_TMPL; B_YAML].
  Definition order2 : list N := [B_TMPL; B_YAML; A_TMPL].

  (** The same package for the fixed stage: two enumerations of the map. *)
  Definition exec_fixed (p : N) (snapshot : filelist) : option N := exec p (fun k => alookup k snapshot).
  Definition enum1 : filelist := [(A_TMPL, SRC); (B_TMPL, SRC); (B_YAML, STATIC)].
  Definition enum2 : filelist := [(B_TMPL, SRC); (B_YAML, STATIC); (A_TMPL, SRC)].
End Witness.

(** * Second witness: the output of `c.yaml.gotmpl.gotmpl` is itself named like a template. Before
    the fix it was inserted into the map while that was ranged over; Go may or may not produce the
    new entry, and if it did ExecuteTemplate failed because no template of that name had been
    parsed. *)
Module InsertWitness.
  Definition CC_TMPL : N := 1.  (* c.yaml.gotmpl.gotmpl *)
  Definition C_TMPL : N := 2.   (* c.yaml.gotmpl, created by the loop *)
  Definition is_template (p : N) : bool := (p =? CC_TMPL) || (p =? C_TMPL).
  Definition strip (p : N) : N := if p =? CC_TMPL then C_TMPL else 3.
  Definition exec (p : N) (_ : fmap) : option N := if p =? CC_TMPL then Some 20 else None.
  Definition files : fmap := fun k => if k =? CC_TMPL then Some 30 else None.
  Definition order_skipped : list N := [CC_TMPL].
  Definition order_produced : list N := [CC_TMPL; C_TMPL].

  Definition exec_fixed (p : N) (_ : filelist) : option N := if p =? CC_TMPL then Some 20 else None.
  Definition enum : filelist := [(CC_TMPL, 30)].
End InsertWitness.
