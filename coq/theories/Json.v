(** JSON values as they appear inside unstructured.Unstructured.Object, and the accessors of
    k8s.io/apimachinery v0.32.3 pkg/apis/meta/v1/unstructured/helpers.go that the probing code
    uses. Executable definitions only; lemmas are in ProbeProofs.v. *)
From Coq Require Import List ZArith NArith Bool String Ascii.
Import ListNotations.
Local Open Scope string_scope.

(** map[string]any / []any / int64 / float64 / string / bool / nil.
    JNum is an int64 (k8s json decodes integral literals to int64); JFloat carries an opaque
    identifier of the float64 value (equal ids <-> equal values; never equal to a JNum, as
    equality.Semantic.DeepEqual compares dynamic types first). JObj is an association list
    whose keys are distinct (Go map); lookup takes the first binding. *)
Inductive json : Type :=
| JNull
| JBool (b : bool)
| JNum (z : Z)
| JFloat (id : N)
| JStr (s : string)
| JArr (xs : list json)
| JObj (kvs : list (string * json)).

Fixpoint assoc {A} (k : string) (kvs : list (string * A)) : option A :=
  match kvs with
  | [] => None
  | (k', v) :: r => if String.eqb k k' then Some v else assoc k r
  end.

(** Result of the Nested* accessors: (value, found=true, err=nil) / (zero, false, nil) /
    (zero, false, err). *)
Inductive nres (A : Type) : Type :=
| NFound (a : A)
| NMissing
| NError.
Arguments NFound {A} a.
Arguments NMissing {A}.
Arguments NError {A}.

(** NestedFieldNoCopy (helpers.go:55-73): a nil intermediate value is "not found", a missing
    key is "not found", any other non-map intermediate value is an error; the last value is
    returned as is (also when nil). NestedFieldCopy (helpers.go:41-47) has the same result up
    to copying. *)
Fixpoint nested_field (v : json) (fields : list string) : nres json :=
  match fields with
  | [] => NFound v
  | f :: rest =>
      match v with
      | JNull => NMissing
      | JObj kvs =>
          match assoc f kvs with
          | Some w => nested_field w rest
          | None => NMissing
          end
      | _ => NError
      end
  end.

(** NestedInt64 (helpers.go:127-137): anything but an int64 is an error. *)
Definition nested_int64 (v : json) (fields : list string) : nres Z :=
  match nested_field v fields with
  | NFound (JNum z) => NFound z
  | NFound _ => NError
  | NMissing => NMissing
  | NError => NError
  end.

(** NestedString (helpers.go:77-87) *)
Definition nested_string (v : json) (fields : list string) : nres string :=
  match nested_field v fields with
  | NFound (JStr s) => NFound s
  | NFound _ => NError
  | NMissing => NMissing
  | NError => NError
  end.

(** getNestedString (helpers.go:301-307) *)
Definition get_nested_string (v : json) (fields : list string) : string :=
  match nested_string v fields with NFound s => s | _ => "" end.

(** NestedStringMap (helpers.go:190-204): a map all of whose values are strings. *)
Fixpoint string_values (kvs : list (string * json)) : option (list (string * string)) :=
  match kvs with
  | [] => Some []
  | (k, JStr s) :: r =>
      match string_values r with
      | Some m => Some ((k, s) :: m)
      | None => None
      end
  | _ :: _ => None
  end.

Definition nested_string_map (v : json) (fields : list string) : nres (list (string * string)) :=
  match nested_field v fields with
  | NFound (JObj kvs) =>
      match string_values kvs with
      | Some m => NFound m
      | None => NError
      end
  | NFound _ => NError
  | NMissing => NMissing
  | NError => NError
  end.

(** Unstructured.GetGeneration (unstructured.go:298-304) *)
Definition generation (o : json) : Z :=
  match nested_int64 o ["metadata"; "generation"] with NFound z => z | _ => 0%Z end.

(** Unstructured.GetLabels (unstructured.go:399-402): nil unless a proper string map. *)
Definition labels_of (o : json) : list (string * string) :=
  match nested_string_map o ["metadata"; "labels"] with NFound m => m | _ => [] end.

(** strings.Split(s, sep) for a one-character separator. *)
Fixpoint split_on (c : ascii) (s : string) : list string :=
  match s with
  | EmptyString => [EmptyString]
  | String a r =>
      if Ascii.eqb a c then EmptyString :: split_on c r
      else match split_on c r with
           | h :: t => String a h :: t
           | [] => [String a EmptyString]
           end
  end.

(** strings.Trim(s, cutset) for a one-character cutset. *)
Fixpoint trim_left (c : ascii) (s : string) : string :=
  match s with
  | EmptyString => EmptyString
  | String a r => if Ascii.eqb a c then trim_left c r else s
  end.

Fixpoint trim_right (c : ascii) (s : string) : string :=
  match s with
  | EmptyString => EmptyString
  | String a r =>
      match trim_right c r with
      | EmptyString => if Ascii.eqb a c then EmptyString else String a EmptyString
      | r' => String a r'
      end
  end.

Definition trim (c : ascii) (s : string) : string := trim_right c (trim_left c s).

(** schema.ParseGroupVersion + Unstructured.GroupVersionKind().GroupKind()
    (group_version.go:211-227, unstructured.go:430-437): more than one "/" in apiVersion
    yields the zero GroupVersionKind, i.e. group and kind both empty. *)
Definition group_kind (o : json) : string * string :=
  let av := get_nested_string o ["apiVersion"] in
  let kind := get_nested_string o ["kind"] in
  match split_on "/" av with
  | [_] => ("", kind)
  | [g; _] => (g, kind)
  | _ => ("", "")
  end.

(** equality.Semantic.DeepEqual restricted to JSON values: dynamic types must agree, maps are
    compared as maps (same size, same bindings), slices element-wise. *)
Fixpoint json_eqb (a b : json) {struct a} : bool :=
  match a, b with
  | JNull, JNull => true
  | JBool x, JBool y => Bool.eqb x y
  | JNum x, JNum y => Z.eqb x y
  | JFloat x, JFloat y => N.eqb x y
  | JStr x, JStr y => String.eqb x y
  | JArr xs, JArr ys =>
      (fix go (xs ys : list json) {struct xs} : bool :=
         match xs, ys with
         | [], [] => true
         | x :: xs', y :: ys' => json_eqb x y && go xs' ys'
         | _, _ => false
         end) xs ys
  | JObj xs, JObj ys =>
      Nat.eqb (List.length xs) (List.length ys) &&
      (fix go (xs : list (string * json)) {struct xs} : bool :=
         match xs with
         | [] => true
         | (k, v) :: r =>
             match assoc k ys with
             | Some w => json_eqb v w
             | None => false
             end && go r
         end) xs
  | _, _ => false
  end.
