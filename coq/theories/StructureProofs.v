(** Laws of the package structure rule (C13). *)
From Coq Require Import List NArith Bool Lia.
From PKO Require Import Util Structure.
Import ListNotations.
Local Open Scope N_scope.
Local Arguments SLASH : simpl never.

Lemma seg_eqb_spec a b : seg_eqb a b = true <-> a = b.
Proof. apply list_eqb_N_spec. Qed.

Lemma seg_eqb_refl a : seg_eqb a a = true.
Proof. now apply seg_eqb_spec. Qed.

Lemma seg_eqb_neq a b : a <> b -> seg_eqb a b = false.
Proof. intros H. destruct (seg_eqb a b) eqn:E; [|reflexivity]. apply seg_eqb_spec in E. contradiction. Qed.

Lemma owner_eqb_spec a b : owner_eqb a b = true <-> a = b.
Proof.
  destruct a as [|c|], b as [|d|]; cbn; try (split; [discriminate|congruence]); try tauto.
  rewrite seg_eqb_spec. split; [now intros ->|congruence].
Qed.

(** * Partition: every path has exactly one owner *)
Definition select (o : owner) (raw : list spath) : list spath :=
  filter (fun p => owner_eqb (owner_of p) o) raw.

Theorem owner_partition raw p :
  In p raw -> exists o, In p (select o raw) /\ forall o', In p (select o' raw) -> o' = o.
Proof.
  intros Hin. exists (owner_of p). split.
  - apply filter_In. split; [assumption|now apply owner_eqb_spec].
  - intros o' H. apply filter_In in H. destruct H as [_ H]. apply owner_eqb_spec in H. now symmetry.
Qed.

(** A path is the root's, or some component's, or sits directly in the components folder. *)
Theorem owner_cases p :
  owner_of p = Root \/ owner_of p = Stray \/ exists c, owner_of p = Comp c.
Proof. destruct (owner_of p); eauto. Qed.

(** Names that merely start like the components folder are the root's: anything whose first
    segment is not exactly "components" ("components.yaml", "components-x/a.yaml", "Components/a",
    "componentsfoo/b/c.yaml"), and a single segment whatever it is called. *)
Theorem prefix_only_names_root s r : s <> COMPONENTS -> owner_of (s :: r) = Root.
Proof.
  intros Hne. unfold owner_of. rewrite (seg_eqb_neq _ _ Hne). destruct r as [|a [|b r]]; reflexivity.
Qed.

Theorem single_segment_root s : owner_of [s] = Root.
Proof. reflexivity. Qed.

Theorem component_owner c x r : owner_of (COMPONENTS :: c :: x :: r) = Comp c.
Proof. unfold owner_of. now rewrite seg_eqb_refl. Qed.

(** * The segment rule is the string rule of the Go code *)
Definition no_slash (p : spath) : Prop := Forall (fun s => ~ In SLASH s) p.

Lemma starts_with_in pre : forall l x, starts_with pre l = true -> In x pre -> In x l.
Proof.
  induction pre as [|a pre IH]; intros [|b l] x; cbn; try tauto; try discriminate.
  rewrite andb_true_iff, N.eqb_eq. intros [-> H] [<-|Hx]; [now left|right; now apply IH].
Qed.

(** HasPrefix(s ++ "/" ++ t, X ++ "/" ++ Y) for slash-free s and X: the first segment is X and the
    rest starts with Y. *)
Lemma starts_with_sep X : forall s Y t,
  ~ In SLASH X -> ~ In SLASH s ->
  starts_with (X ++ SLASH :: Y) (s ++ SLASH :: t) = seg_eqb s X && starts_with Y t.
Proof.
  induction X as [|c X IH]; intros [|a s] Y t HX Hs; cbn.
  - now rewrite N.eqb_refl.
  - destruct (N.eqb_spec SLASH a) as [<-|]; [exfalso; apply Hs; now left|reflexivity].
  - destruct (N.eqb_spec c SLASH) as [->|]; [exfalso; apply HX; now left|reflexivity].
  - rewrite (N.eqb_sym a c). destruct (c =? a); cbn; [|reflexivity].
    apply IH; intros H; [apply HX|apply Hs]; now right.
Qed.

Lemma components_no_slash : ~ In SLASH COMPONENTS.
Proof. cbn. intros H. repeat destruct H as [H|H]; try discriminate H; exact H. Qed.

Lemma no_prefix_with_slash pre s : In SLASH pre -> ~ In SLASH s -> starts_with pre s = false.
Proof.
  intros Hin Hs. destruct (starts_with pre s) eqn:E; [|reflexivity].
  exfalso. apply Hs. now apply (starts_with_in pre s SLASH).
Qed.

(** rootFiles keeps exactly the paths the segment rule gives to the root. *)
Theorem root_rule p :
  no_slash p -> owner_eqb (owner_of p) Root = go_root_file (flatten p).
Proof.
  intros Hp. unfold go_root_file.
  destruct p as [|s [|c r]].
  - reflexivity.
  - inversion Hp; subst. cbn [flatten owner_of owner_eqb].
    rewrite no_prefix_with_slash; [reflexivity|apply in_or_app; right; now left|assumption].
  - inversion Hp as [|? ? Hs Hr]; subst.
    change (flatten (s :: c :: r)) with (s ++ SLASH :: flatten (c :: r)).
    rewrite (starts_with_sep COMPONENTS s [] _ components_no_slash Hs). cbn [starts_with]. rewrite andb_true_r.
    unfold owner_of. destruct r; destruct (seg_eqb s COMPONENTS); reflexivity.
Qed.

(** componentFiles keeps exactly the paths the segment rule gives to that component. *)
Theorem component_rule p c :
  no_slash p -> ~ In SLASH c -> owner_eqb (owner_of p) (Comp c) = go_component_file c (flatten p).
Proof.
  intros Hp Hc. unfold go_component_file.
  destruct p as [|s [|x r]].
  - reflexivity.
  - inversion Hp; subst. cbn [flatten owner_of owner_eqb].
    rewrite no_prefix_with_slash; [reflexivity| |assumption]. apply in_or_app. right. now left.
  - inversion Hp as [|? ? Hs Hr]; subst. inversion Hr as [|? ? Hx Hr']; subst.
    change (flatten (s :: x :: r)) with (s ++ SLASH :: flatten (x :: r)).
    rewrite (starts_with_sep COMPONENTS s _ _ components_no_slash Hs).
    destruct r as [|y r].
    + cbn [flatten owner_of]. rewrite (no_prefix_with_slash (c ++ [SLASH]) x);
        [|apply in_or_app; right; now left|assumption].
      rewrite andb_false_r. now destruct (seg_eqb s COMPONENTS).
    + change (flatten (x :: y :: r)) with (x ++ SLASH :: flatten (y :: r)).
      rewrite (starts_with_sep c x [] _ Hc Hx). cbn [starts_with]. rewrite andb_true_r.
      unfold owner_of. destruct (seg_eqb s COMPONENTS); reflexivity.
Qed.

(** * The files of the rendered package *)
Theorem package_files_char multi o raw q :
  In q (package_files multi o raw) <->
  exists p, In p raw /\ imported p = true /\ owner_in multi p = o /\ q = rel_path o p /\ is_manifest_file q = false.
Proof.
  unfold package_files. rewrite filter_In, in_map_iff. split.
  - intros [(p & <- & Hp) Hm]. apply filter_In in Hp. destruct Hp as [Hp H].
    apply andb_true_iff in H. destruct H as [Hi Ho]. apply owner_eqb_spec in Ho.
    exists p. repeat split; try assumption. now apply negb_true_iff.
  - intros (p & Hp & Hi & Ho & -> & Hm). split; [|now apply negb_true_iff].
    exists p. split; [reflexivity|]. apply filter_In. split; [assumption|].
    apply andb_true_iff. split; [assumption|now apply owner_eqb_spec].
Qed.

(** In a multi-component package a root file that merely starts like the components folder is
    handed to the renderer. *)
Corollary prefix_only_names_rendered raw s r :
  In (s :: r) raw -> s <> COMPONENTS -> imported (s :: r) = true -> is_manifest_file (s :: r) = false ->
  In (s :: r) (package_files true Root raw).
Proof.
  intros Hin Hne Hi Hm. apply package_files_char. exists (s :: r). repeat split; try assumption.
  cbn. now apply prefix_only_names_root.
Qed.
